(* C08 -- deal lifecycle: unique publication, one timely activation by the provider. *)
From stdpp Require Import gmap.
From Coq Require Import ZArith List Bool Lia.
From VF Require Import Gen.Consts Gen.MarketConsts Base.Corr Model.Market
  Proofs.MarketBase_lemmas Proofs.Market_lemmas.
Import ListNotations.
Open Scope Z_scope.

(* ------------------------------------------------------------------------------------------ *)
(* the pending set *)
Lemma prop_eqb_eq a b : prop_eqb a b = true <-> a = b.
Proof.
  split.
  - unfold prop_eqb. intros H. zb. destruct a, b; cbn in *.
    repeat match goal with H : eqb _ _ = true |- _ => apply eqb_prop in H end. subst. reflexivity.
  - intros ->. unfold prop_eqb. rewrite !Z.eqb_refl, eqb_reflx. reflexivity.
Qed.

Lemma prop_eqb_refl a : prop_eqb a a = true.
Proof. now apply prop_eqb_eq. Qed.

Lemma prop_eqb_neq a b : a <> b -> prop_eqb a b = false.
Proof. intros H. destruct (prop_eqb a b) eqn:E; [|reflexivity]. apply prop_eqb_eq in E. contradiction. Qed.

Lemma pend_has_In l p : pend_has l p = true <-> In p l.
Proof.
  unfold pend_has. rewrite existsb_exists. split.
  - intros (q & Hq & He). apply prop_eqb_eq in He. now subst.
  - intros H. exists p. split; [exact H|apply prop_eqb_refl].
Qed.

Lemma pend_put_In l p q : In q (pend_put l p) <-> q = p \/ In q l.
Proof.
  unfold pend_put. destruct (pend_has l p) eqn:E.
  - apply pend_has_In in E. split; [auto|]. intros [->|H]; auto.
  - rewrite in_app_iff. cbn. intuition.
Qed.

Lemma pend_del_In l p q : In q (pend_del l p) <-> q <> p /\ In q l.
Proof.
  unfold pend_del. rewrite filter_In. split.
  - intros [H1 H2]. split; [|exact H1]. intros ->. rewrite prop_eqb_refl in H2. discriminate.
  - intros [H1 H2]. split; [exact H2|]. rewrite prop_eqb_neq by congruence. reflexivity.
Qed.

(* ------------------------------------------------------------------------------------------ *)
(* next_update_epoch is no sooner than `earliest` *)
Lemma next_update_epoch_ge id ivl earliest :
  0 < ivl -> 0 <= id -> earliest <= next_update_epoch id ivl earliest.
Proof.
  intros Hi Hid. unfold next_update_epoch.
  pose proof (Z.rem_bound_pos id ivl Hid Hi) as Hoff.
  set (off := Z.rem id ivl) in *. set (d := earliest - off).
  pose proof (Z.quot_rem' d ivl) as Hqr.
  destruct ((Z.rem d ivl =? 0) || (d <? 0)) eqn:E.
  - apply orb_true_iff in E as [E|E]; zb.
    + rewrite E in Hqr. unfold d in *. lia.
    + pose proof (Z.rem_bound_pos_neg d ivl Hi ltac:(lia)) as Hr. unfold d in *. lia.
  - zb. pose proof (Z.rem_bound_pos d ivl ltac:(lia) Hi) as Hr. unfold d in *. lia.
Qed.

(* ------------------------------------------------------------------------------------------ *)
(* sorted insertion *)
Lemma ins_sorted_In x y l : In x (ins_sorted y l) <-> x = y \/ In x l.
Proof.
  induction l as [|z l IH]; cbn [ins_sorted].
  - cbn. intuition.
  - destruct (y <? z); [cbn; intuition|]. destruct (y =? z) eqn:E; zb.
    + subst. cbn. intuition.
    + cbn. rewrite IH. intuition.
Qed.

Lemma ins_key_In {A} (x y : Z * A) l : In x (ins_key y l) <-> x = y \/ In x l.
Proof.
  induction l as [|z l IH]; cbn [ins_key].
  - cbn. intuition.
  - destruct (fst y <=? fst z); [cbn; intuition|]. cbn. rewrite IH. intuition.
Qed.

Lemma sort_key_In {A} (x : Z * A) l : In x (sort_key l) <-> In x l.
Proof.
  unfold sort_key. induction l as [|z l IH]; cbn [fold_right]; [reflexivity|].
  rewrite ins_key_In, IH. cbn. intuition.
Qed.

(* ------------------------------------------------------------------------------------------ *)
(* the lifecycle invariant *)
Definition never_updated (os : option dstate) : Prop :=
  match os with None => True | Some ds => ds_lu ds = UNDEF end.

Record LifeC (P : gmap Z proposal) (S : gmap Z dstate) (pend : list proposal) (ops : gmap Z (list Z))
    (lc nid ivl : Z) : Prop := {
  (* a live deal that was never updated is pending, unless the cron has already passed its start *)
  lf_pend : forall id p, P !! id = Some p -> never_updated (S !! id) -> ~ In p pend -> p_start p <= lc;
  (* a live deal that was never activated is pending, always *)
  lf_unact : forall id p, P !! id = Some p -> S !! id = None -> In p pend;
  (* a deal is only ever updated strictly after its start epoch *)
  lf_upd : forall id p ds, P !! id = Some p -> S !! id = Some ds -> ds_lu ds <> UNDEF -> p_start p < ds_lu ds;
  (* no two live deals have the same proposal (CID) *)
  lf_uniq : forall id1 id2 p, P !! id1 = Some p -> P !! id2 = Some p -> id1 = id2;
  (* the cron never visits a live deal before its start epoch *)
  lf_ops : forall e ids id p, ops !! e = Some ids -> In id ids -> P !! id = Some p -> p_start p <= e;
  lf_ops_nid : forall e ids id, ops !! e = Some ids -> In id ids -> id < nid;
  lf_ivl : 0 < ivl
}.

Definition Life (st : state) : Prop :=
  LifeC (proposals st) (states st) (pending st) (deal_ops st) (last_cron st) (next_id st) (interval st).

(* what one deal-level step of a handler does to the registry *)
Inductive lev (epoch lc : Z) (P : gmap Z proposal) (S : gmap Z dstate) (pend : list proposal)
    (P' : gmap Z proposal) (S' : gmap Z dstate) (pend' : list proposal) : Prop :=
| lev_nop : P' = P -> S' = S -> pend' = pend -> lev epoch lc P S pend P' S' pend'
| lev_unpend id p ds :
    P !! id = Some p -> S !! id = Some ds -> ds_lu ds = UNDEF -> p_start p <= lc ->
    P' = P -> S' = S -> pend' = pend_del pend p -> lev epoch lc P S pend P' S' pend'
| lev_gone id p :
    P !! id = Some p -> P' = delete id P -> (forall k, k <> id -> S' !! k = S !! k) ->
    (pend' = pend \/ pend' = pend_del pend p) -> lev epoch lc P S pend P' S' pend'
| lev_upd id p ds sl :
    P !! id = Some p -> S !! id = Some ds -> p_start p < epoch -> epoch <> UNDEF ->
    P' = P -> S' = <[id := mkDs (ds_sector ds) (ds_start ds) epoch sl]> S ->
    (pend' = pend \/ pend' = pend_del pend p) -> lev epoch lc P S pend P' S' pend'.

Lemma lifec_lev epoch lc P S pend ops nid ivl P' S' pend' :
  LifeC P S pend ops lc nid ivl -> lev epoch lc P S pend P' S' pend' ->
  LifeC P' S' pend' ops lc nid ivl.
Proof.
  intros [Hp Ha Hu Hq Ho Hn Hi] Hev.
  assert (Hkeep : forall id p k q, P !! id = Some p -> P !! k = Some q -> k <> id -> In q pend ->
                                   In q (pend_del pend p)).
  { intros id p k q H1 H2 Hne Hin. apply pend_del_In. split; [|exact Hin].
    intros ->. apply Hne. eapply Hq; eauto. }
  destruct Hev as [-> -> ->|id p ds HP HS Hlu Hst -> -> ->|id p HP -> HS Hpe|id p ds sl HP HS Hst Hep -> -> Hpe].
  - constructor; auto.
  - constructor; auto.
    + intros k q Hk Hnu Hnin. destruct (Z.eq_dec k id) as [->|Hne].
      * assert (q = p) as -> by congruence. exact Hst.
      * apply (Hp k q Hk Hnu). intros Hin. apply Hnin. eapply Hkeep; eauto.
    + intros k q Hk Hs. destruct (Z.eq_dec k id) as [->|Hne]; [congruence|]. eapply Hkeep; eauto.
  - constructor; auto.
    + intros k q Hk Hnu Hnin. apply lookup_delete_Some in Hk as [Hne Hk].
      rewrite (HS k ltac:(congruence)) in Hnu. apply (Hp k q Hk Hnu). intros Hin. apply Hnin.
      destruct Hpe as [->| ->]; [exact Hin|]. eapply Hkeep; eauto.
    + intros k q Hk Hs. apply lookup_delete_Some in Hk as [Hne Hk].
      rewrite (HS k ltac:(congruence)) in Hs. pose proof (Ha k q Hk Hs) as Hin.
      destruct Hpe as [->| ->]; [exact Hin|]. eapply Hkeep; eauto.
    + intros k q ds Hk Hs Hlu. apply lookup_delete_Some in Hk as [Hne Hk].
      rewrite (HS k ltac:(congruence)) in Hs. eauto.
    + intros k1 k2 q H1 H2. apply lookup_delete_Some in H1 as [_ H1]. apply lookup_delete_Some in H2 as [_ H2]. eauto.
    + intros e ids k q He Hin Hk. apply lookup_delete_Some in Hk as [_ Hk]. eauto.
  - constructor; auto.
    + intros k q Hk Hnu Hnin. destruct (Z.eq_dec k id) as [->|Hne].
      * rewrite lookup_insert in Hnu. cbn in Hnu. congruence.
      * rewrite lookup_insert_ne in Hnu by congruence. apply (Hp k q Hk Hnu). intros Hin. apply Hnin.
        destruct Hpe as [->| ->]; [exact Hin|]. eapply Hkeep; eauto.
    + intros k q Hk Hs. destruct (Z.eq_dec k id) as [->|Hne].
      * rewrite lookup_insert in Hs. discriminate.
      * rewrite lookup_insert_ne in Hs by congruence. pose proof (Ha k q Hk Hs) as Hin.
        destruct Hpe as [->| ->]; [exact Hin|]. eapply Hkeep; eauto.
    + intros k q d Hk Hs Hlu. destruct (Z.eq_dec k id) as [->|Hne].
      * rewrite lookup_insert in Hs. injection Hs as <-. cbn. assert (q = p) as -> by congruence. exact Hst.
      * rewrite lookup_insert_ne in Hs by congruence. eauto.
Qed.

(* the clause that makes the duplicate check effective: while re-publication is still possible
   (current epoch <= start) the proposal of a live deal is in the pending set *)
Lemma pending_complete now P S pend ops lc nid ivl Lf Ef tc tp tf bs bal owed e id p :
  InvC now owed P S Lf Ef tc tp tf bs bal nid -> LifeC P S pend ops lc nid ivl ->
  now <= e -> lc < e -> P !! id = Some p -> e <= p_start p -> In p pend.
Proof.
  intros I Lf' Hn Hlc Hp He.
  destruct (in_dec (fun a b => match Bool.bool_dec (prop_eqb a b) true with
                               | left H => left (proj1 (prop_eqb_eq a b) H)
                               | right H => right (fun E => H (proj2 (prop_eqb_eq a b) E)) end) p pend)
    as [Hin|Hnin]; [exact Hin|exfalso].
  destruct (S !! id) as [ds|] eqn:Hs.
  - destruct (Z.eq_dec (ds_lu ds) UNDEF) as [Hlu|Hlu].
    + pose proof (lf_pend _ _ _ _ _ _ _ Lf' id p Hp ltac:(rewrite Hs; exact Hlu) Hnin). lia.
    + pose proof (lf_upd _ _ _ _ _ _ _ Lf' id p ds Hp Hs Hlu).
      destruct (i_wfS _ _ _ _ _ _ _ _ _ _ _ _ I id ds Hs) as (q & Hq & _ & _ & [D|D]); [contradiction|]. lia.
  - pose proof (lf_pend _ _ _ _ _ _ _ Lf' id p Hp ltac:(rewrite Hs; exact Logic.I) Hnin). lia.
Qed.

(* ------------------------------------------------------------------------------------------ *)
(* registry-level description of the deal-level steps *)
Lemma gadt_misc epoch owed S st id p :
  InvS epoch owed S st -> proposals st !! id = Some p -> states st !! id = S !! id ->
  match get_active_deal_or_process_timeout st epoch id p with
  | Ok st' _ =>
      deal_ops st' = deal_ops st /\ last_cron st' = last_cron st /\ interval st' = interval st
  | Err st' _ =>
      deal_ops st' = deal_ops st /\ last_cron st' = last_cron st /\ interval st' = interval st /\
      pending st' = pending st
  end.
Proof.
  intros I Hp Hs. unfold get_active_deal_or_process_timeout. rewrite Hs.
  destruct (S !! id) as [ds|] eqn:HS; [auto|].
  destruct (epoch <? p_start p) eqn:Es; [auto|].
  destruct (timed_out_spec _ _ _ _ _ _ I Hp HS) as (st1 & R1 & F1 & P1).
  rewrite R1. cbn [bind].
  pose proof F1 as [_ _ _ _ _ _ Ffr]. destruct Ffr.
  unfold remove_proposal. rewrite f_prop, Hp. cbn [bind].
  destruct (negb (pend_has _ p)); cbn; auto.
Qed.

Lemma settle_one_lev epoch lc st a i id st' a' :
  0 <= epoch ->
  settle_inv epoch st a -> ~ In id (map fst (sa_new a)) ->
  settle_one epoch st a i id = Ok st' a' ->
  lev epoch lc (proposals st) (put_deal_states (states st) (sa_new a)) (pending st)
      (proposals st') (put_deal_states (states st') (sa_new a')) (pending st') /\
  deal_ops st' = deal_ops st /\ last_cron st' = last_cron st /\ next_id st' = next_id st /\
  interval st' = interval st.
Proof.
  intros He I Hnew. unfold settle_one, settle_inv in *.
  set (S := put_deal_states (states st) (sa_new a)) in *.
  assert (HS : states st !! id = S !! id) by (unfold S; now rewrite put_lookup_notin).
  unfold get_proposal.
  destruct (proposals st !! id) as [p|] eqn:Hp.
  2:{ intros [= <- <-]. cbn [sa_fail sa_new]. fold S. split; [apply lev_nop; auto|auto]. }
  pose proof (gadt_spec epoch _ S st id p I Hp HS) as G.
  pose proof (gadt_misc epoch _ S st id p I Hp HS) as GM.
  destruct (get_active_deal_or_process_timeout st epoch id p) as [st1 [| pen | ds]|st1 c].
  - destruct G as (-> & _). intros [= <- <-]. cbn [sa_new]. fold S. split; [apply lev_nop; auto|auto].
  - destruct G as (Gn & Gst & -> & _ & Gs & GP & Gnext & Gpe & _). destruct GM as (M1 & M2 & M3).
    intros [= <- <-]. cbn [sa_new]. rewrite Gs. fold S. split; [|auto].
    apply (lev_gone epoch lc _ S _ _ S _ id p); [exact Hp|exact GP|auto|right; exact Gpe].
  - destruct G as (-> & Gs).
    destruct (i_wfS _ _ _ _ _ _ _ _ _ _ _ _ I id ds Gs) as (q & Hq & D1 & D2 & D3).
    assert (q = p) as -> by congruence.
    rewrite D1. cbn [negb Z.eqb UNDEF Pos.eqb].
    destruct (epoch <=? p_start p) eqn:Ees.
    { intros [= <- <-]. cbn [sa_new]. fold S. split; [apply lev_nop; auto|auto]. }
    zb.
    destruct (pdu_spec epoch _ S st id p ds I Hp Gs He) as (st2 & R & F & Pn).
    rewrite R.
    pose proof F as [_ _ _ _ _ _ Ffr]. destruct Ffr.
    assert (Hpe : pending st2 = pending st \/ pending st2 = pend_del (pending st) p).
    { rewrite Pn. destruct (ds_lu ds =? UNDEF); auto. }
    destruct (p_end p <=? epoch) eqn:Ed; zb.
    + rewrite (rcd_ok st2 id ds p) by congruence. cbn [bind].
      intros [= <- <-]. cbn [sa_new states set_proposals set_states proposals pending deal_ops last_cron next_id interval].
      split; [|auto].
      apply (lev_gone epoch lc _ S _ _ _ _ id p); [exact Hp|now rewrite f_prop| |exact Hpe].
      intros k Hk. rewrite f_states, put_delete_notin by exact Hnew. fold S. now rewrite lookup_delete_ne by congruence.
    + intros [= <- <-]. cbn [sa_new]. split; [|auto].
      rewrite put_app, f_states. fold S.
      apply (lev_upd epoch lc _ S _ _ _ _ id p ds UNDEF); auto. unfold UNDEF; lia.
  - destruct G as (Gn & Gst & _ & Gs & GP & Gnext & Gpe). destruct GM as (M1 & M2 & M3 & M4).
    intros [= <- <-]. cbn [sa_fail sa_new]. rewrite Gs. fold S. split; [|auto].
    (* the pending entry was missing: the handler reports a failure for this id and goes on *)
    apply (lev_gone epoch lc _ S _ _ S _ id p); [exact Hp|exact GP|auto|left; exact M4].
Qed.

Lemma cron_one_lev epoch st a id st' a' :
  0 <= epoch -> cron_inv epoch st a ->
  (forall p ds, proposals st !! id = Some p -> states st !! id = Some ds -> ds_lu ds <> UNDEF ->
                p_start p < ds_lu ds) ->
  (forall p, proposals st !! id = Some p -> p_start p <= epoch) ->
  0 < interval st ->
  cron_one epoch st a id = Ok st' a' ->
  lev epoch epoch (proposals st) (states st) (pending st) (proposals st') (states st') (pending st') /\
  deal_ops st' = deal_ops st /\ last_cron st' = last_cron st /\ next_id st' = next_id st /\
  interval st' = interval st /\
  (* rescheduled ids belong to live, updated deals *)
  (forall x, In x (cr_new a') -> In x (cr_new a) \/
             (snd x = id /\ epoch < fst x /\ exists p, proposals st' !! id = Some p /\ p_start p < epoch)).
Proof.
  intros He I Hupd Hst Hivl. unfold cron_one, cron_inv in *.
  destruct (proposals st !! id) as [p|] eqn:Hp.
  2:{ intros [= <- <-]. split; [apply lev_nop; auto|]. repeat split; auto. }
  pose proof (gadt_spec epoch _ (states st) st id p I Hp eq_refl) as G.
  pose proof (gadt_misc epoch _ (states st) st id p I Hp eq_refl) as GM.
  destruct (get_active_deal_or_process_timeout st epoch id p) as [st1 [| pen | ds]|st1 c]; cbn [bind];
    try discriminate.
  - destruct G as (Gn & Gst & -> & _ & Gs & GP & Gnext & Gpe & _). destruct GM as (M1 & M2 & M3).
    intros [= <- <-]. cbn [cr_new]. rewrite Gs. split; [|repeat split; auto].
    apply (lev_gone epoch epoch _ (states st) _ _ (states st) _ id p); [exact Hp|exact GP|auto|right; exact Gpe].
  - destruct G as (-> & Gs).
    destruct (i_wfS _ _ _ _ _ _ _ _ _ _ _ _ I id ds Gs) as (q & Hq & D1 & D2 & D3).
    assert (q = p) as -> by congruence.
    destruct (ds_lu ds =? UNDEF) eqn:Elu.
    + zb. destruct (pend_has (pending st) p) eqn:Eh; [|discriminate]. intros [= <- <-].
      split; [|repeat split; auto].
      apply (lev_unpend epoch epoch _ (states st) _ _ _ _ id p ds); auto.
    + zb. destruct (pdu_spec epoch _ (states st) st id p ds I Hp Gs He) as (st2 & R & F & Pn).
      rewrite R. cbn [bind].
      pose proof F as [_ _ _ _ _ _ Ffr]. destruct Ffr.
      assert (Hpe : pending st2 = pending st \/ pending st2 = pend_del (pending st) p).
      { rewrite Pn. destruct (ds_lu ds =? UNDEF); auto. }
      assert (Hlt : p_start p < epoch).
      { pose proof (Hupd p ds eq_refl Gs Elu). destruct D3 as [D3|D3]; [contradiction|lia]. }
      destruct (p_end p <=? epoch) eqn:Ed; zb.
      * rewrite (rcd_ok st2 id ds p) by congruence. cbn [bind].
        intros [= <- <-]. cbn [cr_new states set_proposals set_states proposals pending deal_ops last_cron next_id interval].
        split; [|repeat split; auto].
        apply (lev_gone epoch epoch _ (states st) _ _ _ _ id p); [exact Hp|now rewrite f_prop| |exact Hpe].
        intros k Hk. rewrite f_states. now rewrite lookup_delete_ne by congruence.
      * cbn [negb Z.eqb]. intros [= <- <-].
        cbn [cr_new states set_states proposals pending deal_ops last_cron next_id interval].
        split; [|split; [auto|split; [auto|split; [auto|split; [auto|]]]]].
        -- rewrite f_states.
           apply (lev_upd epoch epoch _ (states st) _ _ _ _ id p ds (ds_slash ds)); auto. unfold UNDEF; lia.
        -- intros x Hx. apply in_app_or in Hx as [Hx|[<-|[]]]; [now left|right]. cbn [fst snd].
           split; [reflexivity|]. split.
           ++ pose proof (next_update_epoch_ge id (interval st2) (epoch + 1)) as Hge.
              destruct (i_wfP _ _ _ _ _ _ _ _ _ _ _ _ I id p Hp) as [_ ?].
              rewrite f_ivl in Hge. specialize (Hge Hivl ltac:(lia)). rewrite f_ivl. lia.
           ++ exists p. split; [congruence|exact Hlt].
Qed.

Lemma term_one_lev epoch lc snap caller st total id st' s :
  0 <= epoch -> term_inv epoch snap st total ->
  term_one snap caller epoch st id = Ok st' s ->
  lev epoch lc (proposals st) (states st) (pending st) (proposals st') (states st') (pending st') /\
  deal_ops st' = deal_ops st /\ last_cron st' = last_cron st /\ next_id st' = next_id st /\
  interval st' = interval st.
Proof.
  intros He [I Hc]. unfold term_one.
  destruct (proposals snap !! id) as [p|] eqn:Hps.
  2:{ intros [= <- <-]. split; [apply lev_nop; auto|auto]. }
  destruct (negb (p_provider p =? caller)); [discriminate|].
  destruct (p_end p <=? epoch) eqn:Ed.
  { intros [= <- <-]. split; [apply lev_nop; auto|auto]. }
  zb.
  destruct (states snap !! id) as [ds|] eqn:Hss; [|discriminate].
  set (st1 := if ds_lu ds =? UNDEF then remove_pending st p else st).
  assert (Hst1 : states st1 = states st /\ proposals st1 = proposals st /\
                 deal_ops st1 = deal_ops st /\ last_cron st1 = last_cron st /\
                 next_id st1 = next_id st /\ interval st1 = interval st /\
                 (pending st1 = pending st \/ pending st1 = pend_del (pending st) p))
    by (unfold st1; destruct (ds_lu ds =? UNDEF); repeat split; auto).
  destruct Hst1 as (Hs1 & Hp1 & Ho1 & Hc1 & Hn1 & Hi1 & Hpe1).
  assert (I1 : InvS epoch total (states st) st1).
  { unfold st1. destruct (ds_lu ds =? UNDEF); exact I. }
  destruct (Hc id) as [Hnone|[HP HSt]].
  - pose proof (inv_S_None I id Hnone) as Hsn.
    destruct (process_slashed_deal st1 p _) as [st2 r|] eqn:H2; [|discriminate]. cbn [bind].
    apply psd_frame in H2 as [].
    destruct (rcd_err st2 id) as [c Hc']; [congruence|]. rewrite Hc'. discriminate.
  - rewrite Hps in HP. rewrite Hss in HSt.
    destruct (slashed_spec epoch total (states st) st1 id p ds epoch I1) as (st2 & R & F & Pn);
      [congruence|exact HSt|lia|lia|].
    rewrite R. cbn [bind].
    pose proof F as [_ _ _ _ _ _ Ffr]. destruct Ffr.
    rewrite (rcd_ok st2 id ds p) by congruence. cbn [bind].
    intros [= <- <-].
    cbn [states set_proposals set_states proposals pending deal_ops last_cron next_id interval].
    split; [|repeat split; congruence].
    apply (lev_gone epoch lc _ (states st) _ _ _ _ id p); [exact HP|now rewrite f_prop, Hp1| |].
    + intros k Hk. rewrite f_states, Hs1. now rewrite lookup_delete_ne by congruence.
    + rewrite Pn. exact Hpe1.
Qed.

(* ------------------------------------------------------------------------------------------ *)
(* the loops *)
Definition LifeL (lc : Z) (st : state) (S : gmap Z dstate) : Prop :=
  LifeC (proposals st) S (pending st) (deal_ops st) lc (next_id st) (interval st).

Lemma lifel_lev epoch lc st S st' S' :
  LifeL lc st S ->
  lev epoch lc (proposals st) S (pending st) (proposals st') S' (pending st') ->
  deal_ops st' = deal_ops st /\ last_cron st' = last_cron st /\ next_id st' = next_id st /\
  interval st' = interval st ->
  LifeL lc st' S'.
Proof.
  intros Hl Hev (H1 & H2 & H3 & H4). unfold LifeL in *. rewrite H1, H3, H4.
  eapply lifec_lev; eauto.
Qed.

Lemma settle_loop_life epoch lc ids : forall st a i st' a',
  0 <= epoch -> NoDup ids ->
  settle_inv epoch st a -> (forall k, In k ids -> ~ In k (map fst (sa_new a))) ->
  LifeL lc st (put_deal_states (states st) (sa_new a)) ->
  settle_loop epoch st a i ids = Ok st' a' ->
  LifeL lc st' (put_deal_states (states st') (sa_new a')) /\ last_cron st' = last_cron st.
Proof.
  induction ids as [|id ids IH]; intros st a i st' a' He Hnd I Hnew Hl; cbn [settle_loop].
  - intros [= <- <-]. auto.
  - destruct (settle_one epoch st a i id) as [st1 a1|] eqn:H1; [|discriminate]. cbn [bind].
    inversion Hnd; subst.
    destruct (settle_one_inv _ _ _ _ _ _ _ He I (Hnew id (or_introl eq_refl)) H1) as [I1 Hk].
    destruct (settle_one_lev epoch lc _ _ _ _ _ _ He I (Hnew id (or_introl eq_refl)) H1) as (Hev & Hfr).
    intros Hrest.
    destruct (IH st1 a1 (i + 1) st' a' He ltac:(assumption) I1) as [Hl' Hc']; auto.
    + intros k Hin Hk1. destruct (Hk k Hk1) as [Hk2| ->]; [|contradiction].
      apply (Hnew k); [now right|exact Hk2].
    + eapply lifel_lev; eauto.
    + split; [exact Hl'|]. destruct Hfr as (_ & Hc & _). congruence.
Qed.

Lemma term_loop_life epoch lc snap caller ids : forall st total st' total',
  0 <= epoch -> term_inv epoch snap st total -> LifeL lc st (states st) ->
  term_loop snap caller epoch st total ids = Ok st' total' ->
  LifeL lc st' (states st') /\ last_cron st' = last_cron st.
Proof.
  induction ids as [|id ids IH]; intros st total st' total' He I Hl; cbn [term_loop].
  - intros [= <- <-]. auto.
  - destruct (term_one snap caller epoch st id) as [st1 s|] eqn:H1; [|discriminate]. cbn [bind].
    pose proof (term_one_inv _ _ _ _ _ _ _ _ He I H1) as I1.
    destruct (term_one_lev epoch lc _ _ _ _ _ _ _ He I H1) as (Hev & Hfr).
    intros Hrest.
    destruct (IH st1 _ st' total' He I1 ltac:(eapply lifel_lev; eauto) Hrest) as [Hl' Hc'].
    split; [exact Hl'|]. destruct Hfr as (_ & Hc & _). congruence.
Qed.

(* cron: every id visited is due, hence scheduled at an epoch <= now and (invariant) >= its start *)
Definition cron_side (epoch : Z) (st : state) (a : cracc) : Prop :=
  forall x, In x (cr_new a) -> epoch < fst x /\ snd x < next_id st /\
            forall p, proposals st !! snd x = Some p -> p_start p < epoch.

Lemma cron_loop_life epoch ids : forall st a st' a',
  0 <= epoch -> cron_inv epoch st a -> LifeL epoch st (states st) -> cron_side epoch st a ->
  (forall id p, In id ids -> proposals st !! id = Some p -> p_start p <= epoch) ->
  cron_loop epoch st a ids = Ok st' a' ->
  LifeL epoch st' (states st') /\ cron_side epoch st' a' /\
  deal_ops st' = deal_ops st /\ last_cron st' = last_cron st /\ next_id st' = next_id st.
Proof.
  induction ids as [|id ids IH]; intros st a st' a' He I Hl Hside Hdue; cbn [cron_loop].
  - intros [= <- <-]. auto.
  - destruct (cron_one epoch st a id) as [st1 a1|] eqn:H1; [|discriminate]. cbn [bind].
    pose proof (cron_one_inv _ _ _ _ _ _ He I H1) as I1.
    destruct (cron_one_lev epoch _ _ _ _ _ He I
                (fun p ds Hp Hs Hlu => lf_upd _ _ _ _ _ _ _ Hl id p ds Hp Hs Hlu)
                (fun p Hp => Hdue id p (or_introl eq_refl) Hp)
                (lf_ivl _ _ _ _ _ _ _ Hl) H1) as (Hev & Ho & Hc & Hn & Hi & Hnew).
    assert (Hl1 : LifeL epoch st1 (states st1)) by (eapply lifel_lev; eauto).
    assert (Hsub : forall k q, proposals st1 !! k = Some q -> proposals st !! k = Some q).
    { intros k q Hk. destruct Hev as [HP _ _|? ? ? _ _ _ _ HP _ _|? ? _ HP _ _|? ? ? ? _ _ _ _ HP _ _];
        rewrite HP in Hk; auto. apply lookup_delete_Some in Hk as [_ Hk]. exact Hk. }
    intros Hrest.
    destruct (IH st1 a1 st' a' He I1 Hl1) as (A1 & A2 & A3 & A4 & A5); auto.
    + intros x Hx. destruct (Hnew x Hx) as [Hold|(Hid & Hlt & p & Hp & Hps)].
      * destruct (Hside x Hold) as (B1 & B2 & B3). split; [exact B1|]. split; [lia|].
        intros q Hq. apply B3. now apply Hsub.
      * split; [exact Hlt|]. rewrite Hid. split.
        -- destruct (i_wfP _ _ _ _ _ _ _ _ _ _ _ _ I1 id p Hp) as [_ ?]. lia.
        -- intros q Hq. assert (q = p) as -> by congruence. exact Hps.
    + intros k q Hin Hk. apply (Hdue k q); [now right|now apply Hsub].
    + split; [exact A1|]. split; [exact A2|]. split; [congruence|]. split; congruence.
Qed.

(* ------------------------------------------------------------------------------------------ *)
(* handlers *)
Lemma life_same st st' :
  Life st -> proposals st' = proposals st -> states st' = states st -> pending st' = pending st ->
  deal_ops st' = deal_ops st -> last_cron st' = last_cron st -> next_id st' = next_id st ->
  interval st' = interval st -> Life st'.
Proof. unfold Life. intros H -> -> -> -> -> -> ->. exact H. Qed.

Lemma add_balance_life st who t v : Life st -> Life (fst (add_balance st who t v)).
Proof.
  intros H. unfold add_balance. destruct (v <=? 0); [exact H|].
  destruct t; [exact H| |]; destruct (bt_add (escrow st) who v); try exact H; cbn [fst];
    eapply life_same; eauto.
Qed.

Lemma withdraw_life st caller who t amt pf : Life st -> Life (fst (withdraw_balance st caller who t amt pf)).
Proof.
  intros H. unfold withdraw_balance. destruct (amt <? 0); [exact H|].
  destruct (escrow_address who t) as [[rc ap]|]; [|exact H].
  destruct (negb (zmem caller ap)); [exact H|].
  destruct (bt_sub_with_min _ _ _ _) as [[e' ex]|]; [|exact H]. destruct pf; [exact H|].
  destruct (balance st <? ex); [exact H|]. cbn [fst]. eapply life_same; eauto.
Qed.

(* -- publish -- *)
Definition fresh_ps (st : state) (epoch : Z) (ps : list proposal) : Prop :=
  NoDup ps /\ forall p, In p ps -> ~ In p (pending st) /\ epoch <= p_start p.

Lemma nodup_snoc {A} (l : list A) x : NoDup l -> ~ In x l -> NoDup (l ++ [x]).
Proof.
  induction 1 as [|y l Hy Hl IH]; cbn; intros Hx.
  - constructor; [intros []|constructor].
  - constructor.
    + rewrite in_app_iff. cbn. intros [H|[H|[]]]; [contradiction|subst; apply Hx; now left].
    + apply IH. intros H. apply Hx. now right.
Qed.

Lemma pub_filter_one_fresh st prov epoch acc di d :
  fresh_ps st epoch (pa_valid acc) -> fresh_ps st epoch (pa_valid (pub_filter_one st prov epoch acc di d)).
Proof.
  intros H. unfold pub_filter_one.
  destruct (negb (deal_valid epoch d)) eqn:Ev; [exact H|]. zb.
  destruct (negb (p_provider (d_prop d) =? prov)); [exact H|].
  destruct (negb (balance_covered st (p_client (d_prop d)) _)); [exact H|].
  destruct (negb (balance_covered st prov _)); [exact H|].
  destruct (pend_has (pending st) (d_prop d) || pend_has (pa_valid acc) (d_prop d)) eqn:Ed; [exact H|].
  destruct (p_verified (d_prop d)); [exact H|].
  apply orb_false_iff in Ed as [E1 E2]. cbn [pa_valid]. destruct H as [Hnd Hall].
  assert (N1 : ~ In (d_prop d) (pending st)) by (intros Hin; apply pend_has_In in Hin; congruence).
  assert (N2 : ~ In (d_prop d) (pa_valid acc)) by (intros Hin; apply pend_has_In in Hin; congruence).
  split.
  - now apply nodup_snoc.
  - intros p Hp. apply in_app_or in Hp as [Hp|[<-|[]]]; [auto|].
    split; [exact N1|]. apply deal_valid_okp in Ev. destruct Ev as (_ & _ & _ & ?). assumption.
Qed.

Lemma pub_filter_fresh st prov epoch ds : forall acc di,
  fresh_ps st epoch (pa_valid acc) -> fresh_ps st epoch (pa_valid (pub_filter st prov epoch acc di ds)).
Proof.
  induction ds as [|d ds IH]; intros acc di H; cbn [pub_filter]; [exact H|].
  apply IH. now apply pub_filter_one_fresh.
Qed.

Lemma ops_put_lookup m e0 id0 e ids :
  ops_put m e0 id0 !! e = Some ids ->
  forall id, In id ids -> (e = e0 /\ id = id0) \/ (exists ids0, m !! e = Some ids0 /\ In id ids0).
Proof.
  unfold ops_put. intros H id Hin. destruct (Z.eq_dec e e0) as [->|Hne].
  - rewrite lookup_insert in H. injection H as <-. apply ins_sorted_In in Hin as [->|Hin]; [now left|].
    right. destruct (m !! e0) as [l|]; cbn in Hin; [eauto|contradiction].
  - rewrite lookup_insert_ne in H by congruence. right. eauto.
Qed.

Lemma pub_commit_one_life epoch st p st' id :
  0 <= epoch -> MarketInv epoch st -> Life st ->
  (forall k, proposals st !! k <> Some p) -> epoch <= p_start p ->
  pub_commit_one st p = Ok st' id ->
  Life st' /\ last_cron st' = last_cron st /\
  (forall q, (forall k, proposals st !! k <> Some q) -> q <> p -> forall k, proposals st' !! k <> Some q).
Proof.
  intros He I Hl Hnl Hst. unfold pub_commit_one.
  destruct (lock_balances st p) as [st1 u|] eqn:Hlk; [|discriminate]. cbn [bind].
  apply lock_balances_inv in Hlk as (_ & _ & _ & _ & _ & _ & A7 & A8 & _).
  destruct A7. intros [= <- <-].
  pose proof (inv_nid_fresh I) as Hf. pose proof (inv_S_None I _ Hf) as Hs.
  pose proof (i_nid _ _ _ _ _ _ _ _ _ _ _ _ I) as Hn0.
  split; [|split; [cbn; congruence|]].
  - unfold Life.
    cbn [proposals states pending deal_ops last_cron next_id interval set_deal_ops set_proposals set_pending set_next_id].
    rewrite f_prop, f_states, f_next, f_ops, f_cron, f_ivl, A8.
    destruct Hl as [Hp Ha Hu Hq Ho Hn Hi].
    constructor; auto.
    + intros k q Hk Hnu Hnin. destruct (Z.eq_dec k (next_id st)) as [->|Hne].
      * rewrite lookup_insert in Hk. injection Hk as <-. exfalso. apply Hnin. apply pend_put_In. now left.
      * rewrite lookup_insert_ne in Hk by congruence. apply (Hp k q Hk Hnu).
        intros Hin. apply Hnin. apply pend_put_In. now right.
    + intros k q Hk Hsk. apply pend_put_In. destruct (Z.eq_dec k (next_id st)) as [->|Hne].
      * rewrite lookup_insert in Hk. injection Hk as <-. now left.
      * rewrite lookup_insert_ne in Hk by congruence. right. eauto.
    + intros k q ds Hk Hsk Hlu. destruct (Z.eq_dec k (next_id st)) as [->|Hne]; [congruence|].
      rewrite lookup_insert_ne in Hk by congruence. eauto.
    + intros k1 k2 q H1 H2.
      destruct (Z.eq_dec k1 (next_id st)) as [->|N1]; destruct (Z.eq_dec k2 (next_id st)) as [->|N2]; auto.
      * rewrite lookup_insert in H1. injection H1 as <-. rewrite lookup_insert_ne in H2 by congruence.
        exfalso. exact (Hnl k2 H2).
      * rewrite lookup_insert in H2. injection H2 as <-. rewrite lookup_insert_ne in H1 by congruence.
        exfalso. exact (Hnl k1 H1).
      * rewrite lookup_insert_ne in H1, H2 by congruence. eauto.
    + intros e ids k q He' Hin Hk.
      destruct (ops_put_lookup _ _ _ _ _ He' k Hin) as [[-> ->]|(ids0 & H0 & Hin0)].
      * rewrite lookup_insert in Hk. injection Hk as <-. apply next_update_epoch_ge; lia.
      * pose proof (Hn e ids0 k H0 Hin0). rewrite lookup_insert_ne in Hk by lia. eauto.
    + intros e ids k He' Hin.
      destruct (ops_put_lookup _ _ _ _ _ He' k Hin) as [[-> ->]|(ids0 & H0 & Hin0)]; [lia|].
      pose proof (Hn e ids0 k H0 Hin0). lia.
  - intros q Hq Hne k Hk. cbn [proposals set_deal_ops set_proposals set_pending set_next_id] in Hk.
    rewrite f_prop, f_next in Hk. destruct (Z.eq_dec k (next_id st)) as [->|N].
    + rewrite lookup_insert in Hk. congruence.
    + rewrite lookup_insert_ne in Hk by congruence. exact (Hq k Hk).
Qed.

Lemma pub_commit_life epoch ps : forall st ids st' ids',
  0 <= epoch -> Forall (okp epoch) ps -> MarketInv epoch st -> Life st ->
  NoDup ps -> (forall p, In p ps -> (forall k, proposals st !! k <> Some p) /\ epoch <= p_start p) ->
  pub_commit st ps ids = Ok st' ids' -> Life st' /\ last_cron st' = last_cron st.
Proof.
  induction ps as [|p ps IH]; intros st ids st' ids' He Hok I Hl Hnd Hall; cbn [pub_commit].
  - intros [= <- _]. auto.
  - inversion Hok as [|? ? Hp0 Hps]; subst. inversion Hnd as [|? ? Hnin Hnd']; subst.
    destruct (pub_commit_one st p) as [st1 id|] eqn:Hc1; [|discriminate]. cbn [bind].
    destruct (pub_commit_one_inv _ _ _ _ _ He Hp0 I Hc1) as [I1 _].
    destruct (Hall p (or_introl eq_refl)) as [Hnl Hst].
    destruct (pub_commit_one_life _ _ _ _ _ He I Hl Hnl Hst Hc1) as (L1 & C1 & K1).
    intros Hc. destruct (IH st1 (ids ++ [id]) st' ids' He Hps I1 L1 Hnd') as [L2 C2]; auto.
    + intros q Hq. destruct (Hall q (or_intror Hq)) as [Hq1 Hq2]. split; [|exact Hq2].
      apply K1; [exact Hq1|]. intros ->. contradiction.
    + split; [exact L2|congruence].
Qed.

Lemma publish_life now st caller epoch t deals :
  MarketInv now st -> Life st -> now <= epoch -> 0 <= epoch -> last_cron st < epoch ->
  Life (fst (publish st caller epoch t deals)) /\
  last_cron (fst (publish st caller epoch t deals)) = last_cron st.
Proof.
  intros I Hl Hn He Hlc. pose proof (invc_now_mono _ _ _ _ _ _ _ _ _ _ _ _ _ I Hn) as I'.
  unfold publish. destruct deals as [|d0 rest]; [auto|].
  destruct t as [| |o w cs]; [auto|auto|].
  destruct (negb (zmem caller (cs ++ [w; o]))); [auto|].
  set (acc := pub_filter st _ epoch _ 0 _).
  assert (Hok : Forall (okp epoch) (pa_valid acc)) by (apply pub_filter_ok; constructor).
  assert (Hfr : fresh_ps st epoch (pa_valid acc)).
  { apply pub_filter_fresh. split; [constructor|intros p []]. }
  destruct (pa_valid acc) as [|p0 ps] eqn:Hv; [auto|]. rewrite <- Hv in *.
  destruct (pub_commit st (pa_valid acc) []) as [st1 ids|] eqn:Hc; [|auto].
  cbn [fst]. destruct Hfr as [Hnd Hall].
  eapply pub_commit_life; [exact He|exact Hok|exact I'|exact Hl|exact Hnd| |exact Hc].
  intros p Hp. destruct (Hall p Hp) as [H1 H2]. split; [|exact H2].
  intros k Hk. apply H1.
  eapply (pending_complete epoch _ _ _ _ _ _ _ _ _ _ _ _ _ _ _ epoch k p I' Hl); auto; lia.
Qed.

(* -- activation -- *)
Lemma put_fresh_view l : forall (S : gmap Z dstate),
  Forall (fun x => ds_lu (snd x) = UNDEF /\
                   (S !! fst x = None \/ exists d0, S !! fst x = Some d0 /\ ds_lu d0 = UNDEF)) l ->
  forall k, (never_updated (put_deal_states S l !! k) -> never_updated (S !! k)) /\
            (forall ds, put_deal_states S l !! k = Some ds -> ds_lu ds <> UNDEF -> S !! k = Some ds).
Proof.
  induction l as [|[i d] l IH]; intros S H k; cbn [put_deal_states]; [split; auto|].
  inversion H as [|x l' Hx Hl]; subst. cbn [fst snd] in Hx. destruct Hx as [Hd HS].
  assert (Hl' : Forall (fun x => ds_lu (snd x) = UNDEF /\
             (<[i:=d]> S !! fst x = None \/ exists d0, <[i:=d]> S !! fst x = Some d0 /\ ds_lu d0 = UNDEF)) l).
  { rewrite Forall_forall in *. intros x Hin. destruct (Hl x Hin) as [A1 A2]. split; [exact A1|].
    destruct (Z.eq_dec (fst x) i) as [->|Hne].
    - right. exists d. rewrite lookup_insert. auto.
    - rewrite lookup_insert_ne by congruence. exact A2. }
  destruct (IH (<[i:=d]> S) Hl' k) as [I1 I2]. split.
  - intros Hnu. specialize (I1 Hnu). destruct (Z.eq_dec k i) as [->|Hne].
    + destruct HS as [->|(d0 & -> & Hd0)]; cbn; auto.
    + now rewrite lookup_insert_ne in I1 by congruence.
  - intros ds Hk Hlu. specialize (I2 ds Hk Hlu). destruct (Z.eq_dec k i) as [->|Hne].
    + rewrite lookup_insert in I2. injection I2 as <-. contradiction.
    + now rewrite lookup_insert_ne in I2 by congruence.
Qed.

Lemma fresh_life st epoch l st' :
  Life st -> Forall (fresh_ok st epoch) l ->
  proposals st' = proposals st -> states st' = put_deal_states (states st) l -> pending st' = pending st ->
  deal_ops st' = deal_ops st -> last_cron st' = last_cron st -> next_id st' = next_id st ->
  interval st' = interval st -> Life st'.
Proof.
  unfold Life. intros [Hp Ha Hu Hq Ho Hn Hi] Hf -> -> -> -> -> -> ->.
  assert (Hv := put_fresh_view l (states st)).
  assert (Hl : Forall (fun x => ds_lu (snd x) = UNDEF /\
             (states st !! fst x = None \/ exists d0, states st !! fst x = Some d0 /\ ds_lu d0 = UNDEF)) l).
  { rewrite Forall_forall in *. intros x Hx. destruct (Hf x Hx) as (_ & A2 & A3 & _). auto. }
  specialize (Hv Hl).
  constructor; auto.
  - intros k q Hk Hnu Hnin. apply (Hp k q Hk); [|exact Hnin]. exact (proj1 (Hv k) Hnu).
  - intros k q Hk Hs. apply (Ha k q Hk).
    destruct (states st !! k) as [d0|] eqn:Hd0; [|reflexivity]. exfalso.
    assert (Hgen : forall l S, S !! k <> None -> put_deal_states S l !! k <> None).
    { clear. induction l as [|[i e] l IHl]; intros S HSn; cbn; [exact HSn|]. apply IHl.
      destruct (Z.eq_dec i k) as [->|Hne]; [rewrite lookup_insert; discriminate|].
      now rewrite lookup_insert_ne by congruence. }
    apply (Hgen l (states st)); congruence.
  - intros k q ds Hk Hs Hlu. apply (Hu k q ds Hk); [|exact Hlu]. exact (proj2 (Hv k) ds Hs Hlu).
Qed.

Lemma activate_life st caller m epoch sectors :
  Life st -> Life (fst (batch_activate st caller m epoch sectors)) /\
  last_cron (fst (batch_activate st caller m epoch sectors)) = last_cron st.
Proof.
  intros H. unfold batch_activate. destruct (negb m); [auto|]. cbn [fst].
  set (acc := act_sectors st caller epoch _ 0 sectors).
  assert (Hf : Forall (fresh_ok st epoch) (aa_states acc)) by (apply act_sectors_fresh; constructor).
  split; [|reflexivity]. eapply (fresh_life st epoch (aa_states acc)); eauto.
Qed.

Lemma scc_life st caller m epoch sectors :
  Life st -> Life (fst (sector_content_changed st caller m epoch sectors)) /\
  last_cron (fst (sector_content_changed st caller m epoch sectors)) = last_cron st.
Proof.
  intros H. unfold sector_content_changed. destruct (negb m); [auto|].
  pose proof (scc_sectors_fresh st caller epoch sectors (mkCacc [] [] [] [], [], [])) as Hf.
  destruct (fold_left (scc_sector st caller epoch) sectors (mkCacc [] [] [] [], [], [])) as [[acc secs] out].
  cbn [fst] in *. split; [|reflexivity].
  eapply (fresh_life st epoch (ca_states acc)); eauto. apply Hf. constructor.
Qed.

(* -- settle / terminate -- *)
Lemma settle_life now st epoch ids :
  MarketInv now st -> Life st -> now <= epoch -> 0 <= epoch -> NoDup ids ->
  Life (fst (settle st epoch ids)) /\ last_cron (fst (settle st epoch ids)) = last_cron st.
Proof.
  intros I Hl Hn He Hnd. pose proof (invc_now_mono _ _ _ _ _ _ _ _ _ _ _ _ _ I Hn) as I'.
  unfold settle.
  destruct (settle_loop epoch st (mkSacc [] 0 [] 0 [] []) 0 ids) as [st1 a|] eqn:Hlp; [|auto].
  destruct (settle_loop_life epoch (last_cron st) ids st (mkSacc [] 0 [] 0 [] []) 0 st1 a He Hnd I'
              ltac:(intros k _ H; exact H) Hl Hlp) as [L1 C1].
  assert (Hfin : forall st3, proposals st3 = proposals st1 ->
            states st3 = put_deal_states (states st1) (sa_new a) -> pending st3 = pending st1 ->
            deal_ops st3 = deal_ops st1 -> last_cron st3 = last_cron st1 -> next_id st3 = next_id st1 ->
            interval st3 = interval st1 -> Life st3 /\ last_cron st3 = last_cron st).
  { intros st3 E1 E2 E3 E4 E5 E6 E7. unfold Life. rewrite E1, E2, E3, E4, E5, E6, E7, C1.
    split; [exact L1|reflexivity]. }
  destruct (sa_slashed a =? 0); [cbn [fst]; apply Hfin; reflexivity|].
  destruct ((sa_slashed a <? 0) || _); [auto|]. cbn [fst]. apply Hfin; reflexivity.
Qed.

Lemma terminate_life now st caller m epoch sectors :
  MarketInv now st -> Life st -> now <= epoch -> 0 <= epoch ->
  Life (fst (terminate st caller m epoch sectors)) /\
  last_cron (fst (terminate st caller m epoch sectors)) = last_cron st.
Proof.
  intros I Hl Hn He. pose proof (invc_now_mono _ _ _ _ _ _ _ _ _ _ _ _ _ I Hn) as I'.
  unfold terminate. destruct (negb m); [auto|].
  destruct (pop_sector_deals (psectors st) caller sectors) as [ps' ids].
  destruct (term_loop st caller epoch (set_psectors st ps') 0 ids) as [st1 total|] eqn:Hlp; [|auto].
  assert (I0 : term_inv epoch st (set_psectors st ps') 0).
  { split; [exact I'|]. intros id. right. split; reflexivity. }
  destruct (term_loop_life epoch (last_cron st) st caller ids (set_psectors st ps') 0 st1 total He I0 Hl Hlp)
    as [L1 C1].
  assert (Hfin : forall st3, proposals st3 = proposals st1 -> states st3 = states st1 ->
            pending st3 = pending st1 -> deal_ops st3 = deal_ops st1 -> last_cron st3 = last_cron st1 ->
            next_id st3 = next_id st1 -> interval st3 = interval st1 ->
            Life st3 /\ last_cron st3 = last_cron st).
  { intros st3 E1 E2 E3 E4 E5 E6 E7. unfold Life. rewrite E1, E2, E3, E4, E5, E6, E7. cbn in C1. rewrite C1.
    split; [exact L1|reflexivity]. }
  destruct (0 <? total); [|cbn [fst]; apply Hfin; reflexivity].
  destruct (balance st1 <? total); [auto|]. cbn [fst]. apply Hfin; reflexivity.
Qed.

(* -- cron -- *)
Lemma due_In st epoch e ids :
  In (e, ids) (due st epoch) -> deal_ops st !! e = Some ids /\ last_cron st < e <= epoch.
Proof.
  unfold due. rewrite sort_key_In, filter_In. intros [H1 H2].
  apply elem_of_list_In, elem_of_map_to_list in H1. zb. split; [exact H1|lia].
Qed.

Lemma fold_delete_lookup (d : list (Z * list Z)) : forall (m : gmap Z (list Z)) e ids,
  fold_left (fun m '(e, _) => delete e m) d m !! e = Some ids -> m !! e = Some ids.
Proof.
  induction d as [|[e0 l0] d IH]; intros m e ids H; cbn [fold_left] in H; [exact H|].
  apply IH in H. apply lookup_delete_Some in H as [_ H]. exact H.
Qed.

Lemma fold_ops_put_lookup (new : list (Z * Z)) : forall (m : gmap Z (list Z)) e ids,
  fold_left (fun m '(e, id) => ops_put m e id) new m !! e = Some ids ->
  forall id, In id ids -> (exists ids0, m !! e = Some ids0 /\ In id ids0) \/ In (e, id) new.
Proof.
  induction new as [|[e0 id0] new IH]; intros m e ids H id Hin; cbn [fold_left] in H.
  - left. eauto.
  - destruct (IH _ _ _ H id Hin) as [(ids0 & H0 & Hin0)|Hn]; [|right; now right].
    destruct (ops_put_lookup _ _ _ _ _ H0 id Hin0) as [[-> ->]|Hold]; [right; now left|now left].
Qed.

Lemma cron_life now st caller epoch :
  MarketInv now st -> Life st -> now <= epoch -> 0 <= epoch -> last_cron st < epoch ->
  Life (fst (cron_tick st caller epoch)).
Proof.
  intros I Hl Hn He Hlc. pose proof (invc_now_mono _ _ _ _ _ _ _ _ _ _ _ _ _ I Hn) as I'.
  unfold cron_tick. destruct (negb (caller =? CRON_ACTOR_ID)); [exact Hl|].
  destruct (cron_loop epoch st (mkCracc 0 [] []) (flat_map snd (due st epoch))) as [st1 a|] eqn:Hlp; [|exact Hl].
  assert (L0 : LifeL epoch st (states st)).
  { destruct Hl as [Hp Ha Hu Hq Ho Hnn Hi]. constructor; auto.
    intros id p H1 H2 H3. pose proof (Hp id p H1 H2 H3). lia. }
  assert (Hdue : forall id p, In id (flat_map snd (due st epoch)) -> proposals st !! id = Some p ->
                              p_start p <= epoch).
  { intros id p Hin Hp. apply in_flat_map in Hin as ([e ids] & Hd & Hid). cbn in Hid.
    apply due_In in Hd as [Hd1 Hd2].
    pose proof (lf_ops _ _ _ _ _ _ _ Hl e ids id p Hd1 Hid Hp). lia. }
  destruct (cron_loop_life epoch _ st (mkCracc 0 [] []) st1 a He I' L0 ltac:(intros x []) Hdue Hlp)
    as (L1 & Sd & O1 & C1 & N1).
  assert (Hfin : forall st3, proposals st3 = proposals st1 -> states st3 = states st1 ->
            pending st3 = pending st1 -> last_cron st3 = epoch -> next_id st3 = next_id st1 ->
            interval st3 = interval st1 ->
            deal_ops st3 = fold_left (fun m '(e, id) => ops_put m e id) (cr_new a)
                             (fold_left (fun m '(e, _) => delete e m) (due st epoch) (deal_ops st1)) ->
            Life st3).
  { intros st3 E1 E2 E3 E4 E5 E6 E7. unfold Life. rewrite E1, E2, E3, E4, E5, E6, E7.
    destruct L1 as [Hp Ha Hu Hq Ho Hnn Hi]. constructor; auto.
    - intros e ids id p H Hin Hpp.
      destruct (fold_ops_put_lookup _ _ _ _ H id Hin) as [(ids0 & H0 & Hin0)|Hnew].
      + apply fold_delete_lookup in H0. eauto.
      + destruct (Sd _ Hnew) as (B1 & B2 & B3). cbn [fst snd] in *. specialize (B3 p Hpp). lia.
    - intros e ids id H Hin.
      destruct (fold_ops_put_lookup _ _ _ _ H id Hin) as [(ids0 & H0 & Hin0)|Hnew].
      + apply fold_delete_lookup in H0. eauto.
      + destruct (Sd _ Hnew) as (B1 & B2 & B3). exact B2. }
  destruct (cr_slashed a =? 0); [cbn [fst]; apply Hfin; reflexivity|].
  destruct ((cr_slashed a <? 0) || _); [exact Hl|]. cbn [fst]. apply Hfin; reflexivity.
Qed.

(* ------------------------------------------------------------------------------------------ *)
(* every operation keeps the lifecycle invariant *)
Definition life_op (st : state) (o : op) : Prop := last_cron st < op_epoch o.

Theorem life_step now st o :
  MarketInv now st -> Life st -> now <= op_epoch o -> wf_op o -> life_op st o ->
  Life (fst (step st o)).
Proof.
  intros I Hl Hn [He Hw] Hlc. unfold life_op in Hlc.
  destruct o; cbn [step op_epoch] in *.
  - now apply add_balance_life.
  - now apply withdraw_life.
  - now apply (publish_life now).
  - now apply activate_life.
  - now apply scc_life.
  - subst. now apply (terminate_life now).
  - now apply (settle_life now).
  - now apply (cron_life now).
  - unfold get_balance. destruct (negb resolves); exact Hl.
Qed.

Lemma life_init ivl : 0 < ivl -> Life (init ivl).
Proof.
  intros H. unfold Life, init. cbn. constructor; auto.
  - intros id p Hp. rewrite lookup_empty in Hp. discriminate.
  - intros id p Hp. rewrite lookup_empty in Hp. discriminate.
  - intros id p ds Hp. rewrite lookup_empty in Hp. discriminate.
  - intros k1 k2 p Hp. rewrite lookup_empty in Hp. discriminate.
  - intros e ids id p Hp. rewrite lookup_empty in Hp. discriminate.
  - intros e ids id Hp. rewrite lookup_empty in Hp. discriminate.
Qed.

(* histories in which, additionally, every message comes after the last cron tick's epoch (the cron
   runs last in its epoch, once per epoch) *)
Fixpoint hist_ok2 (now : Z) (st : state) (ops : list op) : Prop :=
  match ops with
  | [] => True
  | o :: r => now <= op_epoch o /\ wf_op o /\ life_op st o /\ hist_ok2 (op_epoch o) (fst (step st o)) r
  end.

Lemma hist_ok2_ok ops : forall now st, hist_ok2 now st ops -> hist_ok now ops.
Proof.
  induction ops as [|o ops IH]; intros now st H; cbn in *; [exact I|].
  destruct H as (H1 & H2 & H3 & H4). eauto.
Qed.

Theorem life_run ops : forall now st,
  MarketInv now st -> Life st -> hist_ok2 now st ops ->
  MarketInv (last_epoch now ops) (run st ops) /\ Life (run st ops).
Proof.
  induction ops as [|o ops IH]; intros now st I Hl H; cbn [hist_ok2 last_epoch fold_left run] in *; [auto|].
  destruct H as (H1 & H2 & H3 & H4).
  apply IH; [now apply step_inv with (now := now)|now apply (life_step now)|exact H4].
Qed.

Theorem life_reachable ivl ops :
  0 < ivl -> hist_ok2 0 (init ivl) ops ->
  MarketInv (last_epoch 0 ops) (run (init ivl) ops) /\ Life (run (init ivl) ops).
Proof. intros Hi H. apply life_run; [apply invc_init|now apply life_init|exact H]. Qed.

(* ------------------------------------------------------------------------------------------ *)
(* the clauses of C08 *)
Theorem published_once_until_start now st e id p :
  MarketInv now st -> Life st -> now <= e -> last_cron st < e ->
  proposals st !! id = Some p -> e <= p_start p -> In p (pending st).
Proof. intros I Hl Hn Hlc Hp He. eapply pending_complete; eauto. Qed.

Theorem unactivated_is_pending st id p :
  Life st -> proposals st !! id = Some p -> states st !! id = None -> In p (pending st).
Proof. intros Hl. exact (lf_unact _ _ _ _ _ _ _ Hl id p). Qed.

Theorem pending_unique st id1 id2 p :
  Life st -> proposals st !! id1 = Some p -> proposals st !! id2 = Some p -> id1 = id2.
Proof. intros Hl. exact (lf_uniq _ _ _ _ _ _ _ Hl id1 id2 p). Qed.

(* an identical proposal is rejected while the first one can still be re-published *)
Theorem duplicate_rejected now st epoch deals id d :
  MarketInv now st -> Life st -> now <= epoch -> last_cron st < epoch ->
  proposals st !! id = Some (d_prop d) ->
  let acc := pub_filter st (p_provider (d_prop (hd d deals))) epoch (mkPacc [] [] ∅ 0) 0 deals in
  ~ In (d_prop d) (pa_valid acc).
Proof.
  intros I Hl Hn Hlc Hp acc Hin.
  assert (Hfr : fresh_ps st epoch (pa_valid acc)).
  { apply pub_filter_fresh. split; [constructor|intros p []]. }
  destruct Hfr as [_ Hall]. destruct (Hall _ Hin) as [H1 H2].
  apply H1. eapply published_once_until_start; eauto.
Qed.

(* -- deal ids -- *)
Fixpoint zseq (start : Z) (n : nat) : list Z :=
  match n with O => [] | Datatypes.S n' => start :: zseq (start + 1) n' end.

Lemma zseq_app s n : zseq s (n + 1) = zseq s n ++ [s + Z.of_nat n].
Proof.
  revert s. induction n as [|n IH]; intros s; cbn [zseq Nat.add]; [cbn; f_equal; f_equal; lia|].
  rewrite IH. cbn [app]. f_equal. f_equal. f_equal. lia.
Qed.

Lemma zseq_length s n : length (zseq s n) = n.
Proof. revert s. induction n as [|n IH]; intros s; cbn; [reflexivity|now rewrite IH]. Qed.

Lemma pub_commit_one_id st p st' id :
  pub_commit_one st p = Ok st' id -> id = next_id st /\ next_id st' = next_id st + 1.
Proof.
  unfold pub_commit_one. destruct (lock_balances st p) as [st1 u|] eqn:Hl; [|discriminate]. cbn [bind].
  apply lock_balances_inv in Hl as (_ & _ & _ & _ & _ & _ & [] & _). intros [= <- <-]. cbn. split; lia.
Qed.

Lemma pub_commit_ids ps : forall st ids st' ids',
  pub_commit st ps ids = Ok st' ids' ->
  ids' = ids ++ zseq (next_id st) (length ps) /\ next_id st' = next_id st + Z.of_nat (length ps).
Proof.
  induction ps as [|p ps IH]; intros st ids st' ids'; cbn [pub_commit].
  - intros [= <- <-]. cbn. rewrite app_nil_r. split; [reflexivity|lia].
  - destruct (pub_commit_one st p) as [st1 id|] eqn:H1; [|discriminate]. cbn [bind].
    apply pub_commit_one_id in H1 as [-> Hn]. intros H. apply IH in H as [-> Hn'].
    rewrite Hn in *. cbn [length zseq]. rewrite <- app_assoc. cbn [app]. split; [reflexivity|lia].
Qed.

Lemma maybe_lock_err st a amt s c : maybe_lock_balance st a amt = Err s c -> c <> OK.
Proof.
  unfold maybe_lock_balance. destruct (amt <? 0); [intros [= _ <-]; discriminate|].
  destruct (_ <? _); [intros [= _ <-]; discriminate|].
  destruct (bt_add _ _ _); [discriminate|intros [= _ <-]; discriminate].
Qed.

Lemma pub_commit_one_err st p s c : pub_commit_one st p = Err s c -> c <> OK.
Proof.
  unfold pub_commit_one, lock_balances.
  destruct (maybe_lock_balance st (p_client p) (client_req p)) as [st1 u|s1 c1] eqn:H1; cbn [bind].
  - destruct (maybe_lock_balance st1 (p_provider p) (p_pcoll p)) as [st2 u2|s2 c2] eqn:H2; cbn [bind].
    + discriminate.
    + intros [= _ <-]. eapply maybe_lock_err; eauto.
  - intros [= _ <-]. eapply maybe_lock_err; eauto.
Qed.

Lemma pub_commit_err ps : forall st ids s c, pub_commit st ps ids = Err s c -> c <> OK.
Proof.
  induction ps as [|p ps IH]; intros st ids s c; cbn [pub_commit]; [discriminate|].
  destruct (pub_commit_one st p) as [st1 id|s1 c1] eqn:H1; cbn [bind]; [eauto|].
  intros [= _ <-]. eapply pub_commit_one_err; eauto.
Qed.

(* PublishStorageDeals returns exactly the ids next_id, next_id+1, ... and advances next_id past them *)
Theorem publish_ids st caller epoch t deals st' r :
  publish st caller epoch t deals = (st', OK :: r) ->
  exists n idx, r = Z.of_nat n :: zseq (next_id st) n ++ Z.of_nat (length idx) :: idx /\
                next_id st' = next_id st + Z.of_nat n /\ (0 < n)%nat.
Proof.
  unfold publish. destruct deals as [|d0 rest]; [discriminate|].
  destruct t as [| |o w cs]; [discriminate|discriminate|].
  destruct (negb (zmem caller (cs ++ [w; o]))); [discriminate|].
  set (acc := pub_filter st _ epoch _ 0 _).
  destruct (pa_valid acc) as [|p0 ps] eqn:Hv; [discriminate|]. rewrite <- Hv.
  destruct (pub_commit st (pa_valid acc) []) as [st1 ids|s1 c1] eqn:Hc;
    [|intros [= _ H _]; apply pub_commit_err in Hc; contradiction].
  apply pub_commit_ids in Hc as [-> Hn]. cbn [app]. rewrite zseq_length. intros [= <- <-].
  exists (length (pa_valid acc)), (pa_idx acc). split; [reflexivity|].
  split; [exact Hn|]. rewrite Hv. cbn. lia.
Qed.

(* -- a deal is accepted only if authenticated and funded (cumulatively, within the batch) -- *)
Definition cl_of (ps : list proposal) (c : Z) : Z :=
  fold_right (fun q acc => (if p_client q =? c then client_req q else 0) + acc) 0 ps.
Definition pl_of (ps : list proposal) : Z := fold_right (fun q acc => p_pcoll q + acc) 0 ps.

Lemma cl_of_snoc ps p c : cl_of (ps ++ [p]) c = cl_of ps c + (if p_client p =? c then client_req p else 0).
Proof. induction ps as [|q ps IH]; cbn; [lia|]. unfold cl_of in IH. rewrite IH. lia. Qed.
Lemma pl_of_snoc ps p : pl_of (ps ++ [p]) = pl_of ps + p_pcoll p.
Proof. induction ps as [|q ps IH]; cbn; [lia|]. unfold pl_of in IH. rewrite IH. lia. Qed.

(* the accepted deals of a batch, in order: each comes from a deal of the message that passed the
   stateless validation (signature authenticated by the client, bounds), names the batch's provider, is
   not pending and not a duplicate of an earlier accepted deal of the message, and both parties'
   unlocked escrow covers it ON TOP of the earlier accepted deals of the same message *)
Inductive AccOK (st : state) (prov epoch : Z) (deals : list pdeal) : list proposal -> Prop :=
| acc_nil : AccOK st prov epoch deals []
| acc_snoc ps d :
    AccOK st prov epoch deals ps -> In d deals ->
    deal_valid epoch d = true -> d_sig_ok d = true -> p_provider (d_prop d) = prov ->
    L st (p_client (d_prop d)) + (cl_of ps (p_client (d_prop d)) + client_req (d_prop d))
      <= E st (p_client (d_prop d)) ->
    L st prov + (pl_of ps + p_pcoll (d_prop d)) <= E st prov ->
    ~ In (d_prop d) (pending st) -> ~ In (d_prop d) ps ->
    AccOK st prov epoch deals (ps ++ [d_prop d]).

Definition acc_sums (acc : pacc) : Prop :=
  (forall c, bt_get (pa_cl acc) c = cl_of (pa_valid acc) c) /\ pa_pl acc = pl_of (pa_valid acc).

Lemma pub_filter_one_acc st prov epoch deals acc di d :
  In d deals -> AccOK st prov epoch deals (pa_valid acc) -> acc_sums acc ->
  AccOK st prov epoch deals (pa_valid (pub_filter_one st prov epoch acc di d)) /\
  acc_sums (pub_filter_one st prov epoch acc di d).
Proof.
  intros Hin HA [Hc Hp]. unfold pub_filter_one.
  assert (Hsame : AccOK st prov epoch deals (pa_valid acc) /\ acc_sums acc) by (split; [exact HA|split; assumption]).
  destruct (negb (deal_valid epoch d)) eqn:Ev; [exact Hsame|]. zb.
  destruct (negb (p_provider (d_prop d) =? prov)) eqn:Epr; [exact Hsame|]. zb.
  destruct (negb (balance_covered st (p_client (d_prop d)) _)) eqn:Ec; [exact Hsame|]. zb.
  destruct (negb (balance_covered st prov _)) eqn:Eb; [exact Hsame|]. zb.
  destruct (pend_has (pending st) (d_prop d) || pend_has (pa_valid acc) (d_prop d)) eqn:Ed; [exact Hsame|].
  destruct (p_verified (d_prop d)); [exact Hsame|].
  apply orb_false_iff in Ed as [E1 E2]. unfold balance_covered in Ec, Eb. zb.
  cbn [pa_valid pa_cl pa_pl]. split.
  - apply acc_snoc; auto.
    + unfold deal_valid in Ev. zb. assumption.
    + rewrite <- Hc. exact Ec.
    + rewrite <- Hp. exact Eb.
    + intros H. apply pend_has_In in H. congruence.
    + intros H. apply pend_has_In in H. congruence.
  - unfold acc_sums. cbn [pa_valid pa_cl pa_pl]. split.
    + intros c. rewrite cl_of_snoc. unfold bt_get at 1. destruct (Z.eq_dec c (p_client (d_prop d))) as [->|Hne].
      * rewrite lookup_insert. cbn. rewrite Z.eqb_refl, <- Hc. reflexivity.
      * rewrite lookup_insert_ne by congruence. fold (bt_get (pa_cl acc) c). rewrite Hc.
        destruct (p_client (d_prop d) =? c) eqn:E; zb; [congruence|lia].
    + rewrite pl_of_snoc, Hp. reflexivity.
Qed.

Lemma pub_filter_acc st prov epoch deals ds : forall acc di,
  (forall d, In d ds -> In d deals) -> AccOK st prov epoch deals (pa_valid acc) -> acc_sums acc ->
  AccOK st prov epoch deals (pa_valid (pub_filter st prov epoch acc di ds)).
Proof.
  induction ds as [|d ds IH]; intros acc di Hsub HA Hs; cbn [pub_filter]; [exact HA|].
  destruct (pub_filter_one_acc st prov epoch deals acc di d (Hsub d (or_introl eq_refl)) HA Hs) as [HA' Hs'].
  apply IH; auto. intros x Hx. apply Hsub. now right.
Qed.

Theorem publish_requires_auth_and_funds st prov epoch deals :
  AccOK st prov epoch deals (pa_valid (pub_filter st prov epoch (mkPacc [] [] ∅ 0) 0 deals)).
Proof.
  apply pub_filter_acc; auto; [constructor|]. split; [intros c; cbn; apply bt_get_empty|reflexivity].
Qed.

(* ... and those are exactly the proposals stored by the message, under consecutive ids *)
Lemma pub_commit_stores ps : forall st ids st' ids',
  pub_commit st ps ids = Ok st' ids' ->
  forall i p, nth_error ps i = Some p -> proposals st' !! (next_id st + Z.of_nat i) = Some p.
Proof.
  induction ps as [|p ps IH]; intros st ids st' ids' H i q Hi; [destruct i; discriminate|].
  cbn [pub_commit] in H.
  destruct (pub_commit_one st p) as [st1 id|] eqn:H1; [|discriminate]. cbn [bind] in H.
  pose proof (pub_commit_one_id _ _ _ _ H1) as [-> Hn].
  assert (Hst1 : proposals st1 !! next_id st = Some p).
  { unfold pub_commit_one in H1. destruct (lock_balances st p) as [s1 u|] eqn:Hl; [|discriminate]. cbn [bind] in H1.
    apply lock_balances_inv in Hl as (_ & _ & _ & _ & _ & _ & [] & _). injection H1 as <-. cbn.
    rewrite f_next. apply lookup_insert. }
  assert (Hkeep : forall ps st ids st' ids', pub_commit st ps ids = Ok st' ids' ->
            forall k v, k < next_id st -> proposals st !! k = Some v -> proposals st' !! k = Some v).
  { clear. induction ps as [|p ps IH]; intros st ids st' ids' H k v Hk Hv; cbn [pub_commit] in H.
    - injection H as <- _. exact Hv.
    - destruct (pub_commit_one st p) as [st1 id|] eqn:H1; [|discriminate]. cbn [bind] in H.
      pose proof (pub_commit_one_id _ _ _ _ H1) as [-> Hn].
      apply (IH _ _ _ _ H k v); [lia|].
      unfold pub_commit_one in H1. destruct (lock_balances st p) as [s1 u|] eqn:Hl; [|discriminate]. cbn [bind] in H1.
      apply lock_balances_inv in Hl as (_ & _ & _ & _ & _ & _ & [] & _). injection H1 as <-. cbn.
      rewrite f_next, f_prop. rewrite lookup_insert_ne by lia. exact Hv. }
  destruct i as [|i]; cbn in Hi.
  - injection Hi as <-. rewrite Z.add_0_r. apply (Hkeep _ _ _ _ _ H); [lia|exact Hst1].
  - replace (next_id st + Z.of_nat (Datatypes.S i)) with (next_id st1 + Z.of_nat i) by lia.
    eapply IH; eauto.
Qed.

(* -- activation -- *)
Theorem activation_guard st id caller expiry epoch p :
  preactivate st id caller expiry epoch = inl p ->
  proposals st !! id = Some p /\ states st !! id = None /\ pend_has (pending st) p = true /\
  p_provider p = caller /\ epoch <= p_start p /\ p_end p <= expiry.
Proof. exact (preactivate_inl st id caller expiry epoch p). Qed.

Theorem activation_at_most_once st id caller expiry epoch ds :
  states st !! id = Some ds -> exists c, preactivate st id caller expiry epoch = inr c.
Proof.
  intros Hs. destruct (preactivate st id caller expiry epoch) as [p|c] eqn:H; [|eauto].
  apply preactivate_inl in H as (_ & H & _). congruence.
Qed.

Theorem removed_deal_not_activated st id caller expiry epoch :
  proposals st !! id = None ->
  preactivate st id caller expiry epoch = inr (if id <? next_id st then EX_DEAL_EXPIRED else NOT_FOUND).
Proof. intros H. unfold preactivate, get_proposal. now rewrite H. Qed.

(* every deal state written by BatchActivateDeals passed preactivate in this message, for its own
   sector's expiry, and no id is written twice in one message *)
Definition act_ok (st : state) (caller epoch : Z) (sectors : list (Z * Z * list Z)) (x : Z * dstate) : Prop :=
  exists sector expiry ids p, In (sector, expiry, ids) sectors /\ In (fst x) ids /\
    preactivate st (fst x) caller expiry epoch = inl p /\ snd x = fresh_state sector epoch.

Lemma has_dup_false l : has_dup l = false -> NoDup l.
Proof.
  induction l as [|x l IH]; cbn; [constructor|]. intros H. apply orb_false_iff in H as [H1 H2].
  constructor; [|auto]. intros Hin. unfold zmem in H1.
  assert (existsb (Z.eqb x) l = true) by (apply existsb_exists; exists x; split; [exact Hin|apply Z.eqb_refl]).
  congruence.
Qed.

Lemma zmem_In x l : zmem x l = true <-> In x l.
Proof.
  unfold zmem. rewrite existsb_exists. split.
  - intros (y & Hy & E). zb. now subst.
  - intros H. exists x. split; [exact H|apply Z.eqb_refl].
Qed.

Lemma preact_all_notin st activated caller expiry epoch ids : forall ps,
  preact_all st activated caller expiry epoch ids = inl ps -> forall id, In id ids -> ~ In id activated.
Proof.
  induction ids as [|i ids IH]; intros ps; cbn [preact_all]; [intros _ id []|].
  destruct (zmem i activated) eqn:Ez; [discriminate|].
  destruct (preactivate st i caller expiry epoch) as [p|]; [|discriminate].
  destruct (preact_all st activated caller expiry epoch ids) as [qs|] eqn:H2; [|discriminate].
  intros _ id [<-|Hin]; [|eauto]. intros H. apply zmem_In in H. congruence.
Qed.

Lemma act_sector_ok st caller epoch sectors acc si s :
  In s sectors ->
  Forall (act_ok st caller epoch sectors) (aa_states acc) /\ NoDup (aa_activated acc) /\
    map fst (aa_states acc) = aa_activated acc ->
  Forall (act_ok st caller epoch sectors) (aa_states (act_sector st caller epoch acc si s)) /\
    NoDup (aa_activated (act_sector st caller epoch acc si s)) /\
    map fst (aa_states (act_sector st caller epoch acc si s)) = aa_activated (act_sector st caller epoch acc si s).
Proof.
  intros Hs (H1 & H2 & H3). unfold act_sector. destruct s as [[sector expiry] ids].
  destruct (has_dup ids) eqn:Hd; [auto|].
  destruct (preact_all st (aa_activated acc) caller expiry epoch ids) as [ps|] eqn:Hp; [|auto].
  cbn [aa_states aa_activated]. split; [|split].
  - apply Forall_app. split; [exact H1|].
    pose proof (preact_all_inl _ _ _ _ _ _ _ Hp) as Hall. rewrite Forall_forall in *. intros x Hx.
    apply in_map_iff in Hx as (id & <- & Hid). destruct (Hall id Hid) as [p Hpre].
    exists sector, expiry, ids, p. cbn. auto.
  - apply has_dup_false in Hd. pose proof (preact_all_notin _ _ _ _ _ _ _ Hp) as Hn.
    clear - H2 Hd Hn. induction H2 as [|a l Ha Hl IH]; cbn; [exact Hd|].
    constructor.
    + rewrite in_app_iff. intros [H|H]; [contradiction|]. apply (Hn a H). now left.
    + apply IH. intros id Hid Hin. apply (Hn id Hid). now right.
  - rewrite map_app, map_map, H3. cbn. now rewrite map_id.
Qed.

Theorem activation_once_per_message st caller epoch sectors :
  let acc := act_sectors st caller epoch (mkAacc [] [] [] [] 0 []) 0 sectors in
  Forall (act_ok st caller epoch sectors) (aa_states acc) /\ NoDup (map fst (aa_states acc)).
Proof.
  intros acc.
  assert (H : forall l acc0 si, (forall s, In s l -> In s sectors) ->
            Forall (act_ok st caller epoch sectors) (aa_states acc0) /\ NoDup (aa_activated acc0) /\
              map fst (aa_states acc0) = aa_activated acc0 ->
            let a := act_sectors st caller epoch acc0 si l in
            Forall (act_ok st caller epoch sectors) (aa_states a) /\ NoDup (aa_activated a) /\
              map fst (aa_states a) = aa_activated a).
  { induction l as [|s l IH]; intros acc0 si Hsub H0; cbn [act_sectors]; [exact H0|].
    apply IH; [intros x Hx; apply Hsub; now right|].
    apply act_sector_ok; [apply Hsub; now left|exact H0]. }
  destruct (H sectors (mkAacc [] [] [] [] 0 []) 0 (fun s Hs => Hs)) as (A1 & A2 & A3).
  { cbn. split; [constructor|split; [constructor|reflexivity]]. }
  split; [exact A1|]. unfold acc. rewrite A3. exact A2.
Qed.

(* -- a proposal that was not activated by its start epoch -- *)
Theorem timeout_cleanup epoch owed st id p :
  InvS epoch owed (states st) st -> proposals st !! id = Some p -> states st !! id = None ->
  p_start p <= epoch -> pend_has (pending st) p = true ->
  exists st', get_active_deal_or_process_timeout st epoch id p = Ok st' (ProposalExpired (p_pcoll p)) /\
    proposals st' = delete id (proposals st) /\ pending st' = pend_del (pending st) p /\
    InvS epoch (owed + p_pcoll p) (states st) st'.
Proof.
  intros I Hp Hs He Hpe.
  pose proof (gadt_spec epoch owed (states st) st id p I Hp eq_refl) as G.
  unfold get_active_deal_or_process_timeout in *. rewrite Hs in *.
  destruct (epoch <? p_start p) eqn:Es; zb; [lia|].
  destruct (timed_out_spec _ _ _ _ _ _ I Hp Hs) as (st1 & R1 & F1 & P1).
  rewrite R1 in *. cbn [bind] in *.
  pose proof F1 as [_ _ _ _ _ _ Ffr]. destruct Ffr.
  unfold remove_proposal in *. rewrite f_prop, Hp in *. cbn [bind pending set_proposals] in *.
  rewrite P1, Hpe in *. cbn [negb] in *.
  destruct G as (_ & _ & _ & G & _ & GP & _ & Gpe & _).
  eexists. split; [reflexivity|]. auto.
Qed.

(* -- next_id never decreases; only PublishStorageDeals advances it -- *)
Lemma settle_loop_next epoch ids : forall st a i st' a',
  0 <= epoch -> NoDup ids ->
  settle_inv epoch st a -> (forall k, In k ids -> ~ In k (map fst (sa_new a))) ->
  settle_loop epoch st a i ids = Ok st' a' -> next_id st' = next_id st.
Proof.
  induction ids as [|id ids IH]; intros st a i st' a' He Hnd I Hnew; cbn [settle_loop].
  - now intros [= <- <-].
  - destruct (settle_one epoch st a i id) as [st1 a1|] eqn:H1; [|discriminate]. cbn [bind].
    inversion Hnd; subst.
    destruct (settle_one_inv _ _ _ _ _ _ _ He I (Hnew id (or_introl eq_refl)) H1) as [I1 Hk].
    destruct (settle_one_lev epoch 0 _ _ _ _ _ _ He I (Hnew id (or_introl eq_refl)) H1) as (_ & _ & _ & Hn & _).
    intros Hrest. rewrite <- Hn. eapply IH; eauto.
    intros k Hin Hk1. destruct (Hk k Hk1) as [Hk2| ->]; [|contradiction].
    apply (Hnew k); [now right|exact Hk2].
Qed.

Lemma term_loop_next epoch snap caller ids : forall st total st' total',
  0 <= epoch -> term_inv epoch snap st total ->
  term_loop snap caller epoch st total ids = Ok st' total' -> next_id st' = next_id st.
Proof.
  induction ids as [|id ids IH]; intros st total st' total' He I; cbn [term_loop].
  - now intros [= <- <-].
  - destruct (term_one snap caller epoch st id) as [st1 s|] eqn:H1; [|discriminate]. cbn [bind].
    pose proof (term_one_inv _ _ _ _ _ _ _ _ He I H1) as I1.
    destruct (term_one_lev epoch 0 _ _ _ _ _ _ _ He I H1) as (_ & _ & _ & Hn & _).
    intros Hrest. rewrite <- Hn. eapply IH; eauto.
Qed.

Theorem next_id_step now st o :
  MarketInv now st -> Life st -> now <= op_epoch o -> wf_op o -> life_op st o ->
  next_id st <= next_id (fst (step st o)) /\
  ((forall c e t ds, o <> Publish c e t ds) -> next_id (fst (step st o)) = next_id st).
Proof.
  intros I Hl Hn [He Hw] Hlc. pose proof (invc_now_mono _ _ _ _ _ _ _ _ _ _ _ _ _ I Hn) as I'.
  assert (Hsame : forall st', next_id st' = next_id st ->
            next_id st <= next_id st' /\ ((forall c e t ds, o <> Publish c e t ds) -> next_id st' = next_id st)).
  { intros st' ->. split; [lia|auto]. }
  destruct o; cbn [step op_epoch] in *.
  - apply Hsame. unfold add_balance. destruct (value <=? 0); [reflexivity|].
    destruct t; [reflexivity| |]; destruct (bt_add _ _ _); reflexivity.
  - apply Hsame. unfold withdraw_balance. destruct (amount <? 0); [reflexivity|].
    destruct (escrow_address who t) as [[rc ap]|]; [|reflexivity].
    destruct (negb (zmem caller ap)); [reflexivity|].
    destruct (bt_sub_with_min _ _ _ _) as [[e' ex]|]; [|reflexivity]. destruct payout_fails; [reflexivity|].
    destruct (balance st <? ex); reflexivity.
  - split; [|intros Hne; exfalso; exact (Hne caller epoch t deals eq_refl)].
    destruct (publish st caller epoch t deals) as [st' [|c r]] eqn:Hp.
    + unfold publish in Hp. destruct deals; [injection Hp as <- _; cbn; lia|].
      destruct t as [| |o w cs]; [injection Hp as <- _; cbn; lia|injection Hp as <- _; cbn; lia|].
      destruct (negb _); [injection Hp as <- _; cbn; lia|].
      destruct (pa_valid _); [injection Hp as <- _; cbn; lia|].
      destruct (pub_commit _ _ _); discriminate.
    + destruct (Z.eq_dec c OK) as [->|Hc].
      * apply publish_ids in Hp as (n & idx & _ & Hnn & _). cbn [fst]. lia.
      * cbn [fst]. unfold publish in Hp. destruct deals; [injection Hp as <- _; lia|].
        destruct t as [| |o w cs]; [injection Hp as <- _; lia|injection Hp as <- _; lia|].
        destruct (negb _); [injection Hp as <- _; lia|].
        destruct (pa_valid _); [injection Hp as <- _; lia|].
        destruct (pub_commit _ _ _); [injection Hp as _ H; unfold OK in *; congruence|injection Hp as <- _; lia].
  - apply Hsame. unfold batch_activate. destruct (negb is_miner); reflexivity.
  - apply Hsame. unfold sector_content_changed. destruct (negb is_miner); [reflexivity|].
    destruct (fold_left _ _ _) as [[acc secs] out]. reflexivity.
  - subst. apply Hsame. unfold terminate. destruct (negb is_miner); [reflexivity|].
    destruct (pop_sector_deals _ _ _) as [ps' ids].
    destruct (term_loop st caller epoch (set_psectors st ps') 0 ids) as [st1 total|] eqn:Hlp; [|reflexivity].
    assert (I0 : term_inv epoch st (set_psectors st ps') 0).
    { split; [exact I'|]. intros id. right. split; reflexivity. }
    pose proof (term_loop_next _ _ _ _ _ _ _ _ He I0 Hlp) as Hnn. cbn in Hnn.
    destruct (0 <? total); [|exact Hnn]. destruct (balance st1 <? total); [reflexivity|exact Hnn].
  - apply Hsame. unfold settle.
    destruct (settle_loop epoch st _ 0 ids) as [st1 a|] eqn:Hlp; [|reflexivity].
    pose proof (settle_loop_next epoch ids st (mkSacc [] 0 [] 0 [] []) 0 st1 a He Hw I' ltac:(intros k _ H; exact H) Hlp) as Hnn.
    destruct (sa_slashed a =? 0); [exact Hnn|]. destruct (_ || _); [reflexivity|exact Hnn].
  - apply Hsame. unfold cron_tick. destruct (negb _); [reflexivity|].
    destruct (cron_loop epoch st _ _) as [st1 a|] eqn:Hlp; [|reflexivity].
    assert (L0 : LifeL epoch st (states st)).
    { destruct Hl as [Hp Ha Hu Hq Ho Hnn Hi]. constructor; auto.
      intros id p H1 H2 H3. pose proof (Hp id p H1 H2 H3). unfold life_op in Hlc. cbn in Hlc. lia. }
    assert (Hdue : forall id p, In id (flat_map snd (due st epoch)) -> proposals st !! id = Some p ->
                                p_start p <= epoch).
    { intros id p Hin Hp. apply in_flat_map in Hin as ([e ids] & Hd & Hid). cbn in Hid.
      apply due_In in Hd as [Hd1 Hd2].
      pose proof (lf_ops _ _ _ _ _ _ _ Hl e ids id p Hd1 Hid Hp). lia. }
    destruct (cron_loop_life epoch _ st (mkCracc 0 [] []) st1 a He I' L0 ltac:(intros x []) Hdue Hlp)
      as (_ & _ & _ & _ & Hnn).
    destruct (cr_slashed a =? 0); [exact Hnn|]. destruct (_ || _); [reflexivity|exact Hnn].
  - apply Hsame. unfold get_balance. destruct (negb resolves); reflexivity.
Qed.
