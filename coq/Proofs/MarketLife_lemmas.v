(* C08 -- deal lifecycle: unique publication, one timely activation by the provider. *)
From stdpp Require Import gmap.
From Coq Require Import ZArith List Bool Lia.
From VF Require Import Gen.Consts Gen.MarketConsts Base.Corr Model.Market
  Proofs.MarketBase_lemmas Proofs.Market_lemmas.
Import ListNotations.
Open Scope Z_scope.

(* ------------------------------------------------------------------------------------------ *)
(* the pending set *)
Lemma prop_eqb_eq a b : prop_eqb a b = true <-> a = b.
Proof.
  split.
  - unfold prop_eqb. intros H. zb. destruct a, b; cbn in *.
    repeat match goal with H : eqb _ _ = true |- _ => apply eqb_prop in H end. subst. reflexivity.
  - intros ->. unfold prop_eqb. rewrite !Z.eqb_refl, eqb_reflx. reflexivity.
Qed.

Lemma prop_eqb_refl a : prop_eqb a a = true.
Proof. now apply prop_eqb_eq. Qed.

Lemma prop_eqb_neq a b : a <> b -> prop_eqb a b = false.
Proof. intros H. destruct (prop_eqb a b) eqn:E; [|reflexivity]. apply prop_eqb_eq in E. contradiction. Qed.

Lemma pend_has_In l p : pend_has l p = true <-> In p l.
Proof.
  unfold pend_has. rewrite existsb_exists. split.
  - intros (q & Hq & He). apply prop_eqb_eq in He. now subst.
  - intros H. exists p. split; [exact H|apply prop_eqb_refl].
Qed.

Lemma pend_put_In l p q : In q (pend_put l p) <-> q = p \/ In q l.
Proof.
  unfold pend_put. destruct (pend_has l p) eqn:E.
  - apply pend_has_In in E. split; [auto|]. intros [->|H]; auto.
  - rewrite in_app_iff. cbn. intuition.
Qed.

Lemma pend_del_In l p q : In q (pend_del l p) <-> q <> p /\ In q l.
Proof.
  unfold pend_del. rewrite filter_In. split.
  - intros [H1 H2]. split; [|exact H1]. intros ->. rewrite prop_eqb_refl in H2. discriminate.
  - intros [H1 H2]. split; [exact H2|]. rewrite prop_eqb_neq by congruence. reflexivity.
Qed.

(* ------------------------------------------------------------------------------------------ *)
(* next_update_epoch is no sooner than `earliest` *)
Lemma next_update_epoch_ge id ivl earliest :
  0 < ivl -> 0 <= id -> earliest <= next_update_epoch id ivl earliest.
Proof.
  intros Hi Hid. unfold next_update_epoch.
  pose proof (Z.rem_bound_pos id ivl Hid Hi) as Hoff.
  set (off := Z.rem id ivl) in *. set (d := earliest - off).
  pose proof (Z.quot_rem' d ivl) as Hqr.
  destruct ((Z.rem d ivl =? 0) || (d <? 0)) eqn:E.
  - apply orb_true_iff in E as [E|E]; zb.
    + rewrite E in Hqr. unfold d in *. lia.
    + pose proof (Z.rem_bound_pos_neg d ivl Hi ltac:(lia)) as Hr. unfold d in *. lia.
  - zb. pose proof (Z.rem_bound_pos d ivl ltac:(lia) Hi) as Hr. unfold d in *. lia.
Qed.

(* ------------------------------------------------------------------------------------------ *)
(* sorted insertion *)
Lemma ins_sorted_In x y l : In x (ins_sorted y l) <-> x = y \/ In x l.
Proof.
  induction l as [|z l IH]; cbn [ins_sorted].
  - cbn. intuition.
  - destruct (y <? z); [cbn; intuition|]. destruct (y =? z) eqn:E; zb.
    + subst. cbn. intuition.
    + cbn. rewrite IH. intuition.
Qed.

Lemma ins_key_In {A} (x y : Z * A) l : In x (ins_key y l) <-> x = y \/ In x l.
Proof.
  induction l as [|z l IH]; cbn [ins_key].
  - cbn. intuition.
  - destruct (fst y <=? fst z); [cbn; intuition|]. cbn. rewrite IH. intuition.
Qed.

Lemma sort_key_In {A} (x : Z * A) l : In x (sort_key l) <-> In x l.
Proof.
  unfold sort_key. induction l as [|z l IH]; cbn [fold_right]; [reflexivity|].
  rewrite ins_key_In, IH. cbn. intuition.
Qed.

(* ------------------------------------------------------------------------------------------ *)
(* the lifecycle invariant *)
Definition never_updated (os : option dstate) : Prop :=
  match os with None => True | Some ds => ds_lu ds = UNDEF end.

Record LifeC (P : gmap Z proposal) (S : gmap Z dstate) (pend : list proposal) (ops : gmap Z (list Z))
    (lc nid ivl : Z) : Prop := {
  (* a live deal that was never updated is pending, unless the cron has already passed its start *)
  lf_pend : forall id p, P !! id = Some p -> never_updated (S !! id) -> ~ In p pend -> p_start p <= lc;
  (* a deal is only ever updated strictly after its start epoch *)
  lf_upd : forall id p ds, P !! id = Some p -> S !! id = Some ds -> ds_lu ds <> UNDEF -> p_start p < ds_lu ds;
  (* no two live deals have the same proposal (CID) *)
  lf_uniq : forall id1 id2 p, P !! id1 = Some p -> P !! id2 = Some p -> id1 = id2;
  (* the cron never visits a live deal before its start epoch *)
  lf_ops : forall e ids id p, ops !! e = Some ids -> In id ids -> P !! id = Some p -> p_start p <= e;
  lf_ops_nid : forall e ids id, ops !! e = Some ids -> In id ids -> id < nid;
  lf_ivl : 0 < ivl
}.

Definition Life (st : state) : Prop :=
  LifeC (proposals st) (states st) (pending st) (deal_ops st) (last_cron st) (next_id st) (interval st).

(* what one deal-level step of a handler does to the registry *)
Inductive lev (epoch lc : Z) (P : gmap Z proposal) (S : gmap Z dstate) (pend : list proposal)
    (P' : gmap Z proposal) (S' : gmap Z dstate) (pend' : list proposal) : Prop :=
| lev_nop : P' = P -> S' = S -> pend' = pend -> lev epoch lc P S pend P' S' pend'
| lev_unpend id p ds :
    P !! id = Some p -> S !! id = Some ds -> ds_lu ds = UNDEF -> p_start p <= lc ->
    P' = P -> S' = S -> pend' = pend_del pend p -> lev epoch lc P S pend P' S' pend'
| lev_gone id p :
    P !! id = Some p -> P' = delete id P -> (forall k, k <> id -> S' !! k = S !! k) ->
    (pend' = pend \/ pend' = pend_del pend p) -> lev epoch lc P S pend P' S' pend'
| lev_upd id p ds sl :
    P !! id = Some p -> S !! id = Some ds -> p_start p < epoch -> epoch <> UNDEF ->
    P' = P -> S' = <[id := mkDs (ds_sector ds) (ds_start ds) epoch sl]> S ->
    (pend' = pend \/ pend' = pend_del pend p) -> lev epoch lc P S pend P' S' pend'.

Lemma lifec_lev epoch lc P S pend ops nid ivl P' S' pend' :
  LifeC P S pend ops lc nid ivl -> lev epoch lc P S pend P' S' pend' ->
  LifeC P' S' pend' ops lc nid ivl.
Proof.
  intros [Hp Hu Hq Ho Hn Hi] Hev.
  destruct Hev as [-> -> ->|id p ds HP HS Hlu Hst -> -> ->|id p HP -> HS Hpe|id p ds sl HP HS Hst Hep -> -> Hpe].
  - constructor; auto.
  - constructor; auto.
    intros k q Hk Hnu Hnin. destruct (Z.eq_dec k id) as [->|Hne].
    + assert (q = p) as -> by congruence. exact Hst.
    + apply (Hp k q Hk Hnu). intros Hin. apply Hnin. apply pend_del_In. split; [|exact Hin].
      intros ->. assert (k = id) by (eapply Hq; eauto). congruence.
  - constructor; auto.
    + intros k q Hk Hnu Hnin. apply lookup_delete_Some in Hk as [Hne Hk].
      rewrite (HS k ltac:(congruence)) in Hnu. apply (Hp k q Hk Hnu). intros Hin. apply Hnin.
      destruct Hpe as [->| ->]; [exact Hin|]. apply pend_del_In. split; [|exact Hin].
      intros ->. assert (k = id) by (eapply Hq; eauto). congruence.
    + intros k q ds Hk Hs Hlu. apply lookup_delete_Some in Hk as [Hne Hk].
      rewrite (HS k ltac:(congruence)) in Hs. eauto.
    + intros k1 k2 q H1 H2. apply lookup_delete_Some in H1 as [_ H1]. apply lookup_delete_Some in H2 as [_ H2]. eauto.
    + intros e ids k q He Hin Hk. apply lookup_delete_Some in Hk as [_ Hk]. eauto.
  - constructor; auto.
    + intros k q Hk Hnu Hnin. destruct (Z.eq_dec k id) as [->|Hne].
      * rewrite lookup_insert in Hnu. cbn in Hnu. congruence.
      * rewrite lookup_insert_ne in Hnu by congruence. apply (Hp k q Hk Hnu). intros Hin. apply Hnin.
        destruct Hpe as [->| ->]; [exact Hin|]. apply pend_del_In. split; [|exact Hin].
        intros ->. assert (k = id) by (eapply Hq; eauto). congruence.
    + intros k q d Hk Hs Hlu. destruct (Z.eq_dec k id) as [->|Hne].
      * rewrite lookup_insert in Hs. injection Hs as <-. cbn. assert (q = p) as -> by congruence. exact Hst.
      * rewrite lookup_insert_ne in Hs by congruence. eauto.
Qed.

(* the clause that makes the duplicate check effective: while re-publication is still possible
   (current epoch <= start) the proposal of a live deal is in the pending set *)
Lemma pending_complete now P S pend ops lc nid ivl Lf Ef tc tp tf bs bal owed e id p :
  InvC now owed P S Lf Ef tc tp tf bs bal nid -> LifeC P S pend ops lc nid ivl ->
  now <= e -> lc < e -> P !! id = Some p -> e <= p_start p -> In p pend.
Proof.
  intros I Lf' Hn Hlc Hp He.
  destruct (in_dec (fun a b => match Bool.bool_dec (prop_eqb a b) true with
                               | left H => left (proj1 (prop_eqb_eq a b) H)
                               | right H => right (fun E => H (proj2 (prop_eqb_eq a b) E)) end) p pend)
    as [Hin|Hnin]; [exact Hin|exfalso].
  destruct (S !! id) as [ds|] eqn:Hs.
  - destruct (Z.eq_dec (ds_lu ds) UNDEF) as [Hlu|Hlu].
    + pose proof (lf_pend _ _ _ _ _ _ _ Lf' id p Hp ltac:(rewrite Hs; exact Hlu) Hnin). lia.
    + pose proof (lf_upd _ _ _ _ _ _ _ Lf' id p ds Hp Hs Hlu).
      destruct (i_wfS _ _ _ _ _ _ _ _ _ _ _ _ I id ds Hs) as (q & Hq & _ & _ & [D|D]); [contradiction|]. lia.
  - pose proof (lf_pend _ _ _ _ _ _ _ Lf' id p Hp ltac:(rewrite Hs; exact Logic.I) Hnin). lia.
Qed.

(* ------------------------------------------------------------------------------------------ *)
(* registry-level description of the deal-level steps *)
Lemma gadt_misc epoch owed S st id p :
  InvS epoch owed S st -> proposals st !! id = Some p -> states st !! id = S !! id ->
  match get_active_deal_or_process_timeout st epoch id p with
  | Ok st' _ =>
      deal_ops st' = deal_ops st /\ last_cron st' = last_cron st /\ interval st' = interval st
  | Err st' _ =>
      deal_ops st' = deal_ops st /\ last_cron st' = last_cron st /\ interval st' = interval st /\
      pending st' = pending st
  end.
Proof.
  intros I Hp Hs. unfold get_active_deal_or_process_timeout. rewrite Hs.
  destruct (S !! id) as [ds|] eqn:HS; [auto|].
  destruct (epoch <? p_start p) eqn:Es; [auto|].
  destruct (timed_out_spec _ _ _ _ _ _ I Hp HS) as (st1 & R1 & F1 & P1).
  rewrite R1. cbn [bind].
  pose proof F1 as [_ _ _ _ _ _ Ffr]. destruct Ffr.
  unfold remove_proposal. rewrite f_prop, Hp. cbn [bind].
  destruct (negb (pend_has _ p)); cbn; auto.
Qed.

Lemma settle_one_lev epoch lc st a i id st' a' :
  0 <= epoch ->
  settle_inv epoch st a -> ~ In id (map fst (sa_new a)) ->
  settle_one epoch st a i id = Ok st' a' ->
  lev epoch lc (proposals st) (put_deal_states (states st) (sa_new a)) (pending st)
      (proposals st') (put_deal_states (states st') (sa_new a')) (pending st') /\
  deal_ops st' = deal_ops st /\ last_cron st' = last_cron st /\ next_id st' = next_id st /\
  interval st' = interval st.
Proof.
  intros He I Hnew. unfold settle_one, settle_inv in *.
  set (S := put_deal_states (states st) (sa_new a)) in *.
  assert (HS : states st !! id = S !! id) by (unfold S; now rewrite put_lookup_notin).
  unfold get_proposal.
  destruct (proposals st !! id) as [p|] eqn:Hp.
  2:{ intros [= <- <-]. cbn [sa_fail sa_new]. fold S. split; [apply lev_nop; auto|auto]. }
  pose proof (gadt_spec epoch _ S st id p I Hp HS) as G.
  pose proof (gadt_misc epoch _ S st id p I Hp HS) as GM.
  destruct (get_active_deal_or_process_timeout st epoch id p) as [st1 [| pen | ds]|st1 c].
  - destruct G as (-> & _). intros [= <- <-]. cbn [sa_new]. fold S. split; [apply lev_nop; auto|auto].
  - destruct G as (Gn & Gst & -> & _ & Gs & GP & Gnext & Gpe & _). destruct GM as (M1 & M2 & M3).
    intros [= <- <-]. cbn [sa_new]. rewrite Gs. fold S. split; [|auto].
    apply (lev_gone epoch lc _ S _ _ S _ id p); [exact Hp|exact GP|auto|right; exact Gpe].
  - destruct G as (-> & Gs).
    destruct (i_wfS _ _ _ _ _ _ _ _ _ _ _ _ I id ds Gs) as (q & Hq & D1 & D2 & D3).
    assert (q = p) as -> by congruence.
    rewrite D1. cbn [negb Z.eqb UNDEF Pos.eqb].
    destruct (epoch <=? p_start p) eqn:Ees.
    { intros [= <- <-]. cbn [sa_new]. fold S. split; [apply lev_nop; auto|auto]. }
    zb.
    destruct (pdu_spec epoch _ S st id p ds I Hp Gs He) as (st2 & R & F & Pn).
    rewrite R.
    pose proof F as [_ _ _ _ _ _ Ffr]. destruct Ffr.
    assert (Hpe : pending st2 = pending st \/ pending st2 = pend_del (pending st) p).
    { rewrite Pn. destruct (ds_lu ds =? UNDEF); auto. }
    destruct (p_end p <=? epoch) eqn:Ed; zb.
    + rewrite (rcd_ok st2 id ds p) by congruence. cbn [bind].
      intros [= <- <-]. cbn [sa_new states set_proposals set_states proposals pending deal_ops last_cron next_id interval].
      split; [|auto].
      apply (lev_gone epoch lc _ S _ _ _ _ id p); [exact Hp|now rewrite f_prop| |exact Hpe].
      intros k Hk. rewrite f_states, put_delete_notin by exact Hnew. fold S. now rewrite lookup_delete_ne by congruence.
    + intros [= <- <-]. cbn [sa_new]. split; [|auto].
      rewrite put_app, f_states. fold S.
      apply (lev_upd epoch lc _ S _ _ _ _ id p ds UNDEF); auto. unfold UNDEF; lia.
  - destruct G as (Gn & Gst & _ & Gs & GP & Gnext & Gpe). destruct GM as (M1 & M2 & M3 & M4).
    intros [= <- <-]. cbn [sa_fail sa_new]. rewrite Gs. fold S. split; [|auto].
    (* the pending entry was missing: the handler reports a failure for this id and goes on *)
    apply (lev_gone epoch lc _ S _ _ S _ id p); [exact Hp|exact GP|auto|left; exact M4].
Qed.

Lemma cron_one_lev epoch st a id st' a' :
  0 <= epoch -> cron_inv epoch st a ->
  (forall p ds, proposals st !! id = Some p -> states st !! id = Some ds -> ds_lu ds <> UNDEF ->
                p_start p < ds_lu ds) ->
  (forall p, proposals st !! id = Some p -> p_start p <= epoch) ->
  0 < interval st ->
  cron_one epoch st a id = Ok st' a' ->
  lev epoch epoch (proposals st) (states st) (pending st) (proposals st') (states st') (pending st') /\
  deal_ops st' = deal_ops st /\ last_cron st' = last_cron st /\ next_id st' = next_id st /\
  interval st' = interval st /\
  (* rescheduled ids belong to live, updated deals *)
  (forall x, In x (cr_new a') -> In x (cr_new a) \/
             (snd x = id /\ epoch < fst x /\ exists p, proposals st' !! id = Some p /\ p_start p < epoch)).
Proof.
  intros He I Hupd Hst Hivl. unfold cron_one, cron_inv in *.
  destruct (proposals st !! id) as [p|] eqn:Hp.
  2:{ intros [= <- <-]. split; [apply lev_nop; auto|]. repeat split; auto. }
  pose proof (gadt_spec epoch _ (states st) st id p I Hp eq_refl) as G.
  pose proof (gadt_misc epoch _ (states st) st id p I Hp eq_refl) as GM.
  destruct (get_active_deal_or_process_timeout st epoch id p) as [st1 [| pen | ds]|st1 c]; cbn [bind];
    try discriminate.
  - destruct G as (Gn & Gst & -> & _ & Gs & GP & Gnext & Gpe & _). destruct GM as (M1 & M2 & M3).
    intros [= <- <-]. cbn [cr_new]. rewrite Gs. split; [|repeat split; auto].
    apply (lev_gone epoch epoch _ (states st) _ _ (states st) _ id p); [exact Hp|exact GP|auto|right; exact Gpe].
  - destruct G as (-> & Gs).
    destruct (i_wfS _ _ _ _ _ _ _ _ _ _ _ _ I id ds Gs) as (q & Hq & D1 & D2 & D3).
    assert (q = p) as -> by congruence.
    destruct (ds_lu ds =? UNDEF) eqn:Elu.
    + zb. destruct (pend_has (pending st) p) eqn:Eh; [|discriminate]. intros [= <- <-].
      split; [|repeat split; auto].
      apply (lev_unpend epoch epoch _ (states st) _ _ _ _ id p ds); auto.
    + zb. destruct (pdu_spec epoch _ (states st) st id p ds I Hp Gs He) as (st2 & R & F & Pn).
      rewrite R. cbn [bind].
      pose proof F as [_ _ _ _ _ _ Ffr]. destruct Ffr.
      assert (Hpe : pending st2 = pending st \/ pending st2 = pend_del (pending st) p).
      { rewrite Pn. destruct (ds_lu ds =? UNDEF); auto. }
      assert (Hlt : p_start p < epoch).
      { pose proof (Hupd p ds eq_refl Gs Elu). destruct D3 as [D3|D3]; [contradiction|lia]. }
      destruct (p_end p <=? epoch) eqn:Ed; zb.
      * rewrite (rcd_ok st2 id ds p) by congruence. cbn [bind].
        intros [= <- <-]. cbn [cr_new states set_proposals set_states proposals pending deal_ops last_cron next_id interval].
        split; [|repeat split; auto].
        apply (lev_gone epoch epoch _ (states st) _ _ _ _ id p); [exact Hp|now rewrite f_prop| |exact Hpe].
        intros k Hk. rewrite f_states. now rewrite lookup_delete_ne by congruence.
      * cbn [negb Z.eqb]. intros [= <- <-].
        cbn [cr_new states set_states proposals pending deal_ops last_cron next_id interval].
        split; [|split; [auto|split; [auto|split; [auto|split; [auto|]]]]].
        -- rewrite f_states.
           apply (lev_upd epoch epoch _ (states st) _ _ _ _ id p ds (ds_slash ds)); auto. unfold UNDEF; lia.
        -- intros x Hx. apply in_app_or in Hx as [Hx|[<-|[]]]; [now left|right]. cbn [fst snd].
           split; [reflexivity|]. split.
           ++ pose proof (next_update_epoch_ge id (interval st2) (epoch + 1)) as Hge.
              destruct (i_wfP _ _ _ _ _ _ _ _ _ _ _ _ I id p Hp) as [_ ?].
              rewrite f_ivl in Hge. specialize (Hge Hivl ltac:(lia)). rewrite f_ivl. lia.
           ++ exists p. split; [congruence|exact Hlt].
Qed.

Lemma term_one_lev epoch lc snap caller st total id st' s :
  0 <= epoch -> term_inv epoch snap st total ->
  term_one snap caller epoch st id = Ok st' s ->
  lev epoch lc (proposals st) (states st) (pending st) (proposals st') (states st') (pending st') /\
  deal_ops st' = deal_ops st /\ last_cron st' = last_cron st /\ next_id st' = next_id st /\
  interval st' = interval st.
Proof.
  intros He [I Hc]. unfold term_one.
  destruct (proposals snap !! id) as [p|] eqn:Hps.
  2:{ intros [= <- <-]. split; [apply lev_nop; auto|auto]. }
  destruct (negb (p_provider p =? caller)); [discriminate|].
  destruct (p_end p <=? epoch) eqn:Ed.
  { intros [= <- <-]. split; [apply lev_nop; auto|auto]. }
  zb.
  destruct (states snap !! id) as [ds|] eqn:Hss; [|discriminate].
  set (st1 := if ds_lu ds =? UNDEF then remove_pending st p else st).
  assert (Hst1 : states st1 = states st /\ proposals st1 = proposals st /\
                 deal_ops st1 = deal_ops st /\ last_cron st1 = last_cron st /\
                 next_id st1 = next_id st /\ interval st1 = interval st /\
                 (pending st1 = pending st \/ pending st1 = pend_del (pending st) p))
    by (unfold st1; destruct (ds_lu ds =? UNDEF); repeat split; auto).
  destruct Hst1 as (Hs1 & Hp1 & Ho1 & Hc1 & Hn1 & Hi1 & Hpe1).
  assert (I1 : InvS epoch total (states st) st1).
  { unfold st1. destruct (ds_lu ds =? UNDEF); exact I. }
  destruct (Hc id) as [Hnone|[HP HSt]].
  - pose proof (inv_S_None I id Hnone) as Hsn.
    destruct (process_slashed_deal st1 p _) as [st2 r|] eqn:H2; [|discriminate]. cbn [bind].
    apply psd_frame in H2 as [].
    destruct (rcd_err st2 id) as [c Hc']; [congruence|]. rewrite Hc'. discriminate.
  - rewrite Hps in HP. rewrite Hss in HSt.
    destruct (slashed_spec epoch total (states st) st1 id p ds epoch I1) as (st2 & R & F & Pn);
      [congruence|exact HSt|lia|lia|].
    rewrite R. cbn [bind].
    pose proof F as [_ _ _ _ _ _ Ffr]. destruct Ffr.
    rewrite (rcd_ok st2 id ds p) by congruence. cbn [bind].
    intros [= <- <-].
    cbn [states set_proposals set_states proposals pending deal_ops last_cron next_id interval].
    split; [|repeat split; congruence].
    apply (lev_gone epoch lc _ (states st) _ _ _ _ id p); [exact HP|now rewrite f_prop, Hp1| |].
    + intros k Hk. rewrite f_states, Hs1. now rewrite lookup_delete_ne by congruence.
    + rewrite Pn. exact Hpe1.
Qed.

(* ------------------------------------------------------------------------------------------ *)
(* the loops *)
Definition LifeL (lc : Z) (st : state) (S : gmap Z dstate) : Prop :=
  LifeC (proposals st) S (pending st) (deal_ops st) lc (next_id st) (interval st).

Lemma lifel_lev epoch lc st S st' S' :
  LifeL lc st S ->
  lev epoch lc (proposals st) S (pending st) (proposals st') S' (pending st') ->
  deal_ops st' = deal_ops st /\ last_cron st' = last_cron st /\ next_id st' = next_id st /\
  interval st' = interval st ->
  LifeL lc st' S'.
Proof.
  intros Hl Hev (H1 & H2 & H3 & H4). unfold LifeL in *. rewrite H1, H3, H4.
  eapply lifec_lev; eauto.
Qed.

Lemma settle_loop_life epoch lc ids : forall st a i st' a',
  0 <= epoch -> NoDup ids ->
  settle_inv epoch st a -> (forall k, In k ids -> ~ In k (map fst (sa_new a))) ->
  LifeL lc st (put_deal_states (states st) (sa_new a)) ->
  settle_loop epoch st a i ids = Ok st' a' ->
  LifeL lc st' (put_deal_states (states st') (sa_new a')) /\ last_cron st' = last_cron st.
Proof.
  induction ids as [|id ids IH]; intros st a i st' a' He Hnd I Hnew Hl; cbn [settle_loop].
  - intros [= <- <-]. auto.
  - destruct (settle_one epoch st a i id) as [st1 a1|] eqn:H1; [|discriminate]. cbn [bind].
    inversion Hnd; subst.
    destruct (settle_one_inv _ _ _ _ _ _ _ He I (Hnew id (or_introl eq_refl)) H1) as [I1 Hk].
    destruct (settle_one_lev epoch lc _ _ _ _ _ _ He I (Hnew id (or_introl eq_refl)) H1) as (Hev & Hfr).
    intros Hrest.
    destruct (IH st1 a1 (i + 1) st' a' He ltac:(assumption) I1) as [Hl' Hc']; auto.
    + intros k Hin Hk1. destruct (Hk k Hk1) as [Hk2| ->]; [|contradiction].
      apply (Hnew k); [now right|exact Hk2].
    + eapply lifel_lev; eauto.
    + split; [exact Hl'|]. destruct Hfr as (_ & Hc & _). congruence.
Qed.

Lemma term_loop_life epoch lc snap caller ids : forall st total st' total',
  0 <= epoch -> term_inv epoch snap st total -> LifeL lc st (states st) ->
  term_loop snap caller epoch st total ids = Ok st' total' ->
  LifeL lc st' (states st') /\ last_cron st' = last_cron st.
Proof.
  induction ids as [|id ids IH]; intros st total st' total' He I Hl; cbn [term_loop].
  - intros [= <- <-]. auto.
  - destruct (term_one snap caller epoch st id) as [st1 s|] eqn:H1; [|discriminate]. cbn [bind].
    pose proof (term_one_inv _ _ _ _ _ _ _ _ He I H1) as I1.
    destruct (term_one_lev epoch lc _ _ _ _ _ _ _ He I H1) as (Hev & Hfr).
    intros Hrest.
    destruct (IH st1 _ st' total' He I1 ltac:(eapply lifel_lev; eauto) Hrest) as [Hl' Hc'].
    split; [exact Hl'|]. destruct Hfr as (_ & Hc & _). congruence.
Qed.

(* cron: every id visited is due, hence scheduled at an epoch <= now and (invariant) >= its start *)
Definition cron_side (epoch : Z) (st : state) (a : cracc) : Prop :=
  forall x, In x (cr_new a) -> epoch < fst x /\ snd x < next_id st /\
            forall p, proposals st !! snd x = Some p -> p_start p < epoch.

Lemma cron_loop_life epoch ids : forall st a st' a',
  0 <= epoch -> cron_inv epoch st a -> LifeL epoch st (states st) -> cron_side epoch st a ->
  (forall id p, In id ids -> proposals st !! id = Some p -> p_start p <= epoch) ->
  cron_loop epoch st a ids = Ok st' a' ->
  LifeL epoch st' (states st') /\ cron_side epoch st' a' /\
  deal_ops st' = deal_ops st /\ last_cron st' = last_cron st /\ next_id st' = next_id st.
Proof.
  induction ids as [|id ids IH]; intros st a st' a' He I Hl Hside Hdue; cbn [cron_loop].
  - intros [= <- <-]. auto.
  - destruct (cron_one epoch st a id) as [st1 a1|] eqn:H1; [|discriminate]. cbn [bind].
    pose proof (cron_one_inv _ _ _ _ _ _ He I H1) as I1.
    destruct (cron_one_lev epoch _ _ _ _ _ He I
                (fun p ds Hp Hs Hlu => lf_upd _ _ _ _ _ _ _ Hl id p ds Hp Hs Hlu)
                (fun p Hp => Hdue id p (or_introl eq_refl) Hp)
                (lf_ivl _ _ _ _ _ _ _ Hl) H1) as (Hev & Ho & Hc & Hn & Hi & Hnew).
    assert (Hl1 : LifeL epoch st1 (states st1)) by (eapply lifel_lev; eauto).
    assert (Hsub : forall k q, proposals st1 !! k = Some q -> proposals st !! k = Some q).
    { intros k q Hk. destruct Hev as [HP _ _|? ? ? _ _ _ _ HP _ _|? ? _ HP _ _|? ? ? ? _ _ _ _ HP _ _];
        rewrite HP in Hk; auto. apply lookup_delete_Some in Hk as [_ Hk]. exact Hk. }
    intros Hrest.
    destruct (IH st1 a1 st' a' He I1 Hl1) as (A1 & A2 & A3 & A4 & A5); auto.
    + intros x Hx. destruct (Hnew x Hx) as [Hold|(Hid & Hlt & p & Hp & Hps)].
      * destruct (Hside x Hold) as (B1 & B2 & B3). split; [exact B1|]. split; [lia|].
        intros q Hq. apply B3. now apply Hsub.
      * split; [exact Hlt|]. rewrite Hid. split.
        -- destruct (i_wfP _ _ _ _ _ _ _ _ _ _ _ _ I1 id p Hp) as [_ ?]. lia.
        -- intros q Hq. assert (q = p) as -> by congruence. exact Hps.
    + intros k q Hin Hk. apply (Hdue k q); [now right|now apply Hsub].
    + repeat split; auto; congruence.
Qed.
