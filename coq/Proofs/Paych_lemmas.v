(* Proofs about coq/Model/Paych.v (property C16). *)
From stdpp Require Import gmap.
From Coq Require Import ZArith List Bool Lia.
From VF Require Import Gen.Consts Base.Corr Model.Paych.
Import ListNotations.
Open Scope Z_scope.

Ltac zb :=
  repeat match goal with
  | H : (_ =? _) = true |- _ => apply Z.eqb_eq in H
  | H : (_ =? _) = false |- _ => apply Z.eqb_neq in H
  | H : (_ <? _) = true |- _ => apply Z.ltb_lt in H
  | H : (_ <? _) = false |- _ => apply Z.ltb_ge in H
  | H : (_ <=? _) = true |- _ => apply Z.leb_le in H
  | H : (_ <=? _) = false |- _ => apply Z.leb_gt in H
  | H : negb _ = true |- _ => apply negb_true_iff in H
  | H : negb _ = false |- _ => apply negb_false_iff in H
  | H : (_ && _) = true |- _ => apply andb_true_iff in H; destruct H
  | H : (_ || _) = false |- _ => apply orb_false_iff in H; destruct H
  end.

Definition run (st : state) (ops : list op) : state := fold_left (fun s o => fst (step s o)) ops st.

Lemma run_app st a b : run st (a ++ b) = run (run st a) b.
Proof. unfold run. apply fold_left_app. Qed.

Lemma run_cons st o ops : run st (o :: ops) = run (fst (step st o)) ops.
Proof. reflexivity. Qed.

(* ------------------------------------------------------------------------------------------ *)
(* the merge loop, relationally *)

Inductive Merged (own : Z) : gmap Z lane -> Z -> list (Z * Z) -> gmap Z lane -> Z -> Prop :=
| Merged_nil ls acc : Merged own ls acc [] ls acc
| Merged_cons ls acc ml mn other rest ls' acc' :
    ml <> own -> ml <= MAX_LANE ->
    ls !! ml = Some other ->
    lnonce other < mn ->
    Merged own (<[ ml := {| redeemed := redeemed other; lnonce := mn |} ]> ls)
           (acc + redeemed other) rest ls' acc' ->
    Merged own ls acc ((ml, mn) :: rest) ls' acc'.

Lemma do_merges_spec own ms : forall ls acc ls' acc',
  do_merges own ls acc ms = Some (ls', acc') <-> Merged own ls acc ms ls' acc'.
Proof.
  induction ms as [|[ml mn] rest IH]; intros ls acc ls' acc'; cbn [do_merges].
  - split.
    + intros H; inversion H; subst; constructor.
    + intros H; inversion H; subst; reflexivity.
  - split.
    + destruct (ml =? own) eqn:E1; [discriminate|].
      unfold find_lane. destruct (MAX_LANE <? ml) eqn:E2; [discriminate|].
      destruct (ls !! ml) as [other|] eqn:E3; [|discriminate].
      destruct (mn <=? lnonce other) eqn:E4; [discriminate|].
      intros H. apply IH in H. zb. econstructor; eauto.
    + intros H; inversion H; subst.
      destruct (ml =? own) eqn:E1; [zb; contradiction|].
      unfold find_lane. destruct (MAX_LANE <? ml) eqn:E2; [zb; lia|].
      match goal with H : ls !! ml = Some _ |- _ => rewrite H end.
      destruct (mn <=? lnonce other) eqn:E4; [zb; lia|].
      apply IH. assumption.
Qed.

(* merges never touch the own lane, keep every lane, and only raise nonces *)
Lemma Merged_own own ls acc ms ls' acc' :
  Merged own ls acc ms ls' acc' -> ls' !! own = ls !! own.
Proof.
  induction 1 as [|ls acc ml mn other rest ls' acc' Hne Hle Hl Hn HM IH]; [reflexivity|].
  rewrite IH. apply lookup_insert_ne. assumption.
Qed.

Lemma Merged_mono own ls acc ms ls' acc' :
  Merged own ls acc ms ls' acc' ->
  forall l x, ls !! l = Some x ->
    exists y, ls' !! l = Some y /\ lnonce x <= lnonce y /\ redeemed y = redeemed x.
Proof.
  induction 1 as [|ls acc ml mn other rest ls' acc' Hne Hle Hl Hn HM IH]; intros l x Hx.
  - exists x. split; [assumption|lia].
  - destruct (decide (l = ml)) as [->|Hd].
    + rewrite Hl in Hx. inversion Hx; subst x.
      destruct (IH ml {| redeemed := redeemed other; lnonce := mn |}) as (y & Hy & Hn' & Hr).
      { apply lookup_insert. }
      exists y. cbn in *. split; [assumption|]. split; [lia|assumption].
    + destruct (IH l x) as (y & Hy & Hn' & Hr).
      { rewrite lookup_insert_ne by congruence. assumption. }
      exists y. auto.
Qed.

Lemma Merged_dom own ls acc ms ls' acc' :
  Merged own ls acc ms ls' acc' -> forall l, ls !! l = None -> ls' !! l = None.
Proof.
  induction 1 as [|ls acc ml mn other rest ls' acc' Hne Hle Hl Hn HM IH]; intros l Hx; [assumption|].
  apply IH. rewrite lookup_insert_ne; [assumption|]. intros ->. congruence.
Qed.

(* with pairwise distinct merge lanes the subtracted amount is the plain sum over the original table *)
Fixpoint sum_redeemed (ls : gmap Z lane) (ms : list (Z * Z)) : Z :=
  match ms with
  | [] => 0
  | (ml, _) :: r => match ls !! ml with Some l => redeemed l | None => 0 end + sum_redeemed ls r
  end.

Lemma sum_redeemed_insert_notin ls k v ms :
  ~ In k (map fst ms) -> sum_redeemed (<[k := v]> ls) ms = sum_redeemed ls ms.
Proof.
  induction ms as [|[ml mn] r IH]; cbn [sum_redeemed map fst In]; intros Hn; [reflexivity|].
  assert (k <> ml) as Hk by (intros ->; apply Hn; left; reflexivity).
  rewrite (lookup_insert_ne ls k ml v Hk).
  rewrite IH; [reflexivity|]. intros Hin; apply Hn; right; assumption.
Qed.

Lemma Merged_nodup_sum own ls acc ms ls' acc' :
  Merged own ls acc ms ls' acc' -> NoDup (map fst ms) -> acc' = acc + sum_redeemed ls ms.
Proof.
  induction 1 as [|ls acc ml mn other rest ls' acc' Hne Hle Hl Hn HM IH]; intros Hnd.
  - cbn. lia.
  - cbn [map fst] in Hnd. inversion Hnd as [|? ? Hnotin Hnd']; subst.
    cbn [sum_redeemed]. rewrite Hl. rewrite IH by assumption.
    rewrite sum_redeemed_insert_notin by assumption. lia.
Qed.

(* ------------------------------------------------------------------------------------------ *)
(* acceptance condition of update_channel_state *)

Definition other_party (st : state) (caller : Z) : Z :=
  if caller =? from st then to_ st else from st.

Definition own_redeemed (st : state) (l : Z) : Z :=
  match lanes st !! l with Some x => redeemed x | None => 0 end.

Record accept_cond (st : state) (caller epoch : Z) (v : voucher) (slo : bool)
       (ls' : gmap Z lane) (others : Z) : Prop := {
  ac_caller : caller = from st \/ caller = to_ st;
  ac_sig : v_sig v = Some (other_party st caller);
  ac_not_settled : settling_at st = 0 \/ epoch < settling_at st;
  ac_secret_len : slo = true;
  ac_chan : v_chan_ok v = true;
  ac_tl_min : v_tl_min v <= epoch;
  ac_tl_max : v_tl_max v = 0 \/ epoch <= v_tl_max v;
  ac_amount : 0 <= v_amount v;
  ac_secret : v_secret v <> Some false;
  ac_extra : v_extra v = None \/ v_extra v = Some 0;
  ac_lane : v_lane v <= MAX_LANE;
  ac_nonce : forall l, lanes st !! v_lane v = Some l -> lnonce l < v_nonce v;
  ac_merges : Merged (v_lane v) (lanes st) 0 (v_merges v) ls' others;
  ac_low : 0 <= to_send st + v_amount v - own_redeemed st (v_lane v) - others;
  ac_high : to_send st + v_amount v - own_redeemed st (v_lane v) - others <= balance st;
}.

Definition updated (st : state) (v : voucher) (ls' : gmap Z lane) (others : Z) : state :=
  let '(sa, ms) := upd_settle st (v_msh v) in
  {| alive := true; from := from st; to_ := to_ st;
     to_send := to_send st + v_amount v - own_redeemed st (v_lane v) - others;
     settling_at := sa; min_settle := ms;
     lanes := <[ v_lane v := {| redeemed := v_amount v; lnonce := v_nonce v |} ]> ls';
     balance := balance st; paid_to := paid_to st; paid_from := paid_from st |}.

Lemma update_pre_none st caller epoch v slo :
  update_pre st caller epoch v slo = None <->
  (caller = from st \/ caller = to_ st) /\ v_sig v = Some (other_party st caller) /\
  (settling_at st = 0 \/ epoch < settling_at st) /\ slo = true /\ v_chan_ok v = true /\
  v_tl_min v <= epoch /\ (v_tl_max v = 0 \/ epoch <= v_tl_max v) /\ 0 <= v_amount v /\
  v_secret v <> Some false /\ (v_extra v = None \/ v_extra v = Some 0).
Proof.
  split.
  - intros H. unfold update_pre in H. unfold other_party.
    repeat match type of H with
           | context [if ?b then _ else _] => destruct b eqn:?; try discriminate
           | context [match ?o with Some _ => _ | None => _ end] => destruct o eqn:?; try discriminate
           end.
    all: zb.
    all: repeat match goal with
           | H : (_ || _) = true |- _ => apply orb_true_iff in H
           | H : (_ && _) = false |- _ => apply andb_false_iff in H
           end.
    all: repeat split.
    all: try assumption.
    all: try match goal with |- _ <> _ => congruence end.
    all: try match goal with |- Some _ = Some _ => f_equal; lia end.
    all: try (destruct slo; [reflexivity | discriminate]).
    all: try lia.
    all: try (repeat match goal with H : _ \/ _ |- _ => destruct H end; zb; subst;
              first [ left; lia | right; lia | left; reflexivity | right; reflexivity | left; congruence | right; congruence]).
  - intros (Hc & Hsig & Hs & -> & Hch & Hmin & Hmax & Ha & Hsec & Hex).
    unfold update_pre. rewrite Hsig, Hch. unfold other_party. cbn [negb].
    assert (negb ((caller =? from st) || (caller =? to_ st)) = false) as ->.
    { destruct Hc as [->| ->]; rewrite Z.eqb_refl, ?orb_true_r; reflexivity. }
    rewrite Z.eqb_refl. cbn [negb].
    assert (negb (settling_at st =? 0) && (settling_at st <=? epoch) = false) as ->.
    { destruct (settling_at st =? 0) eqn:E0; [reflexivity|]. cbn. zb. apply Z.leb_gt. lia. }
    assert ((epoch <? v_tl_min v) = false) as -> by (apply Z.ltb_ge; lia).
    assert (negb (v_tl_max v =? 0) && (v_tl_max v <? epoch) = false) as ->.
    { destruct (v_tl_max v =? 0) eqn:E0; [reflexivity|]. cbn. zb. apply Z.ltb_ge. lia. }
    assert ((v_amount v <? 0) = false) as -> by (apply Z.ltb_ge; lia).
    destruct (v_secret v) as [[|]|]; try congruence;
      destruct Hex as [-> | ->]; reflexivity.
Qed.

Lemma update_tx_some st v st' :
  update_tx st v = Some st' <->
  exists ls' others,
    v_lane v <= MAX_LANE /\
    (forall l, lanes st !! v_lane v = Some l -> lnonce l < v_nonce v) /\
    Merged (v_lane v) (lanes st) 0 (v_merges v) ls' others /\
    0 <= to_send st + v_amount v - own_redeemed st (v_lane v) - others <= balance st /\
    st' = updated st v ls' others.
Proof.
  unfold update_tx, find_lane, updated, own_redeemed.
  destruct (MAX_LANE <? v_lane v) eqn:El.
  { split; [discriminate|]. intros (? & ? & ? & _); zb; lia. }
  set (ol := lanes st !! v_lane v).
  destruct (match ol with Some l => v_nonce v <=? lnonce l | None => false end) eqn:Est.
  { split; [discriminate|]. intros (? & ? & _ & Hn & _).
    subst ol. destruct (lanes st !! v_lane v) as [l|]; [|discriminate].
    specialize (Hn l eq_refl). zb; lia. }
  destruct (do_merges (v_lane v) (lanes st) 0 (v_merges v)) as [[ls others]|] eqn:Em.
  - apply do_merges_spec in Em.
    set (red := match ol with Some l => redeemed l | None => 0 end).
    destruct (v_amount v - (others + red) + to_send st <? 0) eqn:Elow.
    { split; [discriminate|]. intros (ls2 & o2 & _ & _ & HM & Hb & _).
      apply do_merges_spec in HM, Em. rewrite Em in HM. inversion HM; subst. zb. subst red ol. lia. }
    destruct (balance st <? v_amount v - (others + red) + to_send st) eqn:Ehigh.
    { split; [discriminate|]. intros (ls2 & o2 & _ & _ & HM & Hb & _).
      apply do_merges_spec in HM, Em. rewrite Em in HM. inversion HM; subst. zb. subst red ol. lia. }
    destruct (upd_settle st (v_msh v)) as [sa ms] eqn:Eu.
    split.
    + intros H; inversion H; subst st'. exists ls, others. zb.
      split; [lia|]. split.
      { intros l Hl. subst ol. rewrite Hl in Est. zb. lia. }
      split; [assumption|]. split; [subst red ol; lia|].
      f_equal. subst red ol. lia.
    + intros (ls2 & o2 & _ & _ & HM & Hb & ->).
      apply do_merges_spec in HM, Em. rewrite Em in HM. inversion HM; subst.
      f_equal. f_equal. subst red ol. lia.
  - split; [discriminate|]. intros (ls2 & o2 & _ & _ & HM & _).
    apply do_merges_spec in HM. congruence.
Qed.

Lemma update_pre_code_nonzero st c e v slo x : update_pre st c e v slo = Some x -> x <> OK.
Proof.
  unfold update_pre, OK, FORBIDDEN, ILLEGAL_ARGUMENT, AFTER_SETTLED.
  repeat match goal with
         | |- context [if ?b then _ else _] => destruct b eqn:?
         | |- context [match ?o with Some _ => _ | None => _ end] => destruct o eqn:?
         end; intros H; inversion H; subst; try lia.
  all: zb; assumption.
Qed.

Theorem update_accepts_iff st caller epoch v slo st' :
  update st caller epoch v slo = (st', OK) <->
  exists ls' others, accept_cond st caller epoch v slo ls' others /\ st' = updated st v ls' others.
Proof.
  unfold update.
  destruct (update_pre st caller epoch v slo) as [x|] eqn:Ep.
  - split.
    + intros H; inversion H; subst. exfalso. eapply update_pre_code_nonzero; eauto.
    + intros (ls' & others & [? ? ? ? ? ? ? ? ? ? ? ? ? ? ?] & _).
      assert (update_pre st caller epoch v slo = None) as Hn.
      { apply update_pre_none. repeat split; assumption. }
      congruence.
  - apply update_pre_none in Ep as (? & ? & ? & ? & ? & ? & ? & ? & ? & ?).
    destruct (update_tx st v) as [st2|] eqn:Et.
    + apply update_tx_some in Et as (ls' & others & ? & ? & ? & [? ?] & ->).
      split.
      * intros H'; inversion H'; subst. exists ls', others. split; [constructor; first [assumption|reflexivity] | reflexivity].
      * intros (ls2 & o2 & [? ? ? ? ? ? ? ? ? ? ? ? HM2 ? ?] & ->).
        match goal with HM : Merged _ _ _ _ ls' others |- _ =>
          apply do_merges_spec in HM; apply do_merges_spec in HM2; rewrite HM in HM2; inversion HM2; subst end.
        reflexivity.
    + split; [intros H'; inversion H' |].
      intros (ls2 & o2 & [? ? ? ? ? ? ? ? ? ? ? ? HM2 ? ?] & ->).
      assert (update_tx st v = Some (updated st v ls2 o2)) as Hs.
      { apply update_tx_some. exists ls2, o2. repeat split; auto. }
      congruence.
Qed.

Lemma update_rejected_unchanged st c e v slo st' code :
  update st c e v slo = (st', code) -> code <> OK -> st' = st.
Proof.
  unfold update. destruct (update_pre st c e v slo); [intros H; inversion H; reflexivity|].
  destruct (update_tx st v); intros H; inversion H; subst; [contradiction|reflexivity].
Qed.

Lemma step_rejected_unchanged st o st' code :
  step st o = (st', code) -> code <> OK -> st' = st.
Proof.
  unfold step. destruct (alive st); cbn [negb]; [|intros H; inversion H; reflexivity].
  destruct o as [c e v slo|c e|c e|a].
  - apply update_rejected_unchanged.
  - unfold settle. repeat match goal with |- context [if ?b then _ else _] => destruct b end;
      intros H; inversion H; subst; try reflexivity; contradiction.
  - unfold collect. repeat match goal with |- context [if ?b then _ else _] => destruct b end;
      intros H; inversion H; subst; try reflexivity; contradiction.
  - unfold deposit. destruct (a <? 0); intros H; inversion H; subst; try reflexivity; contradiction.
Qed.

(* ------------------------------------------------------------------------------------------ *)
(* state invariant: 0 <= to_send <= balance while the channel exists *)

Definition Inv (st : state) : Prop :=
  0 <= to_send st /\ (alive st = true -> to_send st <= balance st).

Lemma step_inv st o : Inv st -> Inv (fst (step st o)).
Proof.
  intros [Hlo Hhi]. unfold Inv, step.
  destruct (alive st) eqn:Ea; cbn [negb]; [|split; cbn; auto; congruence].
  specialize (Hhi eq_refl).
  destruct o as [c e v slo|c e|c e|a].
  - destruct (update st c e v slo) as [st' code] eqn:Eu. cbn [fst].
    destruct (Z.eq_dec code OK) as [->|Hne].
    + apply update_accepts_iff in Eu as (ls' & others & [? ? ? ? ? ? ? ? ? ? ? ? ? ? ?] & ->).
      unfold updated. destruct (upd_settle st (v_msh v)). split; cbn; intros; lia.
    + apply update_rejected_unchanged in Eu; [|assumption]. subst. split; auto.
  - unfold settle. repeat match goal with |- context [if ?b then _ else _] => destruct b end;
      cbn; split; auto; intros; assumption.
  - unfold collect. repeat match goal with |- context [if ?b then _ else _] => destruct b end;
      cbn; split; auto; intros; try assumption; discriminate.
  - unfold deposit. destruct (a <? 0) eqn:E; cbn; split; auto; intros; try assumption. zb. cbn. lia.
Qed.

Lemma run_inv ops : forall st, Inv st -> Inv (run st ops).
Proof.
  induction ops as [|o ops IH]; intros st H; [exact H|].
  rewrite run_cons. apply IH. apply step_inv. exact H.
Qed.

Theorem to_send_bounds f t bal ops :
  0 <= bal -> let st := run (init f t bal) ops in
  0 <= to_send st /\ (alive st = true -> to_send st <= balance st).
Proof. intros Hb. apply run_inv. split; cbn; intros; lia. Qed.

(* ------------------------------------------------------------------------------------------ *)
(* lane nonces never decrease and lanes are never removed: no voucher can be replayed *)

Definition lanes_le (a b : gmap Z lane) : Prop :=
  forall l x, a !! l = Some x -> exists y, b !! l = Some y /\ lnonce x <= lnonce y.

Lemma lanes_le_refl a : lanes_le a a.
Proof. intros l x H; exists x; split; [assumption|lia]. Qed.

Lemma lanes_le_trans a b c : lanes_le a b -> lanes_le b c -> lanes_le a c.
Proof.
  intros H1 H2 l x Hx. destruct (H1 l x Hx) as (y & Hy & ?).
  destruct (H2 l y Hy) as (z & Hz & ?). exists z; split; [assumption|lia].
Qed.

Lemma step_lanes_le st o : lanes_le (lanes st) (lanes (fst (step st o))).
Proof.
  unfold step. destruct (alive st); cbn [negb fst]; [|apply lanes_le_refl].
  destruct o as [c e v slo|c e|c e|a].
  - destruct (update st c e v slo) as [st' code] eqn:Eu. cbn [fst].
    destruct (Z.eq_dec code OK) as [->|Hne].
    + apply update_accepts_iff in Eu as (ls' & others & [? ? ? ? ? ? ? ? ? ? ? Hn HM ? ?] & ->).
      unfold updated. destruct (upd_settle st (v_msh v)). cbn [lanes].
      intros l x Hx. destruct (decide (l = v_lane v)) as [->|Hd].
      * rewrite lookup_insert. eexists; split; [reflexivity|]. cbn. specialize (Hn x Hx). lia.
      * rewrite lookup_insert_ne by congruence.
        destruct (Merged_mono _ _ _ _ _ _ HM l x Hx) as (y & Hy & ? & _). exists y; auto.
    + apply update_rejected_unchanged in Eu; [|assumption]. subst. apply lanes_le_refl.
  - unfold settle. repeat match goal with |- context [if ?b then _ else _] => destruct b end;
      cbn; apply lanes_le_refl.
  - unfold collect. repeat match goal with |- context [if ?b then _ else _] => destruct b end;
      cbn; apply lanes_le_refl.
  - unfold deposit. destruct (a <? 0); cbn; apply lanes_le_refl.
Qed.

Lemma run_lanes_le ops : forall st, lanes_le (lanes st) (lanes (run st ops)).
Proof.
  induction ops as [|o ops IH]; intros st; [apply lanes_le_refl|].
  rewrite run_cons. eapply lanes_le_trans; [apply step_lanes_le | apply IH].
Qed.

Theorem nonce_monotone st ops l x :
  lanes st !! l = Some x -> exists y, lanes (run st ops) !! l = Some y /\ lnonce x <= lnonce y.
Proof. apply run_lanes_le. Qed.

Theorem no_replay st c e v slo st1 :
  update st c e v slo = (st1, OK) ->
  forall ops c' e' slo', snd (step (run st1 ops) (Update c' e' v slo')) <> OK.
Proof.
  intros Hu ops c' e' slo'.
  apply update_accepts_iff in Hu as (ls' & others & _ & ->).
  assert (exists x, lanes (updated st v ls' others) !! v_lane v = Some x /\ lnonce x = v_nonce v) as (x & Hx & Hxn).
  { unfold updated. destruct (upd_settle st (v_msh v)). cbn [lanes]. rewrite lookup_insert. eauto. }
  destruct (nonce_monotone _ ops _ _ Hx) as (y & Hy & Hle).
  unfold step. destruct (alive (run (updated st v ls' others) ops)); cbn [negb]; [|cbn; unfold GONE, OK; lia].
  destruct (update (run (updated st v ls' others) ops) c' e' v slo') as [st2 code] eqn:Eu. cbn [snd].
  intros ->. apply update_accepts_iff in Eu as (? & ? & [? ? ? ? ? ? ? ? ? ? ? Hn ? ? ?] & _).
  specialize (Hn y Hy). lia.
Qed.

(* ------------------------------------------------------------------------------------------ *)
(* settlement: ghost history (epoch of the accepted settle, largest accepted min_settle_height) *)

Record ghost := { g_settle : option Z; g_msh : Z }.

Definition gstep (sg : state * ghost) (o : op) : state * ghost :=
  let '(st, g) := sg in
  let '(st', code) := step st o in
  if code =? OK then
    match o with
    | Settle _ e => (st', {| g_settle := Some e; g_msh := g_msh g |})
    | Update _ _ v _ => (st', {| g_settle := g_settle g; g_msh := Z.max (g_msh g) (v_msh v) |})
    | _ => (st', g)
    end
  else (st', g).

Definition grun (sg : state * ghost) (ops : list op) : state * ghost := fold_left gstep ops sg.

Definition op_epoch_nonneg (o : op) : Prop :=
  match o with
  | Update _ e v _ => 0 <= e /\ 0 <= v_msh v
  | Settle _ e => 0 <= e
  | Collect _ e => 0 <= e
  | Deposit _ => True
  end.

Definition GInv (sg : state * ghost) : Prop :=
  let '(st, g) := sg in
  0 <= min_settle st /\ 0 <= settling_at st /\
  g_msh g <= min_settle st /\
  (settling_at st <> 0 -> min_settle st <= settling_at st) /\
  match g_settle g with
  | None => settling_at st = 0
  | Some e => settling_at st <> 0 /\ e + SETTLE_DELAY <= settling_at st
  end.

Lemma gstep_fst sg o : fst (gstep sg o) = fst (step (fst sg) o).
Proof.
  destruct sg as [st g]. unfold gstep. cbn [fst]. destruct (step st o) as [st' code].
  destruct (code =? OK); destruct o; reflexivity.
Qed.

Lemma SETTLE_DELAY_pos : 0 < SETTLE_DELAY.
Proof. reflexivity. Qed.

Lemma gstep_inv sg o : op_epoch_nonneg o -> GInv sg -> GInv (gstep sg o).
Proof.
  destruct sg as [st g]. intros Hop (Hm0 & Hs0 & Hg & Hsm & Hgs). unfold gstep.
  destruct (step st o) as [st' code] eqn:Es.
  destruct (code =? OK) eqn:Ec.
  2:{ zb. apply step_rejected_unchanged in Es; [|assumption]. subst. repeat split; assumption. }
  zb. subst code. unfold step in Es. destruct (alive st); cbn [negb] in Es; [|inversion Es].
  pose proof SETTLE_DELAY_pos as Hpos.
  destruct o as [c e v slo|c e|c e|a].
  - apply update_accepts_iff in Es as (ls' & others & _ & ->).
    destruct Hop as [He Hmsh].
    unfold updated, upd_settle.
    destruct (v_msh v =? 0) eqn:E0; [|destruct (settling_at st =? 0) eqn:E1; cbn [negb andb];
      [|destruct (settling_at st <? v_msh v) eqn:E3]; destruct (min_settle st <? v_msh v) eqn:E2];
    zb; cbn; destruct (g_settle g) as [e0|]; repeat split; try lia; try (destruct Hgs; lia).
  - unfold settle in Es.
    destruct (negb ((c =? from st) || (c =? to_ st))); [inversion Es; discriminate|].
    destruct (negb (settling_at st =? 0)) eqn:E1; [inversion Es; discriminate|].
    zb. cbn in Hop.
    destruct (e + SETTLE_DELAY <? min_settle st) eqn:E2; inversion Es; subst st'; zb; cbn; repeat split; try lia.
  - unfold collect in Es.
    repeat match type of Es with context [if ?b then _ else _] => destruct b end;
      inversion Es; subst; try discriminate. cbn. repeat split; assumption.
  - unfold deposit in Es. destruct (a <? 0); inversion Es; subst; try discriminate. cbn. repeat split; assumption.
Qed.

Lemma grun_inv ops : forall sg, Forall op_epoch_nonneg ops -> GInv sg -> GInv (grun sg ops).
Proof.
  induction ops as [|o ops IH]; intros sg HF H; [exact H|].
  inversion HF; subst. cbn [grun fold_left]. apply IH; [assumption|]. apply gstep_inv; assumption.
Qed.

Definition ginit (f t bal : Z) : state * ghost := (init f t bal, {| g_settle := None; g_msh := 0 |}).

Lemma ginit_inv f t bal : GInv (ginit f t bal).
Proof. cbn. repeat split; lia. Qed.

(* collect succeeds only after the settle delay counted from the accepted Settle, and not before
   any min_settle_height carried by an accepted voucher *)
Theorem settle_delay f t bal ops c e st' :
  Forall op_epoch_nonneg ops ->
  let '(st, g) := grun (ginit f t bal) ops in
  collect st c e = (st', OK) ->
  (c = from st \/ c = to_ st) /\
  exists es, g_settle g = Some es /\ es + SETTLE_DELAY <= e /\ g_msh g <= e /\ settling_at st <= e.
Proof.
  intros HF. pose proof (grun_inv ops (ginit f t bal) HF (ginit_inv f t bal)) as HI.
  destruct (grun (ginit f t bal) ops) as [st g]. destruct HI as (Hm0 & Hs0 & Hg & Hsm & Hgs).
  unfold collect. destruct ((c =? from st) || (c =? to_ st)) eqn:Ec; cbn [negb]; [|intros H; inversion H; discriminate].
  destruct (settling_at st =? 0) eqn:E0; cbn [orb]; [intros H; inversion H; discriminate|].
  destruct (e <? settling_at st) eqn:E1; [intros H; inversion H; discriminate|].
  intros _. zb. split.
  { apply orb_true_iff in Ec as [|]; zb; auto. }
  destruct (g_settle g) as [es|]; [|contradiction].
  destruct Hgs. specialize (Hsm E0). exists es. repeat split; lia.
Qed.

Theorem settling_at_monotone st o :
  op_epoch_nonneg o -> settling_at st <> 0 ->
  settling_at st <= settling_at (fst (step st o)) .
Proof.
  intros Hop Hs. destruct (step st o) as [st' code] eqn:Es. cbn [fst].
  destruct (Z.eq_dec code OK) as [->|Hne].
  2:{ apply step_rejected_unchanged in Es; [|assumption]. subst. lia. }
  unfold step in Es. destruct (alive st); cbn [negb] in Es; [|inversion Es].
  destruct o as [c e v slo|c e|c e|a].
  - apply update_accepts_iff in Es as (ls' & others & _ & ->).
    unfold updated, upd_settle. destruct (v_msh v =? 0); cbn; [lia|].
    destruct (settling_at st =? 0) eqn:E1; cbn [negb andb]; [zb; contradiction|].
    destruct (settling_at st <? v_msh v) eqn:E3; destruct (min_settle st <? v_msh v); zb; cbn; lia.
  - unfold settle in Es. destruct (negb ((c =? from st) || (c =? to_ st))); [inversion Es; discriminate|].
    destruct (negb (settling_at st =? 0)) eqn:E1; [inversion Es; discriminate|]. zb. contradiction.
  - unfold collect in Es.
    repeat match type of Es with context [if ?b then _ else _] => destruct b end;
      inversion Es; subst; try discriminate; cbn; lia.
  - unfold deposit in Es. destruct (a <? 0); inversion Es; subst; cbn; lia.
Qed.

Theorem collect_payout st c e st' :
  collect st c e = (st', OK) ->
  paid_to st' = paid_to st + to_send st /\
  paid_from st' = paid_from st + (balance st - to_send st) /\
  alive st' = false /\ balance st' = 0 /\
  0 <= to_send st <= balance st.
Proof.
  unfold collect.
  destruct (negb ((c =? from st) || (c =? to_ st))); [intros H; inversion H; discriminate|].
  destruct ((settling_at st =? 0) || (e <? settling_at st)); [intros H; inversion H; discriminate|].
  destruct ((to_send st <? 0) || (balance st <? to_send st)) eqn:Eb; [intros H; inversion H; discriminate|].
  intros H; inversion H; subst; cbn. zb. repeat split; lia.
Qed.

(* only Collect pays anything out *)
Theorem payout_only_by_collect st o :
  (forall c e, o <> Collect c e) ->
  paid_to (fst (step st o)) = paid_to st /\ paid_from (fst (step st o)) = paid_from st.
Proof.
  intros Hn. destruct (step st o) as [st' code] eqn:Es. cbn [fst].
  destruct (Z.eq_dec code OK) as [->|Hne].
  2:{ apply step_rejected_unchanged in Es; [|assumption]. subst. auto. }
  unfold step in Es. destruct (alive st); cbn [negb] in Es; [|inversion Es].
  destruct o as [c e v slo|c e|c e|a].
  - apply update_accepts_iff in Es as (ls' & others & _ & ->).
    unfold updated. destruct (upd_settle st (v_msh v)). cbn. auto.
  - unfold settle in Es.
    repeat match type of Es with context [if ?b then _ else _] => destruct b end;
      inversion Es; subst; cbn; auto.
  - exfalso. eapply Hn. reflexivity.
  - unfold deposit in Es. destruct (a <? 0); inversion Es; subst; cbn; auto.
Qed.

(* the acceptance theorem restated with the plain per-lane sum when merge lanes are distinct *)
Theorem update_delta_nodup st c e v slo st' :
  update st c e v slo = (st', OK) -> NoDup (map fst (v_merges v)) ->
  to_send st' - to_send st =
    v_amount v - own_redeemed st (v_lane v) - sum_redeemed (lanes st) (v_merges v).
Proof.
  intros Hu Hnd. apply update_accepts_iff in Hu as (ls' & others & [? ? ? ? ? ? ? ? ? ? ? ? HM ? ?] & ->).
  apply Merged_nodup_sum in HM; [|assumption]. unfold updated. destruct (upd_settle st (v_msh v)). cbn. lia.
Qed.
