(* Proofs about coq/Model/ClaimTerms.v (property C10). *)
From stdpp Require Import gmap.
From Coq Require Import ZArith List Bool Lia Sorting.Sorted.
From VF Require Import Gen.Consts Gen.VerifregConsts Base.Corr Base.MapSum Model.Verifreg
  Proofs.Verifreg_lemmas Model.ClaimTerms.
Import ListNotations.
Open Scope Z_scope.

(* ---------- sums over two related maps ---------- *)
Lemma msum_nonneg {K} `{Countable K} {A} (f : A -> Z) (m : gmap K A) :
  (forall k x, m !! k = Some x -> 0 <= f x) -> 0 <= msum f m.
Proof.
  induction m as [|i x m Hi IH] using map_ind; intros Hf.
  - rewrite msum_empty. lia.
  - rewrite msum_insert_new by exact Hi.
    assert (0 <= f x) by (apply (Hf i); apply lookup_insert).
    assert (0 <= msum f m).
    { apply IH. intros k y Hk. apply (Hf k). rewrite lookup_insert_ne; [exact Hk|]. intros ->. congruence. }
    lia.
Qed.

Lemma msum_le {K} `{Countable K} {A B} (f : A -> Z) (g : B -> Z) (m : gmap K A) (m' : gmap K B) :
  (forall k, from_option f 0 (m !! k) <= from_option g 0 (m' !! k)) -> msum f m <= msum g m'.
Proof.
  revert m'. induction m as [|i x m Hi IH] using map_ind; intros m' Hp.
  - rewrite msum_empty. apply msum_nonneg. intros k y Hk. specialize (Hp k).
    rewrite lookup_empty, Hk in Hp. exact Hp.
  - rewrite msum_insert_new by exact Hi.
    assert (Hm' : msum g m' = from_option g 0 (m' !! i) + msum g (delete i m')).
    { rewrite msum_delete'. lia. }
    rewrite Hm'.
    assert (H1 : f x <= from_option g 0 (m' !! i)).
    { specialize (Hp i). rewrite lookup_insert in Hp. exact Hp. }
    assert (H2 : msum f m <= msum g (delete i m')).
    { apply IH. intros k. destruct (decide (k = i)) as [->|Hne].
      - rewrite Hi, lookup_delete. cbn. lia.
      - rewrite lookup_delete_ne by congruence. specialize (Hp k).
        rewrite lookup_insert_ne in Hp by congruence. exact Hp. }
    lia.
Qed.

(* ---------- coverage ---------- *)
Definition covf (p n x : Z) (c : claim) : Z :=
  if (c_provider c =? p) && (c_sector c =? n) && (x <=? c_tstart c + c_tmax c) then c_size c else 0.

Definition cov (cl : gmap (Z * Z) claim) (p n x : Z) : Z := msum (covf p n x) cl.

Definition claim_sizes_ok (cl : gmap (Z * Z) claim) : Prop := forall k c, cl !! k = Some c -> 0 <= c_size c.
Definition alloc_sizes_ok (al : gmap (Z * Z) alloc) : Prop := forall k a, al !! k = Some a -> 0 <= a_size a.

(* how the claims table may change in one message sent at epoch e *)
Definition claims_le (e : Z) (cl cl' : gmap (Z * Z) claim) : Prop :=
  forall k c, cl !! k = Some c ->
    (exists c', cl' !! k = Some c' /\ claim_ext c c') \/ (cl' !! k = None /\ claim_expiration c <= e).

Lemma claims_le_refl e cl : claims_le e cl cl.
Proof. intros k c Hk. left. exists c. split; [exact Hk|apply claim_ext_refl]. Qed.

Lemma claims_rel_le e cl cl' : claims_rel cl cl' -> claims_le e cl cl'.
Proof.
  intros Hr k c Hk. specialize (Hr k). destruct (cl' !! k) as [v'|] eqn:E.
  - destruct Hr as (v & Hv & He). left. exists v'. split; [reflexivity|congruence].
  - congruence.
Qed.

Lemma covf_ext p n x c c' : claim_ext c c' -> 0 <= c_size c -> covf p n x c <= covf p n x c'.
Proof.
  intros [He Hle] Hs. unfold covf. rewrite He. cbn.
  destruct ((c_provider c =? p) && (c_sector c =? n)); cbn; [|lia].
  destruct (x <=? c_tstart c + c_tmax c) eqn:E1; destruct (x <=? c_tstart c + c_tmax c') eqn:E2; try lia.
  all: apply Z.leb_le in E1; apply Z.leb_gt in E2; lia.
Qed.

Lemma cov_mono e cl cl' p n x :
  claims_le e cl cl' -> claim_sizes_ok cl -> claim_sizes_ok cl' -> e < x ->
  cov cl p n x <= cov cl' p n x.
Proof.
  intros Hle Hs Hs' Hx. unfold cov. apply msum_le. intros k.
  destruct (cl !! k) as [c|] eqn:Ek; cbn.
  - destruct (Hle k c Ek) as [(c' & Hc' & He)|[Hn Hexp]].
    + rewrite Hc'. cbn. apply covf_ext; [exact He|eapply Hs; eauto].
    + rewrite Hn. cbn. unfold covf. unfold claim_expiration in Hexp.
      destruct ((c_provider c =? p) && (c_sector c =? n)); cbn; [|lia].
      destruct (x <=? c_tstart c + c_tmax c) eqn:E; [apply Z.leb_le in E; lia|lia].
  - destruct (cl' !! k) as [c'|] eqn:Ek'; cbn; [|lia].
    unfold covf. specialize (Hs' k c' Ek'). destruct (_ && _); lia.
Qed.

(* ---------- every registry message: claims only grow in term_max, or are removed after expiry ---------- *)
Definition op_epoch (o : op) : Z :=
  match o with
  | Transfer e _ _ _ _ | TransferFrom e _ _ _ _ _ | ClaimAllocs e _ _ _ | RemoveExpAllocs e _ _ _
  | RemoveExpClaims e _ _ _ => e
  | _ => 0
  end.

Definition removes_claims (o : op) : bool := match o with RemoveExpClaims _ _ _ _ => true | _ => false end.

Lemma deliver_claims_rel st e from to am p st' ids ev :
  deliver st e from to am p = Ok (st', ids, ev) -> allocs_wf (reg st) -> claims_wf (reg st) ->
  1 <= next_id (reg st) -> claims_rel (claims (reg st)) (claims (reg st')).
Proof.
  unfold deliver. intros H Ha Hc Hn. destruct (to =? VR).
  - apply receiver_hook_spec in H as (ars & ers & ups & _ & _ & HF & _ & _ & _ & _ & _ & _ & Hcl & _).
    rewrite Hcl. destruct (hook_registry (reg st) e ars ers ups from Ha Hc Hn HF) as (_ & _ & _ & _ & W5).
    exact W5.
  - destruct (_ =? OK); [|discriminate]. injection H as <- _ _. apply claims_rel_refl.
Qed.

(* claims present before are still there, at most with a larger term_max, unless the message is a
   RemoveExpiredClaims sent at or after their term's end *)
Theorem exec_claims_le st o st' r ev :
  exec st o = Ok (st', r, ev) -> reg_inv st ->
  claims_le (op_epoch o) (claims (reg st)) (claims (reg st')) /\
  (removes_claims o = false -> forall k c, claims (reg st) !! k = Some c ->
      exists c', claims (reg st') !! k = Some c' /\ claim_ext c c').
Proof.
  intros H I.
  assert (Hrel : claims_rel (claims (reg st)) (claims (reg st')) ->
                 claims_le (op_epoch o) (claims (reg st)) (claims (reg st')) /\
                 (removes_claims o = false -> forall k c, claims (reg st) !! k = Some c ->
                    exists c', claims (reg st') !! k = Some c' /\ claim_ext c c')).
  { intros Hr. split; [apply claims_rel_le; exact Hr|]. intros _ k c Hk.
    destruct (claims_rel_le 0 _ _ Hr k c Hk) as [Hx|[Hn _]]; [exact Hx|].
    specialize (Hr k). rewrite Hn in Hr. congruence. }
  destruct o; cbn [exec] in H.
  - unfold add_verifier in H. rinv H. injection H as <- _ _. apply Hrel, claims_rel_refl.
  - unfold remove_verifier in H. rinv H. injection H as <- _ _. apply Hrel, claims_rel_refl.
  - unfold add_verified_client in H. rinv H. injection H as <- _ _. apply Hrel, claims_rel_refl.
  - unfold remove_data_cap in H. rinv H. injection H as <- _ _. apply Hrel, claims_rel_refl.
  - apply rbind_ok in H as ([[s i] v] & H & H2). cbn in H2. injection H2 as <- _ _.
    unfold dc_transfer in H. destruct (negb _); [discriminate|].
    apply rbind_ok in H as (t1 & _ & Hd). apply Hrel.
    apply (deliver_claims_rel _ _ _ _ _ _ _ _ _ Hd); apply I.
  - apply rbind_ok in H as ([[s i] v] & H & H2). cbn in H2. injection H2 as <- _ _.
    unfold dc_transfer_from in H. destruct (negb _); [discriminate|].
    apply rbind_ok in H as (t1 & _ & Hd). apply Hrel.
    apply (deliver_claims_rel _ _ _ _ _ _ _ _ _ Hd); apply I.
  - apply claim_allocations_spec in H as (_ & K & acc & HK & _ & _ & Hreg & _).
    assert (Hm : forall k c, claims (reg st) !! k = Some c ->
                 exists c', claims (reg st') !! k = Some c' /\ claim_ext c c').
    { intros k c Hk. exists c. rewrite Hreg. cbn. split; [apply (pg_mono _ _ _ _ _ _ _ HK); exact Hk|apply claim_ext_refl]. }
    split; [intros k c Hk; left; apply Hm; exact Hk|intros _; exact Hm].
  - apply remove_expired_allocations_spec in H as (_ & _ & _ & _ & _ & Hreg & _).
    apply Hrel. rewrite Hreg. cbn. apply claims_rel_refl.
  - apply remove_expired_claims_spec in H as (_ & _ & _ & Hreg & _). rewrite Hreg. cbn [claims op_epoch].
    split; [|discriminate]. intros k c Hk. rewrite del_all_lookup.
    destruct (decide (k ∈ _)) as [Hin|Hn].
    + right. split; [reflexivity|]. apply elem_of_list_In, in_map_iff in Hin as (i & <- & Hi).
      destruct (to_remove_of_In _ _ _ _ _ _ Hi) as (x & Hx & Hexp). congruence.
    + left. exists c. split; [exact Hk|apply claim_ext_refl].
  - unfold extend_claim_terms in H. destruct (extend_terms _ _ _ _ _) as [[cl codes] ev0] eqn:Ee.
    injection H as <- _ _. cbn. apply Hrel. eapply extend_terms_rel. exact Ee.
  - unfold get_claims in H. injection H as <- _ _. apply Hrel, claims_rel_refl.
  - apply rbind_ok in H as (t & _ & H). injection H as <- _ _. apply Hrel, claims_rel_refl.
  - apply rbind_ok in H as (t & _ & H). injection H as <- _ _. apply Hrel, claims_rel_refl.
  - destruct (delta <? 0); [discriminate|]. injection H as <- _ _. apply Hrel, claims_rel_refl.
  - destruct (delta <? 0); [discriminate|]. injection H as <- _ _. apply Hrel, claims_rel_refl.
  - injection H as <- _ _. apply Hrel, claims_rel_refl.
Qed.

(* ---------- sizes are non-negative ---------- *)
Definition sizes_ok (r : registry) : Prop := alloc_sizes_ok (allocs r) /\ claim_sizes_ok (claims r).

Lemma MIN_SIZE_nonneg : 0 <= MINIMUM_VERIFIED_ALLOCATION_SIZE.
Proof. vm_compute. discriminate. Qed.

Lemma valid_areq_size w e r : valid_areq w e r = true -> 0 <= rq_size r.
Proof.
  unfold valid_areq. rewrite !andb_true_iff. intros [[[[[[H _] _] _] _] _] _].
  apply negb_true_iff, Z.ltb_ge in H. pose proof MIN_SIZE_nonneg. lia.
Qed.

Lemma claims_rel_sizes cl cl' : claims_rel cl cl' -> claim_sizes_ok cl -> claim_sizes_ok cl'.
Proof.
  intros Hr Hs k c' Hk. specialize (Hr k). rewrite Hk in Hr. destruct Hr as (v & Hv & He & _).
  rewrite He. cbn. eapply Hs; eauto.
Qed.

Lemma deliver_sizes st e from to am p st' ids ev :
  deliver st e from to am p = Ok (st', ids, ev) -> allocs_wf (reg st) -> claims_wf (reg st) ->
  1 <= next_id (reg st) -> sizes_ok (reg st) -> sizes_ok (reg st').
Proof.
  intros H Ha Hc Hn [Sa Sc]. pose proof (deliver_claims_rel _ _ _ _ _ _ _ _ _ H Ha Hc Hn) as Hrel.
  split; [|eapply claims_rel_sizes; eauto].
  unfold deliver in H. destruct (to =? VR).
  - apply receiver_hook_spec in H as (ars & ers & ups & _ & Hv & _ & _ & _ & _ & _ & _ & Hal & _).
    rewrite Hal. intros [c i] a. rewrite insert_allocs_lookup. destruct (decide _) as [[-> Hr]|_]; [|apply Sa].
    destruct (nth_error ars _) as [rq|] eqn:En; cbn; [|discriminate]. intros [= <-]. cbn.
    rewrite forallb_forall in Hv. eapply valid_areq_size, Hv, nth_error_In; eauto.
  - destruct (_ =? OK); [|discriminate]. injection H as <- _ _. exact Sa.
Qed.

Theorem exec_sizes st o st' r ev :
  exec st o = Ok (st', r, ev) -> reg_inv st -> sizes_ok (reg st) -> sizes_ok (reg st').
Proof.
  intros H I S. pose proof S as [Sa Sc]. destruct o; cbn [exec] in H.
  - unfold add_verifier in H. rinv H. injection H as <- _ _. exact S.
  - unfold remove_verifier in H. rinv H. injection H as <- _ _. exact S.
  - unfold add_verified_client in H. rinv H. injection H as <- _ _. exact S.
  - unfold remove_data_cap in H. rinv H. injection H as <- _ _. exact S.
  - apply rbind_ok in H as ([[s i] v] & H & H2). cbn in H2. injection H2 as <- _ _.
    unfold dc_transfer in H. destruct (negb _); [discriminate|].
    apply rbind_ok in H as (t1 & _ & Hd). apply (deliver_sizes _ _ _ _ _ _ _ _ _ Hd); try apply I; exact S.
  - apply rbind_ok in H as ([[s i] v] & H & H2). cbn in H2. injection H2 as <- _ _.
    unfold dc_transfer_from in H. destruct (negb _); [discriminate|].
    apply rbind_ok in H as (t1 & _ & Hd). apply (deliver_sizes _ _ _ _ _ _ _ _ _ Hd); try apply I; exact S.
  - apply claim_allocations_spec in H as (_ & K & acc & HK & _ & _ & Hreg & _). rewrite Hreg. split; cbn.
    + intros k a Hk. rewrite (pg_allocs _ _ _ _ _ _ _ HK) in Hk. apply del_all_lookup_Some in Hk. eapply Sa; eauto.
    + intros k c Hk. destruct (pg_new _ _ _ _ _ _ _ HK _ _ Hk) as [Hold|(i & -> & Hi & _)]; [eapply Sc; eauto|].
      apply in_map_iff in Hi as ([c0 i0] & Hi0 & HinK). cbn in Hi0. subst i0.
      destruct (pg_wit _ _ _ _ _ _ _ HK c0 i HinK) as (g & ac & a & _ & _ & _ & _ & Ha & _ & Hcl).
      rewrite Hcl in Hk. injection Hk as <-. cbn. eapply Sa; eauto.
  - apply remove_expired_allocations_spec in H as (_ & _ & _ & _ & _ & Hreg & _). rewrite Hreg. split; cbn; [|exact Sc].
    intros k a Hk. apply del_all_lookup_Some in Hk. eapply Sa; eauto.
  - apply remove_expired_claims_spec in H as (_ & _ & _ & Hreg & _). rewrite Hreg. split; cbn; [exact Sa|].
    intros k c Hk. apply del_all_lookup_Some in Hk. eapply Sc; eauto.
  - unfold extend_claim_terms in H. destruct (extend_terms _ _ _ _ _) as [[cl codes] ev0] eqn:Ee.
    injection H as <- _ _. split; cbn; [exact Sa|]. eapply claims_rel_sizes; [eapply extend_terms_rel; exact Ee|exact Sc].
  - unfold get_claims in H. injection H as <- _ _. exact S.
  - apply rbind_ok in H as (t & _ & H). injection H as <- _ _. exact S.
  - apply rbind_ok in H as (t & _ & H). injection H as <- _ _. exact S.
  - destruct (delta <? 0); [discriminate|]. injection H as <- _ _. exact S.
  - destruct (delta <? 0); [discriminate|]. injection H as <- _ _. exact S.
  - injection H as <- _ _. exact S.
Qed.

(* ---------- the validator as it was before fix 081fc6c, kept as a proof device: the repaired
   validator accepts only messages on which the old one computes the same spaces ---------- *)
Fixpoint acc_sclaims0 (cl : gmap (Z * Z) claim) (provider new_exp : Z) (scs : list sclaim)
    (m : gmap Z (Z * Z)) : R (gmap Z (Z * Z)) :=
  match scs with
  | [] => Ok m
  | sc :: rest =>
      match lookup_claims cl provider (sc_maintain sc ++ sc_drop sc) with
      | None => Err ILLEGAL_ARGUMENT
      | Some cs =>
          let? m1 := acc_claims provider new_exp (sc_sector sc) cs O (length (sc_maintain sc)) m in
          acc_sclaims0 cl provider new_exp rest m1
      end
  end.

Fixpoint validate_decls0 (cl : gmap (Z * Z) claim) (provider : Z) (ds : list edecl)
    (m : gmap Z (Z * Z)) : R (gmap Z (Z * Z)) :=
  match ds with
  | [] => Ok m
  | d :: rest =>
      if WPOST_PERIOD_DEADLINES <=? ed_deadline d then Err ILLEGAL_ARGUMENT else
      let? m1 := acc_sclaims0 cl provider (ed_new_exp d) (ed_claims d) m in
      validate_decls0 cl provider rest m1
  end.

(* ---------- validate_extension_declarations ---------- *)
Lemma lookup_claims_spec cl p ids cs :
  lookup_claims cl p ids = Some cs -> Forall2 (fun id c => cl !! (p, id) = Some c) ids cs.
Proof.
  revert cs. induction ids as [|i r IH]; intros cs H; cbn in H.
  - injection H as <-. constructor.
  - destruct (cl !! (p, i)) as [c|] eqn:Ec; [|discriminate].
    destruct (lookup_claims cl p r) as [cs'|]; [|discriminate]. injection H as <-.
    constructor; auto.
Qed.

Definition space_of (m : gmap Z (Z * Z)) (n : Z) : Z * Z := default (0, 0) (m !! n).

Lemma add_space_lookup m n c k n' :
  add_space m n c k !! n' =
    if decide (n' = n) then Some (fst (space_of m n) + c, snd (space_of m n) + k) else m !! n'.
Proof.
  unfold add_space, space_of. destruct (m !! n) as [[a b]|] eqn:E; cbn;
    (destruct (decide (n' = n)) as [->|Hne]; [rewrite lookup_insert; reflexivity|rewrite lookup_insert_ne by congruence; reflexivity]).
Qed.

Lemma space_of_add m n c k :
  space_of (add_space m n c k) n = (fst (space_of m n) + c, snd (space_of m n) + k).
Proof. unfold space_of at 1. rewrite add_space_lookup. destruct (decide (n = n)); [reflexivity|congruence]. Qed.

(* what the per-claim loop establishes *)
Lemma acc_claims_spec p x n cs i fd m m' :
  acc_claims p x n cs i fd m = Ok m' ->
  Forall (fun c => c_provider c = p /\ c_sector c = n) cs /\
  Forall (fun c => x <= c_tstart c + c_tmax c) (firstn (fd - i) cs) /\
  (forall n', n' <> n -> m' !! n' = m !! n') /\
  (cs = [] -> m' = m) /\
  (cs <> [] -> m' !! n = Some (fst (space_of m n) + sumZ (map c_size cs),
                               snd (space_of m n) + sumZ (map c_size (firstn (fd - i) cs)))).
Proof.
  revert i m. induction cs as [|c r IH]; intros i m H; cbn [acc_claims] in H.
  - injection H as <-. rewrite firstn_nil. splits; auto; try constructor. congruence.
  - destruct (negb (c_provider c =? p)) eqn:Ep; [discriminate|]. apply negb_false_iff, Z.eqb_eq in Ep.
    destruct (negb (c_sector c =? n)) eqn:Es; [discriminate|]. apply negb_false_iff, Z.eqb_eq in Es.
    destruct (i <? fd)%nat eqn:Ei.
    + apply Nat.ltb_lt in Ei.
      destruct (c_tstart c + c_tmax c <? x) eqn:Et; [discriminate|]. apply Z.ltb_ge in Et.
      apply IH in H as (F1 & F2 & F3 & F4 & F5).
      replace (fd - i)%nat with (S (fd - S i)) by lia. cbn [firstn map]. rewrite !sumZ_cons.
      splits.
      * constructor; auto.
      * constructor; auto.
      * intros n' Hn. rewrite F3 by exact Hn. rewrite add_space_lookup. destruct (decide (n' = n)); [contradiction|reflexivity].
      * discriminate.
      * intros _. destruct r as [|c2 r2].
        -- rewrite (F4 eq_refl). rewrite add_space_lookup. destruct (decide (n = n)); [|congruence].
           rewrite firstn_nil. unfold sumZ; cbn. f_equal. f_equal; lia.
        -- rewrite F5 by discriminate. rewrite space_of_add. cbn [fst snd]. f_equal. f_equal; lia.
    + apply Nat.ltb_ge in Ei.
      apply IH in H as (F1 & F2 & F3 & F4 & F5).
      replace (fd - i)%nat with O by lia. replace (fd - S i)%nat with O in * by lia. cbn [firstn map] in *.
      rewrite !sumZ_cons. splits.
      * constructor; auto.
      * constructor.
      * intros n' Hn. rewrite F3 by exact Hn. rewrite add_space_lookup. destruct (decide (n' = n)); [contradiction|reflexivity].
      * discriminate.
      * intros _. destruct r as [|c2 r2].
        -- rewrite (F4 eq_refl). rewrite add_space_lookup. destruct (decide (n = n)); [|congruence].
           unfold sumZ; cbn. f_equal. f_equal; lia.
        -- rewrite F5 by discriminate. rewrite space_of_add. cbn [fst snd firstn map].
           change (sumZ []) with 0. f_equal. f_equal; lia.
Qed.

(* a "maintain" total justified by the claims listed, each reaching expiration x *)
Definition mt_ok (cl : gmap (Z * Z) claim) (p n x : Z) (ids : list Z) (mt : Z) : Prop :=
  exists cs, Forall2 (fun id c => cl !! (p, id) = Some c /\ c_provider c = p /\ c_sector c = n /\
                                  x <= c_tstart c + c_tmax c) ids cs /\
             mt = sumZ (map c_size cs).

Definition good (cl : gmap (Z * Z) claim) (p : Z) (U : list (Z * sclaim)) (n mt : Z) : Prop :=
  exists x sc, In (x, sc) U /\ sc_sector sc = n /\ mt_ok cl p n x (sc_maintain sc) mt.

Definition spaces_ok (cl : gmap (Z * Z) claim) (p : Z) (U : list (Z * sclaim)) (m : gmap Z (Z * Z)) : Prop :=
  forall n chk mt, m !! n = Some (chk, mt) -> good cl p U n mt.

Lemma Forall2_and_Forall {A B} (R : A -> B -> Prop) (P : B -> Prop) l l' :
  Forall2 R l l' -> Forall P l' -> Forall2 (fun a b => R a b /\ P b) l l'.
Proof. induction 1; intros HF; inversion HF; subst; constructor; auto. Qed.

Lemma NoDup_app_disjoint {A} (l1 l2 : list A) x : NoDup (l1 ++ l2) -> In x l1 -> In x l2 -> False.
Proof.
  induction l1 as [|a r IH]; cbn; intros Hnd H1 H2; [destruct H1|].
  inversion Hnd as [|? ? Hn Hnd']; subst. destruct H1 as [->|H1].
  - apply Hn. apply in_or_app. right. exact H2.
  - eapply IH; eauto.
Qed.

Lemma NoDup_app_parts {A} (l1 l2 : list A) : NoDup (l1 ++ l2) -> NoDup l1 /\ NoDup l2.
Proof.
  induction l1 as [|a r IH]; cbn; intros H; [split; [constructor|exact H]|].
  inversion H as [|? ? Hn Hnd]; subst. destruct (IH Hnd) as [H1 H2]. split; [|exact H2].
  constructor; [|exact H1]. intros Hin. apply Hn. apply in_or_app. left. exact Hin.
Qed.

Lemma acc_sclaims_ok cl p x U scs m m' :
  acc_sclaims0 cl p x scs m = Ok m' ->
  NoDup (map sc_sector scs) ->
  (forall n, In n (map sc_sector scs) -> m !! n = None) ->
  (forall sc, In sc scs -> In (x, sc) U) ->
  spaces_ok cl p U m ->
  spaces_ok cl p U m' /\ (forall n, m' !! n <> None -> m !! n <> None \/ In n (map sc_sector scs)).
Proof.
  revert m. induction scs as [|sc rest IH]; intros m H Hnd Hfresh HU Hok; cbn [acc_sclaims0] in H.
  - injection H as <-. split; [exact Hok|]. intros n Hn. left. exact Hn.
  - destruct (lookup_claims cl p (sc_maintain sc ++ sc_drop sc)) as [cs|] eqn:El; [|discriminate].
    apply rbind_ok in H as (m1 & Hm1 & H).
    apply lookup_claims_spec in El. apply acc_claims_spec in Hm1 as (F1 & F2 & F3 & F4 & F5).
    cbn [map] in Hnd. inversion Hnd as [|? ? Hnin Hnd']; subst.
    set (n := sc_sector sc) in *.
    assert (Hmn : m !! n = None) by (apply Hfresh; left; reflexivity).
    assert (Hok1 : spaces_ok cl p U m1).
    { intros n' chk mt Hl. destruct (decide (n' = n)) as [->|Hne].
      - destruct cs as [|c0 cs0]; [rewrite (F4 eq_refl) in Hl; congruence|].
        rewrite F5 in Hl by discriminate. unfold space_of in Hl. rewrite Hmn in Hl. cbn in Hl.
        injection Hl as _ <-. rewrite Nat.sub_0_r.
        apply Forall2_app_inv_l in El as (l1 & l2 & Hl1 & Hl2 & Heq).
        assert (Hlen : length l1 = length (sc_maintain sc)) by (symmetry; eapply Forall2_length; eauto).
        rewrite Nat.sub_0_r in F2. rewrite Heq in *.
        rewrite <- Hlen, firstn_app, Nat.sub_diag, firstn_all, firstn_O, app_nil_r in *.
        exists x, sc. split; [apply HU; left; reflexivity|]. split; [reflexivity|].
        exists l1. split; [|lia].
        apply Forall_app in F1 as [F1 _].
        pose proof (Forall2_and_Forall _ _ _ _ Hl1 F1) as G1.
        pose proof (Forall2_and_Forall _ _ _ _ G1 F2) as G2.
        clear - G2. induction G2 as [|a b l l' [[Ha [Hp Hs]] Hx] HF IH]; constructor; auto.
      - rewrite F3 in Hl by exact Hne. eapply Hok; eauto. }
    apply IH in H; auto.
    + destruct H as [Hok' Hdom]. split; [exact Hok'|]. intros n' Hn'. destruct (Hdom n' Hn') as [H1|H1].
      * destruct (decide (n' = n)) as [->|Hne]; [right; left; reflexivity|].
        rewrite F3 in H1 by exact Hne. left. exact H1.
      * right. right. exact H1.
    + intros n' Hin. assert (n' <> n) by (intros ->; contradiction).
      rewrite F3 by assumption. apply Hfresh. right. exact Hin.
    + intros sc' Hin. apply HU. right. exact Hin.
Qed.

Definition universe (ds : list edecl) : list (Z * sclaim) :=
  flat_map (fun d => map (pair (ed_new_exp d)) (ed_claims d)) ds.

Lemma validate_decls_ok cl p U ds m m' :
  validate_decls0 cl p ds m = Ok m' ->
  NoDup (map sc_sector (flat_map ed_claims ds)) ->
  (forall n, In n (map sc_sector (flat_map ed_claims ds)) -> m !! n = None) ->
  (forall x sc, In (x, sc) (universe ds) -> In (x, sc) U) ->
  spaces_ok cl p U m -> spaces_ok cl p U m'.
Proof.
  revert m. induction ds as [|d rest IH]; intros m H Hnd Hfresh HU Hok; cbn [validate_decls0] in H.
  - injection H as <-. exact Hok.
  - destruct (_ <=? ed_deadline d); [discriminate|].
    apply rbind_ok in H as (m1 & Hm1 & H).
    cbn [flat_map] in Hnd, Hfresh. rewrite map_app in Hnd, Hfresh.
    destruct (NoDup_app_parts _ _ Hnd) as [Hnd1 Hnd2].
    destruct (acc_sclaims_ok cl p (ed_new_exp d) U (ed_claims d) m m1 Hm1 Hnd1) as [Hok1 Hdom]; auto.
    + intros n Hin. apply Hfresh. apply in_or_app. left. exact Hin.
    + intros sc Hin. apply HU. cbn [universe flat_map]. apply in_or_app. left. apply in_map. exact Hin.
    + apply IH in H; auto.
      * intros n Hin. destruct (m1 !! n) eqn:E; [|reflexivity]. exfalso.
        destruct (Hdom n) as [H1|H1]; [congruence| |].
        -- apply H1. apply Hfresh. apply in_or_app. right. exact Hin.
        -- eapply NoDup_app_disjoint; eauto.
      * intros x sc Hin. apply HU. cbn [universe flat_map]. apply in_or_app. right. exact Hin.
Qed.

(* distinct claims of (p, n) reaching x total at most the coverage at x *)
Lemma covf_full p n x c :
  c_provider c = p -> c_sector c = n -> x <= c_tstart c + c_tmax c -> covf p n x c = c_size c.
Proof.
  intros <- <- Hx. unfold covf. rewrite !Z.eqb_refl. cbn.
  destruct (x <=? _) eqn:E; [reflexivity|apply Z.leb_gt in E; lia].
Qed.

Lemma covf_nonneg p n x c : 0 <= c_size c -> 0 <= covf p n x c.
Proof. intros H. unfold covf. destruct (_ && _); lia. Qed.

Lemma mt_ok_le_cov cl p n x ids mt :
  claim_sizes_ok cl -> NoDup ids -> mt_ok cl p n x ids mt -> mt <= cov cl p n x.
Proof.
  intros Hs Hnd (cs & HF & ->). unfold cov.
  assert (Hk : NoDup (map (pair p) ids)) by (apply NoDup_map_pair; exact Hnd).
  pose proof (del_all_msum (covf p n x) cl (map (pair p) ids) Hk) as Hd.
  assert (Hnn : 0 <= msum (covf p n x) (del_all cl (map (pair p) ids))).
  { apply msum_nonneg. intros k c Hc. apply del_all_lookup_Some in Hc. apply covf_nonneg. eapply Hs; eauto. }
  assert (Hv : vsum (covf p n x) cl (map (pair p) ids) = sumZ (map c_size cs)).
  { clear - HF. unfold vsum. rewrite map_map.
    induction HF as [|i c r cs' (Hc & Hp & Hn & Hx) HF IH]; [reflexivity|].
    cbn [map]. rewrite !sumZ_cons, IH, Hc. cbn. rewrite covf_full by assumption. reflexivity. }
  lia.
Qed.

(* ---------- the coverage invariant ---------- *)
Definition sector_cov (cl : gmap (Z * Z) claim) (now p n : Z) (s : sector) : Prop :=
  s_terminated s = false -> s_simple s = true -> now < s_expiration s -> 0 < s_vweight s ->
  exists space, s_vweight s = space * (s_expiration s - s_power_base s) /\
                0 < s_expiration s - s_power_base s /\
                space <= cov cl p n (s_expiration s).

Definition decls_wf (ds : list edecl) : Prop :=
  NoDup (flat_map decl_sectors ds) /\
  NoDup (map sc_sector (flat_map ed_claims ds)) /\
  Forall (fun sc => NoDup (sc_maintain sc ++ sc_drop sc)) (flat_map ed_claims ds).

Lemma check_new_expiration_ok e x s :
  check_new_expiration e x s = OK -> e <= s_expiration s /\ s_expiration s <= x.
Proof.
  unfold check_new_expiration. intros H. rinv H. apply Z.ltb_ge in E, E0. lia.
Qed.

(* one sector rewrite of an accepted extension re-establishes the coverage of that sector,
   provided the (check, maintain) pair used for it is justified at the expiration used *)
Lemma extend_one_cov cl now e p n x s spaces ds s' :
  extend_one e x n s spaces ds = Ok s' ->
  (forall chk mt, spaces !! n = Some (chk, mt) -> mt <= cov cl p n x) ->
  sector_cov cl now p n s'.
Proof.
  unfold extend_one. intros H Hsp.
  destruct (negb (check_new_expiration e x s =? OK)) eqn:Ek; [discriminate|].
  apply negb_false_iff, Z.eqb_eq, check_new_expiration_ok in Ek as [He1 He2].
  apply rbind_ok in H as (s1 & Hs1 & H).
  destruct (x - e =? 0) eqn:Ez; [discriminate|]. apply Z.eqb_neq in Ez. injection H as <-.
  destruct (s_simple s) eqn:Esim.
  - unfold extend_simple in Hs1. destruct (0 <? s_vweight s) eqn:Ev.
    + destruct (spaces !! n) as [[chk mt]|] eqn:Es; [|discriminate].
      destruct (negb (chk =? _)); [discriminate|]. destruct (_ && _); [discriminate|].
      injection Hs1 as <-. intros _ _ _ _. cbn. exists mt. splits; [reflexivity|lia|eapply Hsp; eauto].
    + injection Hs1 as <-. apply Z.ltb_ge in Ev. intros _ _ _ Hpos. cbn in Hpos. lia.
  - injection Hs1 as <-. intros _ Hsim. cbn in Hsim. discriminate.
Qed.

Lemma In_sortZ x l : In x (sortZ l) <-> In x l.
Proof. apply sortZ_In. Qed.

Lemma In_dedup_sorted x l : In x (dedup_sorted l) -> In x l.
Proof.
  induction l as [|a r IH]; cbn; [tauto|]. destruct r as [|b r'].
  - tauto.
  - destruct (a =? b); intros H.
    + right. apply IH. exact H.
    + destruct H as [->|H]; [left; reflexivity|right; apply IH; exact H].
Qed.

Lemma dedup_sorted_In x l : In x l -> In x (dedup_sorted l).
Proof.
  induction l as [|a r IH]; [tauto|]. destruct r as [|b r']; [tauto|].
  intros [->|H]; cbn [dedup_sorted].
  - destruct (x =? b) eqn:E.
    + apply Z.eqb_eq in E. subst b. apply IH. left. reflexivity.
    + left. reflexivity.
  - destruct (a =? b); [apply IH; exact H|right; apply IH; exact H].
Qed.

Lemma decl_sectors_claims d sc : In sc (ed_claims d) -> In (sc_sector sc) (decl_sectors d).
Proof.
  intros H. unfold decl_sectors. apply dedup_sorted_In, In_sortZ, in_or_app. right. apply in_map. exact H.
Qed.

Lemma NoDup_flat_map_same {A B} (f : A -> list B) l a b x :
  NoDup (flat_map f l) -> In a l -> In b l -> In x (f a) -> In x (f b) -> a = b.
Proof.
  induction l as [|c r IH]; cbn; intros Hnd Ha Hb Hxa Hxb; [destruct Ha|].
  destruct (NoDup_app_parts _ _ Hnd) as [_ Hr].
  destruct Ha as [->|Ha]; destruct Hb as [->|Hb]; auto.
  - exfalso. eapply NoDup_app_disjoint; [exact Hnd|exact Hxa|]. apply in_flat_map. eauto.
  - exfalso. eapply NoDup_app_disjoint; [exact Hnd|exact Hxb|]. apply in_flat_map. eauto.
Qed.

(* under decls_wf, the pair recorded for a sector is justified at the expiration of the (only)
   declaration that names the sector *)
Lemma spaces_justified cl p ds spaces d n :
  claim_sizes_ok cl -> decls_wf ds -> spaces_ok cl p (universe ds) spaces ->
  In d ds -> In n (decl_sectors d) ->
  forall chk mt, spaces !! n = Some (chk, mt) -> mt <= cov cl p n (ed_new_exp d).
Proof.
  intros Hs (H1 & H2 & H3) Hok Hd Hn chk mt Hl.
  destruct (Hok _ _ _ Hl) as (x & sc & HU & Hsec & Hmt).
  unfold universe in HU. apply in_flat_map in HU as (d0 & Hd0 & Hin). apply in_map_iff in Hin as (sc0 & [= <- <-] & Hsc).
  assert (d0 = d).
  { eapply (NoDup_flat_map_same decl_sectors ds d0 d n); eauto. rewrite <- Hsec. apply decl_sectors_claims. exact Hsc. }
  subst d0. apply (mt_ok_le_cov cl p n (ed_new_exp d) (sc_maintain sc0) mt Hs); [|exact Hmt].
  rewrite Forall_forall in H3. specialize (H3 sc0).
  assert (Hnd : NoDup (sc_maintain sc0 ++ sc_drop sc0)) by (apply H3; apply in_flat_map; eauto).
  apply NoDup_app_parts in Hnd. tauto.
Qed.

(* ---------- the repaired validator (fix 081fc6c) accepts only well-formed messages, on which it
   computes what the old validator computed ---------- *)
Lemma has_dupZ_false l : has_dupZ l = false -> NoDup l.
Proof.
  induction l as [|x r IH]; cbn; intros H; constructor.
  - apply orb_false_iff in H as [H _]. apply mem_not_In in H. exact H.
  - apply orb_false_iff in H as [_ H]. apply IH. exact H.
Qed.

Lemma insert_sorted_sorted x l : Sorted Z.le l -> Sorted Z.le (insert_sortedZ x l).
Proof.
  induction 1 as [|y r Hs IH Hd]; cbn; [repeat constructor|].
  destruct (x <=? y) eqn:E.
  - apply Z.leb_le in E. constructor; [constructor; assumption|constructor; exact E].
  - apply Z.leb_gt in E. constructor; [exact IH|].
    destruct r as [|z r']; cbn.
    + constructor. lia.
    + destruct (x <=? z); constructor; [lia|inversion Hd; assumption].
Qed.

Lemma sortZ_sorted l : Sorted Z.le (sortZ l).
Proof. induction l; cbn; [constructor|apply insert_sorted_sorted; assumption]. Qed.

Lemma dedup_sorted_spec l :
  Sorted Z.le l ->
  Sorted Z.lt (dedup_sorted l) /\ (forall y r, l = y :: r -> exists t, dedup_sorted l = y :: t).
Proof.
  induction l as [|y r IH]; intros Hs.
  - split; [constructor|discriminate].
  - inversion Hs as [|? ? Hs' Hd]; subst. destruct (IH Hs') as [IH1 IH2].
    destruct r as [|z r'].
    + split; [repeat constructor|]. intros y0 r0 [= <- <-]. exists []. reflexivity.
    + destruct (IH2 z r' eq_refl) as (t & Ht). inversion Hd as [|? ? Hyz]; subst.
      change (dedup_sorted (y :: z :: r')) with (if y =? z then dedup_sorted (z :: r') else y :: dedup_sorted (z :: r')).
      destruct (y =? z) eqn:E.
      * apply Z.eqb_eq in E. subst z. split; [exact IH1|]. intros y0 r0 [= <- <-]. exists t. exact Ht.
      * apply Z.eqb_neq in E. split.
        -- constructor; [exact IH1|]. rewrite Ht. constructor. lia.
        -- intros y0 r0 [= <- <-]. eexists. reflexivity.
Qed.

Lemma Sorted_lt_NoDup l : Sorted Z.lt l -> NoDup l.
Proof.
  intros H. apply Sorted_StronglySorted in H; [|intros a b c; lia].
  induction H as [|x r Hs IH Hall]; constructor; [|exact IH].
  intros Hin. rewrite Forall_forall in Hall. specialize (Hall x Hin). lia.
Qed.

Lemma decl_sectors_NoDup d : NoDup (decl_sectors d).
Proof. apply Sorted_lt_NoDup, dedup_sorted_spec, sortZ_sorted. Qed.

Lemma acc_sclaims_legacy cl p x scs m m' :
  acc_sclaims cl p x scs m = Ok m' ->
  acc_sclaims0 cl p x scs m = Ok m' /\ Forall (fun sc => NoDup (sc_maintain sc ++ sc_drop sc)) scs.
Proof.
  revert m. induction scs as [|sc r IH]; intros m H; cbn in *.
  - split; [exact H|constructor].
  - destruct (has_dupZ _) eqn:Ed; [discriminate|]. apply has_dupZ_false in Ed.
    destruct (lookup_claims _ _ _); [|discriminate].
    unfold rbind in *. destruct (acc_claims _ _ _ _ _ _ _); [|discriminate].
    apply IH in H as [H1 H2]. split; [exact H1|constructor; assumption].
Qed.

Lemma validate_decls_legacy cl p ds declared m m' :
  validate_decls cl p ds declared m = Ok m' ->
  validate_decls0 cl p ds m = Ok m' /\
  NoDup (flat_map decl_sectors ds) /\ (forall n, In n (flat_map decl_sectors ds) -> ~ In n declared) /\
  NoDup (map sc_sector (flat_map ed_claims ds)) /\
  Forall (fun sc => NoDup (sc_maintain sc ++ sc_drop sc)) (flat_map ed_claims ds).
Proof.
  revert declared m. induction ds as [|d r IH]; intros declared m H;
    cbn [validate_decls validate_decls0 flat_map] in *.
  - splits; auto; try constructor; intros n [].
  - destruct (_ <=? ed_deadline d); [discriminate|].
    destruct (has_dupZ _) eqn:Ed; [discriminate|]. apply has_dupZ_false in Ed.
    destruct (existsb _ _) eqn:Ee; [discriminate|].
    apply rbind_ok in H as (m1 & Hm1 & H). apply acc_sclaims_legacy in Hm1 as [Hold Hids].
    apply IH in H as (Hv & Hnd & Hdisj & Hnd2 & Hids2).
    assert (Hfresh : forall n, In n (decl_sectors d) -> ~ In n declared).
    { intros n Hn Hd. assert (existsb (fun n0 => mem n0 declared) (decl_sectors d) = true); [|congruence].
      apply existsb_exists. exists n. split; [exact Hn|apply mem_In; exact Hd]. }
    splits.
    + unfold rbind. rewrite Hold. exact Hv.
    + apply LNoDup_app; [apply decl_sectors_NoDup|exact Hnd|].
      intros n H1 H2. apply (Hdisj n H2). apply in_or_app. left. exact H1.
    + intros n Hn. apply in_app_or in Hn as [Hn|Hn]; [apply Hfresh; exact Hn|].
      intros Hd. apply (Hdisj n Hn). apply in_or_app. right. exact Hd.
    + rewrite map_app. apply LNoDup_app; [exact Ed|exact Hnd2|].
      intros n H1 H2. apply in_map_iff in H1 as (sc & <- & Hsc).
      apply in_map_iff in H2 as (sc2 & Heq & Hsc2). apply in_flat_map in Hsc2 as (d2 & Hd2 & Hsc2).
      apply (Hdisj (sc_sector sc)).
      * apply in_flat_map. exists d2. split; [exact Hd2|]. rewrite <- Heq. apply decl_sectors_claims. exact Hsc2.
      * apply in_or_app. left. apply decl_sectors_claims. exact Hsc.
    + apply Forall_app. split; assumption.
Qed.

Theorem repaired_validator_accepts_only_wf cl p ds m :
  validate_decls cl p ds [] ∅ = Ok m -> validate_decls0 cl p ds ∅ = Ok m /\ decls_wf ds.
Proof.
  intros H. apply validate_decls_legacy in H as (H1 & H2 & _ & H3 & H4). split; [exact H1|]. repeat split; assumption.
Qed.

Definition sectors_cov (cl : gmap (Z * Z) claim) (now : Z) (ss : gmap (Z * Z) sector) : Prop :=
  forall q n s, ss !! (q, n) = Some s -> sector_cov cl now q n s.

Lemma load_all_fst ss p ns olds : load_all ss p ns = Some olds -> map fst olds = ns.
Proof.
  revert olds. induction ns as [|n r IH]; intros olds H; cbn in H.
  - injection H as <-. reflexivity.
  - destruct (ss !! (p, n)); [|discriminate]. destruct (load_all ss p r) as [l|]; [|discriminate].
    injection H as <-. cbn. f_equal. apply IH. reflexivity.
Qed.

Lemma extend_all_cov cl now e p x olds spaces ds news :
  extend_all e x olds spaces ds = Ok news ->
  (forall n, In n (map fst olds) -> forall chk mt, spaces !! n = Some (chk, mt) -> mt <= cov cl p n x) ->
  Forall (fun nw => sector_cov cl now p (fst nw) (snd nw)) news.
Proof.
  revert news. induction olds as [|[n s] r IH]; intros news H Hsp; cbn [extend_all] in H.
  - injection H as <-. constructor.
  - apply rbind_ok in H as (s' & Hs' & H). apply rbind_ok in H as (more & Hmore & H). injection H as <-.
    constructor.
    + cbn. eapply extend_one_cov; [exact Hs'|]. apply Hsp. left. reflexivity.
    + apply IH; [exact Hmore|]. intros n' Hn'. apply Hsp. right. exact Hn'.
Qed.

Lemma fold_insert_cov cl now p (news : list (Z * sector)) ss :
  Forall (fun nw => sector_cov cl now p (fst nw) (snd nw)) news -> sectors_cov cl now ss ->
  sectors_cov cl now (fold_left (fun m x => <[ (p, fst x) := snd x ]> m) news ss).
Proof.
  revert ss. induction news as [|nw r IH]; intros ss HF Hc; cbn [fold_left]; [exact Hc|].
  inversion HF as [|? ? Hnw Hr]; subst. apply IH; [exact Hr|].
  intros q n s Hl. destruct (decide ((q, n) = (p, fst nw))) as [[= -> ->]|Hne].
  - rewrite lookup_insert in Hl. injection Hl as <-. exact Hnw.
  - rewrite lookup_insert_ne in Hl by congruence. eapply Hc; eauto.
Qed.

Lemma In_group_by_deadline d ds seen all : In d (group_by_deadline ds seen all) -> In d all.
Proof.
  revert seen. induction ds as [|d0 r IH]; intros seen H; cbn in H; [destruct H|].
  destruct (mem (ed_deadline d0) seen); [eapply IH; eauto|].
  apply in_app_or in H as [H|H]; [apply filter_In in H; tauto|eapply IH; eauto].
Qed.

Lemma apply_decls_cov cl now e p spaces ds todo ss ss' :
  apply_decls ss e p todo spaces ds = Ok ss' ->
  claim_sizes_ok cl -> decls_wf ds -> spaces_ok cl p (universe ds) spaces ->
  (forall d, In d todo -> In d ds) ->
  sectors_cov cl now ss -> sectors_cov cl now ss'.
Proof.
  revert ss. induction todo as [|d rest IH]; intros ss H Hs Hwf Hok Hsub Hc; cbn [apply_decls] in H.
  - injection H as <-. exact Hc.
  - destruct (load_all ss p (decl_sectors d)) as [olds|] eqn:El; [|discriminate].
    apply rbind_ok in H as (news & Hnews & H).
    destruct (existsb _ olds); [discriminate|].
    apply IH in H; auto.
    + intros d' Hd'. apply Hsub. right. exact Hd'.
    + apply fold_insert_cov; [|exact Hc].
      eapply extend_all_cov; [exact Hnews|].
      intros n Hn chk mt Hl. rewrite (load_all_fst _ _ _ _ El) in Hn.
      eapply spaces_justified; eauto. apply Hsub. left. reflexivity.
Qed.

Lemma extend2_cov st e c p ds st' now :
  extend2 st e c p ds = Ok st' -> claim_sizes_ok (claims (reg (vr st))) ->
  sectors_cov (claims (reg (vr st))) now (sectors st) ->
  vr st' = vr st /\ ctrl st' = ctrl st /\ sectors_cov (claims (reg (vr st'))) now (sectors st').
Proof.
  unfold extend2. intros H Hs Hc.
  apply rbind_ok in H as (spaces & Hv & H).
  apply repaired_validator_accepts_only_wf in Hv as [Hv Hwf].
  destruct (negb (is_ctrl _ _ _)); [discriminate|].
  apply rbind_ok in H as (ss & Ha & H). injection H as <-. cbn. splits; auto.
  eapply apply_decls_cov; eauto.
  - destruct Hwf as (_ & H2 & _).
    eapply (validate_decls_ok _ _ (universe ds)); eauto.
    intros n0 chk mt Hl. rewrite lookup_empty in Hl. discriminate.
  - intros d Hd. eapply In_group_by_deadline; eauto.
Qed.

(* ---------- the invariant and its preservation ---------- *)
Record cinv (st : cstate) (now : Z) : Prop := {
  ci_reg : reg_inv (vr st);
  ci_sizes : sizes_ok (reg (vr st));
  ci_cov : sectors_cov (claims (reg (vr st))) now (sectors st);
  ci_world : world_ok (wld (vr st));
}.

Lemma sector_cov_mono e cl cl' now now' q n s :
  claims_le e cl cl' -> claim_sizes_ok cl -> claim_sizes_ok cl' -> e <= now' -> now <= now' ->
  sector_cov cl now q n s -> sector_cov cl' now' q n s.
Proof.
  intros Hle Hs Hs' He Hn Hc H1 H2 H3 H4.
  destruct (Hc H1 H2 ltac:(lia) H4) as (space & Hv & Hd & Hsp).
  exists space. splits; auto.
  pose proof (cov_mono e cl cl' q n (s_expiration s) Hle Hs Hs' ltac:(lia)). lia.
Qed.

Lemma sectors_cov_mono e cl cl' now now' ss :
  claims_le e cl cl' -> claim_sizes_ok cl -> claim_sizes_ok cl' -> e <= now' -> now <= now' ->
  sectors_cov cl now ss -> sectors_cov cl' now' ss.
Proof. intros Hle Hs Hs' He Hn Hc q n s Hl. eapply sector_cov_mono; eauto. Qed.

Definition cop_epoch (o : cop) : Z :=
  match o with
  | Vr x => op_epoch x
  | Onboard e _ _ _ _ | Extend2 e _ _ _ | Terminate e _ _ _ _ => e
  end.

Definition cop_wf (o : cop) : Prop :=
  match o with
  | Vr x => op_caller x <> VR
  | _ => True
  end.

Lemma group_new_claims_err al p e s x cs k : group_new_claims al p e s x cs = Err k -> k <> OK.
Proof.
  induction cs as [|c r IH]; cbn; [discriminate|].
  destruct (al !! _); [|intros [= <-]; discriminate].
  destruct (negb _); [intros [= <-]; discriminate|].
  destruct (group_new_claims al p e s x r) eqn:E; cbn; [discriminate|].
  intros [= <-]. apply IH. reflexivity.
Qed.

Lemma claim_single st e p g st' r ev :
  claim_allocations st e p [g] true = Ok (st', r, ev) ->
  exists news,
    Forall2 (group_ok (allocs (reg st)) p e (sg_sector g) (sg_expiry g)) (sg_claims g) news /\
    NoDup (map fst news) /\ (forall nn, In nn news -> claims (reg st) !! (p, fst nn) = None) /\
    claims (reg st') = put_new p (claims (reg st)) news.
Proof.
  unfold claim_allocations. intros H. destruct (negb (is_miner _ _)); [discriminate|].
  apply rbind_ok in H as (acc & Hpg & H). cbn [process_groups ca_allocs ca_claims ca_evs] in Hpg.
  destruct (group_new_claims _ _ _ _ _ _) as [news|k] eqn:Eg.
  - unfold rbind in Hpg.
    destruct (apply_new_claims _ _ _ _ _ _) as [[[[cl al] space] ev0]|] eqn:Ea; [|discriminate].
    injection Hpg as <-. cbn in H. apply rbind_ok in H as (t1 & _ & H). injection H as <- _ _. cbn.
    apply group_new_claims_spec in Eg. apply apply_new_claims_spec in Ea as (Hnd & Habs & -> & _).
    exists news. splits; auto.
  - injection Hpg as <-. cbn in H. apply group_new_claims_err in Eg.
    destruct (k =? OK) eqn:Ek; [apply Z.eqb_eq in Ek; contradiction|]. cbn in H. discriminate.
Qed.

Lemma cov_put_new cl p news q n x :
  NoDup (map fst news) -> (forall nn, In nn news -> cl !! (p, fst nn) = None) ->
  cov (put_new p cl news) q n x = cov cl q n x + sumZ (map (fun nn => covf q n x (snd nn)) news).
Proof.
  revert cl. induction news as [|nn r IH]; intros cl Hnd Habs.
  - unfold sumZ; cbn. lia.
  - cbn [map] in Hnd. inversion Hnd as [|? ? Hn Hnd']; subst. rewrite put_new_cons, IH.
    + unfold cov. rewrite msum_insert_new by (apply Habs; left; reflexivity).
      cbn [map]. rewrite sumZ_cons. lia.
    + exact Hnd'.
    + intros m Hm. rewrite lookup_insert_ne; [apply Habs; right; exact Hm|].
      intros [= Heq]. apply Hn. rewrite Heq. apply in_map. exact Hm.
Qed.

Lemma cov_nonneg cl q n x : claim_sizes_ok cl -> 0 <= cov cl q n x.
Proof. intros Hs. apply msum_nonneg. intros k c Hc. apply covf_nonneg. eapply Hs; eauto. Qed.

Lemma onboard_inv st e p n x cs st' ev now :
  onboard st e p n x cs = Ok (st', ev) -> cinv st now -> cinv st' (Z.max now e).
Proof.
  unfold onboard. intros H [Ir Is Ic Iw].
  destruct (sectors st !! (p, n)) eqn:Esec; [discriminate|].
  apply rbind_ok in H as ([[v' r] ev0] & Hca & H). injection H as <- <-.
  set (g := {| sg_sector := n; sg_expiry := x; sg_claims := cs |}) in *.
  assert (Hex : exec (vr st) (ClaimAllocs e p [g] true) = Ok (v', r, ev0)) by exact Hca.
  destruct (inv_claim _ _ _ _ _ _ _ _ Hca Ir) as [Ir' Hw'].
  pose proof (exec_sizes _ _ _ _ _ Hex Ir Is) as Is'.
  destruct (exec_claims_le _ _ _ _ _ Hex Ir) as [_ Hext]. specialize (Hext eq_refl).
  assert (Hle : claims_le (Z.max now e) (claims (reg (vr st))) (claims (reg v'))).
  { intros k c Hk. left. apply Hext. exact Hk. }
  constructor; cbn [vr sectors ctrl]; auto; [|rewrite Hw'; exact Iw].
  intros q m s Hl. destruct (decide ((q, m) = (p, n))) as [[= -> ->]|Hne].
  - rewrite lookup_insert in Hl. injection Hl as <-. intros _ _ Hnow Hpos. cbn in *.
    destruct (claim_single _ _ _ _ _ _ _ Hca) as (news & HF & Hnd & Habs & Hcl). cbn [g sg_sector sg_expiry sg_claims] in HF.
    assert (Hsz : sumZ (map ac_size cs) = sumZ (map (fun nn => c_size (snd nn)) news) /\
                  Forall (fun nn => covf p n x (snd nn) = c_size (snd nn) /\ 0 <= c_size (snd nn)) news).
    { clear - HF Is. destruct Is as [Sa _]. induction HF as [|c nn r rn Hok HF IH]; [split; [reflexivity|constructor]|].
      destruct IH as [IH1 IH2]. destruct Hok as (Hid & a & Ha & Hcan & Hsn).
      apply can_claim_alloc_spec in Hcan as (_ & _ & _ & Hsize & _ & Hlife).
      cbn [map]. rewrite !sumZ_cons, IH1, Hsn. cbn. split; [lia|]. constructor; [|exact IH2].
      rewrite Hsn. split; [apply covf_full; cbn; auto; lia|cbn; eapply Sa; eauto]. }
    destruct Hsz as [Hsum Hfull].
    assert (Hspace : 0 <= sumZ (map ac_size cs)).
    { rewrite Hsum. clear - Hfull. induction Hfull as [|nn r [_ H] HF IH]; [unfold sumZ; cbn; lia|].
      cbn [map]. rewrite sumZ_cons. lia. }
    exists (sumZ (map ac_size cs)). splits; [reflexivity|nia|].
    rewrite Hcl, cov_put_new by assumption.
    assert (Heq : sumZ (map (fun nn => covf p n x (snd nn)) news) = sumZ (map (fun nn => c_size (snd nn)) news)).
    { clear - Hfull. induction Hfull as [|nn r [H _] HF IH]; [reflexivity|]. cbn [map]. rewrite !sumZ_cons, IH, H. reflexivity. }
    pose proof (cov_nonneg (claims (reg (vr st))) p n x (proj2 Is)). lia.
  - rewrite lookup_insert_ne in Hl by congruence.
    apply (sector_cov_mono (Z.max now e) (claims (reg (vr st))) (claims (reg v')) now (Z.max now e));
      [exact Hle|apply Is|apply Is'|lia|lia|]. eapply Ic; eauto.
Qed.

Lemma vr_step_inv st x now :
  op_caller x <> VR -> cinv st now ->
  cinv {| vr := fst (step (vr st) x); sectors := sectors st; ctrl := ctrl st |} (Z.max now (op_epoch x)).
Proof.
  intros Hc [Ir Is Ic Iw]. unfold step.
  destruct (exec (vr st) x) as [[[v' r] ev]|k] eqn:E; cbn [fst].
  - destruct (exec_inv _ _ _ _ _ E Iw Hc Ir) as [Ir' Hw'].
    pose proof (exec_sizes _ _ _ _ _ E Ir Is) as Is'.
    destruct (exec_claims_le _ _ _ _ _ E Ir) as [Hle Hext].
    constructor; cbn [vr sectors ctrl]; auto; [|rewrite Hw'; exact Iw].
    apply (sectors_cov_mono (op_epoch x) (claims (reg (vr st))) (claims (reg v')) now (Z.max now (op_epoch x))); [exact Hle|apply Is|apply Is'|lia|lia|exact Ic].
  - constructor; cbn [vr sectors ctrl]; auto.
    apply (sectors_cov_mono (Z.max now (op_epoch x)) (claims (reg (vr st))) (claims (reg (vr st))) now (Z.max now (op_epoch x))); [apply claims_le_refl|apply Is|apply Is|lia|lia|exact Ic].
Qed.

Lemma cstep_inv st o now : cop_wf o -> cinv st now -> cinv (fst (cstep st o)) (Z.max now (cop_epoch o)).
Proof.
  intros Hwf I. destruct o as [x|e p n x cs|e c p ds|e c p n mu]; cbn [cstep cop_epoch cop_wf] in *.
  - destruct (step (vr st) x) as [v' r] eqn:Es. cbn [fst].
    replace v' with (fst (step (vr st) x)) by (rewrite Es; reflexivity). apply vr_step_inv; assumption.
  - destruct (onboard st e p n x cs) as [[st' ev]|k] eqn:E; cbn [fst].
    + eapply onboard_inv; eauto.
    + destruct I as [Ir Is Ic Iw]. constructor; auto.
      apply (sectors_cov_mono (Z.max now e) (claims (reg (vr st))) (claims (reg (vr st))) now (Z.max now e)); [apply claims_le_refl|apply Is|apply Is|lia|lia|exact Ic].
  - destruct I as [Ir Is Ic Iw].
    assert (Ic' : sectors_cov (claims (reg (vr st))) (Z.max now e) (sectors st)).
    { apply (sectors_cov_mono (Z.max now e) (claims (reg (vr st))) (claims (reg (vr st))) now (Z.max now e)); [apply claims_le_refl|apply Is|apply Is|lia|lia|exact Ic]. }
    destruct (extend2 st e c p ds) as [st'|k] eqn:E; cbn [fst].
    + destruct (extend2_cov _ _ _ _ _ _ _ E (proj2 Is) Ic') as (Hv & _ & Hc).
      constructor; rewrite ?Hv; auto. rewrite Hv in Hc. exact Hc.
    + constructor; auto.
  - destruct I as [Ir Is Ic Iw].
    assert (Ic' : sectors_cov (claims (reg (vr st))) (Z.max now e) (sectors st)).
    { apply (sectors_cov_mono (Z.max now e) (claims (reg (vr st))) (claims (reg (vr st))) now (Z.max now e)); [apply claims_le_refl|apply Is|apply Is|lia|lia|exact Ic]. }
    destruct (terminate st c p n mu) as [st'|k] eqn:E; cbn [fst]; [|constructor; auto].
    unfold terminate in E. rinv E. injection E as <-. constructor; cbn [vr sectors ctrl]; auto.
    intros q m s' Hl. destruct (decide ((q, m) = (p, n))) as [[= -> ->]|Hne].
    + rewrite lookup_insert in Hl. injection Hl as <-. intros Ht. cbn in Ht. discriminate.
    + rewrite lookup_insert_ne in Hl by congruence. eapply Ic'; eauto.
Qed.

Definition max_epoch (now : Z) (ops : list cop) : Z := fold_left (fun a o => Z.max a (cop_epoch o)) ops now.

Lemma cinit_inv w c : world_ok w -> cinv (cinit w c) 0.
Proof.
  intros Hw. constructor; cbn; auto.
  - apply init_inv.
  - split; intros k x; cbn; rewrite lookup_empty; discriminate.
  - intros q n s. rewrite lookup_empty. discriminate.
Qed.

Lemma crun_inv st now ops : Forall cop_wf ops -> cinv st now -> cinv (crun st ops) (max_epoch now ops).
Proof.
  revert st now. induction ops as [|o r IH]; intros st now Hwf I; [exact I|].
  inversion Hwf as [|? ? Ho Hr]; subst.
  change (crun st (o :: r)) with (crun (fst (cstep st o)) r).
  change (max_epoch now (o :: r)) with (max_epoch (Z.max now (cop_epoch o)) r).
  apply IH; [exact Hr|]. apply cstep_inv; assumption.
Qed.

(* "verified weight is backed by claims", for all histories *)
Theorem verified_weight_backed w c ops :
  world_ok w -> Forall cop_wf ops ->
  let st := crun (cinit w c) ops in
  forall p n s, sectors st !! (p, n) = Some s ->
    s_terminated s = false -> s_simple s = true -> max_epoch 0 ops < s_expiration s -> 0 < s_vweight s ->
    exists space, s_vweight s = space * (s_expiration s - s_power_base s) /\
                  0 < s_expiration s - s_power_base s /\
                  space <= cov (claims (reg (vr st))) p n (s_expiration s).
Proof.
  intros Hw Hwf st p n s Hl. apply (ci_cov _ _ (crun_inv _ _ _ Hwf (cinit_inv w c Hw)) p n s Hl).
Qed.

(* ---------- reachable registry states ---------- *)
Definition cop_caller_ok (o : cop) : Prop := cop_wf o.

Lemma cstep_reg_inv st o :
  cop_caller_ok o -> world_ok (wld (vr st)) -> reg_inv (vr st) ->
  reg_inv (vr (fst (cstep st o))) /\ wld (vr (fst (cstep st o))) = wld (vr st).
Proof.
  intros Hc Hw I. destruct o as [x|e p n x cs|e c p ds|e c p n mu]; cbn [cstep cop_caller_ok] in *.
  - destruct (step (vr st) x) as [v' r] eqn:Es. cbn.
    replace v' with (fst (step (vr st) x)) by (rewrite Es; reflexivity). apply step_inv; assumption.
  - destruct (onboard st e p n x cs) as [[st' ev]|k] eqn:E; cbn [fst]; [|auto].
    unfold onboard in E. destruct (sectors st !! (p, n)); [discriminate|].
    apply rbind_ok in E as ([[v' r] ev0] & Hca & E). injection E as <- _. cbn.
    eapply inv_claim; eauto.
  - destruct (extend2 st e c p ds) as [st'|k] eqn:E; cbn [fst]; [|auto].
    unfold extend2 in E. apply rbind_ok in E as (sp & _ & E). destruct (negb _); [discriminate|].
    apply rbind_ok in E as (ss & _ & E). injection E as <-. auto.
  - destruct (terminate st c p n mu) as [st'|k] eqn:E; cbn [fst]; [|auto].
    unfold terminate in E. rinv E. injection E as <-. auto.
Qed.

Lemma crun_reg_inv st ops :
  Forall cop_caller_ok ops -> world_ok (wld (vr st)) -> reg_inv (vr st) ->
  reg_inv (vr (crun st ops)) /\ wld (vr (crun st ops)) = wld (vr st).
Proof.
  revert st. induction ops as [|o r IH]; intros st Hc Hw I; [auto|].
  inversion Hc as [|? ? Ho Hr]; subst.
  change (crun st (o :: r)) with (crun (fst (cstep st o)) r).
  destruct (cstep_reg_inv st o Ho Hw I) as [I' Hw'].
  destruct (IH (fst (cstep st o)) Hr) as [I'' Hw'']; [rewrite Hw'; exact Hw|exact I'|].
  split; [exact I''|congruence].
Qed.

Definition cop_removes_claims (o : cop) : bool := match o with Vr x => removes_claims x | _ => false end.

(* a claim's maximum term never decreases, nothing else about it ever changes, and it can leave
   the table only through RemoveExpiredClaims at or after the end of its term *)
Theorem claim_evolution st o st' out k c :
  cstep st o = (st', out) -> reg_inv (vr st) -> claims (reg (vr st)) !! k = Some c ->
  (exists c', claims (reg (vr st')) !! k = Some c' /\ c' = with_tmax c (c_tmax c') /\ c_tmax c <= c_tmax c') \/
  (claims (reg (vr st')) !! k = None /\ cop_removes_claims o = true /\
   c_tstart c + c_tmax c <= cop_epoch o).
Proof.
  intros H I Hk.
  assert (Hsame : vr st' = vr st ->
     exists c', claims (reg (vr st')) !! k = Some c' /\ c' = with_tmax c (c_tmax c') /\ c_tmax c <= c_tmax c').
  { intros ->. exists c. split; [exact Hk|]. split; [destruct c; reflexivity|lia]. }
  assert (Hexec : forall x v' r ev, exec (vr st) x = Ok (v', r, ev) -> vr st' = v' -> cop_epoch o = op_epoch x ->
            cop_removes_claims o = removes_claims x ->
     (exists c', claims (reg (vr st')) !! k = Some c' /\ c' = with_tmax c (c_tmax c') /\ c_tmax c <= c_tmax c') \/
     (claims (reg (vr st')) !! k = None /\ cop_removes_claims o = true /\ c_tstart c + c_tmax c <= cop_epoch o)).
  { intros x v' r ev E -> He Hr. destruct (exec_claims_le _ _ _ _ _ E I) as [Hle Hext].
    destruct (removes_claims x) eqn:Erm.
    - destruct (Hle k c Hk) as [(c' & Hc' & He1 & He2)|[Hn Hexp]].
      + left. exists c'. auto.
      + right. unfold claim_expiration in Hexp. rewrite Hr, He. auto.
    - left. destruct (Hext eq_refl k c Hk) as (c' & Hc' & He1 & He2). exists c'. auto. }
  destruct o as [x|e p n x cs|e c0 p ds|e c0 p n mu]; cbn [cstep] in H.
  - unfold step in H. destruct (exec (vr st) x) as [[[v' r] ev]|kk] eqn:E.
    + injection H as <- _. eapply Hexec; eauto.
    + injection H as <- _. left. apply Hsame. reflexivity.
  - destruct (onboard st e p n x cs) as [[s1 ev]|kk] eqn:E; injection H as <- _; [|left; apply Hsame; reflexivity].
    unfold onboard in E. destruct (sectors st !! (p, n)); [discriminate|].
    apply rbind_ok in E as ([[v' r] ev0] & Hca & E). injection E as <- _.
    eapply (Hexec (ClaimAllocs e p [_] true)); eauto.
  - destruct (extend2 st e c0 p ds) as [s1|kk] eqn:E; injection H as <- _; left; apply Hsame; [|reflexivity].
    unfold extend2 in E. apply rbind_ok in E as (sp & _ & E). destruct (negb _); [discriminate|].
    apply rbind_ok in E as (ss & _ & E). injection E as <-. reflexivity.
  - destruct (terminate st c0 p n mu) as [s1|kk] eqn:E; injection H as <- _; left; apply Hsame; [|reflexivity].
    unfold terminate in E. rinv E. injection E as <-. reflexivity.
Qed.

(* ---------- dropping claims only at the end of a sector's life ---------- *)
Theorem drop_only_at_end_of_life e x n s spaces ds s' :
  extend_one e x n s spaces ds = Ok s' -> s_simple s = true -> 0 < s_vweight s ->
  let old_space := s_vweight s / (s_expiration s - s_power_base s) in
  exists check maintain,
    spaces !! n = Some (check, maintain) /\ check = old_space /\
    s_vweight s' = maintain * (x - e) /\ s_power_base s' = e /\ s_expiration s' = x /\
    e <= s_expiration s <= x /\ e < x /\
    (maintain <> check -> s_expiration s - e <= END_OF_LIFE_CLAIM_DROP_PERIOD).
Proof.
  unfold extend_one. intros H Hsim Hpos.
  destruct (negb (check_new_expiration e x s =? OK)) eqn:Ek; [discriminate|].
  apply negb_false_iff, Z.eqb_eq, check_new_expiration_ok in Ek as [He1 He2].
  apply rbind_ok in H as (s1 & Hs1 & H).
  destruct (x - e =? 0) eqn:Ez; [discriminate|]. apply Z.eqb_neq in Ez. injection H as <-.
  rewrite Hsim in Hs1. unfold extend_simple in Hs1.
  destruct (0 <? s_vweight s) eqn:Ev; [|apply Z.ltb_ge in Ev; lia].
  destruct (spaces !! n) as [[chk mt]|] eqn:Es; [|discriminate].
  destruct (negb (chk =? _)) eqn:Ec; [discriminate|]. apply negb_false_iff, Z.eqb_eq in Ec.
  destruct (negb (chk =? mt) && _) eqn:Ed; [discriminate|].
  injection Hs1 as <-. cbn. exists chk, mt. splits; auto; try lia.
  all: intros Hne; apply andb_false_iff in Ed as [Ed|Ed];
    [apply negb_false_iff, Z.eqb_eq in Ed; congruence|apply Z.ltb_ge in Ed; exact Ed].
Qed.

(* an accepted extension never shortens a sector *)
Theorem extension_never_shortens e x n s spaces ds s' :
  extend_one e x n s spaces ds = Ok s' ->
  s_expiration s <= s_expiration s' /\ s_expiration s' = x /\ s_activation s' = s_activation s /\
  s_power_base s' = e.
Proof.
  unfold extend_one. intros H.
  destruct (negb (check_new_expiration e x s =? OK)) eqn:Ek; [discriminate|].
  apply negb_false_iff, Z.eqb_eq, check_new_expiration_ok in Ek as [He1 He2].
  apply rbind_ok in H as (s1 & Hs1 & H). destruct (x - e =? 0); [discriminate|]. injection H as <-.
  destruct (s_simple s).
  - unfold extend_simple in Hs1. destruct (0 <? s_vweight s).
    + destruct (spaces !! n) as [[chk mt]|]; [|discriminate]. destruct (negb _); [discriminate|].
      destruct (_ && _); [discriminate|]. injection Hs1 as <-. cbn. auto.
    + injection Hs1 as <-. cbn. auto.
  - injection Hs1 as <-. cbn. auto.
Qed.

(* onboarding: the sector's verified weight is the claimed space times its lifetime, every claim
   starts at the activation epoch and the sector's expiration lies within the claim's term *)
Theorem onboard_terms st e p n x cs st' ev id :
  onboard st e p n x cs = Ok (st', ev) -> In (EvClaim id) ev ->
  exists s c,
    sectors st' !! (p, n) = Some s /\ s_activation s = e /\ s_expiration s = x /\ s_power_base s = e /\
    s_vweight s = sumZ (map ac_size cs) * (x - e) /\
    claims (reg (vr st')) !! (p, id) = Some c /\ c_sector c = n /\ c_provider c = p /\ c_tstart c = e /\
    c_tstart c + c_tmin c <= x <= c_tstart c + c_tmax c /\
    claims (reg (vr st)) !! (p, id) = None.
Proof.
  unfold onboard. intros H Hin. destruct (sectors st !! (p, n)); [discriminate|].
  apply rbind_ok in H as ([[v' r] ev0] & Hca & H). injection H as <- <-.
  set (g := {| sg_sector := n; sg_expiry := x; sg_claims := cs |}) in *.
  assert (Hstep : step (vr st) (ClaimAllocs e p [g] true) = (v', {| code := OK; ret := r; evs := ev0 |})).
  { unfold step. cbn [exec]. rewrite Hca. reflexivity. }
  destruct (claim_conditions _ _ _ _ _ _ _ id Hstep Hin) as (_ & _ & g0 & ac & a & Hg & Hac & Hid & Ha & H1 & H2 & H3 & H4 & H5 & H6 & Hcl & _ & Hnone).
  destruct Hg as [<-|[]]. cbn [g sg_sector sg_expiry] in *.
  eexists _, _. cbn [sectors vr]. rewrite lookup_insert. splits; try reflexivity; eauto; cbn; lia.
Qed.
