(* Proofs about coq/Model/ClaimTerms.v (property C10). *)
From stdpp Require Import gmap.
From Coq Require Import ZArith List Bool Lia.
From VF Require Import Gen.Consts Gen.VerifregConsts Base.Corr Base.MapSum Model.Verifreg
  Proofs.Verifreg_lemmas Model.ClaimTerms.
Import ListNotations.
Open Scope Z_scope.

(* ---------- sums over two related maps ---------- *)
Lemma msum_nonneg {K} `{Countable K} {A} (f : A -> Z) (m : gmap K A) :
  (forall k x, m !! k = Some x -> 0 <= f x) -> 0 <= msum f m.
Proof.
  induction m as [|i x m Hi IH] using map_ind; intros Hf.
  - rewrite msum_empty. lia.
  - rewrite msum_insert_new by exact Hi.
    assert (0 <= f x) by (apply (Hf i); apply lookup_insert).
    assert (0 <= msum f m).
    { apply IH. intros k y Hk. apply (Hf k). rewrite lookup_insert_ne; [exact Hk|]. intros ->. congruence. }
    lia.
Qed.

Lemma msum_le {K} `{Countable K} {A B} (f : A -> Z) (g : B -> Z) (m : gmap K A) (m' : gmap K B) :
  (forall k, from_option f 0 (m !! k) <= from_option g 0 (m' !! k)) -> msum f m <= msum g m'.
Proof.
  revert m'. induction m as [|i x m Hi IH] using map_ind; intros m' Hp.
  - rewrite msum_empty. apply msum_nonneg. intros k y Hk. specialize (Hp k).
    rewrite lookup_empty, Hk in Hp. exact Hp.
  - rewrite msum_insert_new by exact Hi.
    assert (Hm' : msum g m' = from_option g 0 (m' !! i) + msum g (delete i m')).
    { rewrite msum_delete'. lia. }
    rewrite Hm'.
    assert (H1 : f x <= from_option g 0 (m' !! i)).
    { specialize (Hp i). rewrite lookup_insert in Hp. exact Hp. }
    assert (H2 : msum f m <= msum g (delete i m')).
    { apply IH. intros k. destruct (decide (k = i)) as [->|Hne].
      - rewrite Hi, lookup_delete. cbn. lia.
      - rewrite lookup_delete_ne by congruence. specialize (Hp k).
        rewrite lookup_insert_ne in Hp by congruence. exact Hp. }
    lia.
Qed.

(* ---------- coverage ---------- *)
Definition covf (p n x : Z) (c : claim) : Z :=
  if (c_provider c =? p) && (c_sector c =? n) && (x <=? c_tstart c + c_tmax c) then c_size c else 0.

Definition cov (cl : gmap (Z * Z) claim) (p n x : Z) : Z := msum (covf p n x) cl.

Definition claim_sizes_ok (cl : gmap (Z * Z) claim) : Prop := forall k c, cl !! k = Some c -> 0 <= c_size c.
Definition alloc_sizes_ok (al : gmap (Z * Z) alloc) : Prop := forall k a, al !! k = Some a -> 0 <= a_size a.

(* how the claims table may change in one message sent at epoch e *)
Definition claims_le (e : Z) (cl cl' : gmap (Z * Z) claim) : Prop :=
  forall k c, cl !! k = Some c ->
    (exists c', cl' !! k = Some c' /\ claim_ext c c') \/ (cl' !! k = None /\ claim_expiration c <= e).

Lemma claims_le_refl e cl : claims_le e cl cl.
Proof. intros k c Hk. left. exists c. split; [exact Hk|apply claim_ext_refl]. Qed.

Lemma claims_rel_le e cl cl' : claims_rel cl cl' -> claims_le e cl cl'.
Proof.
  intros Hr k c Hk. specialize (Hr k). destruct (cl' !! k) as [v'|] eqn:E.
  - destruct Hr as (v & Hv & He). left. exists v'. split; [reflexivity|congruence].
  - congruence.
Qed.

Lemma covf_ext p n x c c' : claim_ext c c' -> 0 <= c_size c -> covf p n x c <= covf p n x c'.
Proof.
  intros [He Hle] Hs. unfold covf. rewrite He. cbn.
  destruct ((c_provider c =? p) && (c_sector c =? n)); cbn; [|lia].
  destruct (x <=? c_tstart c + c_tmax c) eqn:E1; destruct (x <=? c_tstart c + c_tmax c') eqn:E2; try lia.
  all: apply Z.leb_le in E1; apply Z.leb_gt in E2; lia.
Qed.

Lemma cov_mono e cl cl' p n x :
  claims_le e cl cl' -> claim_sizes_ok cl -> claim_sizes_ok cl' -> e < x ->
  cov cl p n x <= cov cl' p n x.
Proof.
  intros Hle Hs Hs' Hx. unfold cov. apply msum_le. intros k.
  destruct (cl !! k) as [c|] eqn:Ek; cbn.
  - destruct (Hle k c Ek) as [(c' & Hc' & He)|[Hn Hexp]].
    + rewrite Hc'. cbn. apply covf_ext; [exact He|eapply Hs; eauto].
    + rewrite Hn. cbn. unfold covf. unfold claim_expiration in Hexp.
      destruct ((c_provider c =? p) && (c_sector c =? n)); cbn; [|lia].
      destruct (x <=? c_tstart c + c_tmax c) eqn:E; [apply Z.leb_le in E; lia|lia].
  - destruct (cl' !! k) as [c'|] eqn:Ek'; cbn; [|lia].
    unfold covf. specialize (Hs' k c' Ek'). destruct (_ && _); lia.
Qed.

(* ---------- every registry message: claims only grow in term_max, or are removed after expiry ---------- *)
Definition op_epoch (o : op) : Z :=
  match o with
  | Transfer e _ _ _ _ | TransferFrom e _ _ _ _ _ | ClaimAllocs e _ _ _ | RemoveExpAllocs e _ _ _
  | RemoveExpClaims e _ _ _ => e
  | _ => 0
  end.

Definition removes_claims (o : op) : bool := match o with RemoveExpClaims _ _ _ _ => true | _ => false end.

Lemma deliver_claims_rel st e from to am p st' ids ev :
  deliver st e from to am p = Ok (st', ids, ev) -> allocs_wf (reg st) -> claims_wf (reg st) ->
  1 <= next_id (reg st) -> claims_rel (claims (reg st)) (claims (reg st')).
Proof.
  unfold deliver. intros H Ha Hc Hn. destruct (to =? VR).
  - apply receiver_hook_spec in H as (ars & ers & ups & _ & _ & HF & _ & _ & _ & _ & _ & _ & Hcl & _).
    rewrite Hcl. destruct (hook_registry (reg st) e ars ers ups from Ha Hc Hn HF) as (_ & _ & _ & _ & W5).
    exact W5.
  - destruct (_ =? OK); [|discriminate]. injection H as <- _ _. apply claims_rel_refl.
Qed.

(* claims present before are still there, at most with a larger term_max, unless the message is a
   RemoveExpiredClaims sent at or after their term's end *)
Theorem exec_claims_le st o st' r ev :
  exec st o = Ok (st', r, ev) -> reg_inv st ->
  claims_le (op_epoch o) (claims (reg st)) (claims (reg st')) /\
  (removes_claims o = false -> forall k c, claims (reg st) !! k = Some c ->
      exists c', claims (reg st') !! k = Some c' /\ claim_ext c c').
Proof.
  intros H I.
  assert (Hrel : claims_rel (claims (reg st)) (claims (reg st')) ->
                 claims_le (op_epoch o) (claims (reg st)) (claims (reg st')) /\
                 (removes_claims o = false -> forall k c, claims (reg st) !! k = Some c ->
                    exists c', claims (reg st') !! k = Some c' /\ claim_ext c c')).
  { intros Hr. split; [apply claims_rel_le; exact Hr|]. intros _ k c Hk.
    destruct (claims_rel_le 0 _ _ Hr k c Hk) as [Hx|[Hn _]]; [exact Hx|].
    specialize (Hr k). rewrite Hn in Hr. congruence. }
  destruct o; cbn [exec] in H.
  - unfold add_verifier in H. rinv H. injection H as <- _ _. apply Hrel, claims_rel_refl.
  - unfold remove_verifier in H. rinv H. injection H as <- _ _. apply Hrel, claims_rel_refl.
  - unfold add_verified_client in H. rinv H. injection H as <- _ _. apply Hrel, claims_rel_refl.
  - unfold remove_data_cap in H. rinv H. injection H as <- _ _. apply Hrel, claims_rel_refl.
  - apply rbind_ok in H as ([[s i] v] & H & H2). cbn in H2. injection H2 as <- _ _.
    unfold dc_transfer in H. destruct (negb _); [discriminate|].
    apply rbind_ok in H as (t1 & _ & Hd). apply Hrel.
    apply (deliver_claims_rel _ _ _ _ _ _ _ _ _ Hd); apply I.
  - apply rbind_ok in H as ([[s i] v] & H & H2). cbn in H2. injection H2 as <- _ _.
    unfold dc_transfer_from in H. destruct (negb _); [discriminate|].
    apply rbind_ok in H as (t1 & _ & Hd). apply Hrel.
    apply (deliver_claims_rel _ _ _ _ _ _ _ _ _ Hd); apply I.
  - apply claim_allocations_spec in H as (_ & K & acc & HK & _ & _ & Hreg & _).
    assert (Hm : forall k c, claims (reg st) !! k = Some c ->
                 exists c', claims (reg st') !! k = Some c' /\ claim_ext c c').
    { intros k c Hk. exists c. rewrite Hreg. cbn. split; [apply (pg_mono _ _ _ _ _ _ _ HK); exact Hk|apply claim_ext_refl]. }
    split; [intros k c Hk; left; apply Hm; exact Hk|intros _; exact Hm].
  - apply remove_expired_allocations_spec in H as (_ & _ & _ & _ & _ & Hreg & _).
    apply Hrel. rewrite Hreg. cbn. apply claims_rel_refl.
  - apply remove_expired_claims_spec in H as (_ & _ & _ & Hreg & _). rewrite Hreg. cbn [claims op_epoch].
    split; [|discriminate]. intros k c Hk. rewrite del_all_lookup.
    destruct (decide (k ∈ _)) as [Hin|Hn].
    + right. split; [reflexivity|]. apply elem_of_list_In, in_map_iff in Hin as (i & <- & Hi).
      destruct (to_remove_of_In _ _ _ _ _ _ Hi) as (x & Hx & Hexp). congruence.
    + left. exists c. split; [exact Hk|apply claim_ext_refl].
  - unfold extend_claim_terms in H. destruct (extend_terms _ _ _ _ _) as [[cl codes] ev0] eqn:Ee.
    injection H as <- _ _. cbn. apply Hrel. eapply extend_terms_rel. exact Ee.
  - unfold get_claims in H. injection H as <- _ _. apply Hrel, claims_rel_refl.
  - apply rbind_ok in H as (t & _ & H). injection H as <- _ _. apply Hrel, claims_rel_refl.
  - apply rbind_ok in H as (t & _ & H). injection H as <- _ _. apply Hrel, claims_rel_refl.
  - destruct (delta <? 0); [discriminate|]. injection H as <- _ _. apply Hrel, claims_rel_refl.
  - destruct (delta <? 0); [discriminate|]. injection H as <- _ _. apply Hrel, claims_rel_refl.
  - injection H as <- _ _. apply Hrel, claims_rel_refl.
Qed.

(* ---------- sizes are non-negative ---------- *)
Definition sizes_ok (r : registry) : Prop := alloc_sizes_ok (allocs r) /\ claim_sizes_ok (claims r).

Lemma MIN_SIZE_nonneg : 0 <= MINIMUM_VERIFIED_ALLOCATION_SIZE.
Proof. vm_compute. discriminate. Qed.

Lemma valid_areq_size w e r : valid_areq w e r = true -> 0 <= rq_size r.
Proof.
  unfold valid_areq. rewrite !andb_true_iff. intros [[[[[[H _] _] _] _] _] _].
  apply negb_true_iff, Z.ltb_ge in H. pose proof MIN_SIZE_nonneg. lia.
Qed.

Lemma claims_rel_sizes cl cl' : claims_rel cl cl' -> claim_sizes_ok cl -> claim_sizes_ok cl'.
Proof.
  intros Hr Hs k c' Hk. specialize (Hr k). rewrite Hk in Hr. destruct Hr as (v & Hv & He & _).
  rewrite He. cbn. eapply Hs; eauto.
Qed.

Lemma deliver_sizes st e from to am p st' ids ev :
  deliver st e from to am p = Ok (st', ids, ev) -> allocs_wf (reg st) -> claims_wf (reg st) ->
  1 <= next_id (reg st) -> sizes_ok (reg st) -> sizes_ok (reg st').
Proof.
  intros H Ha Hc Hn [Sa Sc]. pose proof (deliver_claims_rel _ _ _ _ _ _ _ _ _ H Ha Hc Hn) as Hrel.
  split; [|eapply claims_rel_sizes; eauto].
  unfold deliver in H. destruct (to =? VR).
  - apply receiver_hook_spec in H as (ars & ers & ups & _ & Hv & _ & _ & _ & _ & _ & _ & Hal & _).
    rewrite Hal. intros [c i] a. rewrite insert_allocs_lookup. destruct (decide _) as [[-> Hr]|_]; [|apply Sa].
    destruct (nth_error ars _) as [rq|] eqn:En; cbn; [|discriminate]. intros [= <-]. cbn.
    rewrite forallb_forall in Hv. eapply valid_areq_size, Hv, nth_error_In; eauto.
  - destruct (_ =? OK); [|discriminate]. injection H as <- _ _. exact Sa.
Qed.

Theorem exec_sizes st o st' r ev :
  exec st o = Ok (st', r, ev) -> reg_inv st -> sizes_ok (reg st) -> sizes_ok (reg st').
Proof.
  intros H I S. pose proof S as [Sa Sc]. destruct o; cbn [exec] in H.
  - unfold add_verifier in H. rinv H. injection H as <- _ _. exact S.
  - unfold remove_verifier in H. rinv H. injection H as <- _ _. exact S.
  - unfold add_verified_client in H. rinv H. injection H as <- _ _. exact S.
  - unfold remove_data_cap in H. rinv H. injection H as <- _ _. exact S.
  - apply rbind_ok in H as ([[s i] v] & H & H2). cbn in H2. injection H2 as <- _ _.
    unfold dc_transfer in H. destruct (negb _); [discriminate|].
    apply rbind_ok in H as (t1 & _ & Hd). apply (deliver_sizes _ _ _ _ _ _ _ _ _ Hd); try apply I; exact S.
  - apply rbind_ok in H as ([[s i] v] & H & H2). cbn in H2. injection H2 as <- _ _.
    unfold dc_transfer_from in H. destruct (negb _); [discriminate|].
    apply rbind_ok in H as (t1 & _ & Hd). apply (deliver_sizes _ _ _ _ _ _ _ _ _ Hd); try apply I; exact S.
  - apply claim_allocations_spec in H as (_ & K & acc & HK & _ & _ & Hreg & _). rewrite Hreg. split; cbn.
    + intros k a Hk. rewrite (pg_allocs _ _ _ _ _ _ _ HK) in Hk. apply del_all_lookup_Some in Hk. eapply Sa; eauto.
    + intros k c Hk. destruct (pg_new _ _ _ _ _ _ _ HK _ _ Hk) as [Hold|(i & -> & Hi & _)]; [eapply Sc; eauto|].
      apply in_map_iff in Hi as ([c0 i0] & Hi0 & HinK). cbn in Hi0. subst i0.
      destruct (pg_wit _ _ _ _ _ _ _ HK c0 i HinK) as (g & ac & a & _ & _ & _ & _ & Ha & _ & Hcl).
      rewrite Hcl in Hk. injection Hk as <-. cbn. eapply Sa; eauto.
  - apply remove_expired_allocations_spec in H as (_ & _ & _ & _ & _ & Hreg & _). rewrite Hreg. split; cbn; [|exact Sc].
    intros k a Hk. apply del_all_lookup_Some in Hk. eapply Sa; eauto.
  - apply remove_expired_claims_spec in H as (_ & _ & _ & Hreg & _). rewrite Hreg. split; cbn; [exact Sa|].
    intros k c Hk. apply del_all_lookup_Some in Hk. eapply Sc; eauto.
  - unfold extend_claim_terms in H. destruct (extend_terms _ _ _ _ _) as [[cl codes] ev0] eqn:Ee.
    injection H as <- _ _. split; cbn; [exact Sa|]. eapply claims_rel_sizes; [eapply extend_terms_rel; exact Ee|exact Sc].
  - unfold get_claims in H. injection H as <- _ _. exact S.
  - apply rbind_ok in H as (t & _ & H). injection H as <- _ _. exact S.
  - apply rbind_ok in H as (t & _ & H). injection H as <- _ _. exact S.
  - destruct (delta <? 0); [discriminate|]. injection H as <- _ _. exact S.
  - destruct (delta <? 0); [discriminate|]. injection H as <- _ _. exact S.
  - injection H as <- _ _. exact S.
Qed.

(* ---------- validate_extension_declarations ---------- *)
Lemma lookup_claims_spec cl p ids cs :
  lookup_claims cl p ids = Some cs -> Forall2 (fun id c => cl !! (p, id) = Some c) ids cs.
Proof.
  revert cs. induction ids as [|i r IH]; intros cs H; cbn in H.
  - injection H as <-. constructor.
  - destruct (cl !! (p, i)) as [c|] eqn:Ec; [|discriminate].
    destruct (lookup_claims cl p r) as [cs'|]; [|discriminate]. injection H as <-.
    constructor; auto.
Qed.

Definition space_of (m : gmap Z (Z * Z)) (n : Z) : Z * Z := default (0, 0) (m !! n).

Lemma add_space_lookup m n c k n' :
  add_space m n c k !! n' =
    if decide (n' = n) then Some (fst (space_of m n) + c, snd (space_of m n) + k) else m !! n'.
Proof.
  unfold add_space, space_of. destruct (m !! n) as [[a b]|] eqn:E; cbn;
    (destruct (decide (n' = n)) as [->|Hne]; [rewrite lookup_insert; reflexivity|rewrite lookup_insert_ne by congruence; reflexivity]).
Qed.

Lemma space_of_add m n c k :
  space_of (add_space m n c k) n = (fst (space_of m n) + c, snd (space_of m n) + k).
Proof. unfold space_of at 1. rewrite add_space_lookup. destruct (decide (n = n)); [reflexivity|congruence]. Qed.

(* what the per-claim loop establishes *)
Lemma acc_claims_spec p x n cs i fd m m' :
  acc_claims p x n cs i fd m = Ok m' ->
  Forall (fun c => c_provider c = p /\ c_sector c = n) cs /\
  Forall (fun c => x <= c_tstart c + c_tmax c) (firstn (fd - i) cs) /\
  (forall n', n' <> n -> m' !! n' = m !! n') /\
  (cs = [] -> m' = m) /\
  (cs <> [] -> m' !! n = Some (fst (space_of m n) + sumZ (map c_size cs),
                               snd (space_of m n) + sumZ (map c_size (firstn (fd - i) cs)))).
Proof.
  revert i m. induction cs as [|c r IH]; intros i m H; cbn [acc_claims] in H.
  - injection H as <-. rewrite firstn_nil. splits; auto; try constructor. congruence.
  - destruct (negb (c_provider c =? p)) eqn:Ep; [discriminate|]. apply negb_false_iff, Z.eqb_eq in Ep.
    destruct (negb (c_sector c =? n)) eqn:Es; [discriminate|]. apply negb_false_iff, Z.eqb_eq in Es.
    destruct (i <? fd)%nat eqn:Ei.
    + apply Nat.ltb_lt in Ei.
      destruct (c_tstart c + c_tmax c <? x) eqn:Et; [discriminate|]. apply Z.ltb_ge in Et.
      apply IH in H as (F1 & F2 & F3 & F4 & F5).
      replace (fd - i)%nat with (S (fd - S i)) by lia. cbn [firstn map]. rewrite !sumZ_cons.
      splits.
      * constructor; auto.
      * constructor; auto.
      * intros n' Hn. rewrite F3 by exact Hn. rewrite add_space_lookup. destruct (decide (n' = n)); [contradiction|reflexivity].
      * discriminate.
      * intros _. destruct r as [|c2 r2].
        -- rewrite (F4 eq_refl). rewrite add_space_lookup. destruct (decide (n = n)); [|congruence].
           rewrite firstn_nil. unfold sumZ; cbn. f_equal. f_equal; lia.
        -- rewrite F5 by discriminate. rewrite space_of_add. cbn [fst snd]. f_equal. f_equal; lia.
    + apply Nat.ltb_ge in Ei.
      apply IH in H as (F1 & F2 & F3 & F4 & F5).
      replace (fd - i)%nat with O by lia. replace (fd - S i)%nat with O in * by lia. cbn [firstn map] in *.
      rewrite !sumZ_cons. splits.
      * constructor; auto.
      * constructor.
      * intros n' Hn. rewrite F3 by exact Hn. rewrite add_space_lookup. destruct (decide (n' = n)); [contradiction|reflexivity].
      * discriminate.
      * intros _. destruct r as [|c2 r2].
        -- rewrite (F4 eq_refl). rewrite add_space_lookup. destruct (decide (n = n)); [|congruence].
           unfold sumZ; cbn. f_equal. f_equal; lia.
        -- rewrite F5 by discriminate. rewrite space_of_add. cbn [fst snd firstn map].
           change (sumZ []) with 0. f_equal. f_equal; lia.
Qed.

(* a "maintain" total justified by the claims listed, each reaching expiration x *)
Definition mt_ok (cl : gmap (Z * Z) claim) (p n x : Z) (ids : list Z) (mt : Z) : Prop :=
  exists cs, Forall2 (fun id c => cl !! (p, id) = Some c /\ c_provider c = p /\ c_sector c = n /\
                                  x <= c_tstart c + c_tmax c) ids cs /\
             mt = sumZ (map c_size cs).

Definition good (cl : gmap (Z * Z) claim) (p : Z) (U : list (Z * sclaim)) (n mt : Z) : Prop :=
  exists x sc, In (x, sc) U /\ sc_sector sc = n /\ mt_ok cl p n x (sc_maintain sc) mt.

Definition spaces_ok (cl : gmap (Z * Z) claim) (p : Z) (U : list (Z * sclaim)) (m : gmap Z (Z * Z)) : Prop :=
  forall n chk mt, m !! n = Some (chk, mt) -> good cl p U n mt.

Lemma Forall2_and_Forall {A B} (R : A -> B -> Prop) (P : B -> Prop) l l' :
  Forall2 R l l' -> Forall P l' -> Forall2 (fun a b => R a b /\ P b) l l'.
Proof. induction 1; intros HF; inversion HF; subst; constructor; auto. Qed.

Lemma NoDup_app_disjoint {A} (l1 l2 : list A) x : NoDup (l1 ++ l2) -> In x l1 -> In x l2 -> False.
Proof.
  induction l1 as [|a r IH]; cbn; intros Hnd H1 H2; [destruct H1|].
  inversion Hnd as [|? ? Hn Hnd']; subst. destruct H1 as [->|H1].
  - apply Hn. apply in_or_app. right. exact H2.
  - eapply IH; eauto.
Qed.

Lemma NoDup_app_parts {A} (l1 l2 : list A) : NoDup (l1 ++ l2) -> NoDup l1 /\ NoDup l2.
Proof.
  induction l1 as [|a r IH]; cbn; intros H; [split; [constructor|exact H]|].
  inversion H as [|? ? Hn Hnd]; subst. destruct (IH Hnd) as [H1 H2]. split; [|exact H2].
  constructor; [|exact H1]. intros Hin. apply Hn. apply in_or_app. left. exact Hin.
Qed.

Lemma acc_sclaims_ok cl p x U scs m m' :
  acc_sclaims cl p x scs m = Ok m' ->
  NoDup (map sc_sector scs) ->
  (forall n, In n (map sc_sector scs) -> m !! n = None) ->
  (forall sc, In sc scs -> In (x, sc) U) ->
  spaces_ok cl p U m ->
  spaces_ok cl p U m' /\ (forall n, m' !! n <> None -> m !! n <> None \/ In n (map sc_sector scs)).
Proof.
  revert m. induction scs as [|sc rest IH]; intros m H Hnd Hfresh HU Hok; cbn [acc_sclaims] in H.
  - injection H as <-. split; [exact Hok|]. intros n Hn. left. exact Hn.
  - destruct (lookup_claims cl p (sc_maintain sc ++ sc_drop sc)) as [cs|] eqn:El; [|discriminate].
    apply rbind_ok in H as (m1 & Hm1 & H).
    apply lookup_claims_spec in El. apply acc_claims_spec in Hm1 as (F1 & F2 & F3 & F4 & F5).
    cbn [map] in Hnd. inversion Hnd as [|? ? Hnin Hnd']; subst.
    set (n := sc_sector sc) in *.
    assert (Hmn : m !! n = None) by (apply Hfresh; left; reflexivity).
    assert (Hok1 : spaces_ok cl p U m1).
    { intros n' chk mt Hl. destruct (decide (n' = n)) as [->|Hne].
      - destruct cs as [|c0 cs0]; [rewrite (F4 eq_refl) in Hl; congruence|].
        rewrite F5 in Hl by discriminate. unfold space_of in Hl. rewrite Hmn in Hl. cbn in Hl.
        injection Hl as _ <-. rewrite Nat.sub_0_r.
        apply Forall2_app_inv_l in El as (l1 & l2 & Hl1 & Hl2 & Heq).
        assert (Hlen : length l1 = length (sc_maintain sc)) by (symmetry; eapply Forall2_length; eauto).
        rewrite Nat.sub_0_r in F2. rewrite Heq in *.
        rewrite <- Hlen, firstn_app, Nat.sub_diag, firstn_all, firstn_O, app_nil_r in *.
        exists x, sc. split; [apply HU; left; reflexivity|]. split; [reflexivity|].
        exists l1. split; [|lia].
        apply Forall_app in F1 as [F1 _].
        pose proof (Forall2_and_Forall _ _ _ _ Hl1 F1) as G1.
        pose proof (Forall2_and_Forall _ _ _ _ G1 F2) as G2.
        clear - G2. induction G2 as [|a b l l' [[Ha [Hp Hs]] Hx] HF IH]; constructor; auto.
      - rewrite F3 in Hl by exact Hne. eapply Hok; eauto. }
    apply IH in H; auto.
    + destruct H as [Hok' Hdom]. split; [exact Hok'|]. intros n' Hn'. destruct (Hdom n' Hn') as [H1|H1].
      * destruct (decide (n' = n)) as [->|Hne]; [right; left; reflexivity|].
        rewrite F3 in H1 by exact Hne. left. exact H1.
      * right. right. exact H1.
    + intros n' Hin. assert (n' <> n) by (intros ->; contradiction).
      rewrite F3 by assumption. apply Hfresh. right. exact Hin.
    + intros sc' Hin. apply HU. right. exact Hin.
Qed.

Definition universe (ds : list edecl) : list (Z * sclaim) :=
  flat_map (fun d => map (pair (ed_new_exp d)) (ed_claims d)) ds.

Lemma validate_decls_ok cl p U ds m m' :
  validate_decls cl p ds m = Ok m' ->
  NoDup (map sc_sector (flat_map ed_claims ds)) ->
  (forall n, In n (map sc_sector (flat_map ed_claims ds)) -> m !! n = None) ->
  (forall x sc, In (x, sc) (universe ds) -> In (x, sc) U) ->
  spaces_ok cl p U m -> spaces_ok cl p U m'.
Proof.
  revert m. induction ds as [|d rest IH]; intros m H Hnd Hfresh HU Hok; cbn [validate_decls] in H.
  - injection H as <-. exact Hok.
  - destruct (_ <=? ed_deadline d); [discriminate|].
    apply rbind_ok in H as (m1 & Hm1 & H).
    cbn [flat_map] in Hnd, Hfresh. rewrite map_app in Hnd, Hfresh.
    destruct (NoDup_app_parts _ _ Hnd) as [Hnd1 Hnd2].
    destruct (acc_sclaims_ok cl p (ed_new_exp d) U (ed_claims d) m m1 Hm1 Hnd1) as [Hok1 Hdom]; auto.
    + intros n Hin. apply Hfresh. apply in_or_app. left. exact Hin.
    + intros sc Hin. apply HU. cbn [universe flat_map]. apply in_or_app. left. apply in_map. exact Hin.
    + apply IH in H; auto.
      * intros n Hin. destruct (m1 !! n) eqn:E; [|reflexivity]. exfalso.
        destruct (Hdom n) as [H1|H1]; [congruence| |].
        -- apply H1. apply Hfresh. apply in_or_app. right. exact Hin.
        -- eapply NoDup_app_disjoint; eauto.
      * intros x sc Hin. apply HU. cbn [universe flat_map]. apply in_or_app. right. exact Hin.
Qed.
