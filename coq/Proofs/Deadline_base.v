(* Deadline-level proofs, part 0: sums over the partitions array, the invariant "up to offsets"
   used inside loops that update the memos only at the end, and the single-partition update. *)
From Coq Require Import ZArith List Bool Lia.
From stdpp Require Import gmap.
From VF Require Import Base.SetSum Model.Partition Model.PartitionInv Model.Deadline
  Model.DeadlineInv Proofs.Partition_base Proofs.Partition_lists Proofs.Partition_ops1.
Import ListNotations.
Open Scope Z_scope.

Lemma lsum_insert {A} (f : A -> Z) (l : list A) i old x :
  l !! i = Some old -> lsum f (<[i := x]> l) = lsum f l - f old + f x.
Proof.
  revert i. induction l as [|y l IH]; intros i H; [rewrite lookup_nil in H; discriminate|].
  destruct i as [|i].
  - change ((y :: l) !! 0%nat) with (Some y) in H. injection H as ->.
    change (<[0%nat := x]> (old :: l)) with (x :: l). rewrite !lsum_cons. lia.
  - change ((y :: l) !! S i) with (l !! i) in H.
    change (<[S i := x]> (y :: l)) with (y :: <[i := x]> l). rewrite !lsum_cons, (IH i H). lia.
Qed.
Lemma lsum_snoc {A} (f : A -> Z) (l : list A) x : lsum f (l ++ [x]) = lsum f l + f x.
Proof. rewrite lsum_app. cbn. lia. Qed.

Lemma psum_lsum f l : psum f l = PP (lsum (fun p => raw (f p)) l) (lsum (fun p => qa (f p)) l).
Proof.
  induction l as [|p l IH]; [reflexivity|]. cbn [psum fold_right] in *. fold (psum f l).
  rewrite IH, !lsum_cons. reflexivity.
Qed.
Lemma psum_insert f (l : list partition) i old x :
  l !! i = Some old -> psum f (<[i := x]> l) = pp_add (pp_sub (psum f l) (f old)) (f x).
Proof.
  intros H. rewrite !psum_lsum, !(lsum_insert _ l i old x H). apply pp_eq; cbn; lia.
Qed.
Lemma psum_snoc f (l : list partition) x : psum f (l ++ [x]) = pp_add (psum f l) (f x).
Proof. rewrite !psum_lsum, !lsum_snoc. apply pp_eq; cbn; lia. Qed.

Lemma get_part_Some ps i p : get_part ps i = Some p -> ps !! N.to_nat i = Some p.
Proof. auto. Qed.
Lemma put_part_existing ps i p old :
  ps !! N.to_nat i = Some old -> put_part ps i p = <[N.to_nat i := p]> ps.
Proof.
  intros H. unfold put_part. apply lookup_lt_Some in H.
  destruct (N.to_nat i <? length ps)%nat eqn:E; [reflexivity|]. apply Nat.ltb_ge in E. lia.
Qed.

(* the invariant up to offsets: memo = recomputed + offset *)
Record DInvOff (qs : quant) (tbl : gmap N sector) (d : deadline)
    (oL : Z) (oFP oLP : pp) (oFEE : Z) : Prop := {
  do_parts : forall i p, parts d !! i = Some p -> PartInv qs tbl p;
  do_disj : forall i j p q, i <> j -> parts d !! i = Some p -> parts d !! j = Some q ->
            sectors p ## sectors q;
  do_live : dl_live_sectors d = lsum (fun p => ssize (live_sectors p)) (parts d) + oL;
  do_total : dl_total_sectors d = lsum (fun p => ssize (sectors p)) (parts d);
  do_faulty : dl_faulty_power d = pp_add (psum p_faulty_power (parts d)) oFP;
  do_livepow : dl_live_power d = pp_add (psum live_power (parts d)) oLP;
  do_fee : dl_daily_fee d = lsum (fun p => sfee tbl (live_sectors p)) (parts d) + oFEE }.

Definition EarlyOk (d : deadline) : Prop :=
  forall i, i ∈ early_terms d <->
            exists p, parts d !! N.to_nat i = Some p /\ early_terminated p <> ∅.

Lemma dinv_off_zero qs tbl d :
  DeadlineInv qs tbl d <-> DInvOff qs tbl d 0 pp0 pp0 0 /\ EarlyOk d.
Proof.
  split.
  - intros []. split; [|assumption]. constructor; try assumption; try lia.
    + rewrite di_faulty. apply pp_eq; cbn; lia.
    + rewrite di_livepow. apply pp_eq; cbn; lia.
  - intros [[] HE]. constructor; try assumption; try lia.
    + rewrite do_faulty0. apply pp_eq; cbn; lia.
    + rewrite do_livepow0. apply pp_eq; cbn; lia.
Qed.

(* replacing partition i by p' (same sector set), memos unchanged: the offsets absorb the change *)
Lemma dinv_off_update qs tbl d i p p' oL oFP oLP oFEE :
  DInvOff qs tbl d oL oFP oLP oFEE -> parts d !! i = Some p ->
  PartInv qs tbl p' -> sectors p' = sectors p ->
  DInvOff qs tbl (set_parts d (<[i := p']> (parts d)))
    (oL + ssize (live_sectors p) - ssize (live_sectors p'))
    (pp_sub (pp_add oFP (p_faulty_power p)) (p_faulty_power p'))
    (pp_sub (pp_add oLP (live_power p)) (live_power p'))
    (oFEE + sfee tbl (live_sectors p) - sfee tbl (live_sectors p')).
Proof.
  intros [D1 D2 D3 D4 D5 D6 D7] Hi HP' HS.
  constructor; cbn [set_parts parts dl_live_sectors dl_total_sectors dl_faulty_power
                    dl_live_power dl_daily_fee].
  - intros j q Hj. destruct (decide (j = i)) as [->|Hne].
    + rewrite list_lookup_insert in Hj by (eapply lookup_lt_Some; eauto). injection Hj as <-. exact HP'.
    + rewrite list_lookup_insert_ne in Hj by congruence. eapply D1; eauto.
  - intros j k q r Hne Hj Hk.
    destruct (decide (j = i)) as [->|Hj']; destruct (decide (k = i)) as [->|Hk']; try congruence.
    + rewrite list_lookup_insert in Hj by (eapply lookup_lt_Some; eauto). injection Hj as <-.
      rewrite list_lookup_insert_ne in Hk by congruence. rewrite HS. exact (D2 i k p r Hne Hi Hk).
    + rewrite list_lookup_insert in Hk by (eapply lookup_lt_Some; eauto). injection Hk as <-.
      rewrite list_lookup_insert_ne in Hj by congruence. rewrite HS. exact (D2 j i q p Hne Hj Hi).
    + rewrite list_lookup_insert_ne in Hj, Hk by congruence. exact (D2 j k q r Hne Hj Hk).
  - rewrite (lsum_insert _ _ _ _ _ Hi). lia.
  - rewrite (lsum_insert _ _ _ _ _ Hi), HS. lia.
  - rewrite (psum_insert _ _ _ _ _ Hi), D5. apply pp_eq; cbn; lia.
  - rewrite (psum_insert _ _ _ _ _ Hi), D6. apply pp_eq; cbn; lia.
  - rewrite (lsum_insert _ _ _ _ _ Hi). lia.
Qed.

(* memos may be rewritten as long as memo - offset is unchanged *)
Lemma dinv_off_memos qs tbl d d' oL oFP oLP oFEE oL' oFP' oLP' oFEE' :
  DInvOff qs tbl d oL oFP oLP oFEE ->
  parts d' = parts d -> dl_total_sectors d' = dl_total_sectors d ->
  dl_live_sectors d' - oL' = dl_live_sectors d - oL ->
  pp_sub (dl_faulty_power d') oFP' = pp_sub (dl_faulty_power d) oFP ->
  pp_sub (dl_live_power d') oLP' = pp_sub (dl_live_power d) oLP ->
  dl_daily_fee d' - oFEE' = dl_daily_fee d - oFEE ->
  DInvOff qs tbl d' oL' oFP' oLP' oFEE'.
Proof.
  intros [D1 D2 D3 D4 D5 D6 D7] EP ET EL EF ELP EFE.
  constructor; rewrite ?EP, ?ET; try assumption; try lia.
  - rewrite D5 in EF. apply pp_eq; [apply (f_equal raw) in EF|apply (f_equal qa) in EF]; cbn in *; lia.
  - rewrite D6 in ELP. apply pp_eq; [apply (f_equal raw) in ELP|apply (f_equal qa) in ELP]; cbn in *; lia.
Qed.

(* size of a set difference / union, for the live-sector counters *)
Lemma ssize_diff (X Y : gset N) : Y ⊆ X -> ssize (X ∖ Y) = ssize X - ssize Y.
Proof.
  intros H. unfold ssize. assert (E : X = Y ∪ (X ∖ Y)).
  { apply seteq_L. intros n. destruct (decide (n ∈ Y)); set_solver. }
  rewrite E at 2. rewrite (size_union (C := gset N) Y (X ∖ Y)); [lia|set_solver].
Qed.
Lemma ssize_union_disj (X Y : gset N) : X ## Y -> ssize (X ∪ Y) = ssize X + ssize Y.
Proof. intros H. unfold ssize. rewrite (size_union (C := gset N) X Y H). lia. Qed.
