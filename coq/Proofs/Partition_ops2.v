(* Partition operations preserve PartInv, part 2: terminate_sectors, pop_expired_sectors,
   record_missed_post. *)
From Coq Require Import ZArith List Bool Lia.
From stdpp Require Import gmap.
From VF Require Import Base.SetSum Model.Partition Model.PartitionInv Proofs.Partition_base
  Proofs.Partition_entry Proofs.Partition_moves Proofs.Partition_lists Proofs.Partition_queue1
  Proofs.Partition_queue2 Proofs.Partition_queue3 Proofs.Partition_queue4 Proofs.Partition_queue5
  Proofs.Partition_queue6 Proofs.Partition_ops1.
Import ListNotations.
Open Scope Z_scope.

Lemma spow_diff_sub tbl (A B : gset N) : B ⊆ A -> spow tbl (A ∖ B) = pp_sub (spow tbl A) (spow tbl B).
Proof.
  intros S. rewrite (spow_add_eq tbl A (A ∖ B) B).
  - apply pp_eq; cbn; lia.
  - intros n. destruct (decide (n ∈ B)); set_solver.
  - set_solver.
Qed.

Lemma record_early_termination_ok p epoch X p1 :
  record_early_termination p epoch X = Ok p1 ->
  bfq_add NO_QUANT (early_terminated p) epoch X = Ok (early_terminated p1) /\
  sectors p1 = sectors p /\ unproven p1 = unproven p /\ faults p1 = faults p /\
  recoveries p1 = recoveries p /\ terminated p1 = terminated p /\ expirations p1 = expirations p /\
  live_power p1 = live_power p /\ unproven_power p1 = unproven_power p /\
  p_faulty_power p1 = p_faulty_power p /\ recovering_power p1 = recovering_power p.
Proof.
  unfold record_early_termination. destruct (bfq_add _ _ _ _) as [et|]; cbn [rbind]; [|discriminate].
  intros [= <-]. cbn. repeat split.
Qed.

(* ---------- terminate_sectors ---------- *)
Lemma p_terminate_sectors_inv qs tbl p epoch nums p' removed unp_pow :
  PartInv qs tbl p ->
  p_terminate_sectors qs tbl p epoch nums = Ok (p', removed, unp_pow) ->
  PartInv qs tbl p' /\ nums ⊆ live_sectors p /\
  sectors p' = sectors p /\ terminated p' = terminated p ∪ nums /\
  faults p' = faults p ∖ nums /\ unproven p' ≡ unproven p ∖ nums /\
  es_all removed = nums /\
  active_power removed = spow tbl ((nums ∖ faults p) ∖ unproven p) /\
  faulty_power removed = spow tbl (nums ∩ faults p) /\
  unp_pow = spow tbl (nums ∩ unproven p) /\
  fee_deduction removed = sfee tbl nums.
Proof.
  intros HP Hop. unfold p_terminate_sectors in Hop.
  destruct (subset nums (live_sectors p)) eqn:Esub; cbn [negb] in Hop; [|discriminate].
  apply subset_true in Esub.
  destruct (load_sectors tbl nums) as [infos|] eqn:El; cbn [rbind] in Hop; [|discriminate].
  destruct (load_from_live _ _ _ _ _ HP El) as (Hft & Hnd & Hn).
  destruct (remove_sectors qs (expirations p) infos (faults p) (recoveries p))
    as [[[q rm] rrec]|] eqn:Er; cbn [rbind] in Hop; [|discriminate].
  destruct (remove_sectors_inv qs tbl (faults p) (recoveries p) (live_sectors p) infos Hft Hnd
              (pi_rec_faults _ _ _ HP) nums (nums ∖ faults p) (nums ∩ faults p)
              (eq_sym Hn) eq_refl eq_refl (expirations p) q rm rrec (pi_queue _ _ _ HP) Er)
    as (HQ & _ & Eall & Edisj & Eea & Epl & Eact & Eflt & Efee & Erec).
  unfold es_all in Eall. rewrite Eall in Hop.
  destruct (record_early_termination (set_exp p q) epoch nums) as [p1|] eqn:Eet;
    cbn [rbind] in Hop; [|discriminate].
  apply record_early_termination_ok in Eet
    as (Eet & S1 & U1 & F1 & R1 & T1 & X1 & LP1 & UP1 & FP1 & RP1). cbn in *.
  rewrite S1, U1, F1, R1, T1, X1, LP1, UP1, FP1, RP1 in Hop.
  destruct (select_sectors infos (nums ∩ unproven p)) as [ui|] eqn:Es; cbn [rbind] in Hop; [|discriminate].
  apply select_sectors_ok in Es as [-> _].
  assert (Eunp : sum_pow (List.filter (fun s => bool_decide (s_num s ∈ nums ∩ unproven p)) infos)
                 = spow tbl (nums ∩ unproven p)).
  { rewrite (sum_pow_from_tbl tbl); [|apply from_tbl_filter, Hft|apply NoDup_map_filter, Hnd].
    apply spow_eq. rewrite nums_of_filter_in, Hn. clear. set_solver. }
  rewrite Eunp in Hop.
  destruct (validated _) as [p3|] eqn:Ev; cbn [rbind] in Hop; [|discriminate].
  apply validated_ok in Ev. subst p3. injection Hop as <- <- <-.
  cbn [sectors unproven faults recoveries terminated on_time early active_power faulty_power
       fee_deduction es_all].
  destruct (partinv_sub _ _ _ HP) as (SF & SU & SR).
  assert (Hact : pp_sub (active_power rm) (spow tbl (nums ∩ unproven p))
                 = spow tbl ((nums ∖ faults p) ∖ unproven p)).
  { rewrite Eact. rewrite <- (spow_diff_sub tbl (nums ∖ faults p) (nums ∩ unproven p)).
    - apply spow_eq. clear. set_solver.
    - pose proof (pi_unproven_faults _ _ _ HP). clear -H. set_solver. }
  split; [|split; [exact Esub|]; split; [reflexivity|]; split; [reflexivity|]; split; [reflexivity|];
           split; [clear; set_solver|]; split; [exact Eall|]; split; [exact Hact|];
           split; [exact Eflt|]; split; [reflexivity|exact Efee]].
  destruct HP. unfold live_sectors in *.
  assert (Elive : sectors p ∖ (terminated p ∪ nums) = (sectors p ∖ terminated p) ∖ nums)
    by (apply seteq_L; clear; set_solver).
  constructor; cbn [sectors unproven faults recoveries terminated expirations early_terminated
                    live_power unproven_power p_faulty_power recovering_power]; try assumption.
  - unfold live_sectors; cbn [sectors terminated]. rewrite Elive.
    eapply TblOk_sub; [|exact pi_tbl]. clear. set_solver.
  - clear -pi_rec_faults. set_solver.
  - clear -pi_faults_sectors. set_solver.
  - clear -pi_unproven_sectors. set_solver.
  - clear -pi_terminated_sectors Esub. set_solver.
  - clear -pi_unproven_faults. set_solver.
  - clear -pi_unproven_terminated. set_solver.
  - clear -pi_faults_terminated. set_solver.
  - unfold live_sectors; cbn [sectors terminated]. rewrite Elive, pi_live_power, Eact, Eflt.
    rewrite (spow_diff_sub tbl _ nums Esub).
    rewrite (spow_add_eq tbl nums (nums ∖ faults p) (nums ∩ faults p)).
    + apply pp_eq; cbn; lia.
    + intros n. destruct (decide (n ∈ faults p)); set_solver.
    + clear. set_solver.
  - rewrite pi_unproven_power. symmetry. rewrite <- spow_diff_sub by (clear; set_solver).
    reflexivity.
  - rewrite pi_faulty_power, Eflt. symmetry. rewrite <- spow_diff_sub by (clear; set_solver).
    apply spow_eq. clear. set_solver.
  - rewrite pi_recovering_power, Erec. symmetry. rewrite <- spow_diff_sub by (clear; set_solver).
    apply spow_eq. clear. set_solver.
  - unfold live_sectors; cbn [sectors terminated]. rewrite Elive.
    eapply QInv_F_ext; [|exact HQ]. intros n Hn0. clear -Hn0. set_solver.
  - eapply bfq_add_inv; [exact pi_et|exact Eet| | |]; clear -Esub; set_solver.
Qed.

(* ---------- pop_expired_sectors ---------- *)
Lemma p_pop_expired_sectors_inv qs tbl p until p' popped :
  PartInv qs tbl p ->
  p_pop_expired_sectors p until = Ok (p', popped) ->
  let E := es_all popped in
  PartInv qs tbl p' /\ E ⊆ live_sectors p /\ unproven p = ∅ /\
  sectors p' = sectors p /\ terminated p' = terminated p ∪ E /\ faults p' = faults p ∖ E /\
  unproven p' = ∅ /\
  active_power popped = spow tbl (E ∖ faults p) /\ faulty_power popped = spow tbl (E ∩ faults p) /\
  fee_deduction popped = sfee tbl E /\ on_time_pledge popped = spledge tbl (on_time popped).
Proof.
  intros HP Hop E. unfold p_pop_expired_sectors in Hop.
  destruct (set_empty (unproven p)) eqn:Eu; cbn [negb] in Hop; [|discriminate].
  apply set_empty_true in Eu.
  destruct (pop_until (expirations p) until) as [q popped0] eqn:Ep.
  destruct (pop_until_inv qs tbl (faults p) (live_sectors p) (expirations p) until q popped0
              (pi_queue _ _ _ HP) Ep) as (HQ & HEL & [Ad Aef Apl Aact Aflt Afee]).
  destruct (set_empty (recoveries p)) eqn:Erc; cbn [negb] in Hop; [|discriminate].
  apply set_empty_true in Erc.
  destruct (pp_is_zero (recovering_power p)); cbn [negb] in Hop; [|discriminate].
  destruct (disjoint_b _ _); cbn [negb] in Hop; [|discriminate].
  destruct (record_early_termination _ until (early popped0)) as [p1|] eqn:Eet;
    cbn [rbind] in Hop; [|discriminate].
  apply record_early_termination_ok in Eet
    as (Eet & S1 & U1 & F1 & R1 & T1 & X1 & LP1 & UP1 & FP1 & RP1). cbn in *.
  destruct (validated p1) as [p3|] eqn:Ev; cbn [rbind] in Hop; [|discriminate].
  apply validated_ok in Ev. subst p3. injection Hop as <- <-.
  subst E. fold (es_all popped0) in *. set (E := es_all popped0) in *.
  assert (EF : (on_time popped0 ∩ faults p) ∪ early popped0 ≡ E ∩ faults p).
  { subst E. unfold es_all. clear -Aef. set_solver. }
  assert (EA : on_time popped0 ∖ faults p ≡ E ∖ faults p).
  { subst E. unfold es_all. clear -Aef. set_solver. }
  rewrite S1, T1, F1, U1.
  split; [|split; [exact HEL|split; [exact Eu|split; [reflexivity|split; [reflexivity|split;
    [reflexivity|split; [exact Eu|split; [rewrite Aact; apply spow_eq, EA|split;
    [rewrite Aflt; apply spow_eq, EF|split; [exact Afee|exact Apl]]]]]]]]]].
  destruct HP. unfold live_sectors in *.
  assert (Elive : sectors p ∖ (terminated p ∪ E) = (sectors p ∖ terminated p) ∖ E)
    by (apply seteq_L; clear; set_solver).
  constructor; rewrite ?S1, ?T1, ?F1, ?U1, ?R1, ?X1, ?LP1, ?UP1, ?FP1, ?RP1; try assumption.
  - unfold live_sectors. rewrite S1, T1, Elive. eapply TblOk_sub; [|exact pi_tbl]. clear. set_solver.
  - rewrite Erc. clear. set_solver.
  - clear -pi_faults_sectors. set_solver.
  - clear -pi_terminated_sectors HEL. set_solver.
  - rewrite Eu. clear. set_solver.
  - rewrite Eu. clear. set_solver.
  - clear -pi_faults_terminated. set_solver.
  - unfold live_sectors. rewrite S1, T1, Elive, pi_live_power, Aact, Aflt.
    rewrite (spow_diff_sub tbl _ E HEL).
    rewrite (spow_add_eq tbl E (on_time popped0 ∖ faults p) (on_time popped0 ∩ faults p ∪ early popped0)).
    + apply pp_eq; cbn; lia.
    + rewrite EF, EA. intros n. destruct (decide (n ∈ faults p)); set_solver.
    + rewrite EF, EA. clear. set_solver.
  - rewrite pi_faulty_power, Aflt. symmetry. rewrite (spow_eq tbl _ _ EF).
    rewrite <- spow_diff_sub by (clear; set_solver). apply spow_eq. clear. set_solver.
  - unfold live_sectors. rewrite S1, T1, Elive.
    eapply QInv_F_ext; [|exact HQ]. intros n Hn. clear -Hn. set_solver.
  - eapply bfq_add_inv; [exact pi_et|exact Eet| | |].
    + subst E. unfold es_all in HEL. clear -HEL. set_solver.
    + subst E. unfold es_all. clear. set_solver.
    + clear. set_solver.
Qed.

(* ---------- record_missed_post ---------- *)
Lemma p_record_missed_post_inv qs tbl p fault_exp p' delta pen nfp :
  PartInv qs tbl p ->
  p_record_missed_post qs p fault_exp = Ok (p', delta, pen, nfp) ->
  PartInv qs tbl p' /\ sectors p' = sectors p /\ terminated p' = terminated p /\
  faults p' = live_sectors p /\ unproven p' = ∅ /\
  nfp = spow tbl (live_sectors p ∖ faults p) /\
  delta = pp_sub (spow tbl (unproven p)) nfp /\
  pen = pp_add (spow tbl (recoveries p)) nfp.
Proof.
  intros HP Hop. unfold p_record_missed_post in Hop.
  destruct (reschedule_all_as_faults qs (expirations p) fault_exp) as [q|] eqn:Er;
    cbn [rbind] in Hop; [|discriminate].
  pose proof (reschedule_all_as_faults_inv qs tbl (faults p) (live_sectors p) (expirations p)
                (quant_up qs fault_exp) (pi_unit _ _ _ HP) (pi_queue _ _ _ HP) fault_exp q eq_refl Er)
    as HQ.
  destruct (validated _) as [p2|] eqn:Ev; cbn [rbind] in Hop; [|discriminate].
  apply validated_ok in Ev. subst p2. injection Hop as <- <- <- <-.
  destruct (partinv_sub _ _ _ HP) as (SF & SU & SR).
  cbn [sectors unproven faults recoveries terminated].
  assert (Enfp : pp_sub (live_power p) (p_faulty_power p) = spow tbl (live_sectors p ∖ faults p)).
  { rewrite (pi_live_power _ _ _ HP), (pi_faulty_power _ _ _ HP). symmetry.
    apply spow_diff_sub, SF. }
  rewrite Enfp, (pi_unproven_power _ _ _ HP), (pi_recovering_power _ _ _ HP).
  split; [|repeat split].
  destruct HP. unfold live_sectors in *.
  constructor; cbn [sectors unproven faults recoveries terminated expirations early_terminated
                    live_power unproven_power p_faulty_power recovering_power]; try assumption.
  - clear. set_solver.
  - clear. set_solver.
  - clear. set_solver.
  - clear. set_solver.
  - clear. set_solver.
  - clear. set_solver.
  - symmetry. apply spow_empty.
  - symmetry. apply spow_empty.
Qed.
