(* Deadline operations preserve DeadlineInv, part 3: add_sectors (the partition-filling loop). *)
From Coq Require Import ZArith List Bool Lia.
From stdpp Require Import gmap.
From VF Require Import Base.SetSum Model.Partition Model.PartitionInv Model.Deadline
  Model.DeadlineInv Proofs.Partition_base Proofs.Partition_lists Proofs.Partition_queue1
  Proofs.Partition_ops1 Proofs.Partition_frame Proofs.Partition_lemmas
  Proofs.Deadline_base Proofs.Deadline_ops1.
Import ListNotations.
Open Scope Z_scope.

Lemma partinv_empty qs tbl : 0 < q_unit qs -> tbl_keyed tbl -> PartInv qs tbl part_empty.
Proof.
  intros Hu Hk. constructor; cbn; try set_solver; try assumption.
  - intros n Hn. unfold live_sectors in Hn; cbn in Hn. set_solver.
  - unfold live_sectors; cbn. replace (∅ ∖ ∅) with (∅ : gset N) by (apply seteq_L; set_solver).
    apply QInv_empty.
  - apply ETInv_empty.
Qed.

Lemma store_sectors_id tbl secs :
  NoDup (map s_num secs) -> from_tbl tbl secs -> store_sectors tbl secs = tbl.
Proof.
  intros Hnd Hft. apply map_eq. intros n. destruct (decide (n ∈ nums_of secs)) as [Hin|Hout].
  - apply elem_of_nums_of in Hin as (s & Hs & <-). rewrite (store_sectors_lookup secs tbl s Hnd Hs).
    symmetry. apply Hft, Hs.
  - apply store_sectors_lookup_ne, Hout.
Qed.

(* ---------- the partitions array as a list ---------- *)
Definition PSInv (qs : quant) (tbl : gmap N sector) (ps : list partition) : Prop :=
  (forall i p, ps !! i = Some p -> PartInv qs tbl p) /\
  (forall i j p q, i <> j -> ps !! i = Some p -> ps !! j = Some q -> sectors p ## sectors q).
Definition allsecs (ps : list partition) : gset N := ⋃ (map sectors ps).

Lemma elem_of_allsecs ps n : n ∈ allsecs ps <-> exists i p, ps !! i = Some p /\ n ∈ sectors p.
Proof.
  unfold allsecs. rewrite elem_of_union_list. split.
  - intros (X & HX & Hn). apply elem_of_list_fmap in HX as (p & -> & Hp).
    apply elem_of_list_lookup in Hp as [i Hi]. eauto.
  - intros (i & p & Hi & Hn). exists (sectors p). split; [|exact Hn].
    apply elem_of_list_fmap. exists p. split; [reflexivity|]. eapply elem_of_list_lookup_2; eauto.
Qed.

Lemma put_part_lookup ps (idx : N) p' j :
  (N.to_nat idx <= length ps)%nat ->
  put_part ps idx p' !! j = if decide (j = N.to_nat idx) then Some p' else ps !! j.
Proof.
  intros Hle. unfold put_part. destruct (N.to_nat idx <? length ps)%nat eqn:E.
  - apply Nat.ltb_lt in E. destruct (decide (j = N.to_nat idx)) as [->|Hne].
    + apply list_lookup_insert, E.
    + apply list_lookup_insert_ne. congruence.
  - apply Nat.ltb_ge in E. assert (Hl : N.to_nat idx = length ps) by lia.
    destruct (decide (j = N.to_nat idx)) as [->|Hne].
    + rewrite Hl. rewrite lookup_app_r by lia. rewrite Nat.sub_diag. reflexivity.
    + destruct (decide (j < length ps)%nat) as [Hlt|Hge].
      * apply lookup_app_l, Hlt.
      * rewrite lookup_ge_None_2 by (rewrite app_length; cbn; lia).
        symmetry. apply lookup_ge_None_2. lia.
Qed.
Lemma put_part_length ps idx p' :
  (N.to_nat idx <= length ps)%nat -> (N.to_nat idx < length (put_part ps idx p'))%nat.
Proof.
  intros Hle. unfold put_part. destruct (N.to_nat idx <? length ps)%nat eqn:E.
  - apply Nat.ltb_lt in E. rewrite insert_length. exact E.
  - apply Nat.ltb_ge in E. rewrite app_length. cbn. lia.
Qed.

Lemma lsum_put_part (f : partition -> Z) ps idx p' :
  (N.to_nat idx <= length ps)%nat -> f part_empty = 0 ->
  lsum f (put_part ps idx p') = lsum f ps - f (default part_empty (get_part ps idx)) + f p'.
Proof.
  intros Hle H0. unfold put_part, get_part. destruct (N.to_nat idx <? length ps)%nat eqn:E.
  - apply Nat.ltb_lt in E. destruct (lookup_lt_is_Some_2 ps _ E) as [p Hp]. rewrite Hp. cbn.
    apply lsum_insert, Hp.
  - apply Nat.ltb_ge in E. rewrite lookup_ge_None_2 by lia. cbn. rewrite lsum_snoc, H0. lia.
Qed.
Lemma psum_put_part (f : partition -> pp) ps idx p' :
  (N.to_nat idx <= length ps)%nat -> f part_empty = pp0 ->
  psum f (put_part ps idx p') =
  pp_add (pp_sub (psum f ps) (f (default part_empty (get_part ps idx)))) (f p').
Proof.
  intros Hle H0. rewrite !psum_lsum.
  rewrite !(lsum_put_part _ ps idx p' Hle) by (rewrite H0; reflexivity). apply pp_eq; cbn; lia.
Qed.

Lemma nums_of_take_drop (secs : list sector) k :
  nums_of secs = nums_of (firstn k secs) ∪ nums_of (skipn k secs).
Proof. rewrite <- nums_of_app, firstn_skipn. reflexivity. Qed.
Lemma NoDup_take_drop (secs : list sector) k :
  NoDup (map s_num secs) ->
  NoDup (map s_num (firstn k secs)) /\ NoDup (map s_num (skipn k secs)) /\
  nums_of (firstn k secs) ## nums_of (skipn k secs).
Proof.
  intros H. rewrite <- (firstn_skipn k secs), map_app in H. apply NoDup_app in H as (H1 & H2 & H3).
  split; [exact H1|]. split; [exact H3|]. intros n Hn1 Hn2. unfold nums_of in *.
  apply elem_of_list_to_set in Hn1, Hn2. exact (H2 n Hn1 Hn2).
Qed.
Lemma ssize_nums_of (secs : list sector) :
  NoDup (map s_num secs) -> ssize (nums_of secs) = Z.of_nat (length secs).
Proof.
  intros H. unfold ssize, nums_of. rewrite size_list_to_set by exact H. rewrite map_length. reflexivity.
Qed.

Record AddRes (tbl : gmap N sector) (proven : bool) (ps ps' : list partition) (X : gset N)
    (dpw : pp) (dfee : Z) : Prop := {
  ar_live : lsum (fun p => ssize (live_sectors p)) ps' = lsum (fun p => ssize (live_sectors p)) ps + ssize X;
  ar_total : lsum (fun p => ssize (sectors p)) ps' = lsum (fun p => ssize (sectors p)) ps + ssize X;
  ar_faulty : psum p_faulty_power ps' = psum p_faulty_power ps;
  ar_livepow : psum live_power ps' = pp_add (psum live_power ps) dpw;
  ar_fee : lsum (fun p => sfee tbl (live_sectors p)) ps' = lsum (fun p => sfee tbl (live_sectors p)) ps + dfee;
  ar_early : forall j, (exists p, ps' !! j = Some p /\ early_terminated p <> ∅) <->
                       (exists p, ps !! j = Some p /\ early_terminated p <> ∅);
  ar_secs : allsecs ps' ≡ allsecs ps ∪ X;
  ar_pw : dpw = spow tbl X; ar_fee_eq : dfee = sfee tbl X;
  ar_len : (length ps <= length ps')%nat;
  ar_cred : psum (credited tbl) ps' = pp_add (psum (credited tbl) ps) (if proven then dpw else pp0) }.

Lemma p_add_sectors_credited qs tbl p proven new p' pw fee :
  PartInv qs tbl p -> NoDup (map s_num new) -> Forall (fun s => sector_ok s (s_num s)) new ->
  from_tbl tbl new -> p_add_sectors qs p proven new = Ok (p', pw, fee) ->
  credited tbl p' = pp_add (credited tbl p) (if proven then pw else pp0).
Proof.
  intros HP Hnd Hok Hft E.
  pose proof (delta_is_difference {| st_q := qs; st_tbl := tbl; st_part := p |} (AddSectors proven new)
                HP (conj Hnd Hok)) as Hd.
  unfold next, step, step_delta, st_credited in Hd. cbn [st_q st_tbl st_part fst snd] in Hd.
  rewrite E in Hd. cbn [fst snd st_tbl st_part with_part] in Hd.
  rewrite (store_sectors_id tbl new Hnd Hft) in Hd. exact Hd.
Qed.

Lemma credited_empty tbl : credited tbl part_empty = pp0.
Proof.
  unfold credited, active_sectors, live_sectors; cbn. rewrite <- (spow_empty tbl). apply spow_eq. set_solver.
Qed.

Lemma add_loop_inv qs tbl psize proven fuel :
  0 < q_unit qs -> tbl_keyed tbl -> 0 < psize ->
  forall ps idx secs pw fee upd ps' pw' fee' upd',
  PSInv qs tbl ps -> (N.to_nat idx <= length ps)%nat ->
  NoDup (map s_num secs) -> from_tbl tbl secs -> Forall (fun s => sector_ok s (s_num s)) secs ->
  nums_of secs ## allsecs ps -> secs <> [] ->
  add_loop fuel qs psize proven ps idx secs pw fee upd = Ok (ps', pw', fee', upd') ->
  PSInv qs tbl ps' /\ AddRes tbl proven ps ps' (nums_of secs) (pp_sub pw' pw) (fee' - fee).
Proof.
  intros Hu Hk Hps. induction fuel as [|f IH]; intros ps idx secs pw fee upd ps' pw' fee' upd'
    HPS Hidx Hnd Hft Hok Hfresh Hne; cbn [add_loop]; [discriminate|].
  set (p := default part_empty (get_part ps idx)).
  assert (HPp : PartInv qs tbl p).
  { subst p. destruct (get_part ps idx) as [p0|] eqn:E; cbn; [apply (proj1 HPS _ _ E)|].
    apply partinv_empty; assumption. }
  destruct (psize <=? ssize (sectors p)) eqn:Efull.
  - (* this partition is full: try the next one *)
    apply Z.leb_le in Efull. intros Hrec.
    assert (Hlt : (N.to_nat idx < length ps)%nat).
    { destruct (get_part ps idx) as [p0|] eqn:E; [eapply lookup_lt_Some; exact E|].
      subst p. cbn in Efull. unfold ssize in Efull. rewrite size_empty in Efull. lia. }
    eapply (IH ps (idx + 1)%N); eauto. lia.
  - apply Z.leb_gt in Efull.
    set (size := Z.to_nat (Z.min (psize - ssize (sectors p)) (Z.of_nat (length secs)))).
    assert (Hsize : (1 <= size <= length secs)%nat).
    { subst size. destruct secs; [contradiction|]. cbn [length]. lia. }
    set (new := firstn size secs). set (rest := skipn size secs).
    destruct (p_add_sectors qs p proven new) as [[[p' ppw] pfee]|] eqn:Eadd; cbn [rbind]; [|discriminate].
    destruct (NoDup_take_drop secs size Hnd) as (Hndn & Hndr & Hnr). fold new in Hndn, Hnr. fold rest in Hndr, Hnr.
    assert (Hftn : from_tbl tbl new).
    { intros s Hs. apply Hft. subst new. rewrite <- (firstn_skipn size secs). apply elem_of_app. left. exact Hs. }
    assert (Hftr : from_tbl tbl rest).
    { intros s Hs. apply Hft. subst rest. rewrite <- (firstn_skipn size secs). apply elem_of_app. right. exact Hs. }
    assert (Hokn : Forall (fun s => sector_ok s (s_num s)) new).
    { apply Forall_forall. intros s Hs. rewrite Forall_forall in Hok. apply Hok.
      subst new. rewrite <- (firstn_skipn size secs). apply elem_of_app. left. exact Hs. }
    assert (Hokr : Forall (fun s => sector_ok s (s_num s)) rest).
    { apply Forall_forall. intros s Hs. rewrite Forall_forall in Hok. apply Hok.
      subst rest. rewrite <- (firstn_skipn size secs). apply elem_of_app. right. exact Hs. }
    assert (Enums : nums_of secs = nums_of new ∪ nums_of rest) by apply nums_of_take_drop.
    destruct (p_add_sectors_inv qs tbl p proven new p' ppw pfee HPp Hndn Hokn Eadd)
      as (HP' & Dx & S' & F' & T' & U' & Eppw & Epfee).
    rewrite (store_sectors_id tbl new Hndn Hftn) in HP', Eppw, Epfee.
    pose proof (p_add_sectors_et _ _ _ _ _ _ _ Eadd) as ET'.
    set (X := nums_of new) in *.
    assert (Elive : live_sectors p' = live_sectors p ∪ X).
    { unfold live_sectors. rewrite S', T'. apply seteq_L.
      pose proof (pi_terminated_sectors _ _ _ HPp). clear -Dx H. set_solver. }
    assert (DliveX : live_sectors p ## X) by (unfold live_sectors; clear -Dx; set_solver).
    assert (DsX : sectors p ## X) by (clear -Dx; set_solver).
    destruct (pinv_memos _ _ _ HPp) as [LPp FPp]. destruct (pinv_memos _ _ _ HP') as [LPp' FPp'].
    set (ps1 := put_part ps idx p').
    (* other partitions are disjoint from p and from the new numbers *)
    assert (Hoth : forall j q, j <> N.to_nat idx -> ps !! j = Some q -> sectors q ## sectors p ∪ X).
    { intros j q Hj Hq. assert (sectors q ## X).
      { rewrite Enums in Hfresh. intros n Hn HnX. apply (Hfresh n); [clear -HnX; set_solver|].
        apply elem_of_allsecs. eauto. }
      assert (sectors q ## sectors p).
      { subst p. destruct (get_part ps idx) as [p0|] eqn:E; cbn; [|clear; set_solver].
        eapply (proj2 HPS); eauto. }
      clear -H H0. set_solver. }
    assert (HPS1 : PSInv qs tbl ps1).
    { split.
      - intros j q. subst ps1. rewrite (put_part_lookup _ _ _ _ Hidx).
        destruct (decide (j = N.to_nat idx)); [intros [= <-]; exact HP'|apply (proj1 HPS)].
      - intros j k q r Hjk. subst ps1. rewrite !(put_part_lookup _ _ _ _ Hidx).
        destruct (decide (j = N.to_nat idx)) as [->|Hj]; destruct (decide (k = N.to_nat idx)) as [->|Hk'];
          try congruence.
        + intros [= <-] Hr. rewrite S'. symmetry. eapply Hoth; eauto.
        + intros Hq [= <-]. rewrite S'. eapply Hoth; eauto.
        + apply (proj2 HPS), Hjk. }
    pose proof (p_add_sectors_credited qs tbl p proven new p' ppw pfee HPp Hndn Hokn Hftn Eadd) as Hcred.
    assert (HAR1 : AddRes tbl proven ps ps1 X ppw pfee).
    { subst ps1. constructor.
      - rewrite (lsum_put_part _ ps idx p' Hidx) by (unfold live_sectors, ssize; cbn;
          replace (∅ ∖ ∅) with (∅ : gset N) by (apply seteq_L; set_solver); rewrite size_empty; reflexivity).
        fold p. rewrite Elive, (ssize_union_disj _ _ DliveX). lia.
      - rewrite (lsum_put_part _ ps idx p' Hidx) by (unfold ssize; cbn; rewrite size_empty; reflexivity).
        fold p. rewrite S', (ssize_union_disj _ _ DsX). lia.
      - rewrite (psum_put_part _ ps idx p' Hidx) by reflexivity. fold p.
        rewrite FPp', FPp, F'. apply pp_eq; cbn; lia.
      - rewrite (psum_put_part _ ps idx p' Hidx) by reflexivity. fold p.
        rewrite LPp', LPp, Elive, (spow_add_eq tbl _ _ _ (reflexivity _) DliveX), Eppw.
        apply pp_eq; cbn; lia.
      - rewrite (lsum_put_part _ ps idx p' Hidx).
        2:{ unfold live_sectors, sfee; cbn. replace (∅ ∖ ∅) with (∅ : gset N) by (apply seteq_L; set_solver).
            apply ssum_empty. }
        fold p. rewrite Elive. unfold sfee at 3. rewrite (ssum_union_disj _ _ _ DliveX). rewrite Epfee.
        unfold sfee. lia.
      - intros j. rewrite (put_part_lookup _ _ _ _ Hidx).
        destruct (decide (j = N.to_nat idx)) as [->|Hj]; [|reflexivity]. split.
        + intros (q & [= <-] & Hq). rewrite ET' in Hq. subst p. unfold get_part in *.
          destruct (ps !! N.to_nat idx) as [p0|]; cbn in Hq; [eauto|]. contradiction.
        + intros (q & Hq & Hqe). exists p'. split; [reflexivity|]. rewrite ET'. subst p.
          unfold get_part. rewrite Hq. exact Hqe.
      - intros n. rewrite elem_of_union, !elem_of_allsecs. split.
        + intros (j & q & Hq & Hn). rewrite (put_part_lookup _ _ _ _ Hidx) in Hq.
          destruct (decide (j = N.to_nat idx)) as [->|Hj]; [|left; eauto].
          injection Hq as <-. rewrite S' in Hn. apply elem_of_union in Hn as [Hn|Hn]; [|right; exact Hn].
          left. subst p. unfold get_part in Hn. destruct (ps !! N.to_nat idx) as [p0|] eqn:E; cbn in Hn; [eauto|].
          clear -Hn. set_solver.
        + intros [(j & q & Hq & Hn)|Hn].
          * destruct (decide (j = N.to_nat idx)) as [->|Hj].
            -- exists (N.to_nat idx), p'. rewrite (put_part_lookup _ _ _ _ Hidx), decide_True by reflexivity.
               split; [reflexivity|]. rewrite S'. subst p. unfold get_part. rewrite Hq. cbn.
               clear -Hn. set_solver.
            -- exists j, q. rewrite (put_part_lookup _ _ _ _ Hidx), decide_False by exact Hj. auto.
          * exists (N.to_nat idx), p'. rewrite (put_part_lookup _ _ _ _ Hidx), decide_True by reflexivity.
            split; [reflexivity|]. rewrite S'. clear -Hn. set_solver.
      - exact Eppw.
      - exact Epfee.
      - unfold put_part. destruct (_ <? _)%nat; [rewrite insert_length|rewrite app_length; cbn]; lia.
      - rewrite (psum_put_part _ ps idx p' Hidx) by apply credited_empty. fold p. rewrite Hcred.
        apply pp_eq; cbn; lia. }
    destruct rest as [|r0 rest0] eqn:Erest.
    + (* all sectors placed *)
      intros [= <- <- <- _]. split; [exact HPS1|].
      assert (EX : nums_of secs = X).
      { rewrite Enums. rewrite nums_of_nil. apply seteq_L. clear. set_solver. }
      rewrite EX. destruct HAR1. constructor; try assumption.
      * rewrite ar_livepow0. f_equal. apply pp_eq; cbn; lia.
      * rewrite ar_fee0. lia.
      * rewrite ar_pw0. apply pp_eq; cbn; lia.
      * lia.
      * rewrite ar_cred0. destruct proven; apply pp_eq; cbn; lia.
    + rewrite <- Erest in *. intros Hrec.
      assert (Hidx1 : (N.to_nat (idx + 1) <= length ps1)%nat).
      { pose proof (put_part_length ps idx p' Hidx). fold ps1 in H. lia. }
      assert (Hfresh1 : nums_of rest ## allsecs ps1).
      { rewrite (ar_secs _ _ _ _ _ _ _ HAR1). rewrite Enums in Hfresh. clear -Hfresh Hnr. clearbody X.
        revert Hfresh Hnr. generalize (nums_of rest), (allsecs ps). intros A B H1 H2. set_solver. }
      assert (Hner : rest <> []) by (rewrite Erest; discriminate).
      destruct (IH ps1 (idx + 1)%N rest _ _ _ ps' pw' fee' upd' HPS1 Hidx1 Hndr Hftr Hokr Hfresh1 Hner Hrec)
        as (HPS' & HAR').
      split; [exact HPS'|]. destruct HAR1, HAR'.
      assert (DXr : X ## nums_of rest) by exact Hnr.
      constructor.
      * rewrite ar_live1, ar_live0, Enums, (ssize_union_disj _ _ DXr). lia.
      * rewrite ar_total1, ar_total0, Enums, (ssize_union_disj _ _ DXr). lia.
      * congruence.
      * rewrite ar_livepow1, ar_livepow0. apply pp_eq; cbn; lia.
      * rewrite ar_fee1, ar_fee0. lia.
      * intros j. rewrite ar_early1. apply ar_early0.
      * rewrite ar_secs1, ar_secs0, Enums. clear. set_solver.
      * rewrite Enums, (spow_add_eq tbl _ _ _ (reflexivity _) DXr), <- ar_pw0, <- ar_pw1.
        apply pp_eq; cbn; lia.
      * rewrite Enums. unfold sfee. rewrite (ssum_union_disj _ _ _ DXr).
        unfold sfee in ar_fee_eq0, ar_fee_eq1. lia.
      * lia.
      * rewrite ar_cred1, ar_cred0. destruct proven; apply pp_eq; cbn; lia.
Qed.

(* ---------- add_sectors ---------- *)
Lemma early_ok_of_parts (d d' : deadline) :
  EarlyOk d -> early_terms d' = early_terms d ->
  (forall j, (exists p, parts d' !! j = Some p /\ early_terminated p <> ∅) <->
             (exists p, parts d !! j = Some p /\ early_terminated p <> ∅)) ->
  EarlyOk d'.
Proof. intros HE E1 E2 j. rewrite E1, (HE j). symmetry. apply E2. Qed.

Lemma d_add_sectors_off qs tbl d psize proven new_fees secs d' pw fee oL oFP oLP oFEE :
  0 < q_unit qs -> tbl_keyed tbl -> 0 < psize ->
  DInvOff qs tbl d oL oFP oLP oFEE -> EarlyOk d ->
  NoDup (map s_num secs) -> from_tbl tbl secs -> Forall (fun s => sector_ok s (s_num s)) secs ->
  nums_of secs ## allsecs (parts d) ->
  d_add_sectors qs d psize proven new_fees secs = Ok (d', pw, fee) ->
  DInvOff qs tbl d' oL oFP oLP (if new_fees then oFEE else oFEE - sfee tbl (nums_of secs)) /\
  EarlyOk d' /\ pw = spow tbl (nums_of secs) /\
  allsecs (parts d') ≡ allsecs (parts d) ∪ nums_of secs /\
  psum (credited tbl) (parts d') = pp_add (psum (credited tbl) (parts d)) (if proven then pw else pp0).
Proof.
  intros Hu Hk Hps HO HE Hnd Hft Hok Hfresh. unfold d_add_sectors.
  destruct secs as [|s0 secs0] eqn:Es.
  { intros [= <- <- <-]. rewrite nums_of_nil. split; [|split; [exact HE|split]].
    - destruct new_fees; [exact HO|].
      replace (oFEE - sfee tbl ∅) with oFEE by (unfold sfee; rewrite ssum_empty; lia). exact HO.
    - symmetry. apply spow_empty.
    - split; [clear; set_solver|]. destruct proven; apply pp_eq; cbn; lia. }
  rewrite <- Es in *. assert (Hne : secs <> []) by (rewrite Es; discriminate). clear Es s0 secs0.
  destruct (add_loop _ _ _ _ _ _ _ _ _ _) as [[[[ps pw0] fee_all] updates]|] eqn:El; cbn [rbind]; [|discriminate].
  destruct (foldM _ updates (dl_exp d)) as [q|]; cbn [rbind]; [|discriminate].
  intros [= <- <- <-].
  destruct HO as [D1 D2 D3 D4 D5 D6 D7].
  assert (HPS : PSInv qs tbl (parts d)) by (split; assumption).
  assert (Hidx : (N.to_nat (N.of_nat (Nat.pred (length (parts d)))) <= length (parts d))%nat)
    by (rewrite Nat2N.id; lia).
  destruct (add_loop_inv qs tbl psize proven _ Hu Hk Hps _ _ _ _ _ _ _ _ _ _ HPS Hidx Hnd Hft Hok Hfresh Hne El)
    as ([P1 P2] & [A1 A2 A3 A4 A5 A6 A7 A8 A9 A10 A11]).
  assert (Epw : pw0 = spow tbl (nums_of secs)).
  { rewrite <- A8. apply pp_eq; cbn; lia. }
  assert (Efee : fee_all = sfee tbl (nums_of secs)) by lia.
  rewrite (ssize_nums_of secs Hnd) in A1, A2.
  split; [|split; [|split; [exact Epw|split; [exact A7|]]]].
  3:{ cbn [parts]. rewrite A11. destruct proven; apply pp_eq; cbn; lia. }
  - constructor; cbn [parts dl_live_sectors dl_total_sectors dl_faulty_power dl_live_power dl_daily_fee];
      try assumption.
    + rewrite A1, D3. lia.
    + rewrite A2, D4. lia.
    + rewrite A3. exact D5.
    + rewrite A4, D6. apply pp_eq; cbn; lia.
    + rewrite A5, D7. destruct new_fees; lia.
  - eapply early_ok_of_parts; [exact HE|reflexivity|exact A6].
Qed.

Lemma DeadlineInv_tbl_ext qs (tbl tbl' : gmap N sector) d :
  (forall n, n ∈ allsecs (parts d) -> tbl' !! n = tbl !! n) -> tbl_keyed tbl' ->
  DeadlineInv qs tbl d -> DeadlineInv qs tbl' d.
Proof.
  intros E Hk [H1 H2 H3 H4 H5 H6 H7 H8].
  assert (Ep : forall i p, parts d !! i = Some p -> forall n, n ∈ live_sectors p -> tbl' !! n = tbl !! n).
  { intros i p Hp n Hn. apply E. apply elem_of_allsecs. exists i, p. split; [exact Hp|].
    unfold live_sectors in Hn. set_solver. }
  constructor; try assumption.
  - intros i p Hp. eapply PartInv_tbl_ext; [eapply Ep; eauto|exact Hk|eapply H1; eauto].
  - rewrite H7. apply lsum_ext. intros p Hp. apply elem_of_list_lookup in Hp as [i Hi].
    symmetry. apply sfee_ext. eapply Ep; eauto.
Qed.
