(* C06 -- market escrow: locked funds equal outstanding obligations.  Proofs about coq/Model/Market.v. *)
From stdpp Require Import gmap.
From Coq Require Import ZArith List Bool Lia.
From VF Require Import Gen.Consts Gen.MarketConsts Base.Corr Model.Market Proofs.MarketBase_lemmas.
Import ListNotations.
Open Scope Z_scope.

(* ------------------------------------------------------------------------------------------ *)
(* obligations *)

(* the epoch up to which a deal's storage fee has been paid *)
Definition paid_until (os : option dstate) (p : proposal) : Z :=
  match os with
  | Some ds => if ds_lu ds =? UNDEF then p_start p else Z.max (p_start p) (ds_lu ds)
  | None => p_start p
  end.

Definition fee_left (pu : Z) (p : proposal) : Z := p_price p * (p_end p - pu).

(* sum over the live deals of a per-deal amount that may depend on the paid-until epoch *)
Definition osum (f : Z -> proposal -> Z) (P : gmap Z proposal) (S : gmap Z dstate) : Z :=
  msum (fun id p => f (paid_until (S !! id) p) p) P.

(* what deal p locks of participant a *)
Definition contribf (a : Z) (pu : Z) (p : proposal) : Z :=
  ind a (p_client p) (p_ccoll p + fee_left pu p) + ind a (p_provider p) (p_pcoll p).
Definition fcc (_ : Z) (p : proposal) : Z := p_ccoll p.
Definition fpc (_ : Z) (p : proposal) : Z := p_pcoll p.

Lemma osum_insert f P S id p :
  P !! id = None -> osum f (<[id:=p]> P) S = f (paid_until (S !! id) p) p + osum f P S.
Proof. intros H. unfold osum. now rewrite msum_insert. Qed.

Lemma osum_delete f P S id p :
  P !! id = Some p -> osum f P S = f (paid_until (S !! id) p) p + osum f (delete id P) S.
Proof. intros H. unfold osum. now rewrite (msum_delete _ P id p H). Qed.

Lemma osum_S_ext f P S S' :
  (forall id p, P !! id = Some p -> paid_until (S !! id) p = paid_until (S' !! id) p) ->
  osum f P S = osum f P S'.
Proof. intros H. unfold osum. apply msum_ext. intros k x Hk. now rewrite (H k x Hk). Qed.

Lemma osum_S_insert f P S id p ds :
  P !! id = Some p ->
  osum f P (<[id:=ds]> S) = osum f P S - f (paid_until (S !! id) p) p + f (paid_until (Some ds) p) p.
Proof.
  intros H. rewrite (osum_delete f P (<[id:=ds]> S) id p H), (osum_delete f P S id p H).
  rewrite lookup_insert.
  rewrite (osum_S_ext f (delete id P) (<[id:=ds]> S) S); [lia|].
  intros k q Hk. apply lookup_delete_Some in Hk as [Hne _]. now rewrite lookup_insert_ne.
Qed.

Lemma osum_S_delete f P S id : P !! id = None -> osum f P (delete id S) = osum f P S.
Proof.
  intros H. apply osum_S_ext. intros k q Hk.
  rewrite lookup_delete_ne; [reflexivity|]. intros ->. congruence.
Qed.

Lemma osum_empty f S : osum f ∅ S = 0.
Proof. apply msum_empty. Qed.

(* ------------------------------------------------------------------------------------------ *)
(* the invariant *)
Definition wf_prop (p : proposal) : Prop :=
  p_start p < p_end p /\ 0 <= p_price p /\ 0 <= p_pcoll p /\ 0 <= p_ccoll p /\ 0 <= p_start p.

Definition wf_ds (now : Z) (p : proposal) (ds : dstate) : Prop :=
  ds_slash ds = UNDEF /\ ds_start ds <> UNDEF /\
  (ds_lu ds = UNDEF \/ (0 <= ds_lu ds <= now /\ ds_lu ds < p_end p)).

(* stated over the components so that it can be used while a handler holds updates back
   (settle_deal_payments writes the new deal states at the end; slashed funds are burnt at the end:
   `owed` is what has been taken out of escrow but not yet sent to the burnt-funds actor) *)
Record InvC (now owed : Z) (P : gmap Z proposal) (S : gmap Z dstate) (Lf Ef : Z -> Z)
    (tc tp tf bs bal nid : Z) : Prop := {
  i_wfP : forall id p, P !! id = Some p -> wf_prop p /\ 0 <= id < nid;
  i_wfS : forall id ds, S !! id = Some ds -> exists p, P !! id = Some p /\ wf_ds now p ds;
  i_locked : forall a, Lf a = osum (contribf a) P S;
  i_esc : forall a, Lf a <= Ef a;
  i_tc : tc = osum fcc P S;
  i_tp : tp = osum fpc P S;
  i_tf : tf = osum fee_left P S;
  i_solv : bs + owed <= bal;
  i_owed : 0 <= owed;
  i_nid : 0 <= nid
}.

Definition InvS (now owed : Z) (S : gmap Z dstate) (st : state) : Prop :=
  InvC now owed (proposals st) S (L st) (E st) (tot_ccoll st) (tot_pcoll st) (tot_fee st)
       (bsum (escrow st)) (balance st) (next_id st).

Definition MarketInv (now : Z) (st : state) : Prop := InvS now 0 (states st) st.

(* -- consequences -- *)
Lemma pu_bounds now p os :
  wf_prop p -> (forall ds, os = Some ds -> wf_ds now p ds) ->
  p_start p <= paid_until os p < p_end p.
Proof.
  intros (H1 & _ & _ & _ & H0) H. unfold paid_until. destruct os as [ds|]; [|lia].
  destruct (H ds eq_refl) as (_ & _ & [Hu|Hu]).
  - rewrite Hu. cbn. lia.
  - destruct (ds_lu ds =? UNDEF); lia.
Qed.

Lemma fee_left_nonneg p pu : 0 <= p_price p -> pu <= p_end p -> 0 <= fee_left pu p.
Proof. intros. unfold fee_left. apply Z.mul_nonneg_nonneg; lia. Qed.

Section Conseq.
  Context {now owed : Z} {P : gmap Z proposal} {S : gmap Z dstate} {Lf Ef : Z -> Z} {tc tp tf bs bal nid : Z}.
  Hypothesis I : InvC now owed P S Lf Ef tc tp tf bs bal nid.

  Lemma inv_pu id p : P !! id = Some p -> p_start p <= paid_until (S !! id) p < p_end p.
  Proof.
    intros Hp. destruct (i_wfP _ _ _ _ _ _ _ _ _ _ _ _ I id p Hp) as [Hw _].
    apply (pu_bounds now); [exact Hw|].
    intros ds Hds. destruct (i_wfS _ _ _ _ _ _ _ _ _ _ _ _ I id ds Hds) as (q & Hq & Hwd).
    congruence.
  Qed.

  Lemma inv_contrib_nonneg a id p : P !! id = Some p -> 0 <= contribf a (paid_until (S !! id) p) p.
  Proof.
    intros Hp. destruct (i_wfP _ _ _ _ _ _ _ _ _ _ _ _ I id p Hp) as [(H1 & H2 & H3 & H4 & H5) _].
    pose proof (inv_pu id p Hp) as Hb.
    assert (0 <= fee_left (paid_until (S !! id) p) p) by (apply fee_left_nonneg; lia).
    unfold contribf. pose proof (ind_nonneg a (p_client p) (p_ccoll p + fee_left (paid_until (S !! id) p) p)).
    pose proof (ind_nonneg a (p_provider p) (p_pcoll p)). lia.
  Qed.

  Lemma inv_L_ge a id p : P !! id = Some p -> contribf a (paid_until (S !! id) p) p <= Lf a.
  Proof.
    intros Hp. rewrite (i_locked _ _ _ _ _ _ _ _ _ _ _ _ I a). unfold osum.
    apply (msum_ge (fun id p => contribf a (paid_until (S !! id) p) p) P id p); [|exact Hp].
    intros k y Hk. now apply inv_contrib_nonneg.
  Qed.

  Lemma inv_L_nonneg a : 0 <= Lf a.
  Proof.
    rewrite (i_locked _ _ _ _ _ _ _ _ _ _ _ _ I a). unfold osum. apply msum_nonneg.
    intros k y Hk. now apply inv_contrib_nonneg.
  Qed.

  Lemma inv_E_nonneg a : 0 <= Ef a.
  Proof. pose proof (inv_L_nonneg a). pose proof (i_esc _ _ _ _ _ _ _ _ _ _ _ _ I a). lia. Qed.

  Lemma inv_S_None id : P !! id = None -> S !! id = None.
  Proof.
    intros Hp. destruct (S !! id) as [ds|] eqn:Hs; [|reflexivity].
    destruct (i_wfS _ _ _ _ _ _ _ _ _ _ _ _ I id ds Hs) as (q & Hq & _). congruence.
  Qed.

  Lemma inv_nid_fresh : P !! nid = None.
  Proof.
    destruct (P !! nid) as [p|] eqn:Hp; [|reflexivity].
    destruct (i_wfP _ _ _ _ _ _ _ _ _ _ _ _ I nid p Hp) as [_ ?]. lia.
  Qed.
End Conseq.

(* -- preservation, at the level of the components -- *)
Lemma invc_now_mono now now' owed P S Lf Ef tc tp tf bs bal nid :
  InvC now owed P S Lf Ef tc tp tf bs bal nid -> now <= now' ->
  InvC now' owed P S Lf Ef tc tp tf bs bal nid.
Proof.
  intros [] Hle. constructor; auto.
  intros id ds Hds. destruct (i_wfS0 id ds Hds) as (p & Hp & H1 & H2 & H3).
  exists p. split; [exact Hp|]. split; [exact H1|]. split; [exact H2|].
  destruct H3 as [H3|H3]; [now left|right; lia].
Qed.

Lemma invc_ext now owed P S Lf Ef Lf' Ef' tc tp tf bs bal nid :
  InvC now owed P S Lf Ef tc tp tf bs bal nid ->
  (forall a, Lf' a = Lf a) -> (forall a, Ef' a = Ef a) ->
  InvC now owed P S Lf' Ef' tc tp tf bs bal nid.
Proof.
  intros [] HL HE. constructor; auto.
  - intros a. rewrite HL. apply i_locked0.
  - intros a. rewrite HL, HE. apply i_esc0.
Qed.

(* a deal leaves the tables: its whole lock is released, x is paid to the provider, s is forfeited *)
Lemma invc_remove now owed P S Lf Ef tc tp tf bs bal nid id p x s Lf' Ef' :
  InvC now owed P S Lf Ef tc tp tf bs bal nid ->
  P !! id = Some p ->
  let pu := paid_until (S !! id) p in
  0 <= x <= p_ccoll p + fee_left pu p -> 0 <= s <= p_pcoll p + x ->
  (forall a, Lf' a = Lf a - ind a (p_client p) (p_ccoll p + fee_left pu p) - ind a (p_provider p) (p_pcoll p)) ->
  (forall a, Ef' a = Ef a - ind a (p_client p) x + ind a (p_provider p) (x - s)) ->
  InvC now (owed + s) (delete id P) (delete id S) Lf' Ef'
       (tc - p_ccoll p) (tp - p_pcoll p) (tf - fee_left pu p) (bs - s) bal nid.
Proof.
  intros I Hp pu Hx Hs HL HE. pose proof I as [].
  assert (Hd : delete id P !! id = None) by apply lookup_delete.
  constructor.
  - intros k q Hk. apply lookup_delete_Some in Hk as [_ Hk]. auto.
  - intros k ds Hk. apply lookup_delete_Some in Hk as [Hne Hk].
    destruct (i_wfS0 k ds Hk) as (q & Hq & Hw). exists q. split; [|exact Hw].
    now rewrite lookup_delete_ne.
  - intros a. rewrite HL, i_locked0. rewrite (osum_delete _ P S id p Hp).
    rewrite (osum_S_delete _ (delete id P) S id Hd). unfold contribf at 1. fold pu. lia.
  - intros a. rewrite HL, HE. specialize (i_esc0 a). ind_cases.
  - rewrite i_tc0, (osum_delete _ P S id p Hp), (osum_S_delete _ (delete id P) S id Hd). unfold fcc at 1. lia.
  - rewrite i_tp0, (osum_delete _ P S id p Hp), (osum_S_delete _ (delete id P) S id Hd). unfold fpc at 1. lia.
  - rewrite i_tf0, (osum_delete _ P S id p Hp), (osum_S_delete _ (delete id P) S id Hd). fold pu. lia.
  - lia.
  - lia.
  - exact i_nid0.
Qed.

(* a deal's state is written: the paid-until epoch moves from pu to pu', price * (pu' - pu) is paid *)
Lemma invc_update now owed P S Lf Ef tc tp tf bs bal nid id p ds' Lf' Ef' :
  InvC now owed P S Lf Ef tc tp tf bs bal nid ->
  P !! id = Some p -> wf_ds now p ds' ->
  let pu := paid_until (S !! id) p in
  let pu' := paid_until (Some ds') p in
  pu <= pu' ->
  let x := p_price p * (pu' - pu) in
  (forall a, Lf' a = Lf a - ind a (p_client p) x) ->
  (forall a, Ef' a = Ef a - ind a (p_client p) x + ind a (p_provider p) x) ->
  InvC now owed P (<[id:=ds']> S) Lf' Ef' tc tp (tf - x) bs bal nid.
Proof.
  intros I Hp Hw pu pu' Hle x HL HE. pose proof I as [].
  destruct (i_wfP0 id p Hp) as [(W1 & W2 & W3 & W4 & W5) _].
  assert (Hx : 0 <= x) by (unfold x; apply Z.mul_nonneg_nonneg; lia).
  assert (Hfl : fee_left pu' p = fee_left pu p - x) by (unfold fee_left, x; lia).
  constructor; auto.
  - intros k ds Hk. destruct (Z.eq_dec k id) as [->|Hne].
    + rewrite lookup_insert in Hk. injection Hk as <-. eauto.
    + rewrite lookup_insert_ne in Hk by congruence. auto.
  - intros a. rewrite HL, i_locked0, (osum_S_insert _ P S id p ds' Hp). fold pu pu'.
    unfold contribf. rewrite Hfl. ind_cases.
  - intros a. rewrite HL, HE. specialize (i_esc0 a). ind_cases.
  - rewrite i_tf0, (osum_S_insert _ P S id p ds' Hp). fold pu pu'. lia.
Qed.

(* a new deal is stored under the id next_id *)
Lemma invc_insert now owed P S Lf Ef tc tp tf bs bal nid p Lf' :
  InvC now owed P S Lf Ef tc tp tf bs bal nid ->
  wf_prop p ->
  (forall a, Lf' a = Lf a + ind a (p_client p) (client_req p) + ind a (p_provider p) (p_pcoll p)) ->
  (forall a, Lf' a <= Ef a) ->
  InvC now owed (<[nid:=p]> P) S Lf' Ef (tc + p_ccoll p) (tp + p_pcoll p) (tf + total_fee p) bs bal (nid + 1).
Proof.
  intros I Hw HL HE. pose proof I as [].
  pose proof (inv_nid_fresh I) as Hf. pose proof (inv_S_None I nid Hf) as Hs.
  constructor; auto; try lia.
  - intros k q Hk. destruct (Z.eq_dec k nid) as [->|Hne].
    + rewrite lookup_insert in Hk. injection Hk as <-. split; [exact Hw|lia].
    + rewrite lookup_insert_ne in Hk by congruence. destruct (i_wfP0 k q Hk). split; [assumption|lia].
  - intros k ds Hk. destruct (i_wfS0 k ds Hk) as (q & Hq & Hwd). exists q. split; [|exact Hwd].
    rewrite lookup_insert_ne; [exact Hq|]. intros <-. congruence.
  - intros a. rewrite HL, i_locked0, (osum_insert _ P S nid p Hf), Hs. cbn [paid_until].
    assert (contribf a (p_start p) p =
            ind a (p_client p) (client_req p) + ind a (p_provider p) (p_pcoll p)) as -> by reflexivity.
    lia.
  - rewrite i_tc0, (osum_insert _ P S nid p Hf).
    assert (fcc (paid_until (S !! nid) p) p = p_ccoll p) as -> by reflexivity. lia.
  - rewrite i_tp0, (osum_insert _ P S nid p Hf).
    assert (fpc (paid_until (S !! nid) p) p = p_pcoll p) as -> by reflexivity. lia.
  - rewrite i_tf0, (osum_insert _ P S nid p Hf), Hs. cbn [paid_until].
    assert (fee_left (p_start p) p = total_fee p) as -> by reflexivity. lia.
Qed.

Lemma invc_deposit now owed P S Lf Ef tc tp tf bs bal nid who v Ef' :
  InvC now owed P S Lf Ef tc tp tf bs bal nid -> 0 <= v ->
  (forall a, Ef' a = Ef a + ind a who v) ->
  InvC now owed P S Lf Ef' tc tp tf (bs + v) (bal + v) nid.
Proof.
  intros [] Hv HE. constructor; auto; try lia.
  intros a. rewrite HE. specialize (i_esc0 a). pose proof (ind_nonneg a who v Hv). lia.
Qed.

Lemma invc_withdraw now owed P S Lf Ef tc tp tf bs bal nid who ex Ef' :
  InvC now owed P S Lf Ef tc tp tf bs bal nid -> 0 <= ex <= Ef who - Lf who ->
  (forall a, Ef' a = Ef a - ind a who ex) ->
  InvC now owed P S Lf Ef' tc tp tf (bs - ex) (bal - ex) nid.
Proof.
  intros [] Hv HE. constructor; auto; try lia.
  intros a. rewrite HE. specialize (i_esc0 a). ind_cases.
Qed.

Lemma invc_burn now owed P S Lf Ef tc tp tf bs bal nid :
  InvC now owed P S Lf Ef tc tp tf bs bal nid ->
  InvC now 0 P S Lf Ef tc tp tf bs (bal - owed) nid.
Proof. intros []. constructor; auto; lia. Qed.

Lemma invc_init ivl : MarketInv 0 (init ivl).
Proof.
  unfold MarketInv, InvS, init. cbn.
  constructor; cbn; try lia.
  - intros id p H. rewrite lookup_empty in H. discriminate.
  - intros id ds H. rewrite lookup_empty in H. discriminate.
  - intros a. unfold L. cbn. rewrite bt_get_empty, osum_empty. reflexivity.
  - intros a. unfold L, E. cbn. rewrite !bt_get_empty. lia.
  - now rewrite osum_empty.
  - now rewrite osum_empty.
  - now rewrite osum_empty.
  - rewrite bsum_empty. lia.
Qed.
