(* C06 -- market escrow: locked funds equal outstanding obligations.  Proofs about coq/Model/Market.v. *)
From stdpp Require Import gmap.
From Coq Require Import ZArith List Bool Lia.
From VF Require Import Gen.Consts Gen.MarketConsts Base.Corr Model.Market Proofs.MarketBase_lemmas.
Import ListNotations.
Open Scope Z_scope.

(* ------------------------------------------------------------------------------------------ *)
(* obligations *)

(* the epoch up to which a deal's storage fee has been paid *)
Definition paid_until (os : option dstate) (p : proposal) : Z :=
  match os with
  | Some ds => if ds_lu ds =? UNDEF then p_start p else Z.max (p_start p) (ds_lu ds)
  | None => p_start p
  end.

Definition fee_left (pu : Z) (p : proposal) : Z := p_price p * (p_end p - pu).

(* sum over the live deals of a per-deal amount that may depend on the paid-until epoch *)
Definition osum (f : Z -> proposal -> Z) (P : gmap Z proposal) (S : gmap Z dstate) : Z :=
  msum (fun id p => f (paid_until (S !! id) p) p) P.

(* what deal p locks of participant a *)
Definition contribf (a : Z) (pu : Z) (p : proposal) : Z :=
  ind a (p_client p) (p_ccoll p + fee_left pu p) + ind a (p_provider p) (p_pcoll p).
Definition fcc (_ : Z) (p : proposal) : Z := p_ccoll p.
Definition fpc (_ : Z) (p : proposal) : Z := p_pcoll p.

Lemma osum_insert f P S id p :
  P !! id = None -> osum f (<[id:=p]> P) S = f (paid_until (S !! id) p) p + osum f P S.
Proof. intros H. unfold osum. now rewrite msum_insert. Qed.

Lemma osum_delete f P S id p :
  P !! id = Some p -> osum f P S = f (paid_until (S !! id) p) p + osum f (delete id P) S.
Proof. intros H. unfold osum. now rewrite (msum_delete _ P id p H). Qed.

Lemma osum_S_ext f P S S' :
  (forall id p, P !! id = Some p -> paid_until (S !! id) p = paid_until (S' !! id) p) ->
  osum f P S = osum f P S'.
Proof. intros H. unfold osum. apply msum_ext. intros k x Hk. now rewrite (H k x Hk). Qed.

Lemma osum_S_insert f P S id p ds :
  P !! id = Some p ->
  osum f P (<[id:=ds]> S) = osum f P S - f (paid_until (S !! id) p) p + f (paid_until (Some ds) p) p.
Proof.
  intros H. rewrite (osum_delete f P (<[id:=ds]> S) id p H), (osum_delete f P S id p H).
  rewrite lookup_insert.
  rewrite (osum_S_ext f (delete id P) (<[id:=ds]> S) S); [lia|].
  intros k q Hk. apply lookup_delete_Some in Hk as [Hne _]. now rewrite lookup_insert_ne.
Qed.

Lemma osum_S_delete f P S id : P !! id = None -> osum f P (delete id S) = osum f P S.
Proof.
  intros H. apply osum_S_ext. intros k q Hk.
  rewrite lookup_delete_ne; [reflexivity|]. intros ->. congruence.
Qed.

Lemma osum_empty f S : osum f ∅ S = 0.
Proof. apply msum_empty. Qed.

(* ------------------------------------------------------------------------------------------ *)
(* the invariant *)
Definition wf_prop (p : proposal) : Prop :=
  p_start p < p_end p /\ 0 <= p_price p /\ 0 <= p_pcoll p /\ 0 <= p_ccoll p /\ 0 <= p_start p.

Definition wf_ds (now : Z) (p : proposal) (ds : dstate) : Prop :=
  ds_slash ds = UNDEF /\ ds_start ds <> UNDEF /\
  (ds_lu ds = UNDEF \/ (0 <= ds_lu ds <= now /\ ds_lu ds < p_end p)).

(* stated over the components so that it can be used while a handler holds updates back
   (settle_deal_payments writes the new deal states at the end; slashed funds are burnt at the end:
   `owed` is what has been taken out of escrow but not yet sent to the burnt-funds actor) *)
Record InvC (now owed : Z) (P : gmap Z proposal) (S : gmap Z dstate) (Lf Ef : Z -> Z)
    (tc tp tf bs bal nid : Z) : Prop := {
  i_wfP : forall id p, P !! id = Some p -> wf_prop p /\ 0 <= id < nid;
  i_wfS : forall id ds, S !! id = Some ds -> exists p, P !! id = Some p /\ wf_ds now p ds;
  i_locked : forall a, Lf a = osum (contribf a) P S;
  i_esc : forall a, Lf a <= Ef a;
  i_tc : tc = osum fcc P S;
  i_tp : tp = osum fpc P S;
  i_tf : tf = osum fee_left P S;
  i_solv : bs + owed <= bal;
  i_owed : 0 <= owed;
  i_nid : 0 <= nid
}.

Definition InvS (now owed : Z) (S : gmap Z dstate) (st : state) : Prop :=
  InvC now owed (proposals st) S (L st) (E st) (tot_ccoll st) (tot_pcoll st) (tot_fee st)
       (bsum (escrow st)) (balance st) (next_id st).

Definition MarketInv (now : Z) (st : state) : Prop := InvS now 0 (states st) st.

(* -- consequences -- *)
Lemma pu_bounds now p os :
  wf_prop p -> (forall ds, os = Some ds -> wf_ds now p ds) ->
  p_start p <= paid_until os p < p_end p.
Proof.
  intros (H1 & _ & _ & _ & H0) H. unfold paid_until. destruct os as [ds|]; [|lia].
  destruct (H ds eq_refl) as (_ & _ & [Hu|Hu]).
  - rewrite Hu. cbn. lia.
  - destruct (ds_lu ds =? UNDEF); lia.
Qed.

Lemma fee_left_nonneg p pu : 0 <= p_price p -> pu <= p_end p -> 0 <= fee_left pu p.
Proof. intros. unfold fee_left. apply Z.mul_nonneg_nonneg; lia. Qed.

Section Conseq.
  Context {now owed : Z} {P : gmap Z proposal} {S : gmap Z dstate} {Lf Ef : Z -> Z} {tc tp tf bs bal nid : Z}.
  Hypothesis I : InvC now owed P S Lf Ef tc tp tf bs bal nid.

  Lemma inv_pu id p : P !! id = Some p -> p_start p <= paid_until (S !! id) p < p_end p.
  Proof.
    intros Hp. destruct (i_wfP _ _ _ _ _ _ _ _ _ _ _ _ I id p Hp) as [Hw _].
    apply (pu_bounds now); [exact Hw|].
    intros ds Hds. destruct (i_wfS _ _ _ _ _ _ _ _ _ _ _ _ I id ds Hds) as (q & Hq & Hwd).
    congruence.
  Qed.

  Lemma inv_contrib_nonneg a id p : P !! id = Some p -> 0 <= contribf a (paid_until (S !! id) p) p.
  Proof.
    intros Hp. destruct (i_wfP _ _ _ _ _ _ _ _ _ _ _ _ I id p Hp) as [(H1 & H2 & H3 & H4 & H5) _].
    pose proof (inv_pu id p Hp) as Hb.
    assert (0 <= fee_left (paid_until (S !! id) p) p) by (apply fee_left_nonneg; lia).
    unfold contribf. pose proof (ind_nonneg a (p_client p) (p_ccoll p + fee_left (paid_until (S !! id) p) p)).
    pose proof (ind_nonneg a (p_provider p) (p_pcoll p)). lia.
  Qed.

  Lemma inv_L_ge a id p : P !! id = Some p -> contribf a (paid_until (S !! id) p) p <= Lf a.
  Proof.
    intros Hp. rewrite (i_locked _ _ _ _ _ _ _ _ _ _ _ _ I a). unfold osum.
    apply (msum_ge (fun id p => contribf a (paid_until (S !! id) p) p) P id p); [|exact Hp].
    intros k y Hk. now apply inv_contrib_nonneg.
  Qed.

  Lemma inv_L_nonneg a : 0 <= Lf a.
  Proof.
    rewrite (i_locked _ _ _ _ _ _ _ _ _ _ _ _ I a). unfold osum. apply msum_nonneg.
    intros k y Hk. now apply inv_contrib_nonneg.
  Qed.

  Lemma inv_E_nonneg a : 0 <= Ef a.
  Proof. pose proof (inv_L_nonneg a). pose proof (i_esc _ _ _ _ _ _ _ _ _ _ _ _ I a). lia. Qed.

  Lemma inv_S_None id : P !! id = None -> S !! id = None.
  Proof.
    intros Hp. destruct (S !! id) as [ds|] eqn:Hs; [|reflexivity].
    destruct (i_wfS _ _ _ _ _ _ _ _ _ _ _ _ I id ds Hs) as (q & Hq & _). congruence.
  Qed.

  Lemma inv_nid_fresh : P !! nid = None.
  Proof.
    destruct (P !! nid) as [p|] eqn:Hp; [|reflexivity].
    destruct (i_wfP _ _ _ _ _ _ _ _ _ _ _ _ I nid p Hp) as [_ ?]. lia.
  Qed.
End Conseq.

(* -- preservation, at the level of the components -- *)
Lemma invc_now_mono now now' owed P S Lf Ef tc tp tf bs bal nid :
  InvC now owed P S Lf Ef tc tp tf bs bal nid -> now <= now' ->
  InvC now' owed P S Lf Ef tc tp tf bs bal nid.
Proof.
  intros [] Hle. constructor; auto.
  intros id ds Hds. destruct (i_wfS0 id ds Hds) as (p & Hp & H1 & H2 & H3).
  exists p. split; [exact Hp|]. split; [exact H1|]. split; [exact H2|].
  destruct H3 as [H3|H3]; [now left|right; lia].
Qed.

Lemma invc_ext now owed P S Lf Ef Lf' Ef' tc tp tf bs bal nid :
  InvC now owed P S Lf Ef tc tp tf bs bal nid ->
  (forall a, Lf' a = Lf a) -> (forall a, Ef' a = Ef a) ->
  InvC now owed P S Lf' Ef' tc tp tf bs bal nid.
Proof.
  intros [] HL HE. constructor; auto.
  - intros a. rewrite HL. apply i_locked0.
  - intros a. rewrite HL, HE. apply i_esc0.
Qed.

(* a deal leaves the tables: its whole lock is released, x is paid to the provider, s is forfeited *)
Lemma invc_remove now owed P S Lf Ef tc tp tf bs bal nid id p x s Lf' Ef' :
  InvC now owed P S Lf Ef tc tp tf bs bal nid ->
  P !! id = Some p ->
  let pu := paid_until (S !! id) p in
  0 <= x <= p_ccoll p + fee_left pu p -> 0 <= s <= p_pcoll p + x ->
  (forall a, Lf' a = Lf a - ind a (p_client p) (p_ccoll p + fee_left pu p) - ind a (p_provider p) (p_pcoll p)) ->
  (forall a, Ef' a = Ef a - ind a (p_client p) x + ind a (p_provider p) (x - s)) ->
  InvC now (owed + s) (delete id P) (delete id S) Lf' Ef'
       (tc - p_ccoll p) (tp - p_pcoll p) (tf - fee_left pu p) (bs - s) bal nid.
Proof.
  intros I Hp pu Hx Hs HL HE. pose proof I as [].
  assert (Hd : delete id P !! id = None) by apply lookup_delete.
  constructor.
  - intros k q Hk. apply lookup_delete_Some in Hk as [_ Hk]. auto.
  - intros k ds Hk. apply lookup_delete_Some in Hk as [Hne Hk].
    destruct (i_wfS0 k ds Hk) as (q & Hq & Hw). exists q. split; [|exact Hw].
    now rewrite lookup_delete_ne.
  - intros a. rewrite HL, i_locked0. rewrite (osum_delete _ P S id p Hp).
    rewrite (osum_S_delete _ (delete id P) S id Hd). unfold contribf at 1. fold pu. lia.
  - intros a. rewrite HL, HE. specialize (i_esc0 a). ind_cases.
  - rewrite i_tc0, (osum_delete _ P S id p Hp), (osum_S_delete _ (delete id P) S id Hd). unfold fcc at 1. lia.
  - rewrite i_tp0, (osum_delete _ P S id p Hp), (osum_S_delete _ (delete id P) S id Hd). unfold fpc at 1. lia.
  - rewrite i_tf0, (osum_delete _ P S id p Hp), (osum_S_delete _ (delete id P) S id Hd). fold pu. lia.
  - lia.
  - lia.
  - exact i_nid0.
Qed.

(* a deal's state is written: the paid-until epoch moves from pu to pu', price * (pu' - pu) is paid *)
Lemma invc_update now owed P S Lf Ef tc tp tf bs bal nid id p ds' Lf' Ef' :
  InvC now owed P S Lf Ef tc tp tf bs bal nid ->
  P !! id = Some p -> wf_ds now p ds' ->
  let pu := paid_until (S !! id) p in
  let pu' := paid_until (Some ds') p in
  pu <= pu' ->
  let x := p_price p * (pu' - pu) in
  (forall a, Lf' a = Lf a - ind a (p_client p) x) ->
  (forall a, Ef' a = Ef a - ind a (p_client p) x + ind a (p_provider p) x) ->
  InvC now owed P (<[id:=ds']> S) Lf' Ef' tc tp (tf - x) bs bal nid.
Proof.
  intros I Hp Hw pu pu' Hle x HL HE. pose proof I as [].
  destruct (i_wfP0 id p Hp) as [(W1 & W2 & W3 & W4 & W5) _].
  assert (Hx : 0 <= x) by (unfold x; apply Z.mul_nonneg_nonneg; lia).
  assert (Hfl : fee_left pu' p = fee_left pu p - x) by (unfold fee_left, x; lia).
  constructor; auto.
  - intros k ds Hk. destruct (Z.eq_dec k id) as [->|Hne].
    + rewrite lookup_insert in Hk. injection Hk as <-. eauto.
    + rewrite lookup_insert_ne in Hk by congruence. auto.
  - intros a. rewrite HL, i_locked0, (osum_S_insert _ P S id p ds' Hp). fold pu pu'.
    unfold contribf. rewrite Hfl. ind_cases.
  - intros a. rewrite HL, HE. specialize (i_esc0 a). ind_cases.
  - rewrite i_tf0, (osum_S_insert _ P S id p ds' Hp). fold pu pu'. lia.
Qed.

(* a new deal is stored under the id next_id *)
Lemma invc_insert now owed P S Lf Ef tc tp tf bs bal nid p Lf' :
  InvC now owed P S Lf Ef tc tp tf bs bal nid ->
  wf_prop p ->
  (forall a, Lf' a = Lf a + ind a (p_client p) (client_req p) + ind a (p_provider p) (p_pcoll p)) ->
  (forall a, Lf' a <= Ef a) ->
  InvC now owed (<[nid:=p]> P) S Lf' Ef (tc + p_ccoll p) (tp + p_pcoll p) (tf + total_fee p) bs bal (nid + 1).
Proof.
  intros I Hw HL HE. pose proof I as [].
  pose proof (inv_nid_fresh I) as Hf. pose proof (inv_S_None I nid Hf) as Hs.
  constructor; auto; try lia.
  - intros k q Hk. destruct (Z.eq_dec k nid) as [->|Hne].
    + rewrite lookup_insert in Hk. injection Hk as <-. split; [exact Hw|lia].
    + rewrite lookup_insert_ne in Hk by congruence. destruct (i_wfP0 k q Hk). split; [assumption|lia].
  - intros k ds Hk. destruct (i_wfS0 k ds Hk) as (q & Hq & Hwd). exists q. split; [|exact Hwd].
    rewrite lookup_insert_ne; [exact Hq|]. intros <-. congruence.
  - intros a. rewrite HL, i_locked0, (osum_insert _ P S nid p Hf), Hs. cbn [paid_until].
    assert (contribf a (p_start p) p =
            ind a (p_client p) (client_req p) + ind a (p_provider p) (p_pcoll p)) as -> by reflexivity.
    lia.
  - rewrite i_tc0, (osum_insert _ P S nid p Hf).
    assert (fcc (paid_until (S !! nid) p) p = p_ccoll p) as -> by reflexivity. lia.
  - rewrite i_tp0, (osum_insert _ P S nid p Hf).
    assert (fpc (paid_until (S !! nid) p) p = p_pcoll p) as -> by reflexivity. lia.
  - rewrite i_tf0, (osum_insert _ P S nid p Hf), Hs. cbn [paid_until].
    assert (fee_left (p_start p) p = total_fee p) as -> by reflexivity. lia.
Qed.

Lemma invc_deposit now owed P S Lf Ef tc tp tf bs bal nid who v Ef' :
  InvC now owed P S Lf Ef tc tp tf bs bal nid -> 0 <= v ->
  (forall a, Ef' a = Ef a + ind a who v) ->
  InvC now owed P S Lf Ef' tc tp tf (bs + v) (bal + v) nid.
Proof.
  intros [] Hv HE. constructor; auto; try lia.
  intros a. rewrite HE. specialize (i_esc0 a). pose proof (ind_nonneg a who v Hv). lia.
Qed.

Lemma invc_withdraw now owed P S Lf Ef tc tp tf bs bal nid who ex Ef' :
  InvC now owed P S Lf Ef tc tp tf bs bal nid -> 0 <= ex <= Ef who - Lf who ->
  (forall a, Ef' a = Ef a - ind a who ex) ->
  InvC now owed P S Lf Ef' tc tp tf (bs - ex) (bal - ex) nid.
Proof.
  intros [] Hv HE. constructor; auto; try lia.
  intros a. rewrite HE. specialize (i_esc0 a). ind_cases.
Qed.

Lemma invc_burn now owed P S Lf Ef tc tp tf bs bal nid :
  InvC now owed P S Lf Ef tc tp tf bs bal nid ->
  InvC now 0 P S Lf Ef tc tp tf bs (bal - owed) nid.
Proof. intros []. constructor; auto; lia. Qed.

Lemma invc_init ivl : MarketInv 0 (init ivl).
Proof.
  unfold MarketInv, InvS, init. cbn.
  constructor; cbn; try lia.
  - intros id p H. rewrite lookup_empty in H. discriminate.
  - intros id ds H. rewrite lookup_empty in H. discriminate.
  - intros a. unfold L. cbn. rewrite bt_get_empty, osum_empty. reflexivity.
  - intros a. unfold L, E. cbn. rewrite !bt_get_empty. lia.
  - now rewrite osum_empty.
  - now rewrite osum_empty.
  - now rewrite osum_empty.
  - rewrite bsum_empty. lia.
Qed.

(* ------------------------------------------------------------------------------------------ *)
(* what the invariant says about one live deal *)
Lemma deal_facts now owed S st id p :
  InvS now owed S st -> proposals st !! id = Some p ->
  let c := p_client p in let pr := p_provider p in
  let pu := paid_until (S !! id) p in
  wf_prop p /\ p_start p <= pu < p_end p /\ 0 <= fee_left pu p /\
  p_ccoll p + fee_left pu p + ind c pr (p_pcoll p) <= L st c /\
  ind pr c (p_ccoll p + fee_left pu p) + p_pcoll p <= L st pr /\
  (forall a, L st a <= E st a) /\ (forall a, 0 <= L st a).
Proof.
  intros I Hp c pr pu. unfold InvS in I.
  destruct (i_wfP _ _ _ _ _ _ _ _ _ _ _ _ I id p Hp) as [Hw _].
  pose proof (inv_pu I id p Hp) as Hb. fold pu in Hb.
  split; [exact Hw|]. split; [exact Hb|].
  destruct Hw as (W1 & W2 & W3 & W4 & W5).
  split; [apply fee_left_nonneg; lia|].
  pose proof (inv_L_ge I c id p Hp) as H1. pose proof (inv_L_ge I pr id p Hp) as H2.
  unfold contribf in H1, H2. fold pu c pr in H1, H2. rewrite ind_same in H1, H2.
  split; [lia|]. split; [lia|].
  split; [exact (i_esc _ _ _ _ _ _ _ _ _ _ _ _ I)|]. intros a. exact (inv_L_nonneg I a).
Qed.

Lemma eff_L0 c pr st st' a : eff c pr st st' 0 0 0 0 0 0 0 -> L st' a = L st a.
Proof. intros [H _ _ _ _ _ _]. rewrite H, !ind_0. lia. Qed.
Lemma eff_E0 c pr st st' a : eff c pr st st' 0 0 0 0 0 0 0 -> E st' a = E st a.
Proof. intros [_ H _ _ _ _ _]. rewrite H. replace (0 - 0) with 0 by lia. rewrite !ind_0. lia. Qed.

(* normal expiry *)
Lemma expired_spec c pr st p ds :
  c = p_client p -> pr = p_provider p ->
  ds_start ds <> UNDEF -> 0 <= p_pcoll p -> 0 <= p_ccoll p ->
  p_pcoll p <= L st pr -> p_ccoll p + ind c pr (p_pcoll p) <= L st c ->
  exists st', process_deal_expired st p ds = Ok st' tt /\
    eff c pr st st' (p_ccoll p) (p_pcoll p) 0 0 (p_ccoll p) (p_pcoll p) 0 /\ pending st' = pending st.
Proof.
  intros -> -> Hs H1 H2 H3 H4. unfold process_deal_expired.
  destruct (ds_start ds =? UNDEF) eqn:Es; zb; [contradiction|].
  destruct (unlock_provider (p_client p) (p_provider p) st (p_pcoll p) RPcoll H1 H3) as (st1 & R1 & F1 & P1).
  rewrite R1. cbn [bind].
  destruct (unlock_client (p_client p) (p_provider p) st1 (p_ccoll p) RCcoll H2) as (st2 & R2 & F2 & P2).
  { rewrite (e_L _ _ _ _ _ _ _ _ _ _ _ F1), ind_0. lia. }
  exists st2. split; [exact R2|]. split; [|congruence].
  eapply eff_cast; [eapply eff_trans; [exact F1|exact F2]|lia..].
Qed.

Lemma pu_some_lu p ds :
  0 <= p_start p ->
  (ds_lu ds = UNDEF \/ 0 <= ds_lu ds) ->
  (if negb (ds_lu ds =? UNDEF) && (p_start p <? ds_lu ds) then ds_lu ds else p_start p) = paid_until (Some ds) p /\
  Z.max (p_start p) (ds_lu ds) = paid_until (Some ds) p.
Proof.
  intros H0 H. unfold paid_until, UNDEF in *.
  destruct (ds_lu ds =? -1) eqn:E1; zb; cbn [negb andb].
  - split; [reflexivity|]. rewrite E1. lia.
  - destruct (p_start p <? ds_lu ds) eqn:E2; zb; lia.
Qed.

(* process_deal_update on a live, unslashed deal: pays exactly price * (new paid-until - old paid-until) *)
Lemma pdu_spec epoch owed S st id p ds :
  InvS epoch owed S st -> proposals st !! id = Some p -> S !! id = Some ds -> 0 <= epoch ->
  let c := p_client p in let pr := p_provider p in
  let pu := paid_until (Some ds) p in
  let pu' := Z.max pu (Z.min (p_end p) epoch) in
  let x := p_price p * (pu' - pu) in
  let done := p_end p <=? epoch in
  let k := if done then 1 else 0 in
  exists st',
    process_deal_update st ds p epoch = Ok st' (0, x, done, done) /\
    eff c pr st st' (x + k * p_ccoll p) (k * p_pcoll p) x 0 (k * p_ccoll p) (k * p_pcoll p) x /\
    pending st' = (if ds_lu ds =? UNDEF then pend_del (pending st) p else pending st).
Proof.
  intros I Hp Hs He c pr pu pu' x done k.
  destruct (deal_facts _ _ _ _ _ _ I Hp) as ((W1 & W2 & W3 & W4 & W5) & Hpu & Hfl & HLc & HLp & HLE & HLn).
  rewrite Hs in Hpu, Hfl, HLc, HLp. fold pu c pr in Hpu, Hfl, HLc, HLp.
  destruct (i_wfS _ _ _ _ _ _ _ _ _ _ _ _ I id ds Hs) as (q & Hq & D1 & D2 & D3).
  assert (q = p) as -> by congruence.
  assert (Hlu : ds_lu ds = UNDEF \/ 0 <= ds_lu ds) by (destruct D3; [now left|right; lia]).
  destruct (pu_some_lu p ds W5 Hlu) as [Hps _]. fold pu in Hps.
  pose proof (ind_nonneg c pr (p_pcoll p) W3) as Hi1.
  pose proof (ind_nonneg pr c (p_ccoll p + fee_left pu p) ltac:(lia)) as Hi2.
  unfold process_deal_update. rewrite D1. cbn [negb Z.eqb UNDEF Pos.eqb].
  set (st0 := if negb (ds_lu ds =? UNDEF) then st else remove_pending st p).
  assert (F0 : eff c pr st st0 0 0 0 0 0 0 0).
  { unfold st0. destruct (negb (ds_lu ds =? UNDEF)); [apply eff_refl|apply eff_remove_pending]. }
  assert (P0 : pending st0 = if ds_lu ds =? UNDEF then pend_del (pending st) p else pending st).
  { unfold st0. destruct (ds_lu ds =? UNDEF); reflexivity. }
  assert (Hfut : negb (ds_lu ds =? UNDEF) && (epoch <? ds_lu ds) = false).
  { destruct D3 as [D3|D3]; [rewrite D3; reflexivity|].
    destruct (epoch <? ds_lu ds) eqn:E1; zb; [lia|apply andb_false_r]. }
  rewrite Hfut.
  destruct (epoch <? p_start p) eqn:Es; zb.
  - (* before the start epoch: nothing to pay *)
    assert (pu' = pu) by (unfold pu'; lia).
    assert (x = 0) as -> by (unfold x; nia).
    assert (done = false) as Hd by (unfold done; apply Z.leb_gt; lia).
    unfold k. rewrite Hd.
    exists st0. split; [reflexivity|]. split; [|exact P0].
    eapply eff_cast; [exact F0|lia..].
  - cbn [bind]. rewrite Hps.
    assert (Hpu' : pu' = Z.min (p_end p) epoch).
    { unfold pu'. destruct D3 as [D3|D3].
      - unfold pu, paid_until. rewrite D3. cbn. lia.
      - unfold pu, paid_until in *. destruct (ds_lu ds =? UNDEF); lia. }
    rewrite <- Hpu'. fold x.
    assert (Hx : 0 <= x <= fee_left pu p).
    { unfold x, fee_left. split; [apply Z.mul_nonneg_nonneg; lia|apply Z.mul_le_mono_nonneg_l; lia]. }
    destruct (transfer_opt c pr st0 x) as (st1 & R1 & F1 & P1); try lia.
    { rewrite (eff_L0 _ _ _ _ _ F0). lia. }
    { rewrite (eff_E0 _ _ _ _ _ F0). specialize (HLE c). lia. }
    { rewrite (eff_E0 _ _ _ _ _ F0). specialize (HLE pr). specialize (HLn pr). lia. }
    fold c pr. rewrite R1. cbn [bind].
    pose proof (eff_trans _ _ _ _ _ _ _ _ _ _ _ _ _ _ _ _ _ _ _ F0 F1) as F01.
    fold done. destruct done eqn:Hd.
    + (* completed *)
      destruct (expired_spec c pr st1 p ds eq_refl eq_refl D2 W3 W4) as (st2 & R2 & F2 & P2).
      { rewrite (e_L _ _ _ _ _ _ _ _ _ _ _ F01). ind_cases. }
      { rewrite (e_L _ _ _ _ _ _ _ _ _ _ _ F01). ind_cases. }
      rewrite R2. cbn [bind].
      exists st2. split; [reflexivity|]. split; [|congruence].
      unfold k. eapply eff_cast; [eapply eff_trans; [exact F01|exact F2]|lia..].
    + exists st1. split; [reflexivity|]. split; [|congruence].
      unfold k. eapply eff_cast; [exact F01|lia..].
Qed.

(* the proposal was not activated by its start epoch *)
Lemma timed_out_spec now owed S st id p :
  InvS now owed S st -> proposals st !! id = Some p -> S !! id = None ->
  let c := p_client p in let pr := p_provider p in
  exists st', process_deal_init_timed_out st p = Ok st' (p_pcoll p) /\
    eff c pr st st' (p_ccoll p + total_fee p) (p_pcoll p) 0 (p_pcoll p) (p_ccoll p) (p_pcoll p) (total_fee p) /\
    pending st' = pending st.
Proof.
  intros I Hp Hs c pr.
  destruct (deal_facts _ _ _ _ _ _ I Hp) as ((W1 & W2 & W3 & W4 & W5) & Hpu & Hfl & HLc & HLp & HLE & HLn).
  rewrite Hs in Hpu, Hfl, HLc, HLp. cbn [paid_until] in *.
  change (fee_left (p_start p) p) with (total_fee p) in *. fold c pr in HLc, HLp.
  pose proof (ind_nonneg c pr (p_pcoll p) W3) as Hi1.
  pose proof (ind_nonneg pr c (p_ccoll p + total_fee p) ltac:(lia)) as Hi2.
  unfold process_deal_init_timed_out. fold c pr.
  destruct (unlock_client c pr st (total_fee p) RFee Hfl) as (st1 & R1 & F1 & P1); [lia|].
  rewrite R1. cbn [bind].
  destruct (unlock_client c pr st1 (p_ccoll p) RCcoll W4) as (st2 & R2 & F2 & P2).
  { rewrite (e_L _ _ _ _ _ _ _ _ _ _ _ F1), ind_same, ind_0. lia. }
  rewrite R2. cbn [bind].
  pose proof (eff_trans _ _ _ _ _ _ _ _ _ _ _ _ _ _ _ _ _ _ _ F1 F2) as F12.
  destruct (slash_ok c pr st2 (p_pcoll p) RPcoll W3) as (st3 & R3 & F3 & P3).
  { rewrite (e_L _ _ _ _ _ _ _ _ _ _ _ F12). ind_cases. }
  { rewrite (e_E _ _ _ _ _ _ _ _ _ _ _ F12). specialize (HLE pr). ind_cases. }
  rewrite R3. cbn [bind].
  pose proof (eff_trans _ _ _ _ _ _ _ _ _ _ _ _ _ _ _ _ _ _ _ F12 F3) as F123.
  replace (p_pcoll p - p_pcoll p) with 0 by lia.
  destruct (unlock_provider c pr st3 0 RPcoll ltac:(lia)) as (st4 & R4 & F4 & P4).
  { rewrite (e_L _ _ _ _ _ _ _ _ _ _ _ F123). ind_cases. }
  rewrite R4. cbn [bind].
  exists st4. split; [reflexivity|]. split; [|congruence].
  eapply eff_cast; [eapply eff_trans; [exact F123|exact F4]|lia..].
Qed.

Lemma slash_arith price start end_ pu pe :
  0 <= price -> start <= pu < end_ -> pe < end_ -> (pu <= pe \/ pu = start) ->
  price * Z.max 0 (pe - pu) + price * (end_ - Z.max pe start) = price * (end_ - pu).
Proof.
  intros Hp Hpu Hpe [H|H].
  - rewrite Z.max_r by lia. rewrite (Z.max_l pe start) by lia. lia.
  - subst pu. destruct (Z.le_gt_cases start pe).
    + rewrite Z.max_r by lia. rewrite (Z.max_l pe start) by lia. lia.
    + rewrite Z.max_l by lia. rewrite (Z.max_r pe start) by lia. lia.
Qed.

(* the deal's sector is terminated at epoch pe (before the deal's end) *)
Lemma slashed_spec now owed S st id p ds pe :
  InvS now owed S st -> proposals st !! id = Some p -> S !! id = Some ds -> now <= pe -> pe < p_end p ->
  let c := p_client p in let pr := p_provider p in
  let pu := paid_until (Some ds) p in
  let x := p_price p * Z.max 0 (pe - pu) in
  exists st', process_slashed_deal st p (mkDs (ds_sector ds) (ds_start ds) (ds_lu ds) pe) = Ok st' (p_pcoll p) /\
    eff c pr st st' (p_ccoll p + fee_left pu p) (p_pcoll p) x (p_pcoll p) (p_ccoll p) (p_pcoll p) (fee_left pu p) /\
    pending st' = pending st.
Proof.
  intros I Hp Hs Hnow Hpe c pr pu x.
  destruct (deal_facts _ _ _ _ _ _ I Hp) as ((W1 & W2 & W3 & W4 & W5) & Hpu & Hfl & HLc & HLp & HLE & HLn).
  rewrite Hs in Hpu, Hfl, HLc, HLp. fold pu c pr in Hpu, Hfl, HLc, HLp.
  destruct (i_wfS _ _ _ _ _ _ _ _ _ _ _ _ I id ds Hs) as (q & Hq & D1 & D2 & D3).
  assert (q = p) as -> by congruence.
  assert (Hlu : ds_lu ds = UNDEF \/ 0 <= ds_lu ds) by (destruct D3; [now left|right; lia]).
  destruct (pu_some_lu p ds W5 Hlu) as [_ Hps]. fold pu in Hps.
  assert (Hcase : pu <= pe \/ pu = p_start p).
  { destruct D3 as [D3|D3]; unfold pu, paid_until.
    - rewrite D3. cbn. now right.
    - destruct (ds_lu ds =? UNDEF); [now right|]. destruct (Z.le_gt_cases (p_start p) (ds_lu ds)).
      + left. lia. + right. lia. }
  pose proof (ind_nonneg c pr (p_pcoll p) W3) as Hi1.
  pose proof (ind_nonneg pr c (p_ccoll p + fee_left pu p) ltac:(lia)) as Hi2.
  set (rem := p_price p * (p_end p - Z.max pe (p_start p))).
  assert (Hsum : x + rem = fee_left pu p).
  { unfold x, rem, fee_left. apply slash_arith; auto. }
  assert (Hx : 0 <= x) by (unfold x; apply Z.mul_nonneg_nonneg; lia).
  assert (Hrem : 0 <= rem) by (unfold rem; apply Z.mul_nonneg_nonneg; lia).
  unfold process_slashed_deal. cbn [ds_lu ds_slash ds_sector ds_start].
  rewrite Hps. rewrite (Z.min_r (p_end p) pe) by lia. fold x. fold c pr.
  destruct (transfer_opt c pr st x) as (st1 & R1 & F1 & P1); try lia.
  { specialize (HLE c). lia. }
  { specialize (HLE pr). specialize (HLn pr). lia. }
  rewrite R1. cbn [bind].
  unfold deal_get_payment_remaining.
  destruct (p_end p <? pe) eqn:E1; zb; [lia|].
  destruct (p_end p - Z.max pe (p_start p) <? 0) eqn:E2; zb; [lia|].
  cbn [bind]. fold rem.
  destruct (unlock_client c pr st1 rem RFee Hrem) as (st2 & R2 & F2 & P2).
  { rewrite (e_L _ _ _ _ _ _ _ _ _ _ _ F1), ind_same, ind_0. lia. }
  rewrite R2. cbn [bind].
  pose proof (eff_trans _ _ _ _ _ _ _ _ _ _ _ _ _ _ _ _ _ _ _ F1 F2) as F12.
  destruct (unlock_client c pr st2 (p_ccoll p) RCcoll W4) as (st3 & R3 & F3 & P3).
  { rewrite (e_L _ _ _ _ _ _ _ _ _ _ _ F12), ind_same, ind_0. lia. }
  rewrite R3. cbn [bind].
  pose proof (eff_trans _ _ _ _ _ _ _ _ _ _ _ _ _ _ _ _ _ _ _ F12 F3) as F123.
  destruct (slash_ok c pr st3 (p_pcoll p) RPcoll W3) as (st4 & R4 & F4 & P4).
  { rewrite (e_L _ _ _ _ _ _ _ _ _ _ _ F123). ind_cases. }
  { rewrite (e_E _ _ _ _ _ _ _ _ _ _ _ F123). specialize (HLE pr). ind_cases. }
  rewrite R4. cbn [bind].
  exists st4. split; [reflexivity|]. split; [|congruence].
  eapply eff_cast; [eapply eff_trans; [exact F123|exact F4]|lia..].
Qed.

(* ------------------------------------------------------------------------------------------ *)
(* from an effect to the invariant *)
Lemma inv_eff_remove now owed S st st1 id p x s V :
  InvS now owed S st -> proposals st !! id = Some p ->
  let pu := paid_until (S !! id) p in
  eff (p_client p) (p_provider p) st st1 (p_ccoll p + fee_left pu p) (p_pcoll p) x s
      (p_ccoll p) (p_pcoll p) (fee_left pu p) ->
  0 <= x <= p_ccoll p + fee_left pu p -> 0 <= s <= p_pcoll p + x ->
  InvS now (owed + s) (delete id S) (set_proposals (set_states st1 V) (delete id (proposals st))).
Proof.
  intros I Hp pu F Hx Hs. destruct F as [FL FE Fsum Ftc Ftp Ftf Ffr]. destruct Ffr.
  unfold InvS. cbn [proposals set_proposals set_states tot_ccoll tot_pcoll tot_fee escrow balance next_id].
  change (L (set_proposals (set_states st1 V) (delete id (proposals st)))) with (L st1).
  change (E (set_proposals (set_states st1 V) (delete id (proposals st)))) with (E st1).
  rewrite Ftc, Ftp, Ftf, Fsum, f_bal, f_next.
  eapply invc_remove; eauto.
Qed.

Lemma inv_eff_update now owed S st st1 id p ds' :
  InvS now owed S st -> proposals st !! id = Some p -> wf_ds now p ds' ->
  let pu := paid_until (S !! id) p in
  let pu' := paid_until (Some ds') p in
  pu <= pu' ->
  let x := p_price p * (pu' - pu) in
  eff (p_client p) (p_provider p) st st1 x 0 x 0 0 0 x ->
  InvS now owed (<[id:=ds']> S) st1.
Proof.
  intros I Hp Hw pu pu' Hle x F. destruct F as [FL FE Fsum Ftc Ftp Ftf Ffr]. destruct Ffr.
  subst x pu pu'.
  unfold InvS. rewrite f_prop, Ftc, Ftp, Ftf, Fsum, f_bal, f_next.
  replace (tot_ccoll st - 0) with (tot_ccoll st) by lia.
  replace (tot_pcoll st - 0) with (tot_pcoll st) by lia.
  replace (bsum (escrow st) - 0) with (bsum (escrow st)) by lia.
  eapply invc_update; eauto.
  - intros a. rewrite FL, ind_0. lia.
  - intros a. rewrite FE. rewrite Z.sub_0_r. reflexivity.
Qed.

Lemma inv_eff_zero now owed S st st1 c pr :
  InvS now owed S st -> eff c pr st st1 0 0 0 0 0 0 0 -> InvS now owed S st1.
Proof.
  intros I F. pose proof F as [FL FE Fsum Ftc Ftp Ftf Ffr]. destruct Ffr.
  unfold InvS. rewrite f_prop, Ftc, Ftp, Ftf, Fsum, f_bal, f_next.
  replace (tot_ccoll st - 0) with (tot_ccoll st) by lia.
  replace (tot_pcoll st - 0) with (tot_pcoll st) by lia.
  replace (tot_fee st - 0) with (tot_fee st) by lia.
  replace (bsum (escrow st) - 0) with (bsum (escrow st)) by lia.
  eapply invc_ext; [exact I| |].
  - intros a. apply (eff_L0 _ _ _ _ a F).
  - intros a. apply (eff_E0 _ _ _ _ a F).
Qed.

Lemma rcd_ok st id ds p :
  states st !! id = Some ds -> proposals st !! id = Some p ->
  remove_completed_deal st id =
    Ok (set_proposals (set_states st (delete id (states st))) (delete id (proposals st))) tt.
Proof.
  intros Hs Hp. unfold remove_completed_deal. rewrite Hs. unfold remove_proposal. cbn. now rewrite Hp.
Qed.

Lemma rcd_err st id : states st !! id = None -> exists c, remove_completed_deal st id = Err st c.
Proof. intros Hs. unfold remove_completed_deal. rewrite Hs. eauto. Qed.

(* put_deal_states *)
Lemma put_lookup_notin l : forall m k, ~ In k (map fst l) -> put_deal_states m l !! k = m !! k.
Proof.
  induction l as [|[i d] l IH]; intros m k Hn; cbn; [reflexivity|].
  rewrite IH by (intros H; apply Hn; now right).
  rewrite lookup_insert_ne; [reflexivity|]. intros ->. apply Hn. now left.
Qed.

Lemma put_app l : forall m i d, put_deal_states m (l ++ [(i, d)]) = <[i:=d]> (put_deal_states m l).
Proof. induction l as [|[j e] l IH]; intros m i d; cbn; [reflexivity|apply IH]. Qed.

Lemma put_delete_notin l : forall m k, ~ In k (map fst l) ->
  put_deal_states (delete k m) l = delete k (put_deal_states m l).
Proof.
  induction l as [|[i d] l IH]; intros m k Hn; cbn; [reflexivity|].
  rewrite <- IH by (intros H; apply Hn; now right).
  f_equal. symmetry. apply delete_insert_ne. intros ->. apply Hn. now left.
Qed.

(* get_active_deal_or_process_timeout, for a live proposal *)
Lemma gadt_spec epoch owed S st id p :
  InvS epoch owed S st -> proposals st !! id = Some p -> states st !! id = S !! id ->
  match get_active_deal_or_process_timeout st epoch id p with
  | Ok st' (Loaded ds) => st' = st /\ S !! id = Some ds
  | Ok st' TooEarly => st' = st /\ S !! id = None /\ epoch < p_start p
  | Ok st' (ProposalExpired pen) =>
      S !! id = None /\ p_start p <= epoch /\ pen = p_pcoll p /\
      InvS epoch (owed + pen) S st' /\ states st' = states st /\ proposals st' = delete id (proposals st) /\
      next_id st' = next_id st /\ pending st' = pend_del (pending st) p /\ pend_has (pending st) p = true
  | Err st' c =>
      S !! id = None /\ p_start p <= epoch /\
      InvS epoch owed S st' /\ states st' = states st /\ proposals st' = delete id (proposals st) /\
      next_id st' = next_id st /\ pend_has (pending st) p = false
  end.
Proof.
  intros I Hp Hs. unfold get_active_deal_or_process_timeout. rewrite Hs.
  destruct (S !! id) as [ds|] eqn:HS; [split; reflexivity|].
  destruct (epoch <? p_start p) eqn:Es; zb; [repeat split; auto|].
  destruct (timed_out_spec _ _ _ _ _ _ I Hp HS) as (st1 & R1 & F1 & P1).
  rewrite R1. cbn [bind].
  pose proof F1 as [_ _ _ _ _ _ Ffr]. destruct Ffr.
  unfold remove_proposal. rewrite f_prop, Hp. cbn [bind].
  destruct (deal_facts _ _ _ _ _ _ I Hp) as ((W1 & W2 & W3 & W4 & W5) & Hpu & Hfl & _).
  rewrite HS in Hfl. cbn [paid_until] in Hfl. change (fee_left (p_start p) p) with (total_fee p) in Hfl.
  assert (I2 : forall o, o = owed + p_pcoll p \/ o = owed ->
            InvS epoch o S (set_proposals st1 (delete id (proposals st)))).
  { intros o Ho.
    pose proof (inv_eff_remove epoch owed S st st1 id p 0 (p_pcoll p) (states st1) I Hp) as H.
    rewrite HS in H. cbn [paid_until] in H. change (fee_left (p_start p) p) with (total_fee p) in H.
    specialize (H F1 ltac:(lia) ltac:(lia)).
    rewrite (delete_notin S id HS) in H.
    assert (set_states st1 (states st1) = st1) as Heq by (destruct st1; reflexivity).
    rewrite Heq in H.
    destruct Ho as [->| ->]; [exact H|].
    pose proof (i_owed _ _ _ _ _ _ _ _ _ _ _ _ I) as Hown.
    unfold InvS in *. destruct H. constructor; auto; lia. }
  cbn [pending set_proposals]. rewrite P1.
  destruct (pend_has (pending st) p) eqn:Eh; cbn [negb].
  - split; [reflexivity|]. split; [exact Es|]. split; [reflexivity|].
    split. { change (InvS epoch (owed + p_pcoll p) S (set_proposals st1 (delete id (proposals st)))).
             apply I2; now left. }
    split; [exact f_states|]. split; [reflexivity|]. split; [exact f_next|].
    split; [|reflexivity]. cbn. now rewrite P1.
  - split; [reflexivity|]. split; [exact Es|].
    split. { apply I2; now right. }
    split; [exact f_states|]. split; [reflexivity|]. split; [exact f_next|]. reflexivity.
Qed.

(* ------------------------------------------------------------------------------------------ *)
(* handlers *)
Lemma inv_bsum_nonneg now owed S st : InvS now owed S st -> 0 <= bsum (escrow st).
Proof. intros I. apply bsum_nonneg. intros a. exact (inv_E_nonneg I a). Qed.

Lemma inv_E_le_balance now owed S st a : InvS now owed S st -> E st a <= balance st.
Proof.
  intros I. pose proof (bsum_ge (escrow st) a (fun b => inv_E_nonneg I b)).
  pose proof (i_solv _ _ _ _ _ _ _ _ _ _ _ _ I). pose proof (i_owed _ _ _ _ _ _ _ _ _ _ _ _ I).
  unfold E. lia.
Qed.

Lemma add_balance_inv now st who t v :
  MarketInv now st -> MarketInv now (fst (add_balance st who t v)).
Proof.
  intros I. unfold add_balance.
  destruct (v <=? 0) eqn:Ev; [exact I|]. zb.
  assert (H : bt_add (escrow st) who v = Some (bt_upd (escrow st) who v)).
  { apply bt_add_ok. pose proof (inv_E_nonneg I who). unfold E in *. lia. }
  destruct t; [exact I| |]; rewrite H; cbn [fst];
    unfold MarketInv, InvS; cbn [proposals states set_funds set_escrow tot_ccoll tot_pcoll tot_fee escrow balance next_id];
    rewrite bsum_upd;
    (eapply invc_deposit with (who := who) (v := v); [exact I|lia|]);
    intros a; unfold E; cbn; apply bt_get_upd.
Qed.

Lemma withdraw_inv now st caller who t amount pf :
  MarketInv now st -> MarketInv now (fst (withdraw_balance st caller who t amount pf)).
Proof.
  intros I. unfold withdraw_balance.
  destruct (amount <? 0) eqn:Ea; [exact I|]. zb.
  destruct (escrow_address who t) as [[recipient approved]|]; [|exact I].
  destruct (negb (zmem caller approved)); [exact I|].
  unfold bt_sub_with_min.
  pose proof (i_esc _ _ _ _ _ _ _ _ _ _ _ _ I who) as HLE. unfold L, E in HLE.
  pose proof (inv_L_nonneg I who) as HLn. unfold L in HLn.
  set (sub := Z.min (Z.max 0 (bt_get (escrow st) who - bt_get (locked st) who)) amount).
  assert (Hsub : 0 <= sub <= bt_get (escrow st) who - bt_get (locked st) who) by (unfold sub; lia).
  destruct (0 <? sub) eqn:Es; zb.
  - rewrite bt_add_ok by lia. destruct pf as [cf|]; [exact I|].
    pose proof (inv_E_le_balance _ _ _ _ who I) as Hb. unfold E in Hb.
    destruct (balance st <? sub) eqn:Eb; zb; [lia|]. cbn [fst].
    unfold MarketInv, InvS; cbn [proposals states set_funds set_escrow tot_ccoll tot_pcoll tot_fee escrow balance next_id].
    rewrite bsum_upd. replace (bsum (escrow st) + - sub) with (bsum (escrow st) - sub) by lia.
    eapply invc_withdraw with (who := who) (ex := sub); [exact I| |].
    + change (L (set_funds _ _ _) who) with (L st who). unfold E, L. lia.
    + intros a. unfold E. cbn. rewrite bt_get_upd. unfold ind. destruct (a =? who); lia.
  - assert (sub = 0) as Hz by lia. destruct pf as [cf|]; [exact I|].
    destruct (balance st <? sub) eqn:Eb; [exact I|]. cbn [fst].
    unfold MarketInv, InvS; cbn [proposals states set_funds set_escrow tot_ccoll tot_pcoll tot_fee escrow balance next_id].
    rewrite Hz. replace (balance st - 0) with (balance st) by lia. exact I.
Qed.

Lemma get_balance_inv now st who r : MarketInv now st -> MarketInv now (fst (get_balance st who r)).
Proof. intros I. unfold get_balance. destruct (negb r); exact I. Qed.

(* -- settle_deal_payments -- *)
Definition settle_inv (epoch : Z) (st : state) (a : sacc) : Prop :=
  InvS epoch (sa_slashed a) (put_deal_states (states st) (sa_new a)) st.

Lemma settle_one_inv epoch st a i id st' a' :
  0 <= epoch ->
  settle_inv epoch st a -> ~ In id (map fst (sa_new a)) ->
  settle_one epoch st a i id = Ok st' a' ->
  settle_inv epoch st' a' /\ (forall k, In k (map fst (sa_new a')) -> In k (map fst (sa_new a)) \/ k = id).
Proof.
  intros He I Hnew. unfold settle_one, settle_inv in *.
  set (S := put_deal_states (states st) (sa_new a)) in *.
  assert (HS : states st !! id = S !! id) by (unfold S; now rewrite put_lookup_notin).
  unfold get_proposal.
  destruct (proposals st !! id) as [p|] eqn:Hp.
  2:{ intros [= <- <-]. cbn. split; [exact I|auto]. }
  pose proof (gadt_spec epoch _ S st id p I Hp HS) as G.
  destruct (get_active_deal_or_process_timeout st epoch id p) as [st1 [| pen | ds]|st1 c].
  - (* too early *)
    destruct G as (-> & _). intros [= <- <-]. cbn. split; [exact I|auto].
  - destruct G as (_ & _ & _ & G & Gs & _). intros [= <- <-]. cbn. rewrite Gs. split; [exact G|auto].
  - destruct G as (-> & Gs).
    destruct (i_wfS _ _ _ _ _ _ _ _ _ _ _ _ I id ds Gs) as (q & Hq & D1 & D2 & D3).
    assert (q = p) as -> by congruence.
    rewrite D1. cbn [negb Z.eqb UNDEF Pos.eqb].
    destruct (epoch <=? p_start p) eqn:Ees.
    { intros [= <- <-]. cbn. split; [exact I|auto]. }
    destruct (pdu_spec epoch _ S st id p ds I Hp Gs He) as (st2 & R & F & Pn).
    rewrite R.
    pose proof F as [_ _ _ _ _ _ Ffr]. destruct Ffr.
    destruct (deal_facts _ _ _ _ _ _ I Hp) as ((W1 & W2 & W3 & W4 & W5) & Hpu & Hfl & _).
    rewrite Gs in Hpu, Hfl.
    destruct (p_end p <=? epoch) eqn:Ed; zb.
    + (* completed: removed *)
      rewrite (rcd_ok st2 id ds p) by congruence. cbn [bind].
      intros [= <- <-]. cbn [sa_slashed sa_new]. split; [|auto].
      cbn [states set_proposals set_states]. rewrite f_states.
      rewrite put_delete_notin by exact Hnew. fold S.
      assert (Hx : Z.max (paid_until (Some ds) p) (Z.min (p_end p) epoch) = p_end p) by lia.
      rewrite Hx in F.
      replace (sa_slashed a) with (sa_slashed a + 0) by lia.
      rewrite f_prop.
      eapply inv_eff_remove with (x := p_price p * (p_end p - paid_until (Some ds) p));
        [exact I|exact Hp| | |].
      * rewrite Gs. eapply eff_cast; [exact F|unfold fee_left; lia..].
      * rewrite Gs. unfold fee_left in *. lia.
      * unfold fee_left in *. lia.
    + (* continues: the new state is written at the end of the transaction *)
      intros [= <- <-]. cbn [sa_slashed sa_new]. split.
      2:{ intros k Hk. rewrite map_app in Hk. apply in_app_or in Hk as [Hk|[<-|[]]]; auto. }
      rewrite put_app, f_states. fold S.
      set (ds' := mkDs (ds_sector ds) (ds_start ds) epoch UNDEF).
      assert (Hpu' : paid_until (Some ds') p = Z.max (paid_until (Some ds) p) (Z.min (p_end p) epoch)).
      { unfold paid_until at 1. cbn [ds_lu ds']. unfold UNDEF.
        destruct (epoch =? -1) eqn:E1; zb; [lia|].
        destruct D3 as [D3|D3]; unfold paid_until; [rewrite D3; cbn; lia|].
        destruct (ds_lu ds =? UNDEF); lia. }
      eapply inv_eff_update; [exact I|exact Hp| | |].
      * unfold wf_ds, ds'. cbn. split; [first [exact D1|reflexivity]|]. split; [exact D2|]. right. lia.
      * rewrite Gs, Hpu'. lia.
      * rewrite Gs, Hpu'. eapply eff_cast; [exact F|lia..].
  - destruct G as (_ & _ & G & Gs & _). intros [= <- <-]. cbn. rewrite Gs. split; [exact G|auto].
Qed.

Lemma settle_loop_inv epoch ids : forall st a i st' a',
  0 <= epoch -> NoDup ids ->
  settle_inv epoch st a -> (forall k, In k ids -> ~ In k (map fst (sa_new a))) ->
  settle_loop epoch st a i ids = Ok st' a' -> settle_inv epoch st' a'.
Proof.
  induction ids as [|id ids IH]; intros st a i st' a' He Hnd I Hnew; cbn [settle_loop].
  - now intros [= <- <-].
  - destruct (settle_one epoch st a i id) as [st1 a1|] eqn:H1; [|discriminate]. cbn [bind].
    inversion Hnd; subst.
    destruct (settle_one_inv _ _ _ _ _ _ _ He I (Hnew id (or_introl eq_refl)) H1) as [I1 Hk].
    apply IH; auto.
    intros k Hin Hk1. destruct (Hk k Hk1) as [Hk2| ->]; [|contradiction].
    apply (Hnew k); [now right|exact Hk2].
Qed.

Lemma settle_inv_step now st epoch ids :
  MarketInv now st -> now <= epoch -> 0 <= epoch -> NoDup ids ->
  MarketInv epoch (fst (settle st epoch ids)).
Proof.
  intros I Hn He Hnd. pose proof (invc_now_mono _ _ _ _ _ _ _ _ _ _ _ _ _ I Hn) as I'.
  unfold settle.
  destruct (settle_loop epoch st (mkSacc [] 0 [] 0 [] []) 0 ids) as [st1 a|] eqn:Hl; [|exact I'].
  assert (I1 : settle_inv epoch st1 a).
  { apply (settle_loop_inv epoch ids st (mkSacc [] 0 [] 0 [] []) 0 st1 a He Hnd);
      [exact I'|intros k _ H; exact H|exact Hl]. }
  unfold settle_inv in I1.
  set (st3 := set_psectors _ _).
  assert (I3 : InvS epoch (sa_slashed a) (states st3) st3) by exact I1.
  destruct (sa_slashed a =? 0) eqn:E0; zb.
  - cbn [fst]. unfold MarketInv. now rewrite E0 in I3.
  - pose proof (i_owed _ _ _ _ _ _ _ _ _ _ _ _ I3) as Ho.
    pose proof (i_solv _ _ _ _ _ _ _ _ _ _ _ _ I3) as Hs.
    pose proof (inv_bsum_nonneg _ _ _ _ I3) as Hb.
    destruct ((sa_slashed a <? 0) || (balance st3 <? sa_slashed a)) eqn:E1.
    { apply orb_true_iff in E1 as [E1|E1]; zb; lia. }
    cbn [fst]. unfold MarketInv, InvS, burn.
    cbn [proposals states set_funds tot_ccoll tot_pcoll tot_fee escrow balance next_id].
    change (L (set_funds st3 _ _)) with (L st3). change (E (set_funds st3 _ _)) with (E st3).
    eapply invc_burn. exact I3.
Qed.

(* -- cron_tick -- *)
Definition cron_inv (epoch : Z) (st : state) (a : cracc) : Prop :=
  InvS epoch (cr_slashed a) (states st) st.

Lemma cron_one_inv epoch st a id st' a' :
  0 <= epoch -> cron_inv epoch st a -> cron_one epoch st a id = Ok st' a' -> cron_inv epoch st' a'.
Proof.
  intros He I. unfold cron_one, cron_inv in *.
  destruct (proposals st !! id) as [p|] eqn:Hp; [|now intros [= <- <-]].
  pose proof (gadt_spec epoch _ (states st) st id p I Hp eq_refl) as G.
  destruct (get_active_deal_or_process_timeout st epoch id p) as [st1 [| pen | ds]|st1 c]; cbn [bind];
    try discriminate.
  - destruct G as (_ & _ & _ & G & Gs & _). intros [= <- <-]. cbn. now rewrite Gs.
  - destruct G as (-> & Gs).
    destruct (i_wfS _ _ _ _ _ _ _ _ _ _ _ _ I id ds Gs) as (q & Hq & D1 & D2 & D3).
    assert (q = p) as -> by congruence.
    destruct (ds_lu ds =? UNDEF) eqn:Elu.
    + destruct (pend_has (pending st) p); [|discriminate]. intros [= <- <-]. exact I.
    + destruct (pdu_spec epoch _ (states st) st id p ds I Hp Gs He) as (st2 & R & F & Pn).
      rewrite R. cbn [bind].
      pose proof F as [_ _ _ _ _ _ Ffr]. destruct Ffr.
      destruct (deal_facts _ _ _ _ _ _ I Hp) as ((W1 & W2 & W3 & W4 & W5) & Hpu & Hfl & _).
      rewrite Gs in Hpu, Hfl.
      destruct (p_end p <=? epoch) eqn:Ed; zb.
      * rewrite (rcd_ok st2 id ds p) by congruence. cbn [bind].
        intros [= <- <-]. cbn [cr_slashed states set_proposals set_states].
        rewrite f_states, f_prop.
        assert (Hx : Z.max (paid_until (Some ds) p) (Z.min (p_end p) epoch) = p_end p) by lia.
        rewrite Hx in F.
        eapply inv_eff_remove with (x := p_price p * (p_end p - paid_until (Some ds) p));
          [exact I|exact Hp| | |].
        -- rewrite Gs. eapply eff_cast; [exact F|unfold fee_left; lia..].
        -- rewrite Gs. unfold fee_left in *. lia.
        -- unfold fee_left in *. lia.
      * cbn [negb Z.eqb]. intros [= <- <-]. cbn [cr_slashed states set_states].
        rewrite f_states.
        set (ds' := mkDs (ds_sector ds) (ds_start ds) epoch (ds_slash ds)).
        assert (Hpu' : paid_until (Some ds') p = Z.max (paid_until (Some ds) p) (Z.min (p_end p) epoch)).
        { unfold paid_until at 1. cbn [ds_lu ds']. unfold UNDEF.
          destruct (epoch =? -1) eqn:E1; zb; [lia|].
          destruct D3 as [D3|D3]; unfold paid_until; [rewrite D3; cbn; lia|].
          destruct (ds_lu ds =? UNDEF); lia. }
        change (InvS epoch (cr_slashed a) (<[id:=ds']> (states st)) st2).
        eapply inv_eff_update; [exact I|exact Hp| | |].
        -- unfold wf_ds, ds'. cbn. split; [exact D1|]. split; [exact D2|]. right. lia.
        -- rewrite Gs, Hpu'. lia.
        -- rewrite Gs, Hpu'. eapply eff_cast; [exact F|lia..].
Qed.

Lemma cron_loop_inv epoch ids : forall st a st' a',
  0 <= epoch -> cron_inv epoch st a -> cron_loop epoch st a ids = Ok st' a' -> cron_inv epoch st' a'.
Proof.
  induction ids as [|id ids IH]; intros st a st' a' He I; cbn [cron_loop].
  - now intros [= <- <-].
  - destruct (cron_one epoch st a id) as [st1 a1|] eqn:H1; [|discriminate]. cbn [bind].
    apply IH; [exact He|]. eapply cron_one_inv; eauto.
Qed.

Lemma burn_inv epoch owed st :
  InvS epoch owed (states st) st ->
  MarketInv epoch (fst (if owed =? 0 then (st, [OK])
                        else if (owed <? 0) || (balance st <? owed) then (st, [SEND_FAILED])
                        else (burn st owed, [OK]))) \/
  (owed <> 0 /\ ((owed <? 0) || (balance st <? owed)) = true).
Proof.
  intros I. destruct (owed =? 0) eqn:E0; zb.
  - left. cbn [fst]. unfold MarketInv. now rewrite E0 in I.
  - pose proof (i_owed _ _ _ _ _ _ _ _ _ _ _ _ I) as Ho.
    pose proof (i_solv _ _ _ _ _ _ _ _ _ _ _ _ I) as Hs.
    pose proof (inv_bsum_nonneg _ _ _ _ I) as Hb.
    destruct ((owed <? 0) || (balance st <? owed)) eqn:E1.
    { apply orb_true_iff in E1 as [E1|E1]; zb; lia. }
    left. cbn [fst]. unfold MarketInv, InvS, burn.
    cbn [proposals states set_funds tot_ccoll tot_pcoll tot_fee escrow balance next_id].
    change (L (set_funds st _ _)) with (L st). change (E (set_funds st _ _)) with (E st).
    eapply invc_burn. exact I.
Qed.

Lemma cron_inv_step now st caller epoch :
  MarketInv now st -> now <= epoch -> 0 <= epoch -> MarketInv epoch (fst (cron_tick st caller epoch)).
Proof.
  intros I Hn He. pose proof (invc_now_mono _ _ _ _ _ _ _ _ _ _ _ _ _ I Hn) as I'.
  unfold cron_tick. destruct (negb (caller =? CRON_ACTOR_ID)); [exact I'|].
  destruct (cron_loop epoch st (mkCracc 0 [] []) (flat_map snd (due st epoch))) as [st1 a|] eqn:Hl; [|exact I'].
  assert (I1 : cron_inv epoch st1 a) by (eapply cron_loop_inv; [exact He| |exact Hl]; exact I').
  unfold cron_inv in I1.
  set (st3 := set_deal_ops _ _ _).
  assert (I3 : InvS epoch (cr_slashed a) (states st3) st3) by exact I1.
  pose proof (i_owed _ _ _ _ _ _ _ _ _ _ _ _ I3) as Ho.
  pose proof (i_solv _ _ _ _ _ _ _ _ _ _ _ _ I3) as Hs.
  pose proof (inv_bsum_nonneg _ _ _ _ I3) as Hb.
  destruct (cr_slashed a =? 0) eqn:E0; zb.
  - cbn [fst]. unfold MarketInv. now rewrite E0 in I3.
  - destruct ((cr_slashed a <? 0) || (balance st3 <? cr_slashed a)) eqn:E1.
    { apply orb_true_iff in E1 as [E1|E1]; zb; lia. }
    cbn [fst]. unfold MarketInv, InvS, burn.
    cbn [proposals states set_funds tot_ccoll tot_pcoll tot_fee escrow balance next_id].
    change (L (set_funds st3 _ _)) with (L st3). change (E (set_funds st3 _ _)) with (E st3).
    eapply invc_burn. exact I3.
Qed.

(* -- on_miner_sectors_terminate -- *)
Lemma dgpr_state st p sl st' r : deal_get_payment_remaining st p sl = Ok st' r -> st' = st.
Proof.
  unfold deal_get_payment_remaining. destruct (p_end p <? sl); [discriminate|].
  destruct (_ <? 0); [discriminate|]. now intros [= <- _].
Qed.

Lemma psd_frame st p ds st' r : process_slashed_deal st p ds = Ok st' r -> frame st st'.
Proof.
  unfold process_slashed_deal.
  set (total := p_price p * _).
  destruct (if 0 <? total then transfer_balance st (p_client p) (p_provider p) total else Ok st tt)
    as [st1 u1|] eqn:H1; [|discriminate]. cbn [bind].
  assert (F1 : frame st st1).
  { destruct (0 <? total); [now apply transfer_frame in H1|injection H1 as <- _; apply frame_refl]. }
  destruct (deal_get_payment_remaining st1 p (ds_slash ds)) as [st2 rem|] eqn:H2; [|discriminate]. cbn [bind].
  apply dgpr_state in H2 as ->.
  destruct (unlock_balance st1 (p_client p) rem RFee) as [st3 u3|] eqn:H3; [|discriminate]. cbn [bind].
  destruct (unlock_balance st3 (p_client p) (p_ccoll p) RCcoll) as [st4 u4|] eqn:H4; [|discriminate]. cbn [bind].
  destruct (slash_balance st4 (p_provider p) (p_pcoll p) RPcoll) as [st5 u5|] eqn:H5; [|discriminate]. cbn [bind].
  intros [= <- _].
  apply unlock_frame in H3 as [F3 _]. apply unlock_frame in H4 as [F4 _]. apply slash_frame in H5 as [F5 _].
  eauto using frame_trans.
Qed.

Definition term_inv (epoch : Z) (snap st : state) (total : Z) : Prop :=
  InvS epoch total (states st) st /\
  forall id, proposals st !! id = None \/
             (proposals st !! id = proposals snap !! id /\ states st !! id = states snap !! id).

Lemma term_one_inv epoch snap caller st total id st' s :
  0 <= epoch -> term_inv epoch snap st total ->
  term_one snap caller epoch st id = Ok st' s -> term_inv epoch snap st' (total + s).
Proof.
  intros He [I Hc]. unfold term_one.
  destruct (proposals snap !! id) as [p|] eqn:Hps.
  2:{ intros [= <- <-]. rewrite Z.add_0_r. now split. }
  destruct (negb (p_provider p =? caller)); [discriminate|].
  destruct (p_end p <=? epoch) eqn:Ed.
  { intros [= <- <-]. rewrite Z.add_0_r. now split. }
  zb.
  destruct (states snap !! id) as [ds|] eqn:Hss; [|discriminate].
  set (st1 := if ds_lu ds =? UNDEF then remove_pending st p else st).
  assert (Hst1 : states st1 = states st /\ proposals st1 = proposals st)
    by (unfold st1; destruct (ds_lu ds =? UNDEF); split; reflexivity).
  destruct Hst1 as [Hs1 Hp1].
  assert (I1 : InvS epoch total (states st) st1).
  { unfold st1. destruct (ds_lu ds =? UNDEF); exact I. }
  destruct (Hc id) as [Hnone|[HP HSt]].
  - (* already removed during this call: the second removal fails and the message aborts *)
    pose proof (inv_S_None I id Hnone) as Hsn.
    destruct (process_slashed_deal st1 p _) as [st2 r|] eqn:H2; [|discriminate]. cbn [bind].
    apply psd_frame in H2 as [].
    destruct (rcd_err st2 id) as [c Hc']; [congruence|]. rewrite Hc'. discriminate.
  - rewrite Hps in HP. rewrite Hss in HSt.
    destruct (slashed_spec epoch total (states st) st1 id p ds epoch I1) as (st2 & R & F & Pn);
      [congruence|exact HSt|lia|lia|].
    rewrite R. cbn [bind].
    pose proof F as [_ _ _ _ _ _ Ffr]. destruct Ffr.
    rewrite (rcd_ok st2 id ds p) by congruence. cbn [bind].
    intros [= <- <-].
    destruct (deal_facts _ _ _ _ _ _ I HP) as ((W1 & W2 & W3 & W4 & W5) & Hpu & Hfl & _).
    rewrite HSt in Hpu, Hfl.
    split.
    + cbn [states set_proposals set_states]. rewrite f_states, f_prop, Hs1, Hp1.
      rewrite <- Hp1.
      eapply inv_eff_remove with (x := p_price p * Z.max 0 (epoch - paid_until (Some ds) p));
        [exact I1|rewrite Hp1; exact HP| | |].
      * rewrite HSt. exact F.
      * rewrite HSt. unfold fee_left in *.
        assert (Z.max 0 (epoch - paid_until (Some ds) p) <= p_end p - paid_until (Some ds) p) by lia.
        split; [apply Z.mul_nonneg_nonneg; lia|].
        assert (p_price p * Z.max 0 (epoch - paid_until (Some ds) p) <=
                p_price p * (p_end p - paid_until (Some ds) p)) by (apply Z.mul_le_mono_nonneg_l; lia).
        lia.
      * assert (0 <= p_price p * Z.max 0 (epoch - paid_until (Some ds) p)) by (apply Z.mul_nonneg_nonneg; lia).
        lia.
    + intros k. cbn [proposals states set_proposals set_states].
      destruct (Z.eq_dec k id) as [->|Hne].
      * left. apply lookup_delete.
      * rewrite !lookup_delete_ne by congruence. rewrite f_prop, f_states, Hs1, Hp1. apply Hc.
Qed.

Lemma term_loop_inv epoch snap caller ids : forall st total st' total',
  0 <= epoch -> term_inv epoch snap st total ->
  term_loop snap caller epoch st total ids = Ok st' total' -> term_inv epoch snap st' total'.
Proof.
  induction ids as [|id ids IH]; intros st total st' total' He I; cbn [term_loop].
  - now intros [= <- <-].
  - destruct (term_one snap caller epoch st id) as [st1 s|] eqn:H1; [|discriminate]. cbn [bind].
    apply IH; [exact He|]. eapply term_one_inv; eauto.
Qed.

Lemma terminate_inv_step now st caller m epoch sectors :
  MarketInv now st -> now <= epoch -> 0 <= epoch ->
  MarketInv epoch (fst (terminate st caller m epoch sectors)).
Proof.
  intros I Hn He. pose proof (invc_now_mono _ _ _ _ _ _ _ _ _ _ _ _ _ I Hn) as I'.
  unfold terminate. destruct (negb m); [exact I'|].
  destruct (pop_sector_deals (psectors st) caller sectors) as [ps' ids].
  destruct (term_loop st caller epoch (set_psectors st ps') 0 ids) as [st1 total|] eqn:Hl; [|exact I'].
  assert (I1 : term_inv epoch st st1 total).
  { eapply term_loop_inv; [exact He| |exact Hl]. split; [exact I'|]. intros id. right. split; reflexivity. }
  destruct I1 as [I1 _].
  pose proof (i_owed _ _ _ _ _ _ _ _ _ _ _ _ I1) as Ho.
  pose proof (i_solv _ _ _ _ _ _ _ _ _ _ _ _ I1) as Hs.
  pose proof (inv_bsum_nonneg _ _ _ _ I1) as Hb.
  destruct (0 <? total) eqn:E0; zb.
  - destruct (balance st1 <? total) eqn:E1; zb; [lia|].
    cbn [fst]. unfold MarketInv, InvS, burn.
    cbn [proposals states set_funds tot_ccoll tot_pcoll tot_fee escrow balance next_id].
    change (L (set_funds st1 _ _)) with (L st1). change (E (set_funds st1 _ _)) with (E st1).
    eapply invc_burn. exact I1.
  - cbn [fst]. assert (total = 0) as Hz by lia. unfold MarketInv. now rewrite Hz in I1.
Qed.

(* -- publish_storage_deals -- *)
Definition okp (epoch : Z) (p : proposal) : Prop :=
  p_start p < p_end p /\ 0 <= p_price p /\ 0 <= p_ccoll p /\ epoch <= p_start p.

Lemma deal_valid_okp epoch d : deal_valid epoch d = true -> okp epoch (d_prop d).
Proof. unfold deal_valid, okp. intros H. zb. lia. Qed.

Lemma pub_filter_one_ok st prov epoch acc di d :
  Forall (okp epoch) (pa_valid acc) -> Forall (okp epoch) (pa_valid (pub_filter_one st prov epoch acc di d)).
Proof.
  intros H. unfold pub_filter_one.
  destruct (negb (deal_valid epoch d)) eqn:Ev; [exact H|]. zb.
  repeat match goal with |- context [if ?b then acc else _] => destruct b; [exact H|] end.
  cbn [pa_valid]. apply Forall_app. split; [exact H|]. constructor; [|constructor].
  now apply deal_valid_okp.
Qed.

Lemma pub_filter_ok st prov epoch ds : forall acc di,
  Forall (okp epoch) (pa_valid acc) -> Forall (okp epoch) (pa_valid (pub_filter st prov epoch acc di ds)).
Proof.
  induction ds as [|d ds IH]; intros acc di H; cbn [pub_filter]; [exact H|].
  apply IH. now apply pub_filter_one_ok.
Qed.

Lemma pub_commit_one_inv epoch st p st' id :
  0 <= epoch -> okp epoch p -> MarketInv epoch st -> pub_commit_one st p = Ok st' id ->
  MarketInv epoch st' /\ id = next_id st /\ next_id st' = next_id st + 1.
Proof.
  intros He (O1 & O2 & O3 & O4) I. unfold pub_commit_one.
  destruct (lock_balances st p) as [st1 u|] eqn:Hl; [|discriminate]. cbn [bind].
  apply lock_balances_inv in Hl as (A1 & A2 & A3 & A4 & A5 & A6 & A7 & A8 & A9 & A10 & A11).
  destruct A7. intros [= <- <-].
  split; [|split; [exact f_next|cbn; lia]].
  unfold MarketInv, InvS.
  cbn [proposals states set_deal_ops set_proposals set_pending set_next_id tot_ccoll tot_pcoll tot_fee escrow balance next_id].
  change (L (set_deal_ops _ _ _)) with (L st1). change (E (set_deal_ops _ _ _)) with (E st1).
  rewrite f_prop, f_states, f_next, f_bal, A6, A9, A10, A11.
  eapply invc_ext with (Lf := L st1) (Ef := E st); [|reflexivity|intros a; unfold E; now rewrite A6].
  eapply invc_insert; [exact I| |exact A5|].
  - unfold wf_prop. lia.
  - intros a. rewrite A5. pose proof (i_esc _ _ _ _ _ _ _ _ _ _ _ _ I a) as HLE. ind_cases.
Qed.

Lemma pub_commit_inv epoch ps : forall st ids st' ids',
  0 <= epoch -> Forall (okp epoch) ps -> MarketInv epoch st ->
  pub_commit st ps ids = Ok st' ids' -> MarketInv epoch st'.
Proof.
  induction ps as [|p ps IH]; intros st ids st' ids' He Hok I; cbn [pub_commit].
  - now intros [= <- _].
  - inversion Hok as [|? ? Hp0 Hps]; subst.
    destruct (pub_commit_one st p) as [st1 id|] eqn:Hc1; [|discriminate]. cbn [bind].
    destruct (pub_commit_one_inv _ _ _ _ _ He Hp0 I Hc1) as [I1 _].
    eapply IH; eauto.
Qed.

Lemma publish_inv_step now st caller epoch t deals :
  MarketInv now st -> now <= epoch -> 0 <= epoch -> MarketInv epoch (fst (publish st caller epoch t deals)).
Proof.
  intros I Hn He. pose proof (invc_now_mono _ _ _ _ _ _ _ _ _ _ _ _ _ I Hn) as I'.
  unfold publish. destruct deals as [|d0 rest]; [exact I'|].
  destruct t as [| |o w cs]; [exact I'|exact I'|].
  destruct (negb (zmem caller (cs ++ [w; o]))); [exact I'|].
  set (acc := pub_filter st _ epoch _ 0 _).
  assert (Hok : Forall (okp epoch) (pa_valid acc)) by (apply pub_filter_ok; constructor).
  destruct (pa_valid acc) as [|p0 ps] eqn:Hv; [exact I'|]. rewrite <- Hv.
  destruct (pub_commit st (pa_valid acc) []) as [st1 ids|] eqn:Hc; [|exact I'].
  cbn [fst]. eapply pub_commit_inv; [exact He| |exact I'|exact Hc]. now rewrite Hv.
Qed.

(* -- activation (both entry points) -- *)
Definition fresh_ok (st : state) (epoch : Z) (x : Z * dstate) : Prop :=
  (exists p, proposals st !! fst x = Some p) /\ states st !! fst x = None /\
  ds_lu (snd x) = UNDEF /\ ds_slash (snd x) = UNDEF /\ ds_start (snd x) = epoch.

Lemma preactivate_inl st id caller expiry epoch p :
  preactivate st id caller expiry epoch = inl p ->
  proposals st !! id = Some p /\ states st !! id = None /\ pend_has (pending st) p = true /\
  p_provider p = caller /\ epoch <= p_start p /\ p_end p <= expiry.
Proof.
  unfold preactivate, get_proposal.
  destruct (proposals st !! id) as [q|]; [|discriminate].
  unfold can_activate.
  destruct (negb (p_provider q =? caller)) eqn:E1; [discriminate|].
  destruct (p_start q <? epoch) eqn:E2; [discriminate|].
  destruct (expiry <? p_end q) eqn:E3; [discriminate|].
  destruct (states st !! id); [discriminate|].
  destruct (pend_has (pending st) q) eqn:E4; [|discriminate].
  intros [= <-]. zb. repeat split; auto; lia.
Qed.

Lemma preact_all_inl st activated caller expiry epoch ids : forall ps,
  preact_all st activated caller expiry epoch ids = inl ps ->
  Forall (fun id => exists p, preactivate st id caller expiry epoch = inl p) ids.
Proof.
  induction ids as [|id ids IH]; intros ps; cbn [preact_all]; [constructor|].
  destruct (zmem id activated); [discriminate|].
  destruct (preactivate st id caller expiry epoch) as [p|] eqn:H1; [|discriminate].
  destruct (preact_all st activated caller expiry epoch ids) as [qs|] eqn:H2; [|discriminate].
  intros _. constructor; eauto.
Qed.

Lemma act_sector_fresh st caller epoch acc si s :
  Forall (fresh_ok st epoch) (aa_states acc) ->
  Forall (fresh_ok st epoch) (aa_states (act_sector st caller epoch acc si s)).
Proof.
  intros H. unfold act_sector. destruct s as [[sector expiry] ids].
  destruct (has_dup ids); [exact H|].
  destruct (preact_all st (aa_activated acc) caller expiry epoch ids) as [ps|] eqn:Hp; [|exact H].
  cbn [aa_states]. apply Forall_app. split; [exact H|].
  apply preact_all_inl in Hp. rewrite Forall_forall in *. intros x Hx.
  apply in_map_iff in Hx as (id & <- & Hid). destruct (Hp id Hid) as [p Hpre].
  apply preactivate_inl in Hpre as (A1 & A2 & _). unfold fresh_ok. cbn. eauto 6.
Qed.

Lemma act_sectors_fresh st caller epoch l : forall acc si,
  Forall (fresh_ok st epoch) (aa_states acc) ->
  Forall (fresh_ok st epoch) (aa_states (act_sectors st caller epoch acc si l)).
Proof.
  induction l as [|s l IH]; intros acc si H; cbn [act_sectors]; [exact H|].
  apply IH. now apply act_sector_fresh.
Qed.

Lemma inv_put_fresh epoch owed st l : forall S,
  0 <= epoch ->
  InvS epoch owed S st ->
  Forall (fun x => (exists p, proposals st !! fst x = Some p) /\
                   (S !! fst x = None \/ exists d0, S !! fst x = Some d0 /\ ds_lu d0 = UNDEF) /\
                   ds_lu (snd x) = UNDEF /\ ds_slash (snd x) = UNDEF /\ ds_start (snd x) = epoch) l ->
  InvS epoch owed (put_deal_states S l) st.
Proof.
  induction l as [|[id ds] l IH]; intros S He I H; cbn [put_deal_states]; [exact I|].
  inversion H as [|x l' Hx Hl]; subst. cbn [fst snd] in Hx.
  destruct Hx as ((p & Hp) & HS & D1 & D2 & D3).
  assert (Hpu : paid_until (Some ds) p = paid_until (S !! id) p).
  { unfold paid_until. rewrite D1. cbn. destruct HS as [->|(d0 & -> & Hd0)]; [reflexivity|].
    rewrite Hd0. reflexivity. }
  apply IH; [exact He| |].
  - eapply inv_eff_update with (st := st); [exact I|exact Hp| | |].
    + unfold wf_ds. split; [exact D2|]. split; [unfold UNDEF; lia|]. now left.
    + rewrite Hpu. lia.
    + rewrite Hpu. eapply eff_cast; [apply eff_refl|lia..].
  - rewrite Forall_forall in *. intros x Hin. destruct (Hl x Hin) as (A1 & A2 & A3).
    split; [exact A1|]. split; [|exact A3].
    destruct (Z.eq_dec (fst x) id) as [->|Hne].
    + right. exists ds. rewrite lookup_insert. auto.
    + rewrite lookup_insert_ne by congruence. exact A2.
Qed.

Lemma fresh_ok_put epoch st l :
  0 <= epoch -> MarketInv epoch st -> Forall (fresh_ok st epoch) l ->
  InvS epoch 0 (put_deal_states (states st) l) st.
Proof.
  intros He I H. apply inv_put_fresh; [exact He|exact I|].
  rewrite Forall_forall in *. intros x Hx. destruct (H x Hx) as (A1 & A2 & A3).
  split; [exact A1|]. split; [now left|exact A3].
Qed.

Lemma activate_inv_step now st caller m epoch sectors :
  MarketInv now st -> now <= epoch -> 0 <= epoch ->
  MarketInv epoch (fst (batch_activate st caller m epoch sectors)).
Proof.
  intros I Hn He. pose proof (invc_now_mono _ _ _ _ _ _ _ _ _ _ _ _ _ I Hn) as I'.
  unfold batch_activate. destruct (negb m); [exact I'|]. cbn [fst].
  set (acc := act_sectors st caller epoch _ 0 sectors).
  assert (Hf : Forall (fresh_ok st epoch) (aa_states acc)) by (apply act_sectors_fresh; constructor).
  exact (fresh_ok_put epoch st _ He I' Hf).
Qed.

Lemma scc_piece_fresh st caller sector mce epoch acc pc :
  Forall (fresh_ok st epoch) (ca_states acc) ->
  Forall (fresh_ok st epoch) (ca_states (scc_piece st caller sector mce epoch acc pc)).
Proof.
  intros H. unfold scc_piece. destruct pc as [[oid data] size].
  destruct oid as [id|]; [|exact H].
  destruct (zmem id (ca_activated acc)); [exact H|].
  destruct (preactivate st id caller mce epoch) as [p|] eqn:Hp; [|exact H].
  destruct (negb (data =? p_piece p)); [exact H|].
  destruct (negb (size =? p_size p)); [exact H|].
  cbn [ca_states]. apply Forall_app. split; [exact H|]. constructor; [|constructor].
  apply preactivate_inl in Hp as (A1 & A2 & _). unfold fresh_ok. cbn. eauto 6.
Qed.

Lemma scc_pieces_fresh st caller sector mce epoch pieces : forall acc,
  Forall (fresh_ok st epoch) (ca_states acc) ->
  Forall (fresh_ok st epoch) (ca_states (fold_left (scc_piece st caller sector mce epoch) pieces acc)).
Proof.
  induction pieces as [|pc l IH]; intros acc H; cbn [fold_left]; [exact H|].
  apply IH. now apply scc_piece_fresh.
Qed.

Lemma scc_sectors_fresh st caller epoch l : forall x,
  Forall (fresh_ok st epoch) (ca_states (fst (fst x))) ->
  Forall (fresh_ok st epoch) (ca_states (fst (fst (fold_left (scc_sector st caller epoch) l x)))).
Proof.
  induction l as [|s l IH]; intros x H; cbn [fold_left]; [exact H|].
  apply IH. unfold scc_sector. destruct x as [[acc secs] out]. destruct s as [[sector mce] pieces].
  cbn [fst]. apply scc_pieces_fresh. exact H.
Qed.

Lemma scc_inv_step now st caller m epoch sectors :
  MarketInv now st -> now <= epoch -> 0 <= epoch ->
  MarketInv epoch (fst (sector_content_changed st caller m epoch sectors)).
Proof.
  intros I Hn He. pose proof (invc_now_mono _ _ _ _ _ _ _ _ _ _ _ _ _ I Hn) as I'.
  unfold sector_content_changed. destruct (negb m); [exact I'|].
  pose proof (scc_sectors_fresh st caller epoch sectors (mkCacc [] [] [] [], [], [])) as Hf.
  destruct (fold_left (scc_sector st caller epoch) sectors (mkCacc [] [] [] [], [], [])) as [[acc secs] out].
  cbn [fst] in *.
  exact (fresh_ok_put epoch st _ He I' (Hf ltac:(constructor))).
Qed.

(* ------------------------------------------------------------------------------------------ *)
(* every operation, accepted or rejected, preserves the invariant *)
Definition wf_op (o : op) : Prop :=
  0 <= op_epoch o /\
  match o with
  | Terminate _ _ e pe _ => pe = e
  | Settle _ ids => NoDup ids
  | _ => True
  end.

Theorem step_inv now st o :
  MarketInv now st -> now <= op_epoch o -> wf_op o -> MarketInv (op_epoch o) (fst (step st o)).
Proof.
  intros I Hn [He Hw]. pose proof (invc_now_mono _ _ _ _ _ _ _ _ _ _ _ _ _ I Hn) as I'.
  destruct o; cbn [step op_epoch] in *.
  - now apply add_balance_inv.
  - now apply withdraw_inv.
  - now apply publish_inv_step with (now := now).
  - now apply activate_inv_step with (now := now).
  - now apply scc_inv_step with (now := now).
  - subst. now apply terminate_inv_step with (now := now).
  - now apply settle_inv_step with (now := now).
  - now apply cron_inv_step with (now := now).
  - now apply get_balance_inv.
Qed.

(* ------------------------------------------------------------------------------------------ *)
(* histories *)
Fixpoint hist_ok (now : Z) (ops : list op) : Prop :=
  match ops with
  | [] => True
  | o :: r => now <= op_epoch o /\ wf_op o /\ hist_ok (op_epoch o) r
  end.

Definition last_epoch (now : Z) (ops : list op) : Z := fold_left (fun _ o => op_epoch o) ops now.

Theorem market_inv_run ops : forall now st,
  MarketInv now st -> hist_ok now ops -> MarketInv (last_epoch now ops) (run st ops).
Proof.
  induction ops as [|o ops IH]; intros now st I H; cbn [hist_ok last_epoch fold_left run] in *; [exact I|].
  destruct H as (H1 & H2 & H3). apply IH; [|exact H3]. now apply step_inv with (now := now).
Qed.

Theorem market_inv_reachable ivl ops :
  hist_ok 0 ops -> MarketInv (last_epoch 0 ops) (run (init ivl) ops).
Proof. intros H. apply market_inv_run; [apply invc_init|exact H]. Qed.

(* the clauses of C06, read off the invariant *)
Definition obligations (st : state) (a : Z) : Z := osum (contribf a) (proposals st) (states st).

Theorem locked_equals_obligations now st a : MarketInv now st -> L st a = obligations st a.
Proof. intros I. exact (i_locked _ _ _ _ _ _ _ _ _ _ _ _ I a). Qed.

Theorem locked_le_escrow now st a : MarketInv now st -> 0 <= L st a <= E st a.
Proof. intros I. split; [exact (inv_L_nonneg I a)|exact (i_esc _ _ _ _ _ _ _ _ _ _ _ _ I a)]. Qed.

Theorem totals_exact now st : MarketInv now st ->
  tot_ccoll st = osum fcc (proposals st) (states st) /\
  tot_pcoll st = osum fpc (proposals st) (states st) /\
  tot_fee st = osum fee_left (proposals st) (states st).
Proof. intros []. auto. Qed.

Theorem market_solvent now st : MarketInv now st -> bsum (escrow st) <= balance st.
Proof. intros I. pose proof (i_solv _ _ _ _ _ _ _ _ _ _ _ _ I). lia. Qed.

Theorem states_subset_proposals now st id ds : MarketInv now st -> states st !! id = Some ds ->
  exists p, proposals st !! id = Some p /\ wf_ds now p ds.
Proof. intros I H. exact (i_wfS _ _ _ _ _ _ _ _ _ _ _ _ I id ds H). Qed.

Theorem withdraw_exact now st caller who t amt pf st' paid recipient :
  MarketInv now st ->
  withdraw_balance st caller who t amt pf = (st', [OK; paid; recipient]) ->
  pf = None /\
  paid = Z.min amt (E st who - L st who) /\ 0 <= paid /\
  E st' who = E st who - paid /\ (forall a, a <> who -> E st' a = E st a) /\
  (forall a, L st' a = L st a) /\ balance st' = balance st - paid /\
  proposals st' = proposals st /\ states st' = states st /\ pending st' = pending st.
Proof.
  intros I. unfold withdraw_balance.
  destruct (amt <? 0) eqn:Ea; [discriminate|]. zb.
  destruct (escrow_address who t) as [[rc approved]|]; [|discriminate].
  destruct (negb (zmem caller approved)); [discriminate|].
  unfold bt_sub_with_min.
  pose proof (i_esc _ _ _ _ _ _ _ _ _ _ _ _ I who) as HLE.
  pose proof (inv_L_nonneg I who) as HLn. unfold L, E in *.
  set (sub := Z.min (Z.max 0 (bt_get (escrow st) who - bt_get (locked st) who)) amt).
  assert (Hsub : sub = Z.min amt (bt_get (escrow st) who - bt_get (locked st) who) /\ 0 <= sub) by (unfold sub; lia).
  destruct (0 <? sub) eqn:Es; zb.
  - rewrite bt_add_ok by lia. destruct pf as [cf|]; [discriminate|].
    destruct (balance st <? sub); [discriminate|]. intros [= <- <- <-]. cbn. split; [reflexivity|].
    split; [tauto|]. split; [lia|].
    split; [rewrite bt_get_upd, ind_same; lia|].
    split; [intros a Ha; rewrite bt_get_upd, ind_diff by exact Ha; lia|].
    repeat split; reflexivity.
  - destruct pf as [cf|]; [discriminate|].
    destruct (balance st <? sub); [discriminate|]. intros [= <- <- <-]. cbn. split; [reflexivity|].
    assert (sub = 0) by lia.
    split; [tauto|]. split; [lia|]. split; [lia|]. split; [reflexivity|].
    repeat split; try reflexivity; lia.
Qed.

Theorem withdraw_auth st caller who t amt pf st' paid recipient :
  withdraw_balance st caller who t amt pf = (st', [OK; paid; recipient]) ->
  match t with
  | TNone => False
  | TAccount => caller = who /\ recipient = who
  | TMiner o w _ => (caller = o \/ caller = w) /\ recipient = o
  end.
Proof.
  unfold withdraw_balance.
  destruct (amt <? 0); [discriminate|].
  destruct t as [| |o w cs]; cbn [escrow_address]; [discriminate| |].
  - destruct (negb (zmem caller [who])) eqn:Ec; [discriminate|].
    destruct (bt_sub_with_min _ _ _ _) as [[e' ex]|]; [|discriminate]. destruct pf; [discriminate|].
    destruct (balance st <? ex); [discriminate|]. intros [= _ _ <-].
    cbn in Ec. rewrite orb_false_r in Ec. zb. auto.
  - destruct (negb (zmem caller [o; w])) eqn:Ec; [discriminate|].
    destruct (bt_sub_with_min _ _ _ _) as [[e' ex]|]; [|discriminate]. destruct pf; [discriminate|].
    destruct (balance st <? ex); [discriminate|]. intros [= _ _ <-].
    cbn in Ec. rewrite orb_false_r in Ec. zb. apply orb_true_iff in Ec as [Ec|Ec]; zb; auto.
Qed.

(* a rejected message changes nothing (the VM rolls the state back) *)
Ltac brk :=
  repeat match goal with
  | |- context [match ?x with _ => _ end] =>
      match type of x with
      | bool => destruct x
      | option _ => destruct x
      | list _ => destruct x
      | target => destruct x
      | res _ => destruct x
      | (_ * _)%type => destruct x
      end
  | |- context [if ?b then _ else _] => destruct b
  end.

Theorem step_rejected_unchanged st o st' c r : step st o = (st', c :: r) -> c <> OK -> st' = st.
Proof.
  destruct o; cbn [step].
  - unfold add_balance. brk; intros [= <- <- <-]; congruence.
  - unfold withdraw_balance. brk; intros [= <- <- <-]; congruence.
  - unfold publish. brk; try (intros [= <- <- <-]; congruence).
  - unfold batch_activate. brk; intros [= <- <- <-]; congruence.
  - unfold sector_content_changed. brk; intros [= <- <- <-]; congruence.
  - unfold terminate. brk; intros [= <- <- <-]; congruence.
  - unfold settle. brk; intros [= <- <- <-]; congruence.
  - unfold cron_tick. brk; intros [= <- <- <-]; congruence.
  - unfold get_balance. brk; intros [= <- <- <-]; congruence.
Qed.
