From stdpp Require Import gmap.
From Coq Require Import ZArith List Bool Lia.
From VF Require Import Base.Corr Model.Ledger.
Import ListNotations.
Open Scope Z_scope.

Lemma total_empty : total ∅ = 0.
Proof. unfold total. apply map_fold_empty. Qed.

Lemma total_insert_fresh (b : ledger) k v : b !! k = None -> total (<[k := v]> b) = v + total b.
Proof.
  intros H. unfold total.
  rewrite (map_fold_insert_L (fun _ v acc => v + acc) 0 k v b); [reflexivity| |assumption].
  intros; lia.
Qed.

Lemma total_insert (b : ledger) k v : total (<[k := v]> b) = total b - bal b k + v.
Proof.
  unfold bal. destruct (b !! k) as [x|] eqn:E; cbn.
  - rewrite <- (insert_delete b k x E) at 2.
    rewrite <- (insert_delete_insert b k v).
    rewrite !total_insert_fresh by apply lookup_delete. lia.
  - rewrite total_insert_fresh by assumption. lia.
Qed.

Lemma bal_insert_eq (b : ledger) k v : bal (<[k := v]> b) k = v.
Proof. unfold bal. rewrite lookup_insert. reflexivity. Qed.
Lemma bal_insert_ne (b : ledger) k k' v : k <> k' -> bal (<[k := v]> b) k' = bal b k'.
Proof. intros. unfold bal. rewrite lookup_insert_ne by assumption. reflexivity. Qed.

Lemma total_transfer b f t v : total (transfer b f t v) = total b.
Proof.
  unfold transfer. rewrite !total_insert.
  destruct (Z.eq_dec f t) as [->|Hne].
  - rewrite !bal_insert_eq. lia.
  - rewrite (bal_insert_ne _ f t) by assumption. lia.
Qed.

Definition nonneg (b : ledger) : Prop := forall a, 0 <= bal b a.

Lemma nonneg_transfer b f t v : nonneg b -> 0 <= v <= bal b f -> nonneg (transfer b f t v).
Proof.
  intros Hb Hv a. unfold transfer.
  destruct (Z.eq_dec t a) as [->|Ht].
  - rewrite bal_insert_eq. destruct (Z.eq_dec f a) as [->|Hf].
    + rewrite bal_insert_eq. lia.
    + rewrite bal_insert_ne by assumption. specialize (Hb a). lia.
  - rewrite bal_insert_ne by assumption. destruct (Z.eq_dec f a) as [->|Hf].
    + rewrite bal_insert_eq. lia.
    + rewrite bal_insert_ne by assumption. apply Hb.
Qed.

(* induction principle for the nested inductive *)
Section inv_ind.
  Variable P : inv -> Prop.
  Hypothesis H : forall f t v ok ch, Forall P ch -> P (Inv f t v ok ch).
  Fixpoint inv_ind' (i : inv) : P i :=
    match i with
    | Inv f t v ok ch =>
        H f t v ok ch ((fix go (l : list inv) : Forall P l :=
                          match l with [] => @List.Forall_nil inv P | x :: r => @List.Forall_cons inv P x r (inv_ind' x) (go r) end) ch)
    end.
End inv_ind.

Lemma apply_unfold b f t v ok ch :
  apply b (Inv f t v ok ch) =
  if negb ok then Some b else
  if (v <? 0) || (bal b f <? v) then None else apply_list (transfer b f t v) ch.
Proof. reflexivity. Qed.

Definition good (i : inv) : Prop :=
  forall b b', apply b i = Some b' -> total b' = total b /\ (nonneg b -> nonneg b').

Lemma apply_list_good ch : Forall good ch ->
  forall b b', apply_list b ch = Some b' -> total b' = total b /\ (nonneg b -> nonneg b').
Proof.
  induction 1 as [|x r Hx Hr IH]; intros b b' Ha; cbn in Ha.
  - inversion Ha; subst; auto.
  - destruct (apply b x) as [b1|] eqn:E; [|discriminate].
    destruct (Hx _ _ E) as [Ht Hn]. destruct (IH _ _ Ha) as [Ht2 Hn2].
    split; [lia|auto].
Qed.

Lemma apply_good i : good i.
Proof.
  induction i as [f t v ok ch IH] using inv_ind'. intros b b' Ha.
  rewrite apply_unfold in Ha. destruct ok; cbn [negb] in Ha; [|inversion Ha; subst; auto].
  destruct ((v <? 0) || (bal b f <? v)) eqn:Eg; [discriminate|].
  apply orb_false_iff in Eg as [E1 E2]. apply Z.ltb_ge in E1, E2.
  destruct (apply_list_good ch IH _ _ Ha) as [Ht Hn].
  rewrite total_transfer in Ht. split; [assumption|].
  intros Hb. apply Hn. apply nonneg_transfer; [assumption|lia].
Qed.

Theorem ledger_total_invariant b i b' :
  apply b i = Some b' -> total b' = total b /\ (nonneg b -> nonneg b').
Proof. apply apply_good. Qed.

Theorem ledger_history_total_invariant msgs : forall b b',
  apply_list b msgs = Some b' -> total b' = total b /\ (nonneg b -> nonneg b').
Proof. apply apply_list_good. apply Forall_forall. intros; apply apply_good. Qed.

Theorem ledger_rollback_exact b f t v ch : apply b (Inv f t v false ch) = Some b.
Proof. reflexivity. Qed.

(* burning only moves FIL to the burnt-funds actor: whatever the other actors lose in total is what
   actor 99 gains *)
Theorem burn_only_moves b i b' :
  apply b i = Some b' ->
  (total b' - bal b' 99) = (total b - bal b 99) - (bal b' 99 - bal b 99).
Proof. intros H. apply ledger_total_invariant in H as [H _]. lia. Qed.

(* reward actor *)
Theorem reward_never_overpays balance ter pen gas wc mr mo :
  0 <= balance -> 0 <= ter ->
  let o := award balance ter pen gas wc mr mo in
  0 <= a_to_miner o + a_burnt o <= balance /\ a_to_miner o + a_burnt o = a_total_reward o /\
  (a_code o <> 0 -> a_total_reward o = 0).
Proof.
  intros Hb Hter. unfold award.
  assert (0 < wc -> 0 <= ter * wc / EXPECTED_LEADERS) as Hdiv.
  { intros. apply Z.div_pos; [apply Z.mul_nonneg_nonneg; lia | reflexivity]. }
  repeat match goal with |- context [if ?c then _ else _] => destruct c eqn:? end; cbn;
  repeat match goal with
         | H : (_ <? _) = true |- _ => apply Z.ltb_lt in H
         | H : (_ <? _) = false |- _ => apply Z.ltb_ge in H
         | H : (_ <=? _) = false |- _ => apply Z.leb_gt in H
         end; repeat split; try lia.
  all: try (specialize (Hdiv ltac:(assumption)); lia).
Qed.
