(* Proofs for the word level of C17: every algorithm of Model/EvmWord.v (transcribed from the Rust
   sources) computes, for ALL operands in [0, 2^256), the value the specification Model/EvmSpec.v
   assigns to the instruction; every specification function stays in [0, 2^256); the
   square-and-multiply specification form of EXP equals a^e mod 2^256.
   W is never unfolded except through W_val / W_half (lia treats it as an atom). *)
From Coq Require Import ZArith List Bool Lia Zpow_facts.
From VF Require Import Model.EvmSpec Model.EvmWord.
Import ListNotations.
Open Scope Z_scope.

Lemma W_val : W = 2 ^ 256. Proof. reflexivity. Qed.
Lemma W_half : W = 2 * HALF. Proof. reflexivity. Qed.
Lemma HALF_val : HALF = 2 ^ 255. Proof. reflexivity. Qed.
Lemma HALF_pos : 0 < HALF. Proof. reflexivity. Qed.
Lemma W_pos : 0 < W. Proof. reflexivity. Qed.

(* ---------- arithmetic forms of the modelled primitives ---------- *)
Lemma wrap256_eq : forall x, wrap256 x = x mod W.
Proof. intros. unfold wrap256. rewrite Z.land_ones by discriminate. reflexivity. Qed.
Lemma wrap512_eq : forall x, wrap512 x = x mod W512.
Proof. intros. unfold wrap512. rewrite Z.land_ones by discriminate. reflexivity. Qed.
Lemma limb_eq : forall x i, 0 <= i -> limb x i = (x / 2 ^ (64 * i)) mod 2 ^ 64.
Proof. intros. unfold limb. rewrite Z.land_ones by discriminate. rewrite Z.shiftr_div_pow2 by lia. reflexivity. Qed.
Lemma u_add_eq : forall a b, u_add a b = (a + b) mod W.
Proof. intros. apply wrap256_eq. Qed.
Lemma u_sub_eq : forall a b, u_sub a b = (a - b) mod W.
Proof. intros. apply wrap256_eq. Qed.
Lemma u_mul_eq : forall a b, u_mul a b = (a * b) mod W.
Proof. intros. apply wrap256_eq. Qed.
Lemma u_shl_eq : forall v s, 0 <= s -> u_shl v s = (v * 2 ^ s) mod W.
Proof. intros. unfold u_shl. rewrite wrap256_eq, Z.shiftl_mul_pow2 by assumption. reflexivity. Qed.
Lemma u_shr_eq : forall v s, 0 <= s -> u_shr v s = v / 2 ^ s.
Proof. intros. unfold u_shr. apply Z.shiftr_div_pow2. assumption. Qed.
Lemma u_byte_eq : forall v i, 0 <= i -> u_byte v i = (v / 2 ^ (8 * i)) mod 256.
Proof.
  intros. unfold u_byte. change 255 with (Z.ones 8). rewrite Z.land_ones by discriminate.
  rewrite Z.shiftr_div_pow2 by lia. reflexivity.
Qed.
Lemma u512_add_eq : forall a b, u512_add a b = (a + b) mod W512.
Proof. intros. apply wrap512_eq. Qed.
Lemma u512_mul_eq : forall a b, u512_mul a b = (a * b) mod W512.
Proof. intros. apply wrap512_eq. Qed.

(* ---------- limbs ---------- *)
Ltac limbs :=
  rewrite ?limb_eq by discriminate;
  change (64 * 0) with 0; change (64 * 1) with 64; change (64 * 2) with 128; change (64 * 3) with 192;
  change (2 ^ 0) with 1; rewrite ?Z.div_1_r.

Lemma low_u256_mod : forall v, 0 <= v -> low_u256 v = v mod W.
Proof.
  intros v Hv. unfold low_u256. limbs. rewrite W_val.
  Z.div_mod_to_equations; lia.
Qed.

Lemma to_u512_id : forall v, in_range v -> to_u512 v = v.
Proof.
  intros v Hv. change (to_u512 v) with (low_u256 v). rewrite low_u256_mod by (unfold in_range in Hv; lia).
  apply Z.mod_small; exact Hv.
Qed.

Lemma is_negative_spec : forall x, in_range x -> i256_is_negative x = (HALF <=? x).
Proof.
  intros x Hx. unfold i256_is_negative, in_range in *. limbs. rewrite W_val in Hx. rewrite HALF_val.
  destruct (Z.leb_spec (2^255) x); [apply Z.leb_le | apply Z.leb_gt]; Z.div_mod_to_equations; lia.
Qed.

Lemma cmp_u64_spec : forall x n, in_range x -> 0 <= n < 2 ^ 64 -> cmp_u64 x n = (x ?= n).
Proof.
  intros x n Hx Hn. unfold cmp_u64, in_range in *. rewrite W_val in Hx.
  destruct (Z.ltb_spec 0 (limb x 3)) as [H3|H3]; cbn [orb].
  { symmetry; apply Z.compare_gt_iff. revert H3. limbs. Z.div_mod_to_equations; lia. }
  destruct (Z.ltb_spec 0 (limb x 2)) as [H2|H2]; cbn [orb].
  { symmetry; apply Z.compare_gt_iff. revert H2. limbs. Z.div_mod_to_equations; lia. }
  destruct (Z.ltb_spec 0 (limb x 1)) as [H1|H1]; cbn [orb].
  { symmetry; apply Z.compare_gt_iff. revert H1. limbs. Z.div_mod_to_equations; lia. }
  f_equal. revert H1 H2 H3. limbs. Z.div_mod_to_equations; lia.
Qed.

Lemma lt_u64_spec : forall x n, in_range x -> 0 <= n < 2 ^ 64 -> lt_u64 x n = (x <? n).
Proof. intros. unfold lt_u64. rewrite cmp_u64_spec by assumption. reflexivity. Qed.

Lemma ge_u64_spec : forall x n, in_range x -> 0 <= n < 2 ^ 64 -> ge_u64 x n = (n <=? x).
Proof.
  intros. unfold ge_u64. rewrite cmp_u64_spec by assumption.
  rewrite Z.leb_antisym. unfold Z.ltb. destruct (x ?= n); reflexivity.
Qed.

Lemma low_u64_small : forall x, 0 <= x < 2 ^ 64 -> u_low_u64 x = x.
Proof. intros x Hx. unfold u_low_u64. limbs. apply Z.mod_small. exact Hx. Qed.

Lemma low_u32_small : forall x, 0 <= x < 2 ^ 32 -> u_low_u32 x = x.
Proof.
  intros x Hx. unfold u_low_u32. rewrite Z.land_ones by discriminate. limbs.
  rewrite (Z.mod_small x (2 ^ 64)) by lia. apply Z.mod_small. exact Hx.
Qed.

Lemma i256_neg_spec : forall x, in_range x -> i256_neg x = (- x) mod W.
Proof.
  intros x Hx. unfold i256_neg. rewrite u_add_eq. unfold u_is_zero, u_not, U256_MAX, in_range in *.
  destruct (Z.eqb_spec x 0) as [->|Hn]; [reflexivity|].
  replace (W - 1 - x + 1) with (- x + 1 * W) by lia. rewrite Z.mod_add by lia. reflexivity.
Qed.

Lemma i256_neg_pos : forall x, 0 < x < W -> i256_neg x = W - x.
Proof.
  intros x Hx. rewrite i256_neg_spec by (unfold in_range; lia).
  replace (- x) with (W - x + (-1) * W) by lia. rewrite Z.mod_add by lia. apply Z.mod_small. lia.
Qed.


Lemma impl_add_correct : forall a b, in_range a -> in_range b -> w_add impl_ops a b = w_add spec_ops a b.
Proof. intros. apply u_add_eq. Qed.
Lemma impl_mul_correct : forall a b, in_range a -> in_range b -> w_mul impl_ops a b = w_mul spec_ops a b.
Proof. intros. apply u_mul_eq. Qed.
Lemma impl_sub_correct : forall a b, in_range a -> in_range b -> w_sub impl_ops a b = w_sub spec_ops a b.
Proof. intros. apply u_sub_eq. Qed.

Lemma impl_div_correct : forall a b, in_range a -> in_range b -> w_div impl_ops a b = w_div spec_ops a b.
Proof.
  intros a b _ _. cbn [w_div impl_ops spec_ops]. unfold i_div, s_div, u_is_zero, u_div.
  destruct (Z.eqb_spec b 0) as [->|]; reflexivity.
Qed.

Lemma impl_mod_correct : forall a b, in_range a -> in_range b -> w_mod impl_ops a b = w_mod spec_ops a b.
Proof.
  intros a b _ _. cbn [w_mod impl_ops spec_ops]. unfold i_mod, s_mod, u_is_zero, u_rem.
  destruct (Z.eqb_spec b 0) as [->|]; reflexivity.
Qed.

(* sign-and-magnitude view of a word *)
Definition mag (x : Z) : Z := if HALF <=? x then W - x else x.

Lemma to_signed_mag : forall x, in_range x ->
  to_signed x = if HALF <=? x then - mag x else mag x.
Proof.
  intros x Hx. unfold to_signed, mag. rewrite Z.leb_antisym.
  destruct (x <? HALF); cbn [negb]; lia.
Qed.

Lemma mag_range : forall x, in_range x -> 0 <= mag x <= HALF.
Proof.
  intros x Hx. unfold mag, in_range in *. pose proof W_half.
  destruct (Z.leb_spec HALF x); lia.
Qed.

Lemma mag_pos : forall x, in_range x -> x <> 0 -> 0 < mag x.
Proof.
  intros x Hx Hn. unfold mag, in_range in *. destruct (Z.leb_spec HALF x); lia.
Qed.

Lemma strip_sign : forall x, in_range x -> x <> 0 ->
  (if i256_is_negative x then i256_neg x else x) = mag x.
Proof.
  intros x Hx Hn. rewrite is_negative_spec by assumption. unfold mag.
  destruct (Z.leb_spec HALF x); [|reflexivity].
  apply i256_neg_pos. unfold in_range in Hx. lia.
Qed.

Lemma neg_small : forall d, 0 <= d < W -> i256_neg d = (- d) mod W.
Proof. intros. apply i256_neg_spec. assumption. Qed.

Lemma impl_sdiv_correct : forall a b, in_range a -> in_range b -> w_sdiv impl_ops a b = w_sdiv spec_ops a b.
Proof.
  intros a b Ha Hb. cbn [w_sdiv impl_ops spec_ops]. unfold i_sdiv, i256_div, s_sdiv, of_signed, u_is_zero.
  destruct (Z.eqb_spec b 0) as [->|Hbn]; [rewrite orb_true_r; reflexivity|].
  destruct (Z.eqb_spec a 0) as [->|Han]; cbn [orb].
  { unfold to_signed at 1. change (0 <? HALF) with true. cbv iota. rewrite Z.quot_0_l; [reflexivity|].
    rewrite to_signed_mag by assumption. pose proof (mag_pos b Hb Hbn). destruct (HALF <=? b); lia. }
  rewrite !strip_sign by assumption.
  rewrite !is_negative_spec by assumption.
  rewrite (to_signed_mag a Ha), (to_signed_mag b Hb).
  pose proof (mag_range a Ha) as HA. pose proof (mag_pos a Ha Han) as HA'.
  pose proof (mag_range b Hb) as HB. pose proof (mag_pos b Hb Hbn) as HB'.
  pose proof W_half as HW.
  set (A := mag a) in *. set (B := mag b) in *. unfold u_div.
  assert (Hd : 0 <= A / B <= HALF).
  { split; [apply Z.div_pos; lia|]. apply Z.div_le_upper_bound; [lia|]. nia. }
  assert (Hq : Z.quot A B = A / B) by (apply Z.quot_div_nonneg; lia).
  destruct (HALF <=? a), (HALF <=? b); cbn [Bool.eqb]; rewrite ?orb_true_r, ?orb_false_r.
  - rewrite Z.quot_opp_l, Z.quot_opp_r, Z.opp_involutive, Hq by lia. symmetry; apply Z.mod_small; lia.
  - rewrite Z.quot_opp_l, Hq by lia. destruct (Z.eqb_spec (A / B) 0) as [->|]; [reflexivity|].
    apply neg_small; lia.
  - rewrite Z.quot_opp_r, Hq by lia. destruct (Z.eqb_spec (A / B) 0) as [->|]; [reflexivity|].
    apply neg_small; lia.
  - rewrite Hq. symmetry; apply Z.mod_small; lia.
Qed.

Lemma impl_smod_correct : forall a b, in_range a -> in_range b -> w_smod impl_ops a b = w_smod spec_ops a b.
Proof.
  intros a b Ha Hb. cbn [w_smod impl_ops spec_ops]. unfold i_smod, i256_mod, s_smod, of_signed, u_is_zero.
  destruct (Z.eqb_spec b 0) as [->|Hbn]; [rewrite orb_true_r; reflexivity|].
  destruct (Z.eqb_spec a 0) as [->|Han]; cbn [orb].
  { unfold to_signed at 1. change (0 <? HALF) with true. cbv iota. rewrite Z.rem_0_l; [reflexivity|].
    rewrite to_signed_mag by assumption. pose proof (mag_pos b Hb Hbn). destruct (HALF <=? b); lia. }
  rewrite !strip_sign by assumption.
  rewrite !is_negative_spec by assumption.
  rewrite (to_signed_mag a Ha), (to_signed_mag b Hb).
  pose proof (mag_range a Ha) as HA. pose proof (mag_pos a Ha Han) as HA'.
  pose proof (mag_range b Hb) as HB. pose proof (mag_pos b Hb Hbn) as HB'.
  pose proof W_half as HW.
  set (A := mag a) in *. set (B := mag b) in *. unfold u_rem.
  assert (Hd : 0 <= A mod B < B) by (apply Z.mod_pos_bound; lia).
  assert (Hq : Z.rem A B = A mod B) by (apply Z.rem_mod_nonneg; lia).
  destruct (HALF <=? a), (HALF <=? b); cbn [andb].
  - rewrite Z.rem_opp_l, Z.rem_opp_r, Hq by lia.
    destruct (Z.eqb_spec (A mod B) 0) as [->|]; [reflexivity|]. cbn [negb]. apply neg_small; lia.
  - rewrite Z.rem_opp_l, Hq by lia.
    destruct (Z.eqb_spec (A mod B) 0) as [->|]; [reflexivity|]. cbn [negb]. apply neg_small; lia.
  - rewrite Z.rem_opp_r, Hq by lia. symmetry; apply Z.mod_small; lia.
  - rewrite Hq. symmetry; apply Z.mod_small; lia.
Qed.

Lemma impl_addmod_correct : forall a b c, in_range a -> in_range b -> in_range c ->
  w_addmod impl_ops a b c = w_addmod spec_ops a b c.
Proof.
  intros a b c Ha Hb Hc. cbn [w_addmod impl_ops spec_ops]. unfold i_addmod, s_addmod, u_is_zero.
  destruct (Z.eqb_spec c 0) as [->|Hcn]; [reflexivity|]. cbn [negb].
  rewrite (to_u512_id a), (to_u512_id b), (to_u512_id c) by assumption. unfold in_range in *.
  rewrite u512_add_eq. unfold u512_rem. rewrite (Z.mod_small (a + b)).
  2:{ assert (W * 2 <= W512) by (vm_compute; discriminate). lia. }
  assert (0 <= (a + b) mod c < c) by (apply Z.mod_pos_bound; lia).
  rewrite low_u256_mod by lia. apply Z.mod_small. lia.
Qed.

Lemma impl_mulmod_correct : forall a b c, in_range a -> in_range b -> in_range c ->
  w_mulmod impl_ops a b c = w_mulmod spec_ops a b c.
Proof.
  intros a b c Ha Hb Hc. cbn [w_mulmod impl_ops spec_ops]. unfold i_mulmod, s_mulmod, u_is_zero.
  destruct (Z.eqb_spec c 0) as [->|Hcn]; [reflexivity|]. cbn [negb].
  rewrite (to_u512_id a), (to_u512_id b), (to_u512_id c) by assumption. unfold in_range in *.
  rewrite u512_mul_eq. unfold u512_rem. rewrite (Z.mod_small (a * b)).
  2:{ assert (W * W = W512) by reflexivity. nia. }
  assert (0 <= (a * b) mod c < c) by (apply Z.mod_pos_bound; lia).
  rewrite low_u256_mod by lia. apply Z.mod_small. lia.
Qed.


Lemma impl_lt_correct : forall a b, in_range a -> in_range b -> w_lt impl_ops a b = w_lt spec_ops a b.
Proof. reflexivity. Qed.
Lemma impl_gt_correct : forall a b, in_range a -> in_range b -> w_gt impl_ops a b = w_gt spec_ops a b.
Proof. reflexivity. Qed.
Lemma impl_eq_correct : forall a b, in_range a -> in_range b -> w_eq impl_ops a b = w_eq spec_ops a b.
Proof. reflexivity. Qed.
Lemma impl_iszero_correct : forall a, in_range a -> w_iszero impl_ops a = w_iszero spec_ops a.
Proof. reflexivity. Qed.
Lemma impl_and_correct : forall a b, in_range a -> in_range b -> w_and impl_ops a b = w_and spec_ops a b.
Proof. reflexivity. Qed.
Lemma impl_or_correct : forall a b, in_range a -> in_range b -> w_or impl_ops a b = w_or spec_ops a b.
Proof. reflexivity. Qed.
Lemma impl_xor_correct : forall a b, in_range a -> in_range b -> w_xor impl_ops a b = w_xor spec_ops a b.
Proof. reflexivity. Qed.
Lemma impl_not_correct : forall a, in_range a -> w_not impl_ops a = w_not spec_ops a.
Proof. reflexivity. Qed.
Lemma impl_clz_correct : forall a, in_range a -> w_clz impl_ops a = w_clz spec_ops a.
Proof. reflexivity. Qed.

Lemma i256_cmp_spec : forall a b, in_range a -> in_range b ->
  i256_cmp a b = (to_signed a ?= to_signed b).
Proof.
  intros a b Ha Hb. unfold i256_cmp, u_cmp. rewrite !is_negative_spec by assumption.
  unfold to_signed. rewrite !(Z.ltb_antisym HALF). unfold in_range in *. pose proof W_half.
  destruct (Z.leb_spec HALF a), (Z.leb_spec HALF b); cbn [negb bool_cmp]; symmetry.
  - destruct (Z.compare_spec a b), (Z.compare_spec (a - W) (b - W)); try reflexivity; lia.
  - apply Z.compare_lt_iff. lia.
  - apply Z.compare_gt_iff. lia.
  - reflexivity.
Qed.

Lemma impl_slt_correct : forall a b, in_range a -> in_range b -> w_slt impl_ops a b = w_slt spec_ops a b.
Proof.
  intros a b Ha Hb. cbn [w_slt impl_ops spec_ops]. unfold i_slt, s_slt, of_bool, from_u64, b2w.
  rewrite i256_cmp_spec by assumption. reflexivity.
Qed.

Lemma impl_sgt_correct : forall a b, in_range a -> in_range b -> w_sgt impl_ops a b = w_sgt spec_ops a b.
Proof.
  intros a b Ha Hb. cbn [w_sgt impl_ops spec_ops]. unfold i_sgt, s_sgt, of_bool, from_u64, b2w.
  rewrite i256_cmp_spec by assumption. unfold Z.ltb. rewrite (Z.compare_antisym (to_signed a)).
  destruct (to_signed a ?= to_signed b); reflexivity.
Qed.

Lemma impl_byte_correct : forall a b, in_range a -> in_range b -> w_byte impl_ops a b = w_byte spec_ops a b.
Proof.
  intros i x Hi Hx. cbn [w_byte impl_ops spec_ops]. unfold i_byte, s_byte, from_u64.
  rewrite ge_u64_spec by (assumption || (split; reflexivity || discriminate)).
  rewrite Z.leb_antisym. destruct (Z.ltb_spec i 32); cbn [negb]; [|reflexivity].
  unfold in_range in Hi.
  rewrite low_u64_small by (assert (32 < 2 ^ 64) by reflexivity; lia).
  apply u_byte_eq. lia.
Qed.

Lemma impl_shl_correct : forall a b, in_range a -> in_range b -> w_shl impl_ops a b = w_shl spec_ops a b.
Proof.
  intros s v Hs Hv. cbn [w_shl impl_ops spec_ops]. unfold i_shl, s_shl, u_is_zero.
  rewrite ge_u64_spec by (assumption || (split; reflexivity || discriminate)).
  rewrite u_shl_eq by (unfold in_range in Hs; lia).
  rewrite (Z.leb_antisym _ 256). destruct (Z.eqb_spec v 0) as [->|]; cbn [orb].
  - destruct (s <? 256); [|reflexivity]. rewrite Z.mul_0_l. symmetry; apply Z.mod_0_l. pose proof W_pos; lia.
  - destruct (s <? 256); reflexivity.
Qed.

Lemma impl_shr_correct : forall a b, in_range a -> in_range b -> w_shr impl_ops a b = w_shr spec_ops a b.
Proof.
  intros s v Hs Hv. cbn [w_shr impl_ops spec_ops]. unfold i_shr, s_shr, u_is_zero.
  rewrite ge_u64_spec by (assumption || (split; reflexivity || discriminate)).
  rewrite u_shr_eq by (unfold in_range in Hs; lia).
  rewrite (Z.leb_antisym _ 256). destruct (Z.eqb_spec v 0) as [->|]; cbn [orb].
  - destruct (s <? 256); [|reflexivity]. symmetry; apply Z.div_0_l.
    apply Z.pow_nonzero; [lia|]. unfold in_range in Hs; lia.
  - destruct (s <? 256); reflexivity.
Qed.

Lemma impl_sar_correct : forall a b, in_range a -> in_range b -> w_sar impl_ops a b = w_sar spec_ops a b.
Proof.
  intros s v Hs Hv. cbn [w_sar impl_ops spec_ops]. unfold i_sar, s_sar, of_signed, u_is_zero.
  rewrite ge_u64_spec by (assumption || (split; reflexivity || discriminate)).
  rewrite (Z.leb_antisym _ 256). rewrite is_negative_spec by assumption.
  unfold to_signed. rewrite (Z.ltb_antisym HALF).
  unfold in_range in *. pose proof W_half as HW. pose proof HALF_pos as HP.
  destruct (Z.leb_spec HALF v) as [Hneg|Hpos]; cbn [negb].
  - (* negative *)
    rewrite i256_neg_pos by lia.
    destruct (Z.eqb_spec (W - v) 0); [lia|]. cbn [orb].
    destruct (Z.ltb_spec s 256) as [Hs'|Hs']; cbn [negb].
    + rewrite low_u32_small by (assert (256 < 2 ^ 32) by reflexivity; lia).
      rewrite u_sub_eq, u_add_eq, u_shr_eq by lia. rewrite (Z.mod_small (W - v - 1)) by lia.
      assert (Hp : 0 < 2 ^ s) by (apply Z.pow_pos_nonneg; lia).
      assert (Hq : 0 <= (W - v - 1) / 2 ^ s <= W - v - 1).
      { split; [apply Z.div_pos; lia|]. apply Z.div_le_upper_bound; [lia|]. nia. }
      rewrite (Z.mod_small (_ + 1)) by lia.
      rewrite i256_neg_pos by lia.
      (* floor((v - W) / 2^s) = -(floor((W - v - 1) / 2^s) + 1) *)
      assert (Hdiv : (v - W) / 2 ^ s = - ((W - v - 1) / 2 ^ s + 1)).
      { symmetry. apply Z.div_unique with (r := 2 ^ s - 1 - (W - v - 1) mod 2 ^ s).
        - left. pose proof (Z.mod_pos_bound (W - v - 1) (2 ^ s) Hp). lia.
        - pose proof (Z.div_mod (W - v - 1) (2 ^ s)). lia. }
      rewrite Hdiv.
      replace (- ((W - v - 1) / 2 ^ s + 1)) with (W - ((W - v - 1) / 2 ^ s + 1) + (-1) * W) by lia.
      rewrite Z.mod_add by lia. symmetry; apply Z.mod_small. lia.
    + destruct (Z.ltb_spec (v - W) 0); [|lia]. unfold U256_MAX.
      replace (-1) with (W - 1 + (-1) * W) by lia. rewrite Z.mod_add by lia.
      symmetry; apply Z.mod_small; lia.
  - (* non-negative *)
    destruct (Z.eqb_spec v 0) as [->|Hv0]; cbn [orb].
    + destruct (s <? 256); cbn [negb].
      * rewrite Z.div_0_l by (apply Z.pow_nonzero; lia). reflexivity.
      * reflexivity.
    + destruct (Z.ltb_spec s 256) as [Hs'|Hs']; cbn [negb].
      * rewrite low_u32_small by (assert (256 < 2 ^ 32) by reflexivity; lia).
        rewrite u_shr_eq by lia. assert (Hp : 0 < 2 ^ s) by (apply Z.pow_pos_nonneg; lia).
        symmetry; apply Z.mod_small. split; [apply Z.div_pos; lia|].
        apply Z.le_lt_trans with v; [|lia]. apply Z.div_le_upper_bound; [lia|]. nia.
      * destruct (Z.ltb_spec v 0); [lia|]. reflexivity.
Qed.


(* the word with bits t..255 set *)
Lemma high_mask_shiftl : forall t, 0 <= t <= 256 -> W - 2 ^ t = Z.shiftl (Z.ones (256 - t)) t.
Proof.
  intros t Ht. rewrite Z.shiftl_mul_pow2, Z.ones_equiv by lia. unfold Z.pred.
  rewrite Z.mul_add_distr_r, <- Z.pow_add_r by lia. replace (256 - t + t) with 256 by lia.
  rewrite W_val. lia.
Qed.

Lemma high_mask_bits : forall t n, 0 <= t <= 256 -> 0 <= n ->
  Z.testbit (W - 2 ^ t) n = (t <=? n) && (n <? 256).
Proof.
  intros t n Ht Hn. rewrite high_mask_shiftl by assumption.
  destruct (Z.leb_spec t n); cbn [andb].
  - rewrite Z.shiftl_spec_high by lia. rewrite Z.testbit_ones_nonneg by lia.
    destruct (Z.ltb_spec (n - t) (256 - t)), (Z.ltb_spec n 256); try reflexivity; lia.
  - apply Z.shiftl_spec_low. lia.
Qed.

Lemma in_range_bits_high : forall x n, in_range x -> 256 <= n -> Z.testbit x n = false.
Proof.
  intros x n Hx Hn. unfold in_range in Hx. rewrite W_val in Hx.
  destruct (Z.eq_dec x 0) as [->|]; [apply Z.bits_0|].
  apply Z.bits_above_log2; [lia|]. apply Z.lt_le_trans with 256; [|lia].
  apply Z.log2_lt_pow2; lia.
Qed.

Lemma lor_high_mask : forall x t, in_range x -> 0 <= t <= 256 ->
  Z.lor x (W - 2 ^ t) = x mod 2 ^ t + (W - 2 ^ t).
Proof.
  intros x t Hx Ht.
  assert (Hdisj : Z.land (x mod 2 ^ t) (W - 2 ^ t) = 0).
  { apply Z.bits_inj'. intros n Hn. rewrite Z.land_spec, Z.bits_0, high_mask_bits by assumption.
    destruct (Z.leb_spec t n); cbn [andb].
    - rewrite Z.mod_pow2_bits_high by lia. reflexivity.
    - apply andb_false_r. }
  rewrite (Z.add_nocarry_lxor _ _ Hdisj), (Z.lxor_lor _ _ Hdisj).
  apply Z.bits_inj'. intros n Hn. rewrite !Z.lor_spec, high_mask_bits by assumption.
  destruct (Z.leb_spec t n); cbn [andb].
  - rewrite Z.mod_pow2_bits_high by lia.
    destruct (Z.ltb_spec n 256); [rewrite !orb_true_r; reflexivity|].
    rewrite in_range_bits_high by (assumption || lia). reflexivity.
  - rewrite Z.mod_pow2_bits_low by lia. reflexivity.
Qed.

Lemma max_shr : forall t, 0 <= t <= 256 -> u_shr U256_MAX (256 - t) = 2 ^ t - 1.
Proof.
  intros t Ht. rewrite u_shr_eq by lia. unfold U256_MAX. symmetry.
  assert (Hp : 0 < 2 ^ (256 - t)) by (apply Z.pow_pos_nonneg; lia).
  assert (Hq : 0 < 2 ^ t) by (apply Z.pow_pos_nonneg; lia).
  assert (HW : W = 2 ^ t * 2 ^ (256 - t)).
  { rewrite <- Z.pow_add_r by lia. replace (t + (256 - t)) with 256 by lia. exact W_val. }
  apply Z.div_unique with (r := 2 ^ (256 - t) - 1); [left; lia|]. rewrite HW. lia.
Qed.

Lemma split_bit : forall x t, 0 <= t ->
  x mod 2 ^ (t + 1) = x mod 2 ^ t + 2 ^ t * (if Z.testbit x t then 1 else 0).
Proof.
  intros x t Ht. rewrite Z.pow_add_r, Z.pow_1_r by lia.
  assert (Hq : 0 < 2 ^ t) by (apply Z.pow_pos_nonneg; lia).
  rewrite Z.rem_mul_r by lia. f_equal. f_equal.
  destruct (Z.testbit x t) eqn:E.
  - apply Z.testbit_true; assumption.
  - apply Z.testbit_false; assumption.
Qed.

Lemma impl_signextend_correct : forall a b, in_range a -> in_range b ->
  w_signextend impl_ops a b = w_signextend spec_ops a b.
Proof.
  intros a x Ha Hx. cbn [w_signextend impl_ops spec_ops]. unfold i_signextend, s_signextend.
  rewrite lt_u64_spec by (assumption || (split; reflexivity || discriminate)).
  unfold in_range in Ha.
  destruct (Z.ltb_spec a 32) as [Ha32|Ha32].
  2:{ destruct (Z.ltb_spec a 31); [lia|reflexivity]. }
  rewrite low_u32_small by (assert (32 < 2 ^ 32) by reflexivity; lia).
  set (t := 8 * a + 7). assert (Ht : 7 <= t <= 255) by (unfold t; lia).
  rewrite max_shr by lia. unfold u_bit, u_or, u_and, u_not, U256_MAX.
  replace (W - 1 - (2 ^ t - 1)) with (W - 2 ^ t) by lia.
  assert (Hq : 0 < 2 ^ t) by (apply Z.pow_pos_nonneg; lia).
  assert (Hm : 0 <= x mod 2 ^ t < 2 ^ t) by (apply Z.mod_pos_bound; lia).
  assert (Himpl : (if Z.testbit x t then Z.lor x (W - 2 ^ t) else Z.land x (2 ^ t - 1)) =
                  x mod 2 ^ t + (if Z.testbit x t then W - 2 ^ t else 0)).
  { destruct (Z.testbit x t).
    - apply lor_high_mask; [assumption|lia].
    - replace (2 ^ t - 1) with (Z.ones t) by (rewrite Z.ones_equiv; unfold Z.pred; lia).
      rewrite Z.land_ones by lia. lia. }
  rewrite Himpl. clear Himpl.
  destruct (Z.ltb_spec a 31) as [Ha31|Ha31].
  - cbv zeta. rewrite split_bit by lia.
    assert (Hp1 : 2 ^ (t + 1) = 2 * 2 ^ t) by (rewrite Z.pow_add_r, Z.pow_1_r by lia; lia).
    rewrite Hp1. destruct (Z.testbit x t).
    + destruct (Z.leb_spec (2 ^ t) (x mod 2 ^ t + 2 ^ t * 1)); lia.
    + destruct (Z.leb_spec (2 ^ t) (x mod 2 ^ t + 2 ^ t * 0)); lia.
  - assert (a = 31) by lia. subst a. change t with 255 in *. clear Ht.
    pose proof (split_bit x 255 ltac:(lia)) as Hs. change (255 + 1) with 256 in Hs.
    rewrite <- W_val in Hs. rewrite (Z.mod_small x W) in Hs by exact Hx.
    pose proof W_val. destruct (Z.testbit x 255); lia.
Qed.


Lemma s_exp_math_eq : forall a e, s_exp a e = s_exp_math a e.
Proof. intros. unfold s_exp, s_exp_math. apply Zpow_mod_correct. pose proof W_pos; lia. Qed.

Definition congW (x y : Z) : Prop := x mod W = y mod W.

Lemma W_nz : W <> 0. Proof. pose proof W_pos; lia. Qed.

(* inner loop: n iterations consume the n low bits of `word` *)
Lemma exp_inner_spec : forall n w v b, 0 <= w ->
  let '(v', b') := exp_inner n w v b in
  v' mod W = (v * b ^ (w mod 2 ^ Z.of_nat n)) mod W /\ b' mod W = (b ^ (2 ^ Z.of_nat n)) mod W.
Proof.
  induction n as [|n IH]; intros w v b Hw.
  - cbn [exp_inner Z.of_nat]. change (2 ^ 0) with 1. rewrite Z.mod_1_r, Z.pow_0_r, Z.pow_1_r, Z.mul_1_r.
    split; reflexivity.
  - cbn [exp_inner].
    assert (Hland : Z.land w 1 = w mod 2) by (apply (Z.land_ones w 1); lia).
    rewrite Hland, Z.shiftr_div_pow2 by lia. change (2 ^ 1) with 2.
    assert (Hw2 : 0 <= w / 2) by (apply Z.div_pos; lia).
    set (v1 := if negb (w mod 2 =? 0) then u_mul v b else v).
    specialize (IH (w / 2) v1 (u_mul b b) Hw2).
    destruct (exp_inner n (w / 2) v1 (u_mul b b)) as [v' b'].
    destruct IH as [IHv IHb].
    assert (Hn : 0 <= Z.of_nat n) by lia.
    assert (Hp : 0 < 2 ^ Z.of_nat n) by (apply Z.pow_pos_nonneg; lia).
    replace (Z.of_nat (S n)) with (1 + Z.of_nat n) by lia.
    rewrite Z.pow_add_r, Z.pow_1_r by lia.
    set (k := (w / 2) mod 2 ^ Z.of_nat n) in *.
    assert (Hk : 0 <= k) by (apply Z.mod_pos_bound; lia).
    assert (Hsq : forall m, 0 <= m -> (u_mul b b ^ m) mod W = (b ^ (2 * m)) mod W).
    { intros m Hm. rewrite u_mul_eq. rewrite <- Zpower_mod by exact W_pos.
      rewrite Z.pow_mul_r by lia. f_equal. f_equal. rewrite Z.pow_2_r. reflexivity. }
    split.
    + rewrite IHv. rewrite Z.rem_mul_r by lia. fold k.
      assert (Hm2 : 0 <= w mod 2 < 2) by (apply Z.mod_pos_bound; lia).
      rewrite Z.pow_add_r by lia.
      rewrite Z.mul_mod by exact W_nz. rewrite (Hsq k Hk).
      assert (Hv1 : v1 mod W = (v * b ^ (w mod 2)) mod W).
      { unfold v1. destruct (Z.eqb_spec (w mod 2) 0) as [E|E]; cbn [negb].
        - rewrite E, Z.pow_0_r, Z.mul_1_r. reflexivity.
        - replace (w mod 2) with 1 by lia. rewrite Z.pow_1_r. rewrite u_mul_eq. apply Z.mod_mod. exact W_nz. }
      rewrite Hv1. rewrite <- Z.mul_mod by exact W_nz. f_equal. ring.
    + rewrite IHb. rewrite (Hsq _ (Z.lt_le_incl _ _ Hp)). reflexivity.
Qed.

Lemma exp_inner_range : forall n w v b, in_range v -> in_range b ->
  in_range (fst (exp_inner n w v b)) /\ in_range (snd (exp_inner n w v b)).
Proof.
  induction n as [|n IH]; intros w v b Hv Hb; cbn [exp_inner fst snd]; [split; assumption|].
  apply IH.
  - destruct (negb _); [|assumption]. rewrite u_mul_eq. apply Z.mod_pos_bound. exact W_pos.
  - rewrite u_mul_eq. apply Z.mod_pos_bound. exact W_pos.
Qed.

(* one word of the exponent: invariant  v * base^(rest of exponent) == X (mod W),
   rest < 2^remaining_bits *)
Lemma exp_word_step : forall X v base rb ei v' base' rb',
  0 <= rb -> 0 <= ei < 2 ^ rb -> in_range v -> in_range base ->
  (v * base ^ ei) mod W = X ->
  exp_word (v, base, rb) (ei mod 2 ^ 64) = (v', base', rb') ->
  0 <= rb' /\ 0 <= ei / 2 ^ 64 < 2 ^ rb' /\ in_range v' /\ in_range base' /\
  (v' * base' ^ (ei / 2 ^ 64)) mod W = X.
Proof.
  intros X v base rb ei v' base' rb' Hrb Hei Hv Hb HX Hstep.
  unfold exp_word in Hstep.
  assert (Hword : 0 <= ei mod 2 ^ 64 < 2 ^ 64) by (apply Z.mod_pos_bound; reflexivity).
  pose proof (exp_inner_spec (Z.to_nat (Z.min 64 rb)) (ei mod 2 ^ 64) v base (proj1 Hword)) as Hs.
  pose proof (exp_inner_range (Z.to_nat (Z.min 64 rb)) (ei mod 2 ^ 64) v base Hv Hb) as Hr.
  destruct (exp_inner (Z.to_nat (Z.min 64 rb)) (ei mod 2 ^ 64) v base) as [v1 b1].
  cbn [fst snd] in Hr. destruct Hr as [Hr1 Hr2].
  injection Hstep as <- <- <-. destruct Hs as [Hsv Hsb].
  rewrite Z2Nat.id in Hsv, Hsb by lia.
  assert (Hq0 : 0 <= ei / 2 ^ 64) by (apply Z.div_pos; [lia|reflexivity]).
  assert (Hlt : ei / 2 ^ 64 < 2 ^ Z.max 0 (rb - 64)).
  { destruct (Z.le_gt_cases 64 rb) as [H64|H64].
    + rewrite Z.max_r by lia. apply Z.div_lt_upper_bound; [reflexivity|].
      rewrite <- Z.pow_add_r by lia. replace (64 + (rb - 64)) with rb by lia. lia.
    + rewrite Z.max_l by lia. change (2 ^ 0) with 1.
      assert (2 ^ rb <= 2 ^ 64) by (apply Z.pow_le_mono_r; lia).
      rewrite Z.div_small by lia. lia. }
  split; [lia|]. split; [split; assumption|]. split; [assumption|]. split; [assumption|].
  rewrite Z.mul_mod, Hsv by exact W_nz. rewrite Zpower_mod, Hsb, <- Zpower_mod by exact W_pos.
  rewrite <- Z.mul_mod by exact W_nz. rewrite <- HX. f_equal.
  destruct (Z.le_gt_cases 64 rb) as [H64|H64].
    + rewrite Z.min_l by lia. rewrite Z.mod_mod by (apply Z.pow_nonzero; lia).
      rewrite <- Z.pow_mul_r by lia. rewrite <- Z.mul_assoc, <- Z.pow_add_r by lia.
      f_equal. f_equal. pose proof (Z.div_mod ei (2 ^ 64) ltac:(apply Z.pow_nonzero; lia)). lia.
    + rewrite Z.min_r by lia.
      assert (2 ^ rb <= 2 ^ 64) by (apply Z.pow_le_mono_r; lia).
      rewrite (Z.mod_small ei (2 ^ 64)) by lia. rewrite (Z.mod_small ei (2 ^ rb)) by lia.
      rewrite Z.div_small by lia. rewrite Z.pow_0_r, Z.mul_1_r. reflexivity.
Qed.

Lemma impl_exp_math : forall a e, in_range a -> in_range e -> i_exp a e = (a ^ e) mod W.
Proof.
  intros a e Ha He. unfold i_exp. cbn [fold_left].
  set (rb := 256 - u_leading_zeros e).
  assert (Hrb : 0 <= rb /\ 0 <= e < 2 ^ rb).
  { unfold rb, u_leading_zeros, in_range in *. destruct (Z.eqb_spec e 0) as [->|Hn].
    - change (256 - 256) with 0. change (2 ^ 0) with 1. lia.
    - assert (0 < e) by lia. pose proof (Z.log2_spec e H). pose proof (Z.log2_nonneg e).
      replace (256 - (255 - Z.log2 e)) with (Z.succ (Z.log2 e)) by lia. lia. }
  destruct Hrb as [Hrb He'].
  assert (H1 : in_range 1) by (split; [discriminate|reflexivity]).
  assert (HX : (1 * a ^ e) mod W = (a ^ e) mod W) by (rewrite Z.mul_1_l; reflexivity).
  assert (L0 : limb e 0 = e mod 2 ^ 64) by (limbs; reflexivity).
  assert (L1 : limb e 1 = (e / 2 ^ 64) mod 2 ^ 64) by (limbs; reflexivity).
  assert (L2 : limb e 2 = (e / 2 ^ 64 / 2 ^ 64) mod 2 ^ 64).
  { limbs. rewrite Z.div_div by (reflexivity || discriminate). reflexivity. }
  assert (L3 : limb e 3 = (e / 2 ^ 64 / 2 ^ 64 / 2 ^ 64) mod 2 ^ 64).
  { limbs. rewrite !Z.div_div by (reflexivity || discriminate). reflexivity. }
  rewrite L0, L1, L2, L3.
  destruct (exp_word (1, a, rb) (e mod 2 ^ 64)) as [[v1 b1] r1] eqn:E1.
  destruct (exp_word_step _ _ _ _ _ _ _ _ Hrb He' H1 Ha HX E1) as (Hr1 & He1 & Hv1 & Hb1 & HX1).
  destruct (exp_word (v1, b1, r1) ((e / 2 ^ 64) mod 2 ^ 64)) as [[v2 b2] r2] eqn:E2.
  destruct (exp_word_step _ _ _ _ _ _ _ _ Hr1 He1 Hv1 Hb1 HX1 E2) as (Hr2 & He2 & Hv2 & Hb2 & HX2).
  destruct (exp_word (v2, b2, r2) ((e / 2 ^ 64 / 2 ^ 64) mod 2 ^ 64)) as [[v3 b3] r3] eqn:E3.
  destruct (exp_word_step _ _ _ _ _ _ _ _ Hr2 He2 Hv2 Hb2 HX2 E3) as (Hr3 & He3 & Hv3 & Hb3 & HX3).
  destruct (exp_word (v3, b3, r3) ((e / 2 ^ 64 / 2 ^ 64 / 2 ^ 64) mod 2 ^ 64)) as [[v4 b4] r4] eqn:E4.
  destruct (exp_word_step _ _ _ _ _ _ _ _ Hr3 He3 Hv3 Hb3 HX3 E4) as (Hr4 & He4 & Hv4 & Hb4 & HX4).
  assert (Hz : e / 2 ^ 64 / 2 ^ 64 / 2 ^ 64 / 2 ^ 64 = 0).
  { rewrite !Z.div_div by (reflexivity || discriminate). apply Z.div_small. exact He. }
  rewrite Hz, Z.pow_0_r, Z.mul_1_r in HX4. rewrite <- HX4. symmetry. apply Z.mod_small. exact Hv4.
Qed.

Lemma impl_exp_correct : forall a b, in_range a -> in_range b -> w_exp impl_ops a b = w_exp spec_ops a b.
Proof.
  intros a e Ha He. cbn [w_exp impl_ops spec_ops]. rewrite s_exp_math_eq. apply impl_exp_math; assumption.
Qed.


Lemma modW_range : forall x, in_range (x mod W).
Proof. intros. apply Z.mod_pos_bound. exact W_pos. Qed.

Lemma b2w_range : forall b, in_range (b2w b).
Proof. intros []; split; cbn; (discriminate || reflexivity). Qed.

Lemma div_le_self : forall a b, 0 <= a -> 0 < b -> 0 <= a / b <= a.
Proof.
  intros a b Ha Hb. split; [apply Z.div_pos; lia|]. apply Z.div_le_upper_bound; [lia|]. nia.
Qed.

Lemma range_add : forall a b, in_range a -> in_range b -> in_range (w_add spec_ops a b).
Proof. intros. apply modW_range. Qed.
Lemma range_mul : forall a b, in_range a -> in_range b -> in_range (w_mul spec_ops a b).
Proof. intros. apply modW_range. Qed.
Lemma range_sub : forall a b, in_range a -> in_range b -> in_range (w_sub spec_ops a b).
Proof. intros. apply modW_range. Qed.
Lemma range_div : forall a b, in_range a -> in_range b -> in_range (w_div spec_ops a b).
Proof.
  intros a b Ha Hb. cbn [w_div spec_ops]. unfold s_div, in_range in *.
  destruct (Z.eqb_spec b 0); [pose proof W_pos; lia|].
  pose proof (div_le_self a b). lia.
Qed.
Lemma range_sdiv : forall a b, in_range a -> in_range b -> in_range (w_sdiv spec_ops a b).
Proof.
  intros a b Ha Hb. cbn [w_sdiv spec_ops]. unfold s_sdiv, of_signed.
  destruct (b =? 0); [split; [discriminate|reflexivity]|apply modW_range].
Qed.
Lemma range_mod : forall a b, in_range a -> in_range b -> in_range (w_mod spec_ops a b).
Proof.
  intros a b Ha Hb. cbn [w_mod spec_ops]. unfold s_mod, in_range in *.
  destruct (Z.eqb_spec b 0); [pose proof W_pos; lia|].
  pose proof (Z.mod_pos_bound a b). lia.
Qed.
Lemma range_smod : forall a b, in_range a -> in_range b -> in_range (w_smod spec_ops a b).
Proof.
  intros a b Ha Hb. cbn [w_smod spec_ops]. unfold s_smod, of_signed.
  destruct (b =? 0); [split; [discriminate|reflexivity]|apply modW_range].
Qed.
Lemma range_addmod : forall a b c, in_range a -> in_range b -> in_range c -> in_range (w_addmod spec_ops a b c).
Proof.
  intros a b c Ha Hb Hc. cbn [w_addmod spec_ops]. unfold s_addmod, in_range in *.
  destruct (Z.eqb_spec c 0); [pose proof W_pos; lia|].
  pose proof (Z.mod_pos_bound (a + b) c). lia.
Qed.
Lemma range_mulmod : forall a b c, in_range a -> in_range b -> in_range c -> in_range (w_mulmod spec_ops a b c).
Proof.
  intros a b c Ha Hb Hc. cbn [w_mulmod spec_ops]. unfold s_mulmod, in_range in *.
  destruct (Z.eqb_spec c 0); [pose proof W_pos; lia|].
  pose proof (Z.mod_pos_bound (a * b) c). lia.
Qed.
Lemma range_exp : forall a b, in_range a -> in_range b -> in_range (w_exp spec_ops a b).
Proof. intros. cbn [w_exp spec_ops]. rewrite s_exp_math_eq. apply modW_range. Qed.
Lemma range_signextend : forall a b, in_range a -> in_range b -> in_range (w_signextend spec_ops a b).
Proof.
  intros a x Ha Hx. cbn [w_signextend spec_ops]. unfold s_signextend.
  destruct (Z.ltb_spec a 31); [|assumption]. cbv zeta. unfold in_range in *.
  assert (Hp : 0 < 2 ^ (8 * a + 7 + 1)) by (apply Z.pow_pos_nonneg; lia).
  assert (Hle : 2 ^ (8 * a + 7 + 1) <= W) by (rewrite W_val; apply Z.pow_le_mono_r; lia).
  pose proof (Z.mod_pos_bound x _ Hp).
  destruct (_ <=? _); lia.
Qed.
Lemma range_lt : forall a b, in_range a -> in_range b -> in_range (w_lt spec_ops a b).
Proof. intros. apply b2w_range. Qed.
Lemma range_gt : forall a b, in_range a -> in_range b -> in_range (w_gt spec_ops a b).
Proof. intros. apply b2w_range. Qed.
Lemma range_slt : forall a b, in_range a -> in_range b -> in_range (w_slt spec_ops a b).
Proof. intros. apply b2w_range. Qed.
Lemma range_sgt : forall a b, in_range a -> in_range b -> in_range (w_sgt spec_ops a b).
Proof. intros. apply b2w_range. Qed.
Lemma range_eq : forall a b, in_range a -> in_range b -> in_range (w_eq spec_ops a b).
Proof. intros. apply b2w_range. Qed.
Lemma range_iszero : forall a, in_range a -> in_range (w_iszero spec_ops a).
Proof. intros. apply b2w_range. Qed.

(* x in [0, 2^256) from a bound on log2 *)
Lemma range_of_log2 : forall x, 0 <= x -> Z.log2 x < 256 -> in_range x.
Proof.
  intros x Hx Hl. unfold in_range. rewrite W_val. split; [assumption|].
  destruct (Z.eq_dec x 0) as [->|]; [reflexivity|]. apply Z.log2_lt_pow2; lia.
Qed.
Lemma log2_of_range : forall x, in_range x -> Z.log2 x < 256.
Proof.
  intros x Hx. unfold in_range in Hx. rewrite W_val in Hx.
  destruct (Z.eq_dec x 0) as [->|]; [reflexivity|]. apply Z.log2_lt_pow2; lia.
Qed.

Lemma range_and : forall a b, in_range a -> in_range b -> in_range (w_and spec_ops a b).
Proof.
  intros a b Ha Hb. cbn [w_and spec_ops]. unfold s_and.
  pose proof (log2_of_range a Ha). pose proof (log2_of_range b Hb). unfold in_range in Ha, Hb.
  apply range_of_log2; [apply Z.land_nonneg; lia|].
  pose proof (Z.log2_land a b). lia.
Qed.
Lemma range_or : forall a b, in_range a -> in_range b -> in_range (w_or spec_ops a b).
Proof.
  intros a b Ha Hb. cbn [w_or spec_ops]. unfold s_or.
  pose proof (log2_of_range a Ha). pose proof (log2_of_range b Hb). unfold in_range in Ha, Hb.
  apply range_of_log2; [apply Z.lor_nonneg; lia|].
  rewrite Z.log2_lor by lia. lia.
Qed.
Lemma range_xor : forall a b, in_range a -> in_range b -> in_range (w_xor spec_ops a b).
Proof.
  intros a b Ha Hb. cbn [w_xor spec_ops]. unfold s_xor.
  pose proof (log2_of_range a Ha). pose proof (log2_of_range b Hb). unfold in_range in Ha, Hb.
  apply range_of_log2; [apply Z.lxor_nonneg; lia|].
  pose proof (Z.log2_lxor a b). lia.
Qed.
Lemma range_not : forall a, in_range a -> in_range (w_not spec_ops a).
Proof. intros a Ha. cbn [w_not spec_ops]. unfold s_not, in_range in *. lia. Qed.
Lemma range_byte : forall a b, in_range a -> in_range b -> in_range (w_byte spec_ops a b).
Proof.
  intros i x Hi Hx. cbn [w_byte spec_ops]. unfold s_byte, in_range.
  assert (256 < W) by reflexivity.
  destruct (i <? 32); [|lia]. pose proof (Z.mod_pos_bound (x / 2 ^ (8 * (31 - i))) 256). lia.
Qed.
Lemma range_shl : forall a b, in_range a -> in_range b -> in_range (w_shl spec_ops a b).
Proof.
  intros s v Hs Hv. cbn [w_shl spec_ops]. unfold s_shl.
  destruct (s <? 256); [apply modW_range|split; [discriminate|reflexivity]].
Qed.
Lemma range_shr : forall a b, in_range a -> in_range b -> in_range (w_shr spec_ops a b).
Proof.
  intros s v Hs Hv. cbn [w_shr spec_ops]. unfold s_shr, in_range in *.
  destruct (s <? 256); [|pose proof W_pos; lia].
  assert (0 < 2 ^ s) by (apply Z.pow_pos_nonneg; lia).
  pose proof (div_le_self v (2 ^ s)). lia.
Qed.
Lemma range_sar : forall a b, in_range a -> in_range b -> in_range (w_sar spec_ops a b).
Proof. intros. apply modW_range. Qed.
Lemma range_clz : forall a, in_range a -> in_range (w_clz spec_ops a).
Proof.
  intros a Ha. cbn [w_clz spec_ops]. unfold s_clz. pose proof (log2_of_range a Ha).
  pose proof (Z.log2_nonneg a). assert (256 < W) by reflexivity. unfold in_range.
  destruct (a =? 0); lia.
Qed.


(* ---------- the two facts the machine-level refinement consumes ---------- *)
Definition agree1 (f g : Z -> Z) : Prop := forall a, in_range a -> f a = g a.
Definition agree2 (f g : Z -> Z -> Z) : Prop := forall a b, in_range a -> in_range b -> f a b = g a b.
Definition agree3 (f g : Z -> Z -> Z -> Z) : Prop :=
  forall a b c, in_range a -> in_range b -> in_range c -> f a b c = g a b c.
Definition closed1 (f : Z -> Z) : Prop := forall a, in_range a -> in_range (f a).
Definition closed2 (f : Z -> Z -> Z) : Prop := forall a b, in_range a -> in_range b -> in_range (f a b).
Definition closed3 (f : Z -> Z -> Z -> Z) : Prop :=
  forall a b c, in_range a -> in_range b -> in_range c -> in_range (f a b c).

(* two instruction sets compute the same word on all in-range operands *)
Record ops_agree (o1 o2 : word_ops) : Prop := {
  ag_add : agree2 (w_add o1) (w_add o2); ag_mul : agree2 (w_mul o1) (w_mul o2);
  ag_sub : agree2 (w_sub o1) (w_sub o2); ag_div : agree2 (w_div o1) (w_div o2);
  ag_sdiv : agree2 (w_sdiv o1) (w_sdiv o2); ag_mod : agree2 (w_mod o1) (w_mod o2);
  ag_smod : agree2 (w_smod o1) (w_smod o2); ag_addmod : agree3 (w_addmod o1) (w_addmod o2);
  ag_mulmod : agree3 (w_mulmod o1) (w_mulmod o2); ag_exp : agree2 (w_exp o1) (w_exp o2);
  ag_signextend : agree2 (w_signextend o1) (w_signextend o2);
  ag_lt : agree2 (w_lt o1) (w_lt o2); ag_gt : agree2 (w_gt o1) (w_gt o2);
  ag_slt : agree2 (w_slt o1) (w_slt o2); ag_sgt : agree2 (w_sgt o1) (w_sgt o2);
  ag_eq : agree2 (w_eq o1) (w_eq o2); ag_iszero : agree1 (w_iszero o1) (w_iszero o2);
  ag_and : agree2 (w_and o1) (w_and o2); ag_or : agree2 (w_or o1) (w_or o2);
  ag_xor : agree2 (w_xor o1) (w_xor o2); ag_not : agree1 (w_not o1) (w_not o2);
  ag_byte : agree2 (w_byte o1) (w_byte o2); ag_shl : agree2 (w_shl o1) (w_shl o2);
  ag_shr : agree2 (w_shr o1) (w_shr o2); ag_sar : agree2 (w_sar o1) (w_sar o2);
  ag_clz : agree1 (w_clz o1) (w_clz o2);
}.

(* every instruction of the set maps words to words *)
Record ops_closed (o : word_ops) : Prop := {
  cl_add : closed2 (w_add o); cl_mul : closed2 (w_mul o); cl_sub : closed2 (w_sub o);
  cl_div : closed2 (w_div o); cl_sdiv : closed2 (w_sdiv o); cl_mod : closed2 (w_mod o);
  cl_smod : closed2 (w_smod o); cl_addmod : closed3 (w_addmod o); cl_mulmod : closed3 (w_mulmod o);
  cl_exp : closed2 (w_exp o); cl_signextend : closed2 (w_signextend o);
  cl_lt : closed2 (w_lt o); cl_gt : closed2 (w_gt o); cl_slt : closed2 (w_slt o);
  cl_sgt : closed2 (w_sgt o); cl_eq : closed2 (w_eq o); cl_iszero : closed1 (w_iszero o);
  cl_and : closed2 (w_and o); cl_or : closed2 (w_or o); cl_xor : closed2 (w_xor o);
  cl_not : closed1 (w_not o); cl_byte : closed2 (w_byte o); cl_shl : closed2 (w_shl o);
  cl_shr : closed2 (w_shr o); cl_sar : closed2 (w_sar o); cl_clz : closed1 (w_clz o);
}.

Lemma impl_ops_agree : ops_agree impl_ops spec_ops.
Proof.
  constructor; red.
  - exact impl_add_correct. - exact impl_mul_correct. - exact impl_sub_correct.
  - exact impl_div_correct. - exact impl_sdiv_correct. - exact impl_mod_correct.
  - exact impl_smod_correct. - exact impl_addmod_correct. - exact impl_mulmod_correct.
  - exact impl_exp_correct. - exact impl_signextend_correct.
  - exact impl_lt_correct. - exact impl_gt_correct. - exact impl_slt_correct.
  - exact impl_sgt_correct. - exact impl_eq_correct. - exact impl_iszero_correct.
  - exact impl_and_correct. - exact impl_or_correct. - exact impl_xor_correct.
  - exact impl_not_correct. - exact impl_byte_correct. - exact impl_shl_correct.
  - exact impl_shr_correct. - exact impl_sar_correct. - exact impl_clz_correct.
Qed.

Lemma spec_ops_closed : ops_closed spec_ops.
Proof.
  constructor; red.
  - exact range_add. - exact range_mul. - exact range_sub. - exact range_div. - exact range_sdiv.
  - exact range_mod. - exact range_smod. - exact range_addmod. - exact range_mulmod.
  - exact range_exp. - exact range_signextend. - exact range_lt. - exact range_gt.
  - exact range_slt. - exact range_sgt. - exact range_eq. - exact range_iszero.
  - exact range_and. - exact range_or. - exact range_xor. - exact range_not. - exact range_byte.
  - exact range_shl. - exact range_shr. - exact range_sar. - exact range_clz.
Qed.

Lemma impl_ops_closed : ops_closed impl_ops.
Proof.
  pose proof impl_ops_agree as A. pose proof spec_ops_closed as C.
  constructor; red; intros.
  - rewrite (ag_add _ _ A) by assumption. apply (cl_add _ C); assumption.
  - rewrite (ag_mul _ _ A) by assumption. apply (cl_mul _ C); assumption.
  - rewrite (ag_sub _ _ A) by assumption. apply (cl_sub _ C); assumption.
  - rewrite (ag_div _ _ A) by assumption. apply (cl_div _ C); assumption.
  - rewrite (ag_sdiv _ _ A) by assumption. apply (cl_sdiv _ C); assumption.
  - rewrite (ag_mod _ _ A) by assumption. apply (cl_mod _ C); assumption.
  - rewrite (ag_smod _ _ A) by assumption. apply (cl_smod _ C); assumption.
  - rewrite (ag_addmod _ _ A) by assumption. apply (cl_addmod _ C); assumption.
  - rewrite (ag_mulmod _ _ A) by assumption. apply (cl_mulmod _ C); assumption.
  - rewrite (ag_exp _ _ A) by assumption. apply (cl_exp _ C); assumption.
  - rewrite (ag_signextend _ _ A) by assumption. apply (cl_signextend _ C); assumption.
  - rewrite (ag_lt _ _ A) by assumption. apply (cl_lt _ C); assumption.
  - rewrite (ag_gt _ _ A) by assumption. apply (cl_gt _ C); assumption.
  - rewrite (ag_slt _ _ A) by assumption. apply (cl_slt _ C); assumption.
  - rewrite (ag_sgt _ _ A) by assumption. apply (cl_sgt _ C); assumption.
  - rewrite (ag_eq _ _ A) by assumption. apply (cl_eq _ C); assumption.
  - rewrite (ag_iszero _ _ A) by assumption. apply (cl_iszero _ C); assumption.
  - rewrite (ag_and _ _ A) by assumption. apply (cl_and _ C); assumption.
  - rewrite (ag_or _ _ A) by assumption. apply (cl_or _ C); assumption.
  - rewrite (ag_xor _ _ A) by assumption. apply (cl_xor _ C); assumption.
  - rewrite (ag_not _ _ A) by assumption. apply (cl_not _ C); assumption.
  - rewrite (ag_byte _ _ A) by assumption. apply (cl_byte _ C); assumption.
  - rewrite (ag_shl _ _ A) by assumption. apply (cl_shl _ C); assumption.
  - rewrite (ag_shr _ _ A) by assumption. apply (cl_shr _ C); assumption.
  - rewrite (ag_sar _ _ A) by assumption. apply (cl_sar _ C); assumption.
  - rewrite (ag_clz _ _ A) by assumption. apply (cl_clz _ C); assumption.
Qed.
