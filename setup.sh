#!/bin/bash
# Offline build of the whole framework from files on disk.
set -e
cd "$(dirname "$0")"
export CARGO_NET_OFFLINE=true
python3 tools/translator.py
COQ_KEEP_GOING=1 tools/coqbuild.sh > work_setup_coq.log 2>&1 || { tail -40 work_setup_coq.log; echo "coq build had failures (each check rebuilds its own cone)"; }
cp /repo/Cargo.lock harness/Cargo.lock
(cd harness && cargo build --release --offline --bins 2>&1 | tail -3)
echo setup-ok
