#!/bin/bash
# Offline build of the whole framework from files on disk.
set -e
cd "$(dirname "$0")"
export CARGO_NET_OFFLINE=true
python3 tools/translator.py
tools/coqbuild.sh > work_setup_coq.log 2>&1 || { tail -40 work_setup_coq.log; echo "coq build failed"; exit 1; }
cp /repo/Cargo.lock harness/Cargo.lock
(cd harness && cargo build --release --offline --bins 2>&1 | tail -3)
echo setup-ok
