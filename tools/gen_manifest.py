#!/usr/bin/env python3
"""Regenerates MANIFEST.json from tools/props/Cxx.py (one module per claimed property)."""
import importlib, json, os, sys
ROOT = os.path.join(os.path.dirname(os.path.abspath(__file__)), "..")
sys.path.insert(0, os.path.dirname(os.path.abspath(__file__)))
ALL = [f"C{i:02d}" for i in range(1, 21)]
PENDING_REASON = {}
try:
    PENDING_REASON = json.load(open(os.path.join(ROOT, "tools", "pending.json")))
except Exception:
    pass
checks, na = [], []
for pid in ALL:
    try:
        cfg = importlib.import_module(f"props.{pid}")
    except ImportError:
        na.append({"property_id": pid, "reason": PENDING_REASON.get(pid, "check not built yet in this round: the Coq model/theorems and the correspondence harness of DESIGN.md §4.%s are not implemented; the property is not claimed (the technique applies; see DESIGN.md)" % pid)})
        continue
    checks.append({
        "property_id": pid,
        "quick_cmd": f"./check {pid} --tier quick",
        "thorough_cmd": f"./check {pid} --tier thorough",
        "evidence_file": f"/verif/evidence/{pid}.json",
        "replay_cmd_template": f"./check {pid} --replay {{path}}",
        "engine": "coq-proof+correspondence",
        "level_claimed": {
            "category": "proof",
            "text": getattr(cfg, "LEVEL_TEXT", "Theorems about an executable Gallina model, machine-checked by Coq 8.16.1 for all inputs/histories; model tied to /repo by the translator (generated constants/tables) and a step-by-step correspondence check against the real actor code"),
            "design_ref": f"DESIGN.md §4.{pid}",
        },
        "level_note": getattr(cfg, "LEVEL_NOTE", "Trusted: Coq kernel (no axioms; Print Assumptions audited every run), tools/translator.py, the Rust harness VM (fork of test_vm) and generators; the theorems are about coq/Model, the randomized correspondence check validates the model against the implementation and is not a proof. IPLD containers, crypto, gas and the production FVM are modelled, not verified."),
        "technique": getattr(cfg, "TECHNIQUE", "machine-checked proof in Coq over an executable model + differential correspondence check against the Rust implementation"),
    })
man = {
    "version": 1,
    "setup_cmd": "./setup.sh",
    "hooks": {
        "guard": "builtin_actors_verif",
        "enable": "none needed so far: the harness links /repo's crates by path and uses only pub items; if set, VERIF_HOOK_CFG=builtin_actors_verif adds RUSTFLAGS=--cfg builtin_actors_verif",
        "baseline_off_cmd": "cd /repo && cargo test --workspace --no-fail-fast --offline",
        "source_commits": [],
        "add_only": True,
    },
    "engines": [{
        "name": "coq-proof+correspondence", "path": "/verif/check",
        "serves_properties": [c["property_id"] for c in checks],
        "kind_free_text": "Coq 8.16.1 theorems over executable Gallina models (coq/), translator-generated tables (tools/translator.py), Rust harness running the real actors (harness/), vm_compute evaluation of the model on the same histories",
    }],
    "checks": checks,
    "not_applicable": na,
    "notes": "See DESIGN.md. ./check <id> [--tier quick|thorough] [--replay file]; VERIF_SEED seeds every random choice.",
}
json.dump(man, open(os.path.join(ROOT, "MANIFEST.json"), "w"), indent=1)
print("claimed:", [c["property_id"] for c in checks])
