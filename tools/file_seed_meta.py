#!/usr/bin/env python3
"""usage: tools/file_seed_meta.py <seed-id> <property> <check log> <breaks> <needs> [note]"""
import json, os, re, sys
sid, prop, log, breaks, needs = sys.argv[1:6]
note = sys.argv[6] if len(sys.argv) > 6 else ""
out = f"/verif/seeded/{sid}"
os.makedirs(out, exist_ok=True)
txt = open(log).read() if os.path.exists(log) else ""
m = re.findall(r"^(VIOLATION.*|\[C\d+\].*)$", txt, flags=re.M)
meta = {"id": sid, "property": prop, "breaks": breaks, "needs_to_manifest": needs,
        "written_by": "independent sub-agent that saw only the property text and a scratch worktree",
        "check_run": f"tools/isolated_check.sh seeded/{sid}/patch.diff {prop}",
        "check_output": m, "detected": any(x.startswith("VIOLATION") for x in m),
        "note": note,
        "confirmation": "confirm.json / confirm.log written by tools/confirm_seed.sh (demo passes on pristine code, fails with the change; existing tests of the touched crates + test_vm pass with the change); seeder's own logs in SEEDER_README.md"}
json.dump(meta, open(os.path.join(out, "meta.json"), "w"), indent=1)
print(sid, meta["detected"])
