#!/bin/bash
# Build Coq targets (paths relative to coq/, e.g. Props/C16.vo) under a lock, with a timeout.
# Usage: tools/coqbuild.sh [target.vo ...]   (no target = everything)
set -u
HERE="$(cd "$(dirname "$0")/.." && pwd)"
cd "$HERE/coq"
exec 9>"$HERE/coq/.build.lock"
flock 9
LIST="$(find Base Gen Model Proofs Props -name '*.v' 2>/dev/null | sort)"
NEW="-Q . VF
$LIST"
if [ ! -f _CoqProject ] || [ "$(cat _CoqProject)" != "$NEW" ] || [ ! -f Makefile ]; then
  printf '%s\n' "$NEW" > _CoqProject
  coq_makefile -f _CoqProject -o Makefile >/dev/null || exit 3
fi
T="${COQ_TIMEOUT:-1500}"
if [ $# -eq 0 ]; then
  timeout "$T" make ${COQ_KEEP_GOING:+-k} -j"${COQ_JOBS:-16}" 2>&1
else
  timeout "$T" make -j"${COQ_JOBS:-16}" "$@" 2>&1
fi
