#!/bin/bash
# usage: tools/mkpatch.sh <path relative to /repo> <edited copy> > out.diff
rel="$1"; copy="$2"
diff -u "/repo/$rel" "$copy" | sed "1s|.*|--- a/$rel|;2s|.*|+++ b/$rel|"
