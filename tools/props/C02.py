from .common import TRUSTED_BASE_COMMON
THEOREMS = [
    "C02_minimum_consensus_power_is_10TiB", "C02_active_power_exact", "C02_delta_is_difference",
    "C02_credited_is_sum_of_deltas", "C02_unproven_contributes_nothing",
    "C02_activation_credits_unproven_power", "C02_skipped_or_faulty_contributes_nothing",
    "C02_missed_post_removes_power_at_deadline_end", "C02_deadline_delta_is_difference",
    "C02_deadline_credited_is_sum_of_deltas", "C02_power_totals_exact",
    "C02_current_total_power_rule", "C02_claim_is_sum_of_deltas", "C02_miner_claim_tracks_partial",
]
MODEL_TARGETS = ["Model/Partition", "Model/PartitionInv", "Model/Deadline", "Model/DeadlineInv", "Model/DeadlineC02", "Model/Power"]
HARNESS = [
    {"bin": "power", "tag": "power",
     "quick": {"cases": 150, "len": 40, "shards": 4},
     "thorough": {"cases": 2000, "len": 60, "shards": 8},
     "search": {"cases": 600, "len": 50}},
    {"bin": "minerpower", "tag": "minerpower",
     "quick": {"cases": 300, "len": 30, "shards": 1},
     "thorough": {"cases": 1500, "len": 30, "shards": 1},
     "search": {"cases": 900, "len": 30}},
    {"bin": "deadline", "tag": "deadline",
     "quick": {"cases": 150, "len": 30, "shards": 4},
     "thorough": {"cases": 3000, "len": 40, "shards": 16},
     "search": {"cases": 800, "len": 35}},
    {"bin": "partition", "tag": "partition",
     "quick": {"cases": 400, "len": 30, "shards": 4},
     "thorough": {"cases": 8000, "len": 45, "shards": 16},
     "search": {"cases": 2000, "len": 40}},
]
TRUSTED_BASE = TRUSTED_BASE_COMMON + [
    "C02 model coq/Model/Power.v: hand-written transcription of the claim bookkeeping of actors/power/src/{state.rs,lib.rs} (create_miner's claim, add_to_claim with the consensus-minimum threshold, delete_claim on the cron-failure path, current_total_power); policy.minimum_consensus_power and CONSENSUS_MINER_MIN_MINERS are parameters of the initial state read from the running code by the harness (all valid PoSt proof types map to policy.minimum_consensus_power)",
    "C02 partition side: coq/Model/Partition.v (see C04) with step_delta = the delta each partition operation reports to its caller; coq/Model/Deadline.v + DeadlineC02.v give the same for every deadline operation (dstep_delta); the composition over the 48 deadlines and the handlers of actors/miner/src/lib.rs up to the UpdateClaimedPower send is NOT proved (C02_miner_claim_tracks_partial), it is covered by the handler-level monitor harness",
    "C02 harness/src/bin/power.rs: real power, init, miner, reward and cron actors on the harness VM; UpdateClaimedPower injected with miner actors (and non-miners) as callers, claims deleted through the real failing-cron-callback path; monitors = totals recomputed from the claims HAMT under the consensus-minimum rule, rejected calls change nothing",
]
TRUSTED_BASE += [
    "C02 harness/src/bin/minerpower.rs (monitor only, no model): real miner, power, market, verifreg, reward, cron actors on the harness VM driven through pre-commit, ProveCommitSectors3 / NI, PoSt (full / skipped subsets / optimistic invalid proof + dispute / missed), DeclareFaults / Recovered, TerminateSectors, ExtendSectorExpiration2, ProveReplicaUpdates3, CompactPartitions, cron at every deadline end, natural expiry in short-life and long-haul cases; after every message and cron tick: claim(m) == Σ power of sectors that are proven, not faulty, not terminated (recomputed from the sectors AMT x partition bitfields) == Σ partition.active_power() == running sum of every effective UpdateClaimedPower delta found in the invocation traces; network totals == Σ claims under the consensus-minimum rule; a missed PoSt leaves the deadline's partitions with zero credited power; plus the repo's own check_state_invariants",
]
ASSUMPTIONS = [
    "minimum_consensus_power > 0 (power_totals_exact); miner ids handed out by the init actor are fresh",
    "op_wf of C04 for the partition-level theorems",
    "power.State.miner_count is not part of the statement: it is decremented twice when one miner has two failing cron callbacks in one tick (reproduced on the real code; counted in the evidence under extra.miner_count_double_decrement_observed, reported to the lead)",
]
LEVEL_TEXT = "proof (partition deltas, power actor totals) + correspondence; miner orchestration partial"
