from .common import TRUSTED_BASE_COMMON
from . import C06 as _c06
THEOREMS = [
    "C08_life_reachable", "C08_life_step", "C08_unactivated_is_pending", "C08_pending_unique", "C08_published_once_until_start",
    "C08_duplicate_rejected", "C08_publish_ids", "C08_next_id_monotone", "C08_ids_below_next_id",
    "C08_publish_requires_auth_and_funds", "C08_AccOK_snoc", "C08_accepted_deals_are_stored",
    "C08_activation_guard", "C08_activation_at_most_once", "C08_removed_deal_not_activated",
    "C08_activation_once_per_message", "C08_timeout_cleanup",
]
MODEL_TARGETS = ["Model/Market"]
HARNESS = [
    {"bin": "market", "tag": "market", "args": ["--prop", "C08"],
     "quick": {"cases": 176, "len": 40, "shards": 16},
     "thorough": {"cases": 2400, "len": 50, "shards": 64},
     "search": {"cases": 600, "len": 45}},
]
TRUSTED_BASE = _c06.TRUSTED_BASE
ASSUMPTIONS = _c06.ASSUMPTIONS + [
    "every message is executed at an epoch later than the last cron tick's epoch (the cron runs once per epoch, after the epoch's messages); the update interval (policy.deal_updates_interval) is positive",
    "a proposal's CID identifies the normalised proposal (no hash collision)",
]
