from .common import TRUSTED_BASE_COMMON
THEOREMS = [
    "C09_constants",
    "C09_supply_is_sum_of_balances", "C09_supply_is_minted_minus_burnt",
    "C09_verifier_allowance_exact", "C09_verifier_caps_change_only_by_root_or_grant",
    "C09_registry_balance_is_unclaimed_allocations",
    "C09_allocation_fate_unique", "C09_event_sources",
    "C09_claim_conditions", "C09_refund_conditions",
]
MODEL_TARGETS = ["Model/Verifreg"]
HARNESS = [
    {"bin": "verifreg", "tag": "verifreg",
     "quick": {"cases": 300, "len": 40, "shards": 16},
     "thorough": {"cases": 4500, "len": 50, "shards": 64},
     "search": {"cases": 900, "len": 45}},
]
TRUSTED_BASE = TRUSTED_BASE_COMMON + [
    "C09 model coq/Model/Verifreg.v: hand-written transcription of actors/verifreg/src/{lib,state,expiration}.rs and of actors/datacap/src/lib.rs together with the frc46_token crate it wraps (external crate: balances / supply / allowances / receiver hook with roll-back are modelled and validated by the correspondence check, not verified); one model step = one top-level message, a failing message leaves the state unchanged (VM roll-back)",
    "tools/translator_verifreg.py: TOKEN_PRECISION (frc46_token source pinned by /repo/Cargo.lock), DATACAP_GRANULARITY, INFINITE_ALLOWANCE, mint operator list; policy limits come from Gen/Consts.v",
    "signatures of removal proposals are inputs of the operation (signer, proposal id, amount, client): the harness builds real proposal bytes and the real account actor authenticates them on the implementation side",
    "the registry's events are read from the harness VM's invocation traces (emitter = registry) and compared with the model's event list after every message; HAMT iteration order of the `remove all expired` variants is canonicalised by sorting on both sides",
    "harness VM quirk canonicalised: a failed validate_immediate_caller_type is SYS_ASSERTION_FAILED(10) on the harness VM (inherited from /repo/test_vm) and USR_FORBIDDEN(18) in runtime/src/runtime/fvm.rs; the model and the recorded observation use 18",
]
ASSUMPTIONS = [
    "world_ok: the registry's id (6) is not among the accounts / miners / root key of the world; callers_ok: no top-level message is sent by the registry actor itself (hypotheses of registry_balance_is_unclaimed_allocations and allocation_fate_unique; the supply theorems need neither)",
    "parties (verifier / client / provider / refund target parameters) are account actors, miner actors, the root multisig or ids without an actor; singleton actors are not used as parties; all addresses are ID addresses",
    "ids, sizes and epochs are u64/i64 in Rust and Z in the model (the generator stays within range; next_allocation_id cannot realistically overflow)",
    "a send to an id without an actor answers 24 on the harness VM (production FVM: NotFound -> USR_UNSPECIFIED 23); only `not OK` is used by the theorems",
    "repeated ids among the expired entries of one RemoveExpired{Allocations,Claims} call make the actor panic (`unwrap` on None): modelled as exit 24 with roll-back, counted as modelled_panics",
]
MAY_NEVER_ACCEPT = []


def extra_checks(root, work, stats, tier):
    """the run must have exercised the transitions the theorems are about"""
    out = []
    need = ["allocations_created", "allocations_claimed", "allocations_refunded", "claims_removed",
            "claim_extensions_by_datacap", "claim_term_extensions", "transfers_rolled_back_by_hook",
            "modelled_panics", "claim_group_code_17", "claim_group_code_18"]
    for st in stats:
        ex = st.get("extra") or {}
        if st.get("cases", 0) < 50:
            continue  # replay / tiny runs
        for k in need:
            if not ex.get(k):
                out.append(("generator-coverage", f"{st['tag']}: `{k}` never happened"))
    return out
