from .common import TRUSTED_BASE_COMMON
import json, os

THEOREMS = [
    "C20_generated_tables",
    "C20_fresh_id_exec", "C20_fresh_id_exec4", "C20_fresh_id_auto_creation",
    "C20_next_id_monotone", "C20_wf_preserved", "C20_new_actors_get_fresh_ids",
    "C20_returned_ids_never_repeat", "C20_returned_ids_increase",
    "C20_stable_address_permanent",
    "C20_can_exec_matrix", "C20_exec_ok_implies_matrix", "C20_matrix_implies_exec_ok",
    "C20_power_actor_unique", "C20_exec4_only_from_eam",
    "C20_create_address_formula", "C20_create2_address_formula", "C20_create_external_address_formula",
    "C20_rlp_layout", "C20_rlp_scalar_examples", "C20_rlp_pair_injective", "C20_create2_preimage_injective",
    "C20_create_addresses_distinct",
    "C20_no_overwrite", "C20_body_of_every_initcode_is_an_extension", "C20_vm_create_actor_no_overwrite",
    "C20_actor_code_automaton",
    "C20_reserved_never_assigned", "C20_can_assign_meaning", "C20_reserved_ranges",
    "C20_nonce_monotone", "C20_nonce_incremented_even_if_child_fails",
    "C20_nonce_untouched_when_endowment_too_big", "C20_nonce_only_grows_literal_refuted",
]
MODEL_TARGETS = ["Model/Init", "Model/Eam"]
HARNESS = [
    {"bin": "identity", "tag": "identity",
     "quick": {"cases": 400, "len": 30, "shards": 16},
     "thorough": {"cases": 6000, "len": 45, "shards": 64},
     "search": {"cases": 1500, "len": 40}},
]
TECHNIQUE = "machine-checked proof (Coq 8.16.1) about an executable model + step-by-step correspondence with the real actors"
TRUSTED_BASE = TRUSTED_BASE_COMMON + [
    "C20 models coq/Model/Init.v (init actor + VM actor table: create_actor, account/placeholder auto-creation, new_actor_address counter) and coq/Model/Eam.v (EAM create/create2/create_external/create_actor, EVM constructor/resurrect/is_dead, CREATE/CREATE2 nonce handling, byte-level RLP and CREATE2 pre-images): hand-written transcriptions, validated by the correspondence run",
    "keccak256 is a Section variable in the theorems; in the correspondence run it is the table of (pre-image, digest) pairs recorded from the real hash primitive (harness hook in FakePrimitives.hash), so the pre-image bytes computed by the model must be exactly the bytes the implementation hashed",
    "tools/translator_identity.py: can_exec matrix, Exec4 caller guard, can_assign_address conjuncts, reserved-range constants, builtin type numbers, 'increment_nonce before send' and 'endowment check before increment' orderings, initial nonce -- read syntactically from /repo and pinned by C20_generated_tables",
    "the harness's hand-assembled EVM contracts (factory, killable, failing constructors) -- the model describes their behaviour by icode/rcode; a mismatch shows as a disagreement",
    "harness VM semantics (vvm): actor creation over placeholders only, auto-creation on send, placeholder -> EthAccount on first message, per-message new-actor counter shared by nested calls (harness fix of a test_vm artifact), validate_immediate_caller_type failing with SYS_ASSERTION_FAILED(10) where FvmRuntime answers USR_FORBIDDEN",
    "constructor results of non-EVM actors (multisig, paych, miner, account) are inputs of the operation, read from the implementation's invocation trace",
]
ASSUMPTIONS = [
    "next_id (u64) does not overflow: ids are unbounded N in the model",
    "nonces quantify over all Z in the model; RLP injectivity is proved for 0 <= nonce < 2^64 and 20-byte addresses (EthAddress is [u8; 20], nonce is u64 in Rust)",
    "value transfers are not modelled (all harness messages carry value 0 except the create-miner deposit; the 'endowment > balance' branch of CREATE is a flag of the operation)",
    "C20_reserved_never_assigned is about the address manager's methods; a direct Init.Exec4 from the EAM's id with a reserved subaddress (impossible for the real EAM code, possible for an injected sender) is not covered, and the generator never does it",
    "the literal clause 'deployer nonces only grow' is refuted for self-destructed-and-redeployed contracts (C20_nonce_only_grows_literal_refuted, Ethereum-conformant behaviour); the proved statement is C20_nonce_monotone",
]
MAY_NEVER_ACCEPT = []
LEVEL_TEXT = "proof + correspondence"


def extra_checks(root, work, stats, tier):
    """coverage the property needs: resurrections, placeholder deployments, forced reserved digests rejected,
    failing constructors that kept the nonce, multi-pre-image messages"""
    out = []
    for st in stats:
        if st.get("tag") != "identity" or st.get("cases", 0) < 100:
            continue
        ex = st.get("extra", {})
        need = ["resurrected", "selfdestructed", "transition_13_to_14", "transition_13_to_16",
                "factory_child_failed", "factory_second_child_created", "forced_digest_code_18",
                "forced_digest_code_0", "nonce_advanced", "preimages_2"]
        miss = [k for k in need if not ex.get(k)]
        if miss:
            out.append(("generator-coverage", f"identity: scenarios never reached: {miss}"))
    return out
