from .common import TRUSTED_BASE_COMMON
THEOREMS = [
    "C03_reward_vesting_spec_pinned",
    "C03_ip_ledger_exact", "C03_pcd_ledger_exact", "C03_locked_ledger_exact", "C03_totals_nonneg",
    "C03_schedule_exact",
    "C03_network_pledge_exact_refuted", "C03_network_pledge_exact_modulo_deposit",
    "C03_network_pledge_nonneg", "C03_pledge_update_never_blocks_refuted",
    "C03_network_pledge_nonneg_only_by_rejection",
    "C03_never_blocks_without_creation_deposit", "C03_never_blocks_when_others_cover",
    "C03_duplicate_in_prove_commit_batch_aborts",
    "C03_queued_termination_keeps_pledge", "C03_processed_termination_releases_pledge",
    "C03_rejected_call_changes_nothing", "C03_failed_cron_only_drops_claim",
]
MODEL_TARGETS = ["Model/Collateral"]
HARNESS = [
    {"bin": "collateral", "tag": "collateral",
     "quick": {"cases": 40, "len": 30, "shards": 8},
     "thorough": {"cases": 1200, "len": 45, "shards": 48},
     "search": {"cases": 150, "len": 40}},
]
RULE = ("each case is a seeded history over 1-3 real miners created through the real Power::CreateMiner (creation deposit "
        "left in place): pre-commit, prove-commit (batches up to 43 sectors), expiring pre-commits, block rewards with "
        "penalties, consensus-fault reports, debt repayment, withdrawals, terminations, window PoSts, clock jumps from 5 "
        "epochs to 215 days and deadline-by-deadline cron; every top-level message is one step (its miner invocations, "
        "with the inputs read from the trace / state difference, are replayed by Model/Collateral.step and the full "
        "observation is compared); the first case is the scripted F1 witness; distinct by hash; non-trivial = at least "
        "one miner invocation accepted and one rejected")
MAY_NEVER_ACCEPT = ["award", "cron_other", "other"]
TRUSTED_BASE = TRUSTED_BASE_COMMON + [
    "C03 model coq/Model/Collateral.v: hand-written transcription of the pledge/deposit/vesting side of actors/miner "
    "(lib.rs handlers, state.rs, vesting_state.rs) and of power.update_pledge_total / claim deletion; INPUTS of the "
    "operations (not modelled): deposit and pledge values, which pre-commits/sectors expire or are processed in a cron "
    "callback, the fee debt to repay, and `ext` = the exit code of every check outside the model (caller, balance, "
    "proofs, deadlines); the harness reads them from the real invocation trace / state difference. For a cron callback "
    "rolled back because UpdatePledgeTotal was refused, the inputs are read from a re-execution of the same tick with an "
    "enlarged pledge total (harness/src/bin/collateral.rs, `counterfactual`); for rolled-back user calls the fee debt is "
    "inferred from the refused delta (counted as inferred_inputs)",
    "harness readers of the miner state (sectors AMT x partition bitfields, early_terminated queues, pre-commit map, "
    "vesting table) in harness/src/bin/collateral.rs",
]
ASSUMPTIONS = [
    "fee debt, balances and the penalty/pledge/deposit formulas are outside the model (C14/C15 cover fee debt and balance); "
    "the theorems quantify over all values of those inputs",
    "ProveCommitSectorsNI, ProveReplicaUpdates3 and DisputeWindowedPoSt are modelled (MProveCommit without pre-commit is "
    "not; MReplicaUpdate, MRepay) but not exercised by the harness (no deals / no optimistic PoSt disputes in the generator)",
    "vvm stands in for the production FVM; policy.addressed_sectors_max is lowered to 1-2 in a quarter of the cases to "
    "exercise the early-termination queue",
]
LEVEL_TEXT = ("Proof (Coq) over the multi-miner model for all histories: the three per-miner ledgers are exact, the network total "
              "equals the sum of (pledge + vesting funds) minus the creation deposits and is never negative; the literal clauses "
              "network_pledge_exact and pledge_update_never_blocks are refuted (vm_compute witnesses = finding F1, reproduced on the "
              "real code by the harness), with conditional never-blocks theorems; correspondence validated on seeded histories of the "
              "real miner/power/reward/cron actors. Partial: amounts and expiry schedules are inputs.")


def extra_checks(root, work, stats, tier):
    """the scripted F1 witness must still be exercised, and the generator must reach the deep paths"""
    out = []
    for st in stats:
        ex = st.get("extra") or {}
        # a rejection that the model takes as an input (`ext`) must come before any pledge notification;
        # otherwise the sends of that step were not compared
        if ex.get("ext_after_notify", 0):
            out.append(("correspondence", f"collateral: {ex['ext_after_notify']} miner invocations failed for a reason outside the model AFTER sending UpdatePledgeTotal"))
        oh = st.get("accepted", {})
        if tier == "thorough":
            for k in ("terminate", "cron_deadline", "provecommit", "withdraw", "apply_rewards", "report_fault"):
                if oh.get(k, 0) == 0:
                    out.append(("generator-coverage", f"collateral: `{k}` never accepted"))
    return out
