from .common import TRUSTED_BASE_COMMON

_OPS = ["add", "mul", "sub", "div", "sdiv", "mod", "smod", "addmod", "mulmod", "exp", "signextend",
        "lt", "gt", "slt", "sgt", "eq", "iszero", "and", "or", "xor", "not", "byte", "shl", "shr", "sar", "clz"]

THEOREMS = (
    ["C17_word_size"]
    + [f"C17_impl_{o}_correct" for o in _OPS]
    + ["C17_word_ops_agree", "C17_spec_ops_in_range", "C17_spec_ops_closed", "C17_impl_ops_closed",
       "C17_exp_spec_is_math", "C17_impl_exp_is_math",
       # machine level (Model/EvmMachine.v run with impl_ops = run with spec_ops)
       "C17_machine_refines_generic", "C17_machine_refines_spec", "C17_machine_refines_spec_from_start",
       "C17_machine_pow_refines_spec", "C17_machine_stack_holds_words", "C17_machine_same_step"]
)
MODEL_TARGETS = ["Model/EvmSpec", "Model/EvmWord", "Model/EvmWordCorr"]
HARNESS = [
    # --cases = random operand tuples PER INSTRUCTION (EXP: cases/exp-div), on top of all pairs /
    # triples of the 18 boundary words; --len = cases per history (chunk)
    {"bin": "evm_ops", "tag": "evm_ops",
     "quick": {"cases": 600, "len": 40, "shards": 16},
     "thorough": {"cases": 10000, "len": 50, "shards": 64, "exp-full": 1, "exp-div": 20},
     "search": {"cases": 2000, "len": 40}},
]
RULE = ("one history = a chunk of up to --len (opcode, operands, returned word) steps of one instruction; operands = all "
        "pairs/triples of the boundary set {0,1,2,7,8,31,32,255,256,2^64-1,2^64,2^64+1,2^128,2^255-1,2^255,2^255+1,W-2,W-1} "
        "plus seeded random 256-bit words (dense, small, near 2^k, sparse, small negative, random length, runs of ones, "
        "around 2^255, limb patterns; index/shift operands concentrated on 0..300); every step is executed by the REAL EVM "
        "actor (contract deployed through the EAM, InvokeContract) and compared inside Coq with BOTH spec_ops and impl_ops")
TRUSTED_BASE = TRUSTED_BASE_COMMON + [
    "C17 specification coq/Model/EvmSpec.v: hand-written rendering of the Yellow Paper / EIP-145 / EIP-7939 definitions of the 26 word instructions as Z functions (the reference the theorems compare against)",
    "C17 model coq/Model/EvmWord.v: hand-written transcription of actors/evm/shared/src/uints.rs (i256 helpers, PartialOrd<u64>, U512 conversions) and actors/evm/src/interpreter/instructions/{arithmetic,bitwise,boolean}.rs; the primitives of the `uint` crate (256/512-bit wrapping add/sub/mul, div, rem, shifts, bit, byte, leading_zeros, comparisons) and of u32/u64 are MODELLED as the corresponding Z operations (mask to 256 bits etc.) -- validated by the per-instruction correspondence run, not proved",
    "C17 correspondence encoding coq/Model/EvmWordCorr.v: 256-bit words are written as five 60-bit primitive-integer (Uint63) literals and decoded with Uint63.to_Z inside vm_compute (parsing speed only; no theorem mentions primitive integers); opcode byte -> instruction table `apply_op` restated there and cross-checked against the jump table the harness reads from the compiled crate (fil_actor_evm::interpreter::opcodes)",
]
ASSUMPTIONS = [
    "WORD LEVEL: each of the 26 arithmetic/comparison/bitwise/shift instructions, as a function of its 1-3 stack operands in [0, 2^256): transcribed algorithm = specification for all operands",
    "MACHINE LEVEL (C17_machine_*): the interpreter model coq/Model/EvmMachine.v (owned by the EVM-machine work) run with impl_ops equals the same model run with spec_ops, for every environment, fuel and start state whose stack holds words; this transfers the word-level result to whole programs but says nothing by itself about how faithfully EvmMachine.v models the stack/memory/storage/control-flow instructions -- that is the machine's own correspondence check (program-level harness), not part of this file's HARNESS list",
    "operands are in [0, 2^256) (what a U256 can hold); the theorems say nothing outside that range",
    "gas is not modelled (FEVM instructions do not charge EVM gas); EXP cost is irrelevant to its result",
]
LEVEL_TEXT = ("proof (all operands, 26 instructions: transcribed algorithm = specification; machine with impl_ops = machine with spec_ops "
              "for all programs/fuel; closed under the global context) "
              "+ correspondence (real EVM actor bytecode execution vs both the specification and the transcribed algorithm, "
              "boundary pairs/triples and random words)")
TECHNIQUE = "machine-checked proof in Coq about an executable Gallina model + correspondence check against the real Rust code"


def extra_checks(root, work, stats, tier):
    """every one of the 26 instructions must have been executed, successfully, on boundary and random operands, and a
    sample must have gone through the PUSH32 (immediate) form"""
    out = []
    for st in stats:
        if st.get("tag") != "evm_ops":
            continue
        if st.get("extra", {}).get("replay"):
            continue
        ops = st.get("op_hist", {})
        if len(ops) != 26:
            out.append(("generator-coverage", f"evm_ops: {len(ops)} of 26 instructions executed"))
        for k, n in ops.items():
            ok = st.get("accepted", {}).get(k, 0)
            if ok != n:
                out.append(("correspondence", f"evm_ops: {k}: {n - ok} of {n} executions did not return a 32-byte word"))
        ex = st.get("extra", {})
        if ex.get("immediate_form_cross_checks", 0) == 0:
            out.append(("generator-coverage", "evm_ops: no case was cross-checked in the PUSH32 immediate form"))
    return out
