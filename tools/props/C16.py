from .common import TRUSTED_BASE_COMMON
THEOREMS = [
    "C16_settle_delay_is_12_hours", "C16_update_accepts_iff", "C16_rejected_call_changes_nothing",
    "C16_update_delta_exact", "C16_no_replay", "C16_nonce_monotone", "C16_to_send_bounds",
    "C16_settle_delay", "C16_settling_at_monotone", "C16_collect_payout", "C16_payout_only_by_collect",
]
MODEL_TARGETS = ["Model/Paych"]
HARNESS = [
    {"bin": "paych", "tag": "paych",
     "quick": {"cases": 1600, "len": 30, "shards": 16},
     "thorough": {"cases": 9600, "len": 40, "shards": 48},
     "search": {"cases": 6000, "len": 40}},
]
TRUSTED_BASE = TRUSTED_BASE_COMMON + [
    "C16 model coq/Model/Paych.v: hand-written transcription of actors/paych/src/lib.rs; signature validity, secret hash match, extra-call result are inputs of the Update operation (the harness derives them from how it built the voucher; the real account actor's AuthenticateMessage and real blake2b run on the implementation side)",
]
ASSUMPTIONS = [
    "lane ids and nonces are u64 in Rust; the theorems quantify over all Z (the generator stays within u64)",
    "from <> to (the constructor does not forbid from = to; not explored)",
]
