import json, os, re
from .common import TRUSTED_BASE_COMMON
THEOREMS = [
    "C14_spec_pinned", "C14_quantize_up_spec", "C14_pps_shift_irrelevant",
    "C14_schedule_sum", "C14_schedule_well_formed", "C14_schedule_linear_upper", "C14_schedule_linear_lower",
    "C14_schedule_complete_by", "C14_reward_schedule_complete_by",
    "C14_add_locked_exact", "C14_unlock_exact", "C14_unlock_all_eventually", "C14_penalty_draw_exact",
    "C14_creation_deposit_locked", "C14_table_sum_is_locked_funds_and_solvent", "C14_invariant_preserved",
    "C14_balance_check_never_fails",
    "C14_rejected_call_changes_nothing", "C14_no_early_unlock_except_penalty", "C14_locked_conserved",
    "C14_rewards_lock_75_percent", "C14_locked_reward_is_three_quarters",
    "C14_withdraw_bound", "C14_withdraw_payee_and_caller", "C14_withdraw_quota_and_expiry",
    "C14_withdraw_blocked_by_early_terminations", "C14_withdraw_repays_debt_fully",
]
MODEL_TARGETS = ["Model/Vesting", "Model/MinerFunds"]
HARNESS = [
    # function level: real VestingFunds (tag vesting) and real miner State funds methods (tag mstate)
    {"bin": "vesting", "tag": "vesting",
     "quick": {"cases": 600, "len": 25, "shards": 16},
     "thorough": {"cases": 9000, "len": 40, "shards": 64},
     "search": {"cases": 3000, "len": 30}},
    # actor level: real miner actor created through Power::CreateMiner on the harness VM
    {"bin": "minerfunds", "tag": "minerfunds",
     "quick": {"cases": 200, "len": 28, "shards": 16},
     "thorough": {"cases": 3000, "len": 45, "shards": 64},
     "search": {"cases": 800, "len": 35}},
]
TRUSTED_BASE = TRUSTED_BASE_COMMON + [
    "C14 models coq/Model/Vesting.v and coq/Model/MinerFunds.v: hand-written transcriptions of actors/miner/src/{vesting_state,quantize,state,lib,monies,beneficiary}.rs (funds side only); the exit code of the nested power-actor calls (UpdatePledgeTotal, EnrollCronEvent) is an input of the operation, read by the harness from the real invocation trace",
    "harness hooks: AddPcd / AddIp / SetEarlyTerm change pre_commit_deposits / initial_pledge / early_terminations of the real miner state directly (with the real State::add_pre_commit_deposit / add_initial_pledge and the real availability checks) because the sector handlers that normally do so are outside C14; the deadline cron is injected as OnDeferredCronEvent from the power actor for a miner without sectors",
    "the vesting table is compared through: length, sum, a position-weighted checksum of all entries, the first 8 raw entries, the length of VestingFunds::load and the checksum of GetVestingFunds (not entry by entry beyond the first 8)",
]
ASSUMPTIONS = [
    "epochs are i64 and amounts BigInt in Rust; the theorems quantify over all Z (quantize_up uses truncating Z.rem/Z.quot exactly as Rust i64 does; i64 overflow of epochs is not modelled)",
    "vesting specs with step_duration <= 0 or quantization <= 0 (the Rust schedule loop would not terminate / divide by zero) are outside spec_ok; REWARD_VESTING_SPEC, the only spec the actor uses, satisfies spec_ok (proved from the generated constants)",
    "the model's pps is the proving_period_start at construction; the cron moves it by whole proving periods, which C14_pps_shift_irrelevant proves invisible to the 12 h quantisation",
    "most actor-level histories first raise the power actor's total_pledge_collateral (UpdatePledgeTotal injected from the miner actor) so that known finding F1 does not block them; the un-padded share reports F1 as KNOWN-FINDING",
    "sector-driven changes of pre-commit deposits / initial pledge / early terminations and penalties from faults are represented by hooks and op inputs, not by the sector code (C03/C15)",
]
LEVEL_TEXT = "proof (Coq, all histories/inputs of the model) + correspondence of the model with the real Rust code on random histories (function level and actor level) + monitors of the property's clauses on the implementation's own states and traces"


def extra_checks(root, work, stats, tier):
    bad = []
    consts = open(os.path.join(root, "coq", "Gen", "Consts.v")).read()
    def c(name):
        m = re.search(r"Definition %s : Z := \(?(-?\d+)\)?\." % name, consts)
        return int(m.group(1)) if m else None
    gen = [c("REWARD_VEST_INITIAL_DELAY"), c("REWARD_VEST_VEST_PERIOD"), c("REWARD_VEST_STEP_DURATION"), c("REWARD_VEST_QUANTIZATION")]
    for st in stats:
        ex = st.get("extra", {})
        if st["tag"] == "vesting":
            comp = ex.get("reward_vesting_spec_compiled")
            if comp != gen:
                bad.append(("generated-constants", f"Gen/Consts.v reward vesting spec {gen} != compiled crate {comp}"))
        if st["tag"] == "minerfunds" and st.get("cases", 0) >= 50:
            if not ex.get("histories_with_padded_network_pledge_total") or not ex.get("histories_without_padding"):
                bad.append(("generator-coverage", "minerfunds: need both padded and un-padded histories"))
            codes = st.get("code_hist", {})
            for need in ("withdraw:0", "withdraw:18", "withdraw:19", "apply_rewards:0", "apply_rewards:19", "repay_debt:0", "deadline_cron:0"):
                if not codes.get(need):
                    bad.append(("generator-coverage", f"minerfunds: outcome {need} never observed"))
    return bad
