import json, os, re
from .common import TRUSTED_BASE_COMMON
THEOREMS = [
    "C13_worker_key_change_delay_is_finality",
    "C13_step_accepts_iff", "C13_rejected_call_changes_nothing",
    "C13_change_owner_accepts_iff", "C13_change_worker_accepts_iff", "C13_confirm_worker_accepts_iff",
    "C13_change_beneficiary_accepts_iff", "C13_withdraw_accepts_iff", "C13_change_peer_accepts_iff",
    "C13_owner_step", "C13_owner_changes_only_by_handshake",
    "C13_worker_step", "C13_pending_worker_step", "C13_worker_delay", "C13_controls_step",
    "C13_beneficiary_step", "C13_bterm_step", "C13_pending_term_backed", "C13_beneficiary_two_sided",
    "C13_withdraw_within_quota",
    "C13_rights_retained_until_completion", "C13_owner_rights_retained", "C13_worker_rights_retained",
    "C13_pending_owner_step", "C13_only_owner_withdraws_handover",
    "C13_strangers_change_nothing", "C13_non_owner_limits",
]
MODEL_TARGETS = ["Model/MinerCtl"]
HARNESS = [
    {"bin": "minerctl", "tag": "minerctl",
     "quick": {"cases": 400, "len": 50, "shards": 16},
     "thorough": {"cases": 6000, "len": 70, "shards": 64},
     "search": {"cases": 1500, "len": 60}},
]
TECHNIQUE = "machine-checked proof (Coq) about an executable model + step-by-step correspondence of the model with the real miner actor"
LEVEL_TEXT = ("proof: per-step theorems over arbitrary states and history theorems by induction over arbitrary operation "
              "lists of coq/Model/MinerCtl.v; correspondence: the real miner actor (created by the real power actor) on the "
              "harness VM, compared with the model after every call; monitor: the per-step relations of the theorems on "
              "consecutive real MinerInfo values")
TRUSTED_BASE = TRUSTED_BASE_COMMON + [
    "C13 model coq/Model/MinerCtl.v: hand-written transcription of change_owner_address, change_worker_address, "
    "confirm_change_worker_address, process_pending_worker, change_beneficiary, the caller/payee/used_quota part of "
    "withdraw_balance and the caller guard of change_peer_id (actors/miner/src/lib.rs), BeneficiaryTerm::available "
    "(beneficiary.rs) and the control fields of MinerInfo (state.rs); address resolution (rt.resolve_address, the "
    "account-with-BLS-key test of resolve_worker_address) is an input of the operation -- the harness derives it from "
    "how it built the parameter while the real init/account actors resolve it on the implementation side",
    "the miner's available balance is modelled as a plain counter (`funds`): the harness uses "
    "integration_tests::util::create_miner, which zeroes the creation deposit's vesting table, and the miner never has "
    "sectors, pledge or fee debt in these histories (vesting, pledge and debt are C03/C14 material)",
]
ASSUMPTIONS = [
    "history theorems start from a state with no pending owner / worker key / beneficiary proposal (the constructor's "
    "state MinerInfo::new; `init` in the model)",
    "actor ids, epochs and token amounts are unbounded integers in the model (u64 / i64 / BigInt in Rust); the generator "
    "stays within range, epoch + worker_key_change_delay does not overflow i64 in explored histories",
    "callers are account actors (the generator never sends from a non-account actor except the injected power/cron "
    "callers of OnDeferredCronEvent); internal vs FRC-42 exported method numbers are both exercised",
]


def extra_checks(root, work, stats, tier):
    out = []
    consts = open(os.path.join(root, "coq", "Gen", "Consts.v")).read()
    def gen(name):
        m = re.search(r"Definition %s : Z := \(?(-?\d+)\)?\." % name, consts)
        return int(m.group(1)) if m else None
    for st in stats:
        ex = st.get("extra", {})
        # the generated constants must be the values the compiled Rust policy uses
        if "worker_key_change_delay" in ex and ex["worker_key_change_delay"] != gen("WORKER_KEY_CHANGE_DELAY"):
            out.append(("translator-vs-rustc", "Gen.WORKER_KEY_CHANGE_DELAY=%s but the compiled policy has %s" % (gen("WORKER_KEY_CHANGE_DELAY"), ex["worker_key_change_delay"])))
        if "max_control_addresses" in ex and ex["max_control_addresses"] != gen("MAX_CONTROL_ADDRESSES"):
            out.append(("translator-vs-rustc", "Gen.MAX_CONTROL_ADDRESSES=%s but the compiled policy has %s" % (gen("MAX_CONTROL_ADDRESSES"), ex["max_control_addresses"])))
        # every interesting transition must have been explored (not for --replay runs: few steps)
        tr = ex.get("transitions", {})
        if st.get("cases", 0) >= 100:
            for k, v in tr.items():
                if v == 0:
                    out.append(("generator-coverage", "transition `%s` never explored" % k))
            if tr and tr.get("beneficiary_changed_two_sided", 0) - tr.get("of_which_auto_approved_exhausted_term", 0) <= 0:
                out.append(("generator-coverage", "no beneficiary change approved by a beneficiary with an active term"))
    return out
