from .common import TRUSTED_BASE_COMMON
THEOREMS = [
    "C04_partinv_unfolds", "C04_live_sector_in_exactly_one_set", "C04_partinv_initial",
    "C04_partinv_step", "C04_partinv_reachable", "C04_validate_state_redundant",
    "C04_rejected_call_changes_nothing", "C04_quant_up_idempotent",
    "C04_deadlineinv_initial", "C04_deadlineinv_step", "C04_deadlineinv_reachable",
    "C04_deadline_validate_state_redundant",
    "C04_sector_in_exactly_one_partition", "C04_sector_number_allocated_once",
    "C04_allocated_only_grows", "C04_assign_deadlines_spec",
]
MODEL_TARGETS = ["Model/Partition", "Model/PartitionInv", "Model/Deadline", "Model/DeadlineInv"]
HARNESS = [
    {"bin": "partition", "tag": "partition",
     "quick": {"cases": 1200, "len": 30, "shards": 8},
     "thorough": {"cases": 20000, "len": 45, "shards": 32},
     "search": {"cases": 4000, "len": 40}},
    {"bin": "deadline", "tag": "deadline",
     "quick": {"cases": 300, "len": 30, "shards": 8},
     "thorough": {"cases": 6000, "len": 40, "shards": 32},
     "search": {"cases": 1500, "len": 35}},
    # handler / State level (monitor only): what Partition and Deadline cannot show, i.e. how the miner
    # actor's handlers combine them (one message over several deadlines / partitions, State.early_terminations)
    {"bin": "minerpower", "tag": "minerpower",
     "quick": {"cases": 300, "len": 30, "shards": 1},
     "thorough": {"cases": 1500, "len": 30, "shards": 1},
     "search": {"cases": 900, "len": 30}},
]
TRUSTED_BASE = TRUSTED_BASE_COMMON + [
    "C04 model coq/Model/Partition.v: hand-written transcription of actors/miner/src/{partition_state,expiration_queue,bitfield_queue,quantize}.rs (every Partition operation and the queue operations under it); power_for_sector is abstracted (a sector record carries the raw/QA power the real function returns, computed by the harness with the real code); loops are written as monadic folds (for_each / for_each_while); entries emptied during iter_while_mut are deleted at once instead of after the traversal and reschedule_all_as_faults writes mutated sets at once (same resulting queue and error class; validated by the correspondence check)",
    "C04 harness/src/bin/partition.rs: drives the real fil_actor_miner::Partition with MemoryBlockstore function by function, restoring partition and sector table on Err (the actor's transaction rollback); monitors = Partition::validate_state, the repo's own testing.rs PartitionStateSummary checker, and an independent Rust evaluation of PartInv on the real structure",
]
TRUSTED_BASE += [
    "C04 model coq/Model/Deadline.v: hand-written transcription of actors/miner/src/deadline_state.rs (partitions array, deadline expiration queue, partitions_posted, early_terminations, sector counts, faulty/live power and daily-fee memos; add_sectors, record_proven_sectors, process_deadline_end, pop_expired_sectors, terminate_sectors, record_faults, declare_faults_recovered, compact_partitions, pop_early_terminations), of deadline_assignment.rs::assign_deadlines and State::allocate_sector_numbers; PoSt proof records / snapshots (dispute machinery) and reschedule_sector_expirations (dead code) are not modelled",
    "C04 harness/src/bin/deadline.rs: drives the real fil_actor_miner::Deadline, assign_deadlines and State::allocate_sector_numbers function by function; monitors = the repo's testing.rs check_deadline_state_invariants, an independent Rust DeadlineInv (+ DeadlineExpInv), allocation monotonicity",
]
TRUSTED_BASE += [
    "C04 harness/src/bin/minerpower.rs (monitor only, shared with C02): real miner actor handlers on the harness VM; after every message and cron tick the repo's own miner::testing::check_state_invariants (partition bitfields, expiration queues of partitions AND deadlines, early-termination queues, memos) plus State.early_terminations == the deadlines with queued early terminations; scripted preludes: one TerminateSectors over two deadlines, one ExtendSectorExpiration2 over several partitions of one deadline (2KiB proofs: partitions of 2 sectors), TerminateSectors with addressed_sectors_max equal to the batch",
]
ASSUMPTIONS = [
    "op_wf: the sector infos passed to add_sectors / replace_sectors have pairwise distinct numbers, non-negative power/pledge/fee, and replacement infos are numbered like the replaced sectors or fresh (what the miner actor guarantees: sector numbers are allocated once, replace_sectors is called with the same numbers); Partition itself does not check this, and the harness shows both model and code accept such calls and break the invariant",
    "quantisation unit > 0 (QuantSpec of a deadline: the proving period)",
    "dop_wf: sectors added to a deadline carry numbers not in use in that deadline (sector numbers are allocated once); partition size > 0",
    "DeadlineExpInv (every partition expiration epoch is registered in the deadline queue) is monitored, not proved; it needs non-decreasing fault expirations (what the actor passes)",
    "sector numbers, epochs, powers are unbounded integers in the model (u64 / i64 / BigInt in Rust; negative AMT keys are modelled as the conversion error)",
]
LEVEL_TEXT = "proof (partition + expiration queue + deadline, every operation) + function-level correspondence"
