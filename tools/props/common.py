TRUSTED_BASE_COMMON = [
    "Coq 8.16.1 kernel (coqc full .vo build; vm_compute used, native_compute not used)",
    "axioms: none declared by this development; Print Assumptions of every pinned theorem is checked against an allow-list of standard-library axioms on every run (observed: Closed under the global context)",
    "tools/translator.py (Rust constants/tables -> coq/Gen/*.v), re-run on every check",
    "correspondence check: harness/ (Rust; vvm = fork of /repo/test_vm's native VM running the real actor code, plus generators and monitors) and coqc evaluating the model with vm_compute on the same histories (no extraction, no Extract directives)",
    "modelled rather than verified: IPLD/CBOR encoding and HAMT/AMT containers (finite maps in the model), cryptographic primitives (oracle inputs of the operation), gas, the production FVM (vvm is modelled on test_vm/ref-fvm)",
]
