from .common import TRUSTED_BASE_COMMON
THEOREMS = [
    "C06_market_constants", "C06_market_inv_reachable", "C06_market_inv_step", "C06_rejected_call_changes_nothing",
    "C06_locked_equals_obligations", "C06_locked_le_escrow", "C06_totals_exact",
    "C06_states_subset_proposals", "C06_market_solvent", "C06_withdraw_exact", "C06_withdraw_auth",
]
MODEL_TARGETS = ["Model/Market"]
HARNESS = [
    {"bin": "market", "tag": "market", "args": ["--prop", "C06"],
     "quick": {"cases": 176, "len": 40, "shards": 16},
     "thorough": {"cases": 2400, "len": 50, "shards": 64},
     "search": {"cases": 600, "len": 45}},
]
TRUSTED_BASE = TRUSTED_BASE_COMMON + [
    "market model coq/Model/Market.v: hand-written transcription of actors/market/src/{state,lib,balance_table,deal,policy}.rs; inputs of an operation (not modelled actors): address resolution / actor kind and a miner's ControlAddresses reply, whether the caller is a miner actor, per deal the client's AuthenticateMessage verdict, label and piece validity, and the minimum provider collateral derived from the reward and power actors' replies (the harness takes all of them from the real actors' states); a proposal's CID is the proposal record itself (no-collision hypothesis)",
    "tools/translator_market.py -> coq/Gen/MarketConsts.v (deal duration bounds, TOTAL_FILECOIN, market exit codes, identity of collateral_penalty_for_deal_activation_missed, caller guards of the privileged handlers), re-run on every check",
    "harness VM quirk: vvm (like test_vm) answers SYS_ASSERTION_FAILED(10) from validate_immediate_caller_type where the production runtime answers USR_FORBIDDEN(18); the harness maps 10 -> 18 for the three miner-only methods when the sender is not a miner",
]
ASSUMPTIONS = [
    "epochs of successive messages never decrease and are >= 0 (hist_ok); the termination epoch a miner passes to OnMinerSectorsTerminate is the current epoch (miner actor code passes rt.curr_epoch()); SettleDealPayments ids form a set (BitField)",
    "verified deals: no client holds DataCap, so PublishStorageDeals drops every verified deal at the datacap-balance check (modelled so; allocation path not modelled); BatchActivateDeals compute_cid=false; client MarketNotifyDeal never fails (account actors)",
    "HAMT iteration order of the deal ids scheduled at one epoch is abstracted to ascending id (the final state does not depend on it unless an error aborts the whole cron tick)",
]
MAY_NEVER_ACCEPT = []
