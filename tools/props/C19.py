from .common import TRUSTED_BASE_COMMON
THEOREMS = [
    "C19_source_shape",
    "C19_system_refines_spec", "C19_system_refines_spec_rel", "C19_invoke_simulation",
    "C19_inner_writes_visible_to_outer", "C19_outer_writes_visible_to_inner",
    "C19_reverted_call_leaves_no_trace", "C19_failed_message_leaves_no_trace",
    "C19_transient_shared_within_message", "C19_transient_empty_next_message",
    "C19_selfdestruct_deferred_then_empty_and_paid", "C19_delegatecall_uses_caller_context",
    "C19_readonly_sticky",
]
MODEL_TARGETS = ["Model/EvmWorld"]
HARNESS = [
    {"bin": "evmworld", "tag": "evmworld",
     "quick": {"cases": 600, "len": 4, "shards": 16},
     "thorough": {"cases": 12000, "len": 6, "shards": 64},
     "search": {"cases": 3000, "len": 5}},
]
TECHNIQUE = ("machine-checked refinement proof (Coq 8.16.1): the concrete System protocol model (per-activation "
             "cache, flush before send, reload after success, persisted State with lifespan/tombstone, VM roll-back) "
             "produces the same observations as the abstract EVM-world specification for every world, call tree, "
             "message sequence and fuel; correspondence check: generated systems of 2-4 contracts compiled to real "
             "EVM bytecode by the harness's assembler, deployed through the real EAM/Init/EVM actors, compared per "
             "message (read log, exit code, storage/nonce/code/liveness of every contract, balances, events) with "
             "the specification AND the concrete model evaluated by coqc")
TRUSTED_BASE = TRUSTED_BASE_COMMON + [
    "C19 models coq/Model/EvmWorld.v: hand-written abstract specification and hand-written transcription of "
    "actors/evm/src/interpreter/system.rs, src/lib.rs (load/is_dead/resurrect/invoke_contract/"
    "invoke_contract_delegate/constructor), instructions/{call,lifecycle,storage}.rs and of the VM's per-send "
    "roll-back; state-root CIDs are identified with the State contents they address (canonical KAMT/CBOR)",
    "C19 harness assembler (harness/src/bin/evmworld.rs): scripts -> EVM bytecode (dispatcher on the first "
    "calldata byte, memory read-log returned / reverted, callee logs appended from returndata); a wrong "
    "compilation shows up as a disagreement, never as silent agreement of both models with the code, unless "
    "the bytecode does not exercise the intended instruction",
    "CREATE/CREATE2 addresses (keccak) are not modelled: the harness derives them with the EAM's rules, checks "
    "them against the addresses the EAM assigns, and passes them to the models as tables",
    "Rust transcription of the abstract specification inside the harness (monitor oracle; classifies mismatches)",
]
ASSUMPTIONS = [
    "gas is not modelled: every call gets ample gas (call_gas_limit / the 63/64 rule never bind)",
    "call targets are EVM contracts, plain accounts, or not-yet-created CREATE2 addresses; for the latter the "
    "harness VM (like /repo/test_vm) refuses InvokeContract on a placeholder with exit 22 and both models follow "
    "it, whereas the real placeholder actor accepts every method (a harness-VM quirk on a target class that is "
    "outside the property); precompiles and native actors as call targets are excluded",
    "fuel (call depth) exhaustion is an inner call failure in both models; the harness VM has no depth limit and "
    "generated call graphs are finite (calls go to strictly higher entry points)",
    "events are compared as a multiset per message (the harness VM records events per invocation, not in global "
    "emission order); events of failed invocations are discarded as the FVM does",
    "template (CREATE-deployed) code contains no CREATE and no DELEGATECALL (address tables cover initial "
    "contracts as creators); constructors only store/log/revert",
]
MAY_NEVER_ACCEPT = []
LEVEL_TEXT = "proof (full refinement, all actions) + correspondence on real bytecode"
