from .common import TRUSTED_BASE_COMMON
THEOREMS = [
    "C10_constants",
    "C10_verified_weight_backed",
    "C10_accepted_declarations_are_well_formed",
    "C10_onboard_terms",
    "C10_drop_only_at_end_of_life",
    "C10_extension_never_shortens",
    "C10_claim_term_max_monotone_and_removal_only_after_expiry",
    "C10_reachable_registry_invariant",
]
MODEL_TARGETS = ["Model/ClaimTerms"]
HARNESS = [
    {"bin": "claimterms", "tag": "claimterms",
     "quick": {"cases": 160, "len": 30, "shards": 16},
     "thorough": {"cases": 2400, "len": 40, "shards": 64},
     "search": {"cases": 500, "len": 35}},
]
TRUSTED_BASE = TRUSTED_BASE_COMMON + [
    "C10 model coq/Model/ClaimTerms.v: the C09 registry model (coq/Model/Verifreg.v) joined with a sector view and hand-written transcriptions of actors/miner/src/lib.rs validate_extension_declarations / get_claims / extend_sector_committment / validate_extended_expiration / validate_expiration / extend_simple_qap_sector / extend_non_simple_qap_sector and of the ClaimAllocations call made by ProveCommitSectors3 (activate_sectors_pieces)",
    "not modelled on the miner side: deadlines, partitions, expiration queues (the harness names each sector's real location; sectors are proven once and never become faulty because the epoch is moved without running cron after onboarding), power, pledge and fee arithmetic; the sector view compares activation, expiration, power_base_epoch, deal_weight, verified_deal_weight, SIMPLE_QA_POWER and the partition's terminated bit",
    "onboarding runs the real PreCommitSectorBatch2 / ProveCommitSectors3 / SubmitWindowedPoSt flow of /repo/integration_tests (with cron ticks); the model's Onboard step stands for the ProveCommitSectors3 message of one pre-committed sector whose pieces are all verified allocations",
    "deadline mutability of TerminateSectors is an input of the operation (computed by the real deadline_is_mutable)",
]
ASSUMPTIONS = [
    "F4 / F4b (duplicate claim id in a declaration; one sector in two declarations) were real defects found by this check and repaired in /repo commit 081fc6c; the model transcribes the repaired validator, corpus/C10/F4*.json are regression replays (the messages must now be refused with exit 16), and an accepted malformed declaration is a monitor failure again",
    "live sector = not terminated and expiration later than every epoch at which a message of the history was sent (epochs need not be monotone for the theorem; the harness moves time forward only)",
    "only SIMPLE_QA_POWER sectors are covered by the coverage theorem (legacy sectors lose weight pro rata on extension and never consult claims)",
    "seal proofs of the V1P1 family (maximum lifetime 5 years); sector numbers, ids, sizes, epochs are u64/i64 in Rust and Z in the model",
    "an extension to new_expiration = current epoch makes qa_power_for_weight divide by zero: the actor panics (abort with roll-back), modelled as exit 24",
]
MAY_NEVER_ACCEPT = []


def extra_checks(root, work, stats, tier):
    out = []
    need = ["sectors_onboarded", "sector_extensions", "extensions_dropping_claims", "claims_removed",
            "sectors_terminated"]
    for st in stats:
        ex = st.get("extra") or {}
        if st.get("cases", 0) < 40:
            continue
        for k in need:
            if not ex.get(k):
                out.append(("generator-coverage", f"{st['tag']}: `{k}` never happened"))
    return out
