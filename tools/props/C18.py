import os
from .common import TRUSTED_BASE_COMMON
# C18_CASES: smaller budget for mutation experiments (tools/with_mutation.sh)
_N = int(os.environ.get("C18_CASES", "1200"))
THEOREMS = [
    "C18_constants", "C18_opcode_table_matches_spec", "C18_arity_discipline", "C18_pop_many_in_bounds",
    "C18_step_total", "C18_run_terminates_or_fuel", "C18_run_outcome_defined",
    "C18_stack_bound_inv", "C18_stack_bound_from_start",
    "C18_mem_region_refuses", "C18_zero_size_region_does_not_expand", "C18_memory_access_guard",
    "C18_memory_size_bounded",
    "C18_jumpdest_analysis_correct", "C18_jump_lands_on_jumpdest", "C18_run_visits_boundaries",
    "C18_readonly_no_effect", "C18_run_ext", "C18_spec_ops_ok",
]
MODEL_TARGETS = ["Model/EvmMachine"]
# one binary, one tag: the stack-edge plan (every opcode byte at stack depth 1023 / 1024) always runs
# first, followed by `cases` generated programs (random bytes / grammar / mutated, as runtime code and as
# init code, each also beneath STATICCALL proxies)
HARNESS = [
    {"bin": "evm_prog", "tag": "evm_prog",
     "quick": {"cases": _N, "shards": 16},
     "thorough": {"cases": 40000, "shards": 64, "thorough": 1},
     "search": {"cases": min(3000, 2 * _N)},
     "timeout": 6000},
]
TECHNIQUE = "machine-checked proof (Coq) about an executable model of the interpreter + correspondence check on the real EVM actor"
LEVEL_TEXT = ("proof + correspondence; partial: memory safety of the unsafe blocks is argued at the level of the index "
              "arithmetic (pop_many_in_bounds, DUP/SWAP heights, stack bound), not exhibited at run time")
RULE = ("one history = deploy a generated program through the real EAM/Init/EVM actors, then invoke it directly and "
        "beneath 1-3 STATICCALL/CALL proxies; distinct by hash of (ops, observations); non-trivial = at least one "
        "message accepted (exit 0 / call flag 1) and one rejected")
TRUSTED_BASE = TRUSTED_BASE_COMMON + [
    "C18 model coq/Model/EvmMachine.v: hand transcription of actors/evm/src/interpreter/{execution,stack,memory,bytecode}.rs and instructions/*.rs; the opcode table, macro stack discipline, exit codes and limits are regenerated from the Rust sources (tools/translator_evm.py -> coq/Gen/Opcodes.v)",
    "oracle inputs of the model (recorded on the implementation side): keccak digests (hook on the VM's hash_64 primitive), results of the messages the contract sends (VM invocation trace), context values (harness VM configuration), other accounts' balance/code",
    "harness VM (vvm) semantics of read-only propagation, value transfer and actor creation; harness/Cargo.toml gained the `log` dependency (precompile-call detection through call.rs's log line)",
]
ASSUMPTIONS = [
    "gas is not modelled: fuel = number of instructions, universally quantified; generated programs with unbounded loops are killed by a watchdog and dropped (counted in extra.skipped.timeout)",
    "precompiles, and the revert data of failed nested calls to contracts other than the fixed helper contracts, are not available to the model: such cases are dropped and counted (extra.skipped)",
    "memory between 1 MiB and 4 GiB is never touched by the grammar generator (a native run would allocate it); offsets >= 2^32 are exercised as rejections; the gap is covered by the theorems only",
    "memory safety of the `unsafe` blocks is argued through the index arithmetic only",
]


def extra_checks(root, work, stats, tier):
    out = []
    for st in stats:
        ex = st.get("extra") or {}
        gens = ex.get("generators") or {}
        for g in ("stack-edge", "random", "grammar", "mutated"):
            if not any(k.startswith(g) for k in gens):
                out.append(("generator-coverage", f"no `{g}` program was executed"))
        if ex.get("max_stack_depth_at_halt", 0) != 1024:
            out.append(("generator-coverage", "no run halted with a full stack (1024): the stack edge was not exercised"))
        skipped = sum((ex.get("skipped") or {}).values())
        if skipped * 20 > max(1, st.get("cases", 0)):
            out.append(("generator-coverage", f"{skipped} cases dropped (timeouts / precompiles / unknown revert data): more than 5%"))
    return out
