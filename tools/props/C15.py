from .common import TRUSTED_BASE_COMMON
THEOREMS = [
    "C15_constants_pinned", "C15_gated_handlers_pinned", "C15_penalty_sites_pinned",
    "C15_termination_fee_bounds", "C15_continued_fault_charged",
    "C15_penalty_accounting",
    "C15_reporter_reward_le_taken", "C15_penalties_nonneg",
    "C15_debt_blocks", "C15_debt_blocks_insufficient_funds", "C15_gated_success_clears_debt",
    "C15_history_accounting",
]
MODEL_TARGETS = ["Model/Penalty"]
HARNESS = [
    {"bin": "penalty", "tag": "penalty_formula", "args": ["--mode", "formula"],
     "quick": {"cases": 100, "len": 100, "shards": 8},
     "thorough": {"cases": 1000, "len": 200, "shards": 32},
     "search": {"cases": 100, "len": 100}},
    {"bin": "penalty", "tag": "penalty", "args": ["--mode", "actor"],
     "quick": {"cases": 96, "len": 36, "shards": 16},
     "thorough": {"cases": 1600, "len": 60, "shards": 64},
     "search": {"cases": 160, "len": 40}},
]
RULE = ("penalty_formula: each step is one call of a real pub closed form of actors/miner/src/{monies,policy}.rs on random / boundary "
        "inputs (pledge, age around 0 and 140 days, fault fee, filter estimates, epoch reward) compared with the Gallina closed form, plus "
        "the constants read from the compiled crates compared with coq/Gen.  penalty: each case is a seeded history of a REAL miner "
        "(Power::CreateMiner, creation deposit left in the vesting table; 0..5000 FIL of extra funds; 92% with a padded network pledge "
        "total, see F1): pre-commit / prove-commit, window PoSts (valid, invalid-optimistic, with skipped sectors) or missed deadlines, "
        "declared faults and recoveries, TerminateSectors, DisputeWindowedPoSt, ReportConsensusFault with the oracle set, block rewards "
        "with penalties, WithdrawBalance, RepayDebt, cron at every deadline end, fault plans failing one nested send (notably the reporter "
        "transfer), shortened fault_max_age / addressed_sectors_max in some histories to reach early terminations from the cron and "
        "deferred termination batches.  One step = one top-level message = the handler invocations it made on the miner (not rolled back "
        "by a failing ancestor); idle deadline ends (nothing charged, funds unchanged) are emitted 1 in 8.  non-trivial = some penalty "
        "was charged and some message was rejected.")
MAY_NEVER_ACCEPT = []
TRUSTED_BASE = TRUSTED_BASE_COMMON + [
    "C15 model coq/Model/Penalty.v: hand-written transcription of the closed forms of actors/miner/src/monies.rs + policy.rs and of the penalty / debt-gate code paths of lib.rs + state.rs; expected_reward_for_power (the alpha-beta filter extrapolation) is an INPUT r of every operation, as are the vested amount of the vesting table, the replies of nested sends, and what the un-modelled sector bookkeeping hands to the penalty code (expired deposits, previously-faulty power projection, per-sector pledge/age, pledge released)",
    "the harness recomputes those inputs from the REAL pre-state with the REAL pub methods State::{cleanup_expired_pre_commits, advance_deadline, pop_early_terminations}, Deadline::{terminate_sectors, take_post_proofs, load_partitions_for_dispute} on a clone, and the REAL monies functions; the charged amount the model derives from them must equal the change of fee_debt + burn + reporter sends observed on the real actor",
    "tools/translator_gated.py: call-site inventory of repay_debts_or_abort / apply_penalty / repay_partial_debt_in_priority_order / burn_funds / process_early_terminations per fn of lib.rs (syntactic; aborts on an unexpected shape), and the penalty constants -> coq/Gen/{Gated,PenaltyConsts}.v",
]
ASSUMPTIONS = [
    "0 <= fee_debt in the initial state (kept by every handler: check_balance_invariants)",
    "the termination-fee bounds are stated for 0 <= initial pledge and 0 <= fault fee (the fault fee is max(BR,0) by construction)",
    "which power is charged (previously faulty power, terminated sectors) is the sector bookkeeping of C02/C04; here it is an input, recomputed by the harness from the real state",
]
LEVEL_TEXT = ("Proof (Coq) of the penalty accounting for every handler invocation and every history of the modelled operations, of the termination-fee "
              "bounds, of the debt gate for the Gen-pinned set of gated handlers, including every pattern of failing nested sends (finding F5, the kept reporter reward, was repaired in /repo); correspondence of model and real actor "
              "on seeded histories; partial: fee magnitudes relative to network economics (expected_reward_for_power) are inputs, sector bookkeeping is "
              "C02/C04's.")


def extra_checks(root, work, stats, tier):
    out = []
    by = {s["tag"]: s for s in stats}
    f = by.get("penalty_formula")
    a = by.get("penalty")
    if f is not None and f.get("steps", 0) < 10000:
        out.append(("generator-coverage", f"penalty_formula: only {f.get('steps')} formula evaluations (< 10^4)"))
    if a is not None:
        acc = a.get("accepted", {})
        for kind in ("cron_deadline", "cron_early_term", "terminate", "dispute", "report_consensus_fault", "apply_rewards",
                     "withdraw", "pre_commit", "declare_recovered", "repay_debt"):
            if acc.get(kind, 0) == 0:
                out.append(("generator-coverage", f"penalty: no accepted `{kind}`"))
        ex = a.get("extra", {})
        for key in ("deadline_ends_with_previously_faulty_power", "gate_rejections_in_debt_withdraw",
                    "gate_rejections_in_debt_pre_commit", "gate_rejections_in_debt_declare_recovered"):
            if not ex.get(key):
                out.append(("generator-coverage", f"penalty: `{key}` never happened"))
    return out
