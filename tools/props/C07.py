from .common import TRUSTED_BASE_COMMON
from . import C06 as _c06
THEOREMS = [
    "C07_ledger_reachable", "C07_ledger_step", "C07_grun_is_run", "C07_ledger_reads",
    "C07_flow_provider", "C07_flow_client", "C07_flow_other", "C07_ghost_records", "C07_gone_new_lookup",
    "C07_path_independence", "C07_update_pays_exact_window", "C07_windows_consecutive",
    "C07_termination_exact", "C07_timeout_exact",
]
MODEL_TARGETS = ["Model/Market"]
HARNESS = [
    {"bin": "market", "tag": "market", "args": ["--prop", "C07"],
     "quick": {"cases": 112, "len": 40, "shards": 16},
     "thorough": {"cases": 1600, "len": 50, "shards": 64},
     "search": {"cases": 500, "len": 45}},
    # every schedule of three (epoch, Settle|Cron|Terminate) events over {s-1,s,s+1,mid,e-1,e,e+1,e+interval}
    # on one activated deal (3240 schedules; quick = an evenly spaced sample)
    {"bin": "market", "tag": "sched", "args": ["--prop", "C07", "--mode", "sched"],
     "quick": {"cases": 216, "len": 0, "shards": 16},
     "thorough": {"cases": 3240, "len": 0, "shards": 64},
     "search": {"cases": 1080, "len": 0}},
]
TRUSTED_BASE = _c06.TRUSTED_BASE + [
    "C07 ghost ledger (Proofs/MarketPay_lemmas.v: gstep/grun): proof-side bookkeeping computed from each step's own inputs and outputs (deposits, withdrawals, which proposals disappeared and by which kind of message); not part of the model that is compared with the implementation; the harness monitor recomputes the same closed forms from the implementation's states",
]
ASSUMPTIONS = _c06.ASSUMPTIONS + [
    "burnt funds: the theorem gives burnt <= sum of forfeited collateral; equality needs the pending-set invariant of C08 (a timed-out proposal whose CID is missing from the pending set would be removed without its collateral being sent to the burnt-funds actor) and is checked by the monitor on the implementation",
]
