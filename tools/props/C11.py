from .common import TRUSTED_BASE_COMMON

THEOREMS = [
    "C11_first_exported_is_2_pow_24",
    "C11_guards_match_spec", "C11_fallback_guards_match_spec", "C11_spec_has_no_stale_rows",
    "C11_table_complete",
    "C11_denote_is_class_membership",
    "C11_outside_rejected", "C11_inside_accepted_by_guard", "C11_rejected_call_changes_nothing",
    "C11_internal_api_closed", "C11_unrestricted_actors_pinned",
    "C11_undefined_method_rejected", "C11_fallback_actors_pinned",
    "C11_caller_reading_public_pinned",
]
MODEL_TARGETS = ["Model/Access"]
# the matrix is finite and enumerated exhaustively: cases/len/seed do not change what is run
HARNESS = [
    {"bin": "access", "tag": "access",
     "quick": {"cases": 1, "len": 1, "shards": 16},
     "thorough": {"cases": 1, "len": 1, "shards": 16},
     "search": {"cases": 1, "len": 1}},
]
SEARCH_ROUNDS = 1
TECHNIQUE = ("proof over the translator-generated guard table (tools/translator_dispatch.py -> coq/Gen/Dispatch.v: every "
             "dispatch row of every actor with the syntactic caller check of its handler) against a hand-written "
             "designated-caller specification, plus an EXHAUSTIVE (actor x method number x caller class) matrix "
             "correspondence on the real actor code")
LEVEL_TEXT = "proof over generated table + exhaustive correspondence"
RULE = ("exhaustive matrix: every actor type x (every number of its compiled Method enum + {0, 1, 99, 1023, 1024, 2^24-1, 2^24, "
        "an unknown FRC-42 number}) x 35 caller representatives (+ the second parameter set of market WithdrawBalance); one "
        "history per (actor, representative); a history is non-trivial when at least one call was accepted and one rejected")
TRUSTED_BASE = TRUSTED_BASE_COMMON + [
    "C11 translator tools/translator_dispatch.py: syntactic reading of actors/*/src/lib.rs (enum Method, dispatch block, "
    "validate_immediate_caller_* call sites, five exact-shape explicit caller gates); it aborts on any shape it does not know; its "
    "method numbers (incl. recomputed FRC-42 hashes) are cross-checked on every run against the compiled Rust enums",
    "C11 specification coq/Model/Access.v spec_table: hand-written from the protocol's intent (162 rows)",
    "C11 harness classification of outcomes by exit code + message suffix of the vvm primitives / restrict_internal_api / the five "
    "explicit gates (harness/src/bin/access.rs classify)",
    "runtime/src/runtime/fvm.rs (production primitives + trampoline, wasm only) is read by the translator for shape, not executed; "
    "harness/src/vvm_messaging.rs implements the same four primitives and the same completed-without-validation assertion",
]
ASSUMPTIONS = [
    "a caller without code (restrict_internal_api's `None` arm) cannot exist on the harness VM: covered by C11_internal_api_closed only",
    "placeholder actors: the harness VM answers unhandled_message for every method but 0 (as test_vm does); the production placeholder "
    "code accepts any method and does nothing",
    "init.Exec's can_exec gate (only the power actor may exec a miner) depends on the exec'd code, not only on the caller; it is "
    "listed among the caller-reading public handlers and not modelled here",
    "guards are compared per method; per-item authorisation inside accept-any methods (datacap operator allowances, verifreg "
    "ExtendClaimTerms client check) is out of scope",
]


def extra_checks(root, work, stats, tier):
    out = []
    for st in stats:
        ex = st.get("extra") or {}
        if not ex.get("exhaustive"):
            out.append(("matrix-coverage", "stats.extra.exhaustive is not true"))
        mx = ex.get("matrix") or {}
        if mx.get("cells_not_driven", 1) != 0:
            out.append(("matrix-coverage", "%s cells were not driven to the guard: %s" % (
                mx.get("cells_not_driven"), list((ex.get("not_driven_by_method") or {}).items())[:5])))
        if mx.get("cells_total", 0) < 9000 or mx.get("caller_representatives", 0) < 35:
            out.append(("matrix-coverage", "matrix smaller than expected: %s" % mx))
        if ex.get("rows_never_accepted"):
            out.append(("matrix-coverage", "rows on which no caller was accepted: %s" % ex["rows_never_accepted"][:8]))
        if ex.get("rows_never_rejected_though_restricted"):
            out.append(("matrix-coverage", "restricted rows on which no caller was rejected: %s" % ex["rows_never_rejected_though_restricted"][:8]))
        if ex.get("actor_panics_caught"):
            out.append(("matrix-panics", "actor code panicked in %d cells: %s" % (len(ex["actor_panics_caught"]), ex["actor_panics_caught"][:3])))
    if not stats:
        out.append(("matrix-coverage", "no harness statistics"))
    return out
