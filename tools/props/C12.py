from .common import TRUSTED_BASE_COMMON
THEOREMS = [
    "C12_signers_max_is_256",
    # world level (re-entrant semantics, every history, every fuel)
    "C12_wallet_wf", "C12_quorum_at_send", "C12_sent_at_most_once", "C12_sent_never_pending_again",
    "C12_txn_ids_increase_and_bodies_fixed", "C12_lock_respected", "C12_amount_locked_spec",
    "C12_approvals_are_current_signers", "C12_config_changes_only_via_self", "C12_rejected_changes_nothing",
    "C12_every_send_is_logged", "C12_calls_start_in_invariant_worlds", "C12_failure_decided_before_send",
    "C12_inner_failure_is_tolerated",
    # single-wallet level (one method invocation, any state)
    "C12_single_wallet_step", "C12_only_signers_propose_approve", "C12_approvals_only_by_caller",
    "C12_cancel_only_by_first_approver", "C12_propose_first_approver", "C12_purged_approvals_do_not_count",
    "C12_config_needs_self_caller",
]
MODEL_TARGETS = ["Model/Multisig"]
HARNESS = [
    {"bin": "multisig", "tag": "multisig",
     "quick": {"cases": 300, "len": 25, "shards": 16},
     "thorough": {"cases": 5000, "len": 40, "shards": 64},
     "search": {"cases": 1500, "len": 30}},
]
TECHNIQUE = ("machine-checked proof (Coq 8.16.1) over an executable model of the multisig actor inside a world of "
             "wallets and accounts with real re-entrancy (an executed transaction may call a multisig method of the "
             "same or another wallet, recursively, with explicit call-depth fuel and VM roll-back); invariants by "
             "induction on the call depth and on the history.  Correspondence check: 2-4 REAL multisig actors "
             "created through the real init actor (signers of one another) plus real account actors on the harness "
             "VM; random forests of Propose/Approve/Cancel/admin calls, plain sends, opaque calls; after every "
             "top-level message every wallet's full state, all balances and the (nested) Propose/Approve return "
             "values are compared with the model.  Monitor on the implementation alone: each message is re-executed "
             "from the same checkpoint with its k-th nested send failed by the VM, which yields the REAL state at the "
             "instant of that send; quorum / once / lock / bounds / cancel / config predicates are evaluated on those "
             "states and on the invocation trace")
TRUSTED_BASE = TRUSTED_BASE_COMMON + [
    "C12 model coq/Model/Multisig.v: hand-written transcription of actors/multisig/src/{lib.rs,state.rs} "
    "(methods factored as: all state work, then at most one final send, then Ok whatever the send answered), of the "
    "VM's send (value transfer, receiver existence, dispatch, roll-back) and of what account actors answer to "
    "multisig method numbers; the proposal hash is compared structurally on its pre-image (requester, to, value, "
    "payload) - the harness passes the REAL blake2b of the REAL serialisation to the actor",
    "the ghost `log` of the model (one entry per wallet-originated send, with the wallet's state and balance at "
    "that instant) is what the world-level theorems speak about; C12_every_send_is_logged proves it is complete "
    "and truthful w.r.t. the model's own sends; the harness checks the same predicates on the real states at the "
    "same instants",
]
ASSUMPTIONS = [
    "address arguments are ID addresses of existing accounts / wallets or of no actor at all, or (signer arguments "
    "of AddSigner/RemoveSigner/SwapSigner) the public-key address of an EXISTING account: the model's `addr` carries "
    "the actor id the argument resolves to plus a flag `a_key` recording the form used; the methods only see the id "
    "(resolve_to_actor_id), the flag only makes payload equality coincide with equality of the serialised bytes; key "
    "addresses of not-yet-existing actors (which would create an account) are not explored",
    "next_tx_id (i64) and u64 thresholds do not overflow; the theorems quantify over all Z (generator stays in range)",
    "call targets other than wallets and accounts (singleton actors, miners, ...) are represented by `POpaque c`: "
    "a call whose exit code does not depend on the modelled state (the harness realises c = 0, 21, 22)",
    "fuel (call depth) exhaustion is an inner-send failure (code 10, reported as 24 by the caller); the harness VM "
    "has no depth limit: the check fails if a real call chain ever reaches the model's fuel (64)",
    "quorum_at_send states the quorum on the approvals recorded in the transaction at the instant of the send; "
    "that each recorded approval was given by that signer for exactly this transaction and that its holder was a "
    "signer ever since is the conjunction of C12_approvals_only_by_caller, C12_txn_ids_increase_and_bodies_fixed, "
    "C12_approvals_are_current_signers / C12_purged_approvals_do_not_count (holding at every call boundary by "
    "C12_calls_start_in_invariant_worlds), not a single pinned statement",
]
MAY_NEVER_ACCEPT = []
LEVEL_TEXT = ("proof (world-level invariants for every history and call depth + single-wallet method theorems) "
              "+ correspondence with real re-entrant multisig actors + implementation-only monitor on real "
              "intermediate states")


def extra_checks(root, work, stats, tier):
    out = []
    for st in stats:
        ex = st.get("extra", {})
        if ex.get("max_call_depth", 0) >= ex.get("check_fuel", 64):
            out.append(("fuel", f"a real call chain of depth {ex.get('max_call_depth')} reached the model's fuel"))
        if st.get("cases", 0) > 50:
            for k in ("wallet_sends", "inner_send_failed", "reentrant_sends",
                      # states needed to see an order-changing purge, a lock check skipped on the
                      # already-approved path, a purge keyed by the unresolved address
                      "purges_of_non_last_approver_of_3plus", "preapproved_executions",
                      "preapproved_lock_refusals", "signer_removed_by_key_address"):
                if ex.get(k, 0) == 0:
                    out.append(("generator-coverage", f"{st['tag']}: no `{k}` explored"))
    return out
