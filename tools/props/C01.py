from .common import TRUSTED_BASE_COMMON
THEOREMS = [
    "C01_ledger_total_invariant", "C01_history_total_invariant", "C01_rollback_exact", "C01_burn_only_moves",
    "C01_burnt_funds_actor_is_99", "C01_reward_never_overpays", "C01_paych_solvent",
    "C01_market_solvent", "C01_miner_solvent",
]
MODEL_TARGETS = ["Model/Ledger"]
HARNESS = [
    {"bin": "ledger", "tag": "ledger",
     "quick": {"cases": 160, "len": 40, "shards": 16},
     "thorough": {"cases": 1200, "len": 80, "shards": 48},
     "search": {"cases": 400, "len": 60}},
]
RULE = ("each case is a seeded mixed history over accounts, market, 1-2 real miners (created through the real "
        "Power::CreateMiner path, deposit left in place), payment channels, multisigs, reward, cron ticks at every "
        "epoch of short stretches and day-long jumps, with 15% of steps under a fault plan that fails the k-th nested "
        "send; every executed top-level message whose trace moves value is one step (its invocation tree is replayed by "
        "Model/Ledger.apply); distinct by hash; non-trivial = value moved and at least one successful message contained a failed nested send")
MAY_NEVER_ACCEPT = []
TRUSTED_BASE = TRUSTED_BASE_COMMON + [
    "C01 ledger model coq/Model/Ledger.v: balances + invocation trees; the VM's transfer/roll-back semantics is that of harness/vvm (modelled on test_vm/ref-fvm), validated against the model on every explored message; gas fees and miner tips are outside the actors and not modelled",
    "custodian solvency: all four pinned in Props/C01.v -- paych and reward over Model/Paych.v and Model/Ledger.v, market over Model/Market.v (via the C06 invariant), miner over Model/MinerFunds.v (via the C14 history invariant; pledge/penalty amounts are operation inputs); the Rust monitors evaluate all four inequalities on the real state after every message",
]
ASSUMPTIONS = ["conservation is a property of the VM: vvm stands in for the production FVM"]
LEVEL_TEXT = ("Proof (Coq) of conservation/roll-back for arbitrary invocation trees and of the paych/reward solvency clauses; "
              "the VM's behaviour is validated against the ledger model on every executed message of seeded mixed histories with injected nested failures; "
              "solvency of all four custodians is monitored on the real states. Partial: the miner's amount formulas are inputs (see C14/C03).")
