from .common import TRUSTED_BASE_COMMON
THEOREMS = [
    "C05_constants", "C05_deadline_arithmetic", "C05_cron_tick_total", "C05_cron_schedule_inv",
    "C05_no_duplicate_event", "C05_no_event_lost", "C05_proving_deadline_callback_on_time", "C05_claims_deleted_only_on_failed_callback",
    "C05_failed_callback_deletes_claim", "C05_miner_callback_total_partial",
    "C05_miner_callback_fails_on_hard_input", "C05_early_terminations_drain",
    "C05_early_terminations_never_stranded", "C05_deadline_recorded_after_tick",
    "C05_recorded_deadline_stable", "C05_constructor_records_current_deadline",
    "C05_active_iff_obligations_refuted", "C05_active_iff_obligations_after_precommit",
]
MODEL_TARGETS = ["Model/Cron"]
HARNESS = [
    {"bin": "cron", "tag": "cron",
     "quick": {"cases": 32, "len": 2500, "shards": 16},
     "thorough": {"cases": 240, "len": 5000, "shards": 64},
     "search": {"cases": 60, "len": 4000},
     "timeout": 6000},
]
RULE = ("each case is a seeded history on the harness VM with 1-3 real miners created through the real Power::CreateMiner "
        "(deposit left in place), Cron::EpochTick executed at EVERY epoch of the history (len = number of epochs; the directed "
        "scenarios f1/drain run >= 3 proving periods), user messages (pre-commit, prove-commit, window PoSt, WithdrawBalance, "
        "plain funding, AwardBlockReward, TerminateSectors, injected EnrollCronEvent, CreateMiner) concentrated at deadline "
        "boundary +/- {0,1}, 7% of the ticks with due events run under a fault plan failing one nested send chosen from a dry run "
        "of the same tick (market entry, OnMinerSectorsTerminate, power entry / reward sends, a miner callback or one of its sends); "
        "cases 0-6 of every run are the directed scenarios f2, f1 (unpadded pledge total), stale-period-start, early-termination "
        "drain (addressed_sectors_max and fault_max_age lowered in v.policy), idle, stop (all obligations driven to zero: the cron stops and is restarted by a later pre-commit), deals (a sector carrying a published deal is left faulty until the cron terminates it early; the OnMinerSectorsTerminate send inside that tick is failed and must be tolerated); one model step per message and per tick "
        "(idle stretches run-length encoded in the case file and expanded inside Coq, every tick still compared); "
        "distinct by hash; non-trivial = at least one accepted user message and one successful proving-deadline callback; "
        "`steps` counts run-length items, stats.extra.model_steps_compared is the number of model steps compared (one per message and per tick)")
MAY_NEVER_ACCEPT = []
TRUSTED_BASE = TRUSTED_BASE_COMMON + [
    "C05 model coq/Model/Cron.v: hand-written transcription of actors/cron/src/lib.rs (epoch_tick), actors/power/src/{lib,state}.rs "
    "(enroll_cron_event, append_cron_event, on_epoch_tick_end, process_deferred_cron_events, delete_claim/miner_count), "
    "actors/miner/src/{lib,state,deadlines,deadline_info,quantize}.rs (constructor schedule, pre-commit cron start, "
    "handle_proving_deadline, advance_deadline's schedule part, process_early_terminations as a counter, terminate_sectors' scheduling); "
    "inputs of the operations (not modelled, read from the real execution by the harness): the obligations triple after each "
    "transaction, the number of sectors advance_deadline terminates early, the failure of every nested send",
    "tools/translator_cron.py: CRON_EVENT_* constants, ERR_BALANCE_INVARIANTS_BROKEN, call-site inventory of deadline_cron_active "
    "assignments / enroll_cron_event / delete_claim, constructor does-not-enrol fact -> coq/Gen/CronConsts.v, pinned by C05_constants",
]
ASSUMPTIONS = [
    "histories of the theorems: the tick runs at every epoch and the power actor's cron entry itself does not fail (wf_op); "
    "failures of the miner callbacks, of their nested sends and of the market entry are arbitrary",
    "C05_active_iff_obligations_after_precommit: inputs never create obligations out of nothing for a miner whose cron is off "
    "(`disciplined`; in the code only pre-commit does, and it starts the cron; rewards to a power-less miner are excluded)",
    "the market's cron_tick is modelled only as 'may fail, tolerated' (its deal schedule is C06-C08's model); prove_commit_sectors_ni "
    "(second cron start site) is counted by the translator but not exercised by the harness",
]
LEVEL_TEXT = ("Proof (Coq) of the scheduling clauses for all histories of the three-level dispatch model (exactly-one pending "
              "proving-deadline event at the right epoch iff active, no event lost/duplicated, claims deleted only by failed callbacks, "
              "early-termination drain, recorded deadline) and of the callback's totality up to its failure inputs; the clause "
              "'obligations imply an active cron' is refuted in the model with the F2 witness (replayed on the real code on every run) and proved "
              "outside that class; model validated step by step against the real actors on the harness VM with the tick at every epoch. "
              "Partial: 'nothing panics' and 'no balance-invariants-broken' are monitored dynamically, the internal failure inputs f_tx/f_balance "
              "are not proved unreachable here (C03/C04/C14).")


def extra_checks(root, work, stats, tier):
    """coverage that must not silently disappear"""
    out = []
    for st in stats:
        ex = st.get("extra", {})
        need = ["cb_pd", "cb_et", "cron_starts", "claims_lost_by_injected_failure", "inj_market_fail",
                "ticks_with_two_callbacks_for_one_miner", "ticks_processing_several_epochs",
                "et_rounds", "cases_padded", "cases_unpadded", "monitor_class_F2-fresh-miner-no-cron",
                "messages_at_boundary", "flag_f_enroll", "cron_stops", "scenario_stop_cron_restarted", "flag_f_deals"]
        if st.get("cases", 0) >= 8:
            for k in need:
                if not ex.get(k):
                    out.append(("generator-coverage", f"{st['tag']}: coverage counter `{k}` is zero"))
    return out
