"""Translator module: every actors/*/src/lib.rs  ->  coq/Gen/Dispatch.v   (property C11)

For every built-in actor: the `enum Method`, the `actor_dispatch!`/`actor_dispatch_unrestricted!`
block, and for every dispatch row the *syntactic* caller check found in the handler body.

Purely syntactic; every shape that is not understood raises tr.TranslatorError (no guessing).
What is recognised:

 * `rt.validate_immediate_caller_accept_any()`                       -> AcceptAny
 * `rt.validate_immediate_caller_is(<addresses>)`                    -> IsAddrs [sources]
 * `rt.validate_immediate_caller_type(<types>)`                      -> IsType [types]
 * `rt.validate_immediate_caller_namespace(<ids>)`                   -> Namespace [ids]
 * two `_is` sites in the arms of one `if .. {} else if .. {}`       -> Branching [g1; g2]
 * accept_any followed by an explicit caller gate of a known shape   -> Manual g
 * a validate_* followed by a helper-implemented type gate           -> Both g1 g2
 * handlers without a call site that delegate to ONE other function of the same file which has
   the call site (followed one level)

Address expressions are mapped to symbolic sources (S_System .. S_ProviderControllers); local
variables are resolved through their `let` / `if let` binding or through the helper that returned
them (market `escrow_address`).
"""
import hashlib
import os
import re

TR = None  # the translator module (set in generate)


def err(msg):
    raise TR.TranslatorError("dispatch: " + msg)


# ------------------------------------------------------------------------------------------------
# lexical helpers
# ------------------------------------------------------------------------------------------------
def strip_comments_keep_strings(src):
    """remove // and /* */ comments; string literals are kept verbatim (a `//` inside a string is
    not a comment)."""
    out = []
    i, n = 0, len(src)
    while i < n:
        c = src[i]
        if c == '"':
            j = i + 1
            while j < n and src[j] != '"':
                j += 2 if src[j] == "\\" else 1
            out.append(src[i:j + 1])
            i = j + 1
        elif src.startswith("//", i):
            j = src.find("\n", i)
            i = n if j < 0 else j
        elif src.startswith("/*", i):
            depth, j = 1, i + 2
            while j < n and depth:
                if src.startswith("/*", j):
                    depth += 1; j += 2
                elif src.startswith("*/", j):
                    depth -= 1; j += 2
                else:
                    j += 1
            i = j
        else:
            out.append(c)
            i += 1
    return "".join(out)


def blank_strings(src):
    """same length text with the inside of string literals replaced by spaces (for brace matching)"""
    out = list(src)
    i, n = 0, len(src)
    while i < n:
        if src[i] == '"':
            j = i + 1
            while j < n and src[j] != '"':
                j += 2 if src[j] == "\\" else 1
            for k in range(i + 1, min(j, n)):
                out[k] = " "
            i = j + 1
        elif src[i] == "'" and i + 2 < n and src[i + 2] == "'":   # char literal such as '{'
            out[i + 1] = " "
            i += 3
        else:
            i += 1
    return "".join(out)


def match_close(text, i, open_ch, close_ch):
    """text[i] == open_ch ; returns index of the matching close_ch (text must be string-blanked)"""
    assert text[i] == open_ch, (text[i:i + 20], open_ch)
    depth = 0
    for j in range(i, len(text)):
        if text[j] == open_ch:
            depth += 1
        elif text[j] == close_ch:
            depth -= 1
            if depth == 0:
                return j
    err("unbalanced %s%s" % (open_ch, close_ch))


def norm(s):
    return " ".join(s.split())


def split_top(s, sep=","):
    out, depth, cur = [], 0, ""
    for ch in s:
        if ch in "([{":
            depth += 1
        elif ch in ")]}":
            depth -= 1
        if ch == sep and depth == 0:
            out.append(cur); cur = ""
        else:
            cur += ch
    if cur.strip():
        out.append(cur)
    return [x.strip() for x in out]


# ------------------------------------------------------------------------------------------------
# FRC-42
# ------------------------------------------------------------------------------------------------
def frc42(name):
    if name == "Constructor":
        return 1
    d = hashlib.blake2b(("1|" + name).encode(), digest_size=64).digest()
    for k in range(0, 64, 4):
        v = int.from_bytes(d[k:k + 4], "big")
        if v >= (1 << 24):
            return v
    err("method_hash!(%s): no usable digest word" % name)


# ------------------------------------------------------------------------------------------------
# a parsed source file
# ------------------------------------------------------------------------------------------------
class RustFile:
    def __init__(self, rel):
        self.rel = rel
        self.src = strip_comments_keep_strings(TR.read(rel))
        self.blank = blank_strings(self.src)
        self.fns = {}       # (scope, name) -> (body_start, body_end) ; scope = impl type name or ""
        self._scan()

    def _scan(self):
        b = self.blank
        # inherent impl blocks:  impl Name {      /  impl<..> Name<..> {   (not `impl X for Y`)
        self.impls = []
        for m in re.finditer(r"\bimpl\b([^{;]*)\{", b):
            head = m.group(1)
            brace = m.end() - 1
            end = match_close(b, brace, "{", "}")
            if re.search(r"\bfor\b", head):
                tm = re.search(r"\bfor\s+([A-Za-z_]\w*)", head)
                self.impls.append(("trait:" + norm(head), tm.group(1) if tm else "", brace, end))
            else:
                tm = re.search(r"([A-Za-z_]\w*)\s*(?:<[^>]*>)?\s*$", head.strip())
                self.impls.append(("inherent", tm.group(1) if tm else "", brace, end))
        for m in re.finditer(r"\bfn\s+([A-Za-z_]\w*)\s*(?:<[^(]*>)?\s*\(", b):
            name = m.group(1)
            par = m.end() - 1
            pend = match_close(b, par, "(", ")")
            # body = first `{` after the parameter list, unless a `;` comes first (declaration)
            k = pend + 1
            while k < len(b) and b[k] not in "{;":
                k += 1
            if k >= len(b) or b[k] == ";":
                continue
            bend = match_close(b, k, "{", "}")
            scope = ""
            for kind, ty, s, e in self.impls:
                if s < m.start() < e and kind == "inherent":
                    scope = ty
            # nested fns (inside another fn body) are ignored for lookup purposes
            key = (scope, name)
            if key in self.fns:
                # same name twice in one scope (cfg variants): keep the first, remember ambiguity
                self.fns[key] = self.fns[key] + ("dup",)
            else:
                self.fns[key] = (k, bend)

    def body(self, scope, name):
        v = self.fns.get((scope, name))
        if v is None:
            return None
        if len(v) > 2:
            err(f"{self.rel}: function {name} defined more than once in scope `{scope}`")
        return self.src[v[0]:v[1] + 1]


# ------------------------------------------------------------------------------------------------
# Method enum and dispatch block
# ------------------------------------------------------------------------------------------------
def parse_enum(rf, actor_dir):
    m = re.search(r"pub\s+enum\s+Method\s*\{", rf.blank)
    if not m:
        return None
    end = match_close(rf.blank, m.end() - 1, "{", "}")
    body = rf.src[m.end():end]
    out = []
    for item in split_top(body):
        if not item:
            continue
        mm = re.fullmatch(r"(?:#\[[^\]]*\]\s*)*([A-Za-z_]\w*)\s*=\s*(.+)", item, flags=re.S)
        if not mm:
            err(f"{rf.rel}: enum Method item not understood: `{norm(item)}`")
        name, expr = mm.group(1), norm(mm.group(2))
        out.append((name,) + eval_method_expr(rf, actor_dir, expr))
    if not out:
        err(f"{rf.rel}: empty enum Method")
    return out


def eval_method_expr(rf, actor_dir, expr, depth=0):
    """-> (number, frc42 name or None)"""
    if depth > 3:
        err(f"{rf.rel}: method number constant chain too deep: {expr}")
    if expr == "METHOD_CONSTRUCTOR":
        return (1, None)
    if re.fullmatch(r"\d+", expr):
        return (int(expr), None)
    mm = re.fullmatch(r"(?:frc42_dispatch::)?method_hash!\(\s*\"([A-Za-z0-9_]+)\"\s*\)", expr)
    if mm:
        return (frc42(mm.group(1)), mm.group(1))
    mm = re.fullmatch(r"((?:[a-z_]\w*::)*)([A-Z][A-Z0-9_]*)", expr)
    if mm:
        # a constant, e.g. ext::miner::SECTOR_CONTENT_CHANGED  -> look in src/ext.rs or lib.rs
        path, cname = mm.group(1), mm.group(2)
        cands = []
        if path.startswith("ext::"):
            cands.append(f"actors/{actor_dir}/src/ext.rs")
        cands.append(rf.rel)
        for rel in cands:
            if not os.path.exists(os.path.join(TR.REPO, rel)):
                continue
            src = strip_comments_keep_strings(TR.read(rel))
            cm = re.search(r"\bconst\s+" + cname + r"\s*:\s*(?:MethodNum|u64)\s*=\s*([^;]+);", src)
            if cm:
                return eval_method_expr(rf, actor_dir, norm(cm.group(1)), depth + 1)
        err(f"{rf.rel}: cannot resolve method number constant `{expr}`")
    err(f"{rf.rel}: method number expression not understood: `{expr}`")


def parse_dispatch(rf):
    ms = list(re.finditer(r"\b(actor_dispatch(?:_unrestricted)?)!\s*\{", rf.blank))
    if len(ms) != 1:
        err(f"{rf.rel}: expected exactly one actor_dispatch! block, found {len(ms)}")
    m = ms[0]
    restricted = m.group(1) == "actor_dispatch"
    end = match_close(rf.blank, m.end() - 1, "{", "}")
    # the impl this block sits in tells the actor type (scope of the handlers)
    scope = None
    for kind, ty, s, e in rf.impls:
        if s < m.start() < e and kind.startswith("trait:") and "ActorCode" in kind:
            scope = ty
    if scope is None:
        err(f"{rf.rel}: dispatch block is not inside `impl ActorCode for X`")
    rows, fallback = [], None
    for item in split_top(rf.src[m.end():end]):
        if not item:
            continue
        mm = re.fullmatch(r"([A-Za-z_|\s]\w*(?:\s*\|\s*\w+)*)\s*=>\s*([a-z_]\w*)\s*(?:\[\s*(\w+)\s*\])?", item)
        if not mm:
            err(f"{rf.rel}: dispatch row not understood: `{norm(item)}`")
        pats, func, tag = norm(mm.group(1)), mm.group(2), mm.group(3)
        if tag not in (None, "default_params", "raw"):
            err(f"{rf.rel}: unknown dispatch tag [{tag}]")
        if pats == "_":
            if fallback is not None:
                err(f"{rf.rel}: two fallback rows")
            fallback = func
        else:
            for p in pats.split("|"):
                rows.append((p.strip(), func))
    return restricted, scope, rows, fallback


# ------------------------------------------------------------------------------------------------
# guards
# ------------------------------------------------------------------------------------------------
SINGLETON_ADDR = {
    "SYSTEM_ACTOR_ADDR": "S_System", "INIT_ACTOR_ADDR": "S_Init", "REWARD_ACTOR_ADDR": "S_Reward",
    "CRON_ACTOR_ADDR": "S_Cron", "STORAGE_POWER_ACTOR_ADDR": "S_Power",
    "STORAGE_MARKET_ACTOR_ADDR": "S_Market", "VERIFIED_REGISTRY_ACTOR_ADDR": "S_Verifreg",
    "DATACAP_TOKEN_ACTOR_ADDR": "S_Datacap", "EAM_ACTOR_ADDR": "S_Eam",
    "BURNT_FUNDS_ACTOR_ADDR": "S_Burnt",
}
SINGLETON_ID_CONST = {
    "SYSTEM_ACTOR_ID": "S_System", "INIT_ACTOR_ID": "S_Init", "REWARD_ACTOR_ID": "S_Reward",
    "CRON_ACTOR_ID": "S_Cron", "STORAGE_POWER_ACTOR_ID": "S_Power",
    "STORAGE_MARKET_ACTOR_ID": "S_Market", "VERIFIED_REGISTRY_ACTOR_ID": "S_Verifreg",
    "DATACAP_TOKEN_ACTOR_ID": "S_Datacap", "EAM_ACTOR_ID": "S_Eam", "BURNT_FUNDS_ACTOR_ID": "S_Burnt",
}
STATE_FIELDS = {"root_key", "governor", "from", "to"}
MINER_INFO = {"owner": "S_MinerOwner", "worker": "S_MinerWorker", "beneficiary": "S_MinerBeneficiary"}
TYPES = {
    "System": "T_System", "Init": "T_Init", "Reward": "T_Reward", "Cron": "T_Cron", "Power": "T_Power",
    "Market": "T_Market", "VerifiedRegistry": "T_Verifreg", "DataCap": "T_Datacap", "EAM": "T_Eam",
    "Miner": "T_Miner", "Account": "T_Account", "Multisig": "T_Multisig", "PaymentChannel": "T_Paych",
    "EVM": "T_Evm", "EthAccount": "T_EthAccount", "Placeholder": "T_Placeholder",
}
_singleton_ids = None


def singleton_by_id(n):
    global _singleton_ids
    if _singleton_ids is None:
        cs = TR.scan_consts("runtime/src/builtin/singletons.rs")
        _singleton_ids = {}
        for cname, s in SINGLETON_ID_CONST.items():
            if cname not in cs:
                err(f"singletons.rs: {cname} missing")
            _singleton_ids[TR.eval_int(cs[cname][1], cs)] = s
        # the *_ADDR constants must be Address::new_id(<the matching *_ID>)
        src = strip_comments_keep_strings(TR.read("runtime/src/builtin/singletons.rs"))
        for aname, s in SINGLETON_ADDR.items():
            am = re.search(r"const\s+" + aname + r"\s*:\s*Address\s*=\s*Address::new_id\(\s*(\w+)\s*\)", src)
            if not am or SINGLETON_ID_CONST.get(am.group(1)) != s:
                err(f"singletons.rs: {aname} is not Address::new_id of its id constant")
    if n not in _singleton_ids:
        err(f"Address::new_id({n}) is not a known singleton")
    return _singleton_ids[n]


class Handler:
    """source-level view of one handler body with helpers for resolving local variables"""

    def __init__(self, rf, scope, name, body):
        self.rf, self.scope, self.name, self.body = rf, scope, name, body
        self.nb = norm(body)

    def where(self):
        return f"{self.rf.rel}:{self.name}"

    # -- variable resolution -------------------------------------------------------------------
    def binding(self, var):
        """the expression bound to `var` by the (unique) `let var[: T] = EXPR;` or the
        `if let Some(var) = EXPR` in this body; returns (kind, expr)"""
        found = []
        for m in re.finditer(r"\blet\s+(?:mut\s+)?" + re.escape(var) + r"\s*(?::\s*[^=;]+?)?\s*=\s*([^;]+);", self.nb):
            found.append(("let", m.group(1).strip()))
        for m in re.finditer(r"\bif\s+let\s+Some\(\s*" + re.escape(var) + r"\s*\)\s*=\s*&?\s*([^{]+?)\s*\{", self.nb):
            found.append(("iflet", m.group(1).strip()))
        for m in re.finditer(r"\blet\s*\(([^)]*)\)\s*=\s*([^;]+);", self.nb):
            names = [x.strip() for x in m.group(1).split(",")]
            if var in names:
                found.append(("tuple%d/%d" % (names.index(var), len(names)), m.group(2).strip()))
        if len(found) != 1:
            err(f"{self.where()}: cannot resolve local `{var}` ({len(found)} bindings)")
        return found[0]

    def addr_sources(self, expr):
        """address expression (one address or a collection) -> list of source constructors"""
        e = expr.strip()
        e = re.sub(r"^&\s*", "", e)
        e = re.sub(r"^\*\s*", "", e)
        if e in SINGLETON_ADDR:
            return [SINGLETON_ADDR[e]]
        m = re.fullmatch(r"Address::new_id\(\s*(\w+)\s*\)", e)
        if m:
            a = m.group(1)
            if a in SINGLETON_ID_CONST:
                return [SINGLETON_ID_CONST[a]]
            if a.isdigit():
                return [singleton_by_id(int(a))]
            err(f"{self.where()}: Address::new_id({a}) not understood")
        if e == "rt.message().receiver()":
            return ["S_Receiver"]
        if e == "rt.message().origin()":
            return ["S_Origin"]
        m = re.fullmatch(r"(st|state)\.(\w+)", e)
        if m:
            if m.group(2) not in STATE_FIELDS:
                err(f"{self.where()}: unknown state field `{e}` used as caller address")
            return ['S_Field "%s"' % m.group(2)]
        if re.fullmatch(r"info\.control_addresses(\.iter\(\))?", e):
            self.require_miner_info()
            return ["S_MinerControls"]
        m = re.fullmatch(r"info\.(\w+)", e)
        if m:
            if m.group(1) in MINER_INFO:
                self.require_miner_info()
                return [MINER_INFO[m.group(1)]]
            err(f"{self.where()}: unknown MinerInfo field `{e}` used as caller address")
        if re.fullmatch(r"info\.control_addresses(\.iter\(\))?", e):
            self.require_miner_info()
            return ["S_MinerControls"]
        m = re.fullmatch(r"(.+)\.iter\(\)\.chain\(\s*(.+)\s*\)", e)
        if m:
            return self.addr_sources(m.group(1)) + self.addr_sources(m.group(2))
        m = re.fullmatch(r"(.+)\.iter\(\)", e)
        if m:
            return self.addr_sources(m.group(1))
        m = re.fullmatch(r"(?:std::)?iter::once\(\s*(.+)\s*\)", e)
        if m:
            return self.addr_sources(m.group(1))
        m = re.fullmatch(r"(?:vec!)?\[(.*)\]", e)
        if m:
            out = []
            for x in split_top(m.group(1)):
                out += self.addr_sources(x)
            return out
        if re.fullmatch(r"[a-z_]\w*", e):
            kind, bexpr = self.binding(e)
            if kind == "let":
                return self.addr_sources(bexpr)
            if kind == "iflet":
                b = re.sub(r"^&\s*", "", bexpr)
                if b == "info.pending_owner_address":
                    self.require_miner_info()
                    return ["S_PendingOwner"]
                err(f"{self.where()}: `if let Some({e}) = {bexpr}` not understood as a caller address")
            if kind.startswith("tuple"):
                return self.helper_tuple_sources(kind, bexpr)
        err(f"{self.where()}: caller address expression not understood: `{expr}`")

    def require_miner_info(self):
        if not re.search(r"\blet\s+(mut\s+)?info\s*=\s*get_miner_info\(", self.nb):
            err(f"{self.where()}: `info` is not bound by get_miner_info(..)")

    def helper_tuple_sources(self, kind, bexpr):
        idx, n = [int(x) for x in kind[5:].split("/")]
        m = re.fullmatch(r"escrow_address\(\s*rt\s*,\s*&params\.provider_or_client\s*\)\?", bexpr)
        if m and (idx, n) == (2, 3):
            hb = self.rf.body("", "escrow_address")
            if hb is None:
                err(f"{self.where()}: helper escrow_address not found")
            h = norm(hb)
            # exact shape: miner entry -> [owner, worker] as returned by the miner's control
            # addresses; anything else -> [the resolved address itself]
            want = [
                r"let nominal = rt \.resolve_address\(addr\)",
                r"let nominal_addr = Address::new_id\(nominal\);",
                r"if rt\.resolve_builtin_actor_type\(&code_id\) == Some\(Type::Miner\) \{ "
                r"let \(owner_addr, worker_addr, _\) = request_miner_control_addrs\(rt, nominal\)\?; "
                r"return Ok\(\(nominal_addr, owner_addr, vec!\[owner_addr, worker_addr\]\)\); \}",
                r"Ok\(\(nominal_addr, nominal_addr, vec!\[nominal_addr\]\)\) \}$",
            ]
            for w in want:
                if not re.search(w, h):
                    err(f"{self.rf.rel}: escrow_address no longer has the expected shape (missing /{w}/)")
            rb = self.rf.body("", "request_miner_control_addrs")
            if rb is None or not re.search(
                    r"ext::miner::CONTROL_ADDRESSES_METHOD", rb) or not re.search(
                    r"Ok\(\(addrs\.owner, addrs\.worker, addrs\.control_addresses\)\)", norm(rb)):
                err(f"{self.rf.rel}: request_miner_control_addrs no longer has the expected shape")
            return ["S_EscrowMinerOwner", "S_EscrowMinerWorker", "S_EscrowSelf"]
        err(f"{self.where()}: tuple binding `{bexpr}` not understood as a caller address list")

    def type_list(self, expr):
        e = expr.strip()
        e = re.sub(r"^&\s*", "", e)
        m = re.fullmatch(r"(?:std::)?iter::once\(\s*(.+)\s*\)", e)
        if m:
            return self.type_list(m.group(1))
        m = re.fullmatch(r"\[(.*)\]", e)
        if m:
            out = []
            for x in split_top(m.group(1)):
                out += self.type_list(x)
            return out
        m = re.fullmatch(r"Type::(\w+)", e)
        if m and m.group(1) in TYPES:
            return [TYPES[m.group(1)]]
        err(f"{self.where()}: caller type expression not understood: `{expr}`")

    def ns_list(self, expr):
        e = re.sub(r"^&\s*", "", expr.strip())
        m = re.fullmatch(r"(?:std::)?iter::once\(\s*(.+)\s*\)", e)
        if m:
            return self.ns_list(m.group(1))
        m = re.fullmatch(r"\[(.*)\]", e)
        if m:
            out = []
            for x in split_top(m.group(1)):
                out += self.ns_list(x)
            return out
        if e in SINGLETON_ID_CONST:
            cs = TR.scan_consts("runtime/src/builtin/singletons.rs")
            return [str(TR.eval_int(cs[e][1], cs))]
        if e.isdigit():
            return [e]
        err(f"{self.where()}: namespace expression not understood: `{expr}`")


SITE_RE = re.compile(r"\b(\w+)\s*\.\s*validate_immediate_caller_(is|type|namespace|accept_any)\s*\(")


def call_sites(body):
    """[(kind, arg text, start index, end index)] of validate_immediate_caller_* in `body`"""
    blank = blank_strings(body)
    out = []
    for m in SITE_RE.finditer(blank):
        if m.group(1) not in ("rt",):
            err(f"validate_immediate_caller_* called on `{m.group(1)}`, expected `rt`")
        par = m.end() - 1
        end = match_close(blank, par, "(", ")")
        # must be propagated with `?` or be the tail expression of the function
        tail = blank[end + 1:end + 40].lstrip()
        if not (tail.startswith("?") or tail.startswith("}")):
            err("validate_immediate_caller_* result is neither propagated with `?` nor returned: ..."
                + norm(body[m.start():end + 20]))
        arg = re.sub(r"\s*\.\s*(?=[a-z_])", ".", norm(body[par + 1:end]))
        arg = re.sub(r",\s*\)", ")", arg)
        out.append((m.group(2), arg.rstrip(",").strip(), m.start(), end))
    return out


def enclosing_block(blank, pos):
    """index of the `{` of the innermost block containing pos"""
    depth = 0
    for j in range(pos, -1, -1):
        if blank[j] == "}":
            depth += 1
        elif blank[j] == "{":
            if depth == 0:
                return j
            depth -= 1
    return None


def check_unconditional(h, blank, pos, allowed_if_blocks=()):
    """every block enclosing the call site up to the function body must be the function body itself,
    a closure body (rt.transaction(|st, rt| { .. })) or a plain block -- not an if/match/loop arm
    (except the recognised two-arm branching, whose `{` positions are passed in)"""
    p = pos
    while True:
        b = enclosing_block(blank, p)
        if b is None:
            err(f"{h.where()}: validate call site outside any block")
        if b == 0:
            return
        # head: text between the previous `;`, `{` or `}` (at any depth) and this `{`
        k = b - 1
        while k >= 0 and blank[k] not in ";{}":
            k -= 1
        head = norm(blank[k + 1:b])
        if b in allowed_if_blocks:
            pass
        elif re.search(r"\|[^|]*\|$", head) or re.search(r"\bmove \|[^|]*\|$", head):
            pass                      # closure body
        elif head == "" or head.endswith("="):
            pass                      # plain block / block expression
        else:
            err(f"{h.where()}: validate call site is inside a conditional or loop: `{head[-80:]} {{`")
        p = b - 1


def site_guard(h, kind, arg):
    if kind == "accept_any":
        if arg:
            err(f"{h.where()}: accept_any with arguments")
        return "AcceptAny"
    if kind == "is":
        srcs = h.addr_sources(arg)
        return "IsAddrs [%s]" % "; ".join(srcs)
    if kind == "type":
        return "IsType [%s]" % "; ".join(h.type_list(arg))
    if kind == "namespace":
        return "Namespace [%s]" % "; ".join(h.ns_list(arg))
    err("unreachable")


# ---- explicit caller gates after accept_any (exact shapes) -------------------------------------
def caller_vars(h):
    """local variables bound to rt.message().caller()"""
    return re.findall(r"\blet\s+(\w+)\s*(?::\s*&?Address)?\s*=\s*&?\s*rt\.message\(\)\.caller\(\);", h.nb)


def manual_gate(h, actor):
    """-> (guard text or None, reads_caller flag)"""
    nb = h.nb
    reads = "message().caller()" in nb.replace(" ", "")
    cvs = caller_vars(h)
    gates = []
    # M1 multisig: `if !st.is_signer(&V) { return Err(actor_error!(forbidden`
    for v in cvs:
        if re.search(r"if !st\.is_signer\(&" + v + r"\) \{ return Err\(actor_error!\(forbidden", nb):
            # is_signer must be membership in st.signers
            st_src = strip_comments_keep_strings(TR.read(f"actors/{actor}/src/state.rs"))
            sm = re.search(r"pub fn is_signer\(&self, address: &Address\) -> bool \{\s*(.*?)\s*\}", st_src, re.S)
            if not sm or norm(sm.group(1)) not in ("self.signers.contains(address)",):
                err(f"actors/{actor}/src/state.rs: State::is_signer is not `self.signers.contains(address)`")
            gates.append("IsAddrs [S_Signers]")
    # M2 miner change_beneficiary
    if re.search(r"\.pending_beneficiary_term", nb) and cvs:
        v = cvs[0]
        shape = (r"if " + v + r" == info\.owner \{.*\} else if let Some\(pending_term\) = &info\.pending_beneficiary_term \{ "
                 r"if " + v + r" != info\.beneficiary && " + v + r" != pending_term\.new_beneficiary \{ "
                 r"return Err\(actor_error!\( forbidden,.*\} else \{ return Err\(actor_error!\(forbidden, "
                 r"\"No changeBeneficiary proposal exists\"\)\); \}")
        if not re.search(shape, nb):
            err(f"{h.where()}: beneficiary-change caller gate no longer has the expected shape")
        h.require_miner_info()
        gates.append("IsAddrs [S_MinerOwner; S_MinerBeneficiary; S_Nominee]")
    # M3 verifreg add_verified_client
    for v in cvs:
        if re.search(r"st\.get_verifier_cap\(rt\.store\(\), &" + v + r"\)\?\.ok_or_else\(\|\| \{ actor_error!\(not_found, \"caller \{\} is not a verifier\"", nb):
            gates.append("IsAddrs [S_Verifiers]")
    # M4 market publish_storage_deals
    if "IS_CONTROLLING_ADDRESS_EXPORTED" in nb:
        if not cvs:
            err(f"{h.where()}: IsControllingAddress query without a caller variable")
        v = cvs[0]
        shape = (r"let provider_raw = params\.deals\[0\]\.proposal\.provider;.*"
                 r"&Address::new_id\(provider_id\), ext::miner::IS_CONTROLLING_ADDRESS_EXPORTED, "
                 r"IpldBlock::serialize_cbor\(&ext::miner::IsControllingAddressParam \{ address: " + v + r", \}\)\?.*"
                 r"if !caller_status\.is_controlling \{ return Err\(actor_error!\( forbidden,")
        if not re.search(shape, nb):
            err(f"{h.where()}: provider-control caller gate no longer has the expected shape")
        gates.append("IsAddrs [S_ProviderControllers]")
    if len(gates) > 1:
        err(f"{h.where()}: several explicit caller gates")
    return (gates[0] if gates else None), reads


def helper_type_gate(h):
    """eam create_external: `resolve_caller_external(rt)` matches on the caller's actor type"""
    if "resolve_caller_external(rt)" not in h.nb:
        return None
    hb = h.rf.body("", "resolve_caller_external")
    if hb is None:
        err(f"{h.where()}: helper resolve_caller_external not found")
    nb = norm(hb)
    m = re.search(r"let caller = rt\.message\(\)\.caller\(\); let caller_id = caller\.id\(\)\.unwrap\(\); "
                  r"let caller_code_cid = rt\.get_actor_code_cid\(&caller_id\)\.expect\([^)]*\); "
                  r"match rt\.resolve_builtin_actor_type\(&caller_code_cid\) \{", nb)
    if not m:
        err(f"{h.rf.rel}: resolve_caller_external no longer matches on the caller's code type")
    blank = blank_strings(hb)
    mpos = blank.find("match rt.resolve_builtin_actor_type")
    if mpos < 0:
        mm = re.search(r"match\s+rt\s*\.\s*resolve_builtin_actor_type", blank)
        mpos = mm.start()
    ob = blank.index("{", mpos)
    cb = match_close(blank, ob, "{", "}")
    arms_txt = hb[ob + 1:cb]
    arms_blank = blank[ob + 1:cb]
    # arm heads at depth 0 of the match body
    allowed, denied_rest = [], 0
    depth, i, heads = 0, 0, []
    for mm in re.finditer(r"(Some\(\s*Type::(\w+)\s*\)|Some\(\s*[a-z_]\w*\s*\)|None|_)\s*=>", arms_blank):
        d = arms_blank[:mm.start()].count("{") - arms_blank[:mm.start()].count("}")
        if d == 0:
            heads.append((mm.group(1), mm.group(2), mm.end()))
    for head, ty, endpos in heads:
        rest = arms_txt[endpos:endpos + 60].lstrip()
        if ty is not None:
            if ty not in TYPES:
                err(f"{h.rf.rel}: unknown Type::{ty}")
            if rest.startswith("Err("):
                continue
            allowed.append(TYPES[ty])
        else:
            if not rest.startswith("Err(ActorError::forbidden("):
                err(f"{h.rf.rel}: resolve_caller_external catch-all arm `{head}` does not return forbidden")
            denied_rest += 1
    if denied_rest < 2 or not allowed:
        err(f"{h.rf.rel}: resolve_caller_external arms not understood")
    return "IsType [%s]" % "; ".join(allowed)


def analyse_handler(rf, scope, actor, fname, depth=0):
    body = rf.body(scope, fname)
    if body is None:
        err(f"{rf.rel}: handler `{fname}` not found in impl {scope}")
    h = Handler(rf, scope, fname, body)
    sites = call_sites(body)
    delegated = None
    if not sites:
        if depth >= 1:
            err(f"{rf.rel}: `{fname}` has no validate_immediate_caller_* call site")
        # follow one level: exactly one callee (Self::f(rt, ..) or f(rt, ..)) that validates
        cands = []
        for m in re.finditer(r"\b(?:Self::)?([a-z_]\w*)\s*\(\s*rt\b", blank_strings(body)):
            callee = m.group(1)
            for sc in (scope, ""):
                cb = rf.body(sc, callee) if (sc, callee) in rf.fns else None
                if cb is not None and SITE_RE.search(blank_strings(cb)):
                    cands.append((sc, callee))
        cands = sorted(set(cands))
        if len(cands) != 1:
            err(f"{rf.rel}: `{fname}` has no validate_immediate_caller_* call site and "
                f"{len(cands)} validating callees")
        g, n, reads, _ = analyse_handler(rf, cands[0][0], actor, cands[0][1], depth + 1)
        return g, n, reads, cands[0][1]
    blank = blank_strings(body)
    guards = [site_guard(h, k, a) for (k, a, s, e) in sites]
    if len(sites) == 1:
        check_unconditional(h, blank, sites[0][2])
        g = guards[0]
    elif len(sites) == 2 and sites[0][0] == "is" and sites[1][0] == "is":
        # must be the two arms of one if / else-if chain
        b1 = enclosing_block(blank, sites[0][2])
        e1 = match_close(blank, b1, "{", "}")
        mid = blank[e1 + 1:]
        mm = re.match(r"\s*else\s+if\b[^{]*\{", mid)
        if not mm:
            err(f"{h.where()}: two validate sites that are not the arms of an if/else-if")
        b2 = e1 + 1 + mm.end() - 1
        e2 = match_close(blank, b2, "{", "}")
        if not (b2 < sites[1][2] < e2) or enclosing_block(blank, sites[1][2]) != b2:
            err(f"{h.where()}: second validate site is not directly in the else-if arm")
        if re.match(r"\s*else\b", blank[e2 + 1:]):
            err(f"{h.where()}: if/else-if chain with validate sites has a further else arm")
        # the head of the first arm must be an `if` (not a loop/closure)
        head = norm(body[max(0, b1 - 300):b1])
        hm = re.search(r"\bif\b([^{};]*)$", head)
        if not hm:
            err(f"{h.where()}: first validate site is not directly inside an `if` arm")
        # exact arm conditions: arm 1 is taken when the caller IS the address it then requires (or
        # there is no second candidate); arm 2 binds the second candidate with `if let Some(..)`
        cond1 = norm(hm.group(1))
        cond2 = norm(body[e1 + 1:b2])
        a1, a2 = sites[0][1], sites[1][1]
        m1 = re.fullmatch(r"(?:std::)?iter::once\(&(.+)\)", a1)
        m2 = re.fullmatch(r"(?:std::)?iter::once\(&(\w+)\)", a2)
        if not m1 or not m2:
            err(f"{h.where()}: branching validate sites must each require a single address")
        cm = re.fullmatch(r"rt\.message\(\)\.caller\(\) == " + re.escape(m1.group(1)) + r" \|\| (\S+)\.is_none\(\)", cond1)
        if not cm:
            err(f"{h.where()}: condition of the first validate arm not understood: `{cond1}`")
        if not re.fullmatch(r"else if let Some\(" + re.escape(m2.group(1)) + r"\) = " + re.escape(cm.group(1)), cond2):
            err(f"{h.where()}: condition of the second validate arm not understood: `{cond2}`")
        check_unconditional(h, blank, sites[0][2], (b1, b2))
        check_unconditional(h, blank, sites[1][2], (b1, b2))
        g = "Branching (%s) (%s)" % (guards[0], guards[1])
    else:
        err(f"{h.where()}: {len(sites)} validate_immediate_caller_* call sites in an unknown arrangement")
    gate, reads = manual_gate(h, actor)
    tg = helper_type_gate(h)
    if gate is not None:
        if g != "AcceptAny":
            err(f"{h.where()}: explicit caller gate after a restrictive validate call")
        g = "Manual (%s)" % gate
    if tg is not None:
        if gate is not None:
            err(f"{h.where()}: both explicit gate and helper type gate")
        g = "Both (%s) (%s)" % (g, tg)
        reads = True
    return g, len(sites), reads, delegated


def analyse_fallback(rf, scope, actor, fname):
    """-> (threshold, guard, sites)"""
    body = rf.body(scope, fname)
    if body is None:
        err(f"{rf.rel}: fallback `{fname}` not found")
    nb = norm(body)
    consts = TR.scan_consts(rf.rel)
    shared = TR.scan_consts("runtime/src/builtin/shared.rs")
    g, n, reads, deleg = analyse_handler(rf, scope, actor, fname)
    if re.search(r"rt\.validate_immediate_caller_accept_any\(\)\?; if method >= FIRST_EXPORTED_METHOD_NUMBER \{ Ok\(None\) \} "
                 r"else \{ Err\(actor_error!\(unhandled_message;", nb):
        thr = TR.eval_int(shared["FIRST_EXPORTED_METHOD_NUMBER"][1], shared)
        return thr, g, n, (deleg or fname)
    m = re.search(r"^\{ if method <= ([A-Z_0-9]+) \{ return Err\(actor_error!\(unhandled_message;", nb)
    if m and m.group(1) in consts and deleg is not None:
        return TR.eval_int(consts[m.group(1)][1], consts) + 1, g, n, deleg
    err(f"{rf.rel}: fallback `{fname}` not understood")


# ------------------------------------------------------------------------------------------------
# production runtime shape (read only; the wasm runtime cannot be executed natively)
# ------------------------------------------------------------------------------------------------
def check_runtime_shape():
    src = strip_comments_keep_strings(TR.read("runtime/src/runtime/fvm.rs"))
    rf = RustFile("runtime/src/runtime/fvm.rs")
    n = 0
    for (scope, name), v in rf.fns.items():
        if name.startswith("validate_immediate_caller_"):
            b = norm(rf.src[v[0]:v[1] + 1])
            if not b.startswith("{ self.assert_not_validated()?;"):
                err(f"fvm.rs: {name} does not start with assert_not_validated()?")
            if "self.caller_validated.replace(true);" not in b:
                err(f"fvm.rs: {name} does not set caller_validated")
            n += 1
    if n != 4:
        err(f"fvm.rs: expected 4 validate_immediate_caller_* primitives, found {n}")
    if not re.search(r"if !\*rt\.caller_validated\.borrow\(\) \{ fvm::vm::abort\( ?ExitCode::USR_ASSERTION_FAILED\.value\(\),", norm(src)):
        err("fvm.rs: trampoline no longer aborts when the caller was not validated")
    # restrict_internal_api
    sh = norm(strip_comments_keep_strings(TR.read("runtime/src/builtin/shared.rs")))
    shape = (r"pub fn restrict_internal_api<RT>\(rt: &RT, method: MethodNum\) -> Result<\(\), ActorError> where RT: Runtime, \{ "
             r"if method >= FIRST_EXPORTED_METHOD_NUMBER \{ return Ok\(\(\)\); \} "
             r"let caller = rt\.message\(\)\.caller\(\); let code_cid = rt\.get_actor_code_cid\(&caller\.id\(\)\.unwrap\(\)\); "
             r"match code_cid \{ None => \{ return Err\( actor_error!\(forbidden;.*?\} "
             r"Some\(code_cid\) => \{ let builtin_type = rt\.resolve_builtin_actor_type\(&code_cid\); "
             r"match builtin_type \{ None \| Some\(Type::EVM\) => \{ return Err\( actor_error!\(forbidden;.*?\} "
             r"Some\(_\) => \{\} \} \} \} Ok\(\(\)\) \}")
    if not re.search(shape, sh):
        err("shared.rs: restrict_internal_api no longer has the expected shape")
    # dispatch macros: restricted one calls restrict_internal_api first, both end in unhandled_message
    dp = norm(strip_comments_keep_strings(TR.read("runtime/src/dispatch.rs")))
    m1 = re.search(r"macro_rules! actor_dispatch \{(.*?)macro_rules! actor_dispatch_unrestricted \{(.*?)pub trait Dispatch", dp)
    if not m1:
        err("dispatch.rs: macros not found")
    a, b = m1.group(1), m1.group(2)
    if not re.search(r"\{ \$crate::builtin::shared::restrict_internal_api\(rt, method\)\?; match <Self::Methods as num_traits::FromPrimitive>::from_u64\(method\) \{", a):
        err("dispatch.rs: actor_dispatch! does not call restrict_internal_api before the method match")
    if "restrict_internal_api" in b:
        err("dispatch.rs: actor_dispatch_unrestricted! mentions restrict_internal_api")
    for nm, t in (("actor_dispatch", a), ("actor_dispatch_unrestricted", b)):
        if "None => Err(actor_error!(unhandled_message;" not in t:
            err(f"dispatch.rs: {nm}! has no unhandled_message arm")


# ------------------------------------------------------------------------------------------------
# main
# ------------------------------------------------------------------------------------------------
def coq_str(s):
    return '"%s"' % s


def analyse_all():
    actors_dir = os.path.join(TR.REPO, "actors")
    out = []
    for actor in sorted(os.listdir(actors_dir)):
        rel = f"actors/{actor}/src/lib.rs"
        if not os.path.exists(os.path.join(TR.REPO, rel)):
            continue
        rf = RustFile(rel)
        enum = parse_enum(rf, actor)
        has_dispatch = re.search(r"\bactor_dispatch(_unrestricted)?!", rf.blank) is not None
        if enum is None and not has_dispatch:
            # no methods at all (placeholder): must not mention the validation primitives either
            if "validate_immediate_caller" in rf.src:
                err(f"{rel}: validation calls without a dispatch table")
            out.append({"actor": actor, "restricted": True, "nodispatch": True, "enum": [], "rows": [],
                        "fallback": None})
            continue
        if enum is None or not has_dispatch:
            err(f"{rel}: enum Method / dispatch block missing")
        restricted, scope, drows, fb = parse_dispatch(rf)
        enum_map = {}
        for name, num, frc in enum:
            if name in enum_map:
                err(f"{rel}: duplicate enum variant {name}")
            enum_map[name] = (num, frc)
        rows = []
        cache = {}
        for mname, func in drows:
            if mname not in enum_map:
                err(f"{rel}: dispatch row {mname} is not a Method variant")
            if func not in cache:
                cache[func] = analyse_handler(rf, scope, actor, func)
            g, n, reads, deleg = cache[func]
            num, frc = enum_map[mname]
            rows.append({"name": mname, "num": num, "frc": frc, "handler": func, "guard": g, "sites": n,
                         "reads": reads, "sitefn": deleg or func})
        fallback = None
        if fb is not None:
            thr, g, n, sfn = analyse_fallback(rf, scope, actor, fb)
            fallback = {"handler": fb, "from": thr, "guard": g, "sites": n, "sitefn": sfn}
        # every validate site of the file must belong to an analysed function (inventory)
        total_sites = len(SITE_RE.findall(rf.blank))
        out.append({"actor": actor, "restricted": restricted, "nodispatch": False, "enum": enum,
                    "rows": rows, "fallback": fallback, "file_sites": total_sites})
    return out


def generate(tr):
    global TR, _singleton_ids
    TR = tr
    _singleton_ids = None
    check_runtime_shape()
    actors = analyse_all()
    shared = tr.scan_consts("runtime/src/builtin/shared.rs")
    first_exported = tr.eval_int(shared["FIRST_EXPORTED_METHOD_NUMBER"][1], shared)
    L = []
    L.append("(* GENERATED by tools/translator_dispatch.py from /repo/actors/*/src/lib.rs -- do not edit. *)")
    L.append("From Coq Require Import ZArith List String.")
    L.append("From VF Require Import Base.AccessTypes.")
    L.append("Import ListNotations.")
    L.append("Open Scope Z_scope.")
    L.append("Open Scope string_scope.")
    L.append("")
    L.append(f"Definition first_exported_method_number : Z := {first_exported}.")
    L.append("")
    names = []
    for a in actors:
        nm = "actor_" + a["actor"]
        names.append(nm)
        L.append(f"Definition {nm} : actor_info := {{|")
        L.append(f"  a_name := {coq_str(a['actor'])};")
        L.append(f"  a_restricted := {'true' if a['restricted'] else 'false'};")
        L.append(f"  a_has_dispatch := {'false' if a['nodispatch'] else 'true'};")
        L.append("  a_enum := [" + "; ".join(
            "(%s, %d, %s)" % (coq_str(n), num, ("Some " + coq_str(f)) if f else "None") for n, num, f in a["enum"]) + "];")
        L.append("  a_rows := [")
        rows = a["rows"]
        for i, r in enumerate(rows):
            sep = ";" if i + 1 < len(rows) else ""
            L.append("    {| r_num := %d; r_name := %s; r_handler := %s; r_guard := %s; r_sites := %d; r_site_fn := %s; r_reads_caller := %s |}%s"
                     % (r["num"], coq_str(r["name"]), coq_str(r["handler"]), r["guard"], r["sites"],
                        coq_str(r["sitefn"]), "true" if r["reads"] else "false", sep))
        L.append("  ];")
        if a["fallback"]:
            f = a["fallback"]
            L.append("  a_fallback := Some {| f_handler := %s; f_from := %d; f_guard := %s; f_sites := %d; f_site_fn := %s |};"
                     % (coq_str(f["handler"]), f["from"], f["guard"], f["sites"], coq_str(f["sitefn"])))
        else:
            L.append("  a_fallback := None;")
        L.append("  a_file_sites := %d" % a.get("file_sites", 0))
        L.append("|}.")
        L.append("")
    L.append("Definition actors : list actor_info := [" + "; ".join(names) + "].")
    L.append("")
    nrows = sum(len(a["rows"]) for a in actors)
    nsites = sum(a.get("file_sites", 0) for a in actors)
    L.append(f"(* {len(actors)} actors, {nrows} dispatch rows, {nsites} validate_immediate_caller_* call sites *)")
    return {"Dispatch.v": "\n".join(L) + "\n"}


if __name__ == "__main__":
    import sys
    sys.path.insert(0, "/verif/tools")
    import translator as tr
    try:
        res = generate(tr)
    except tr.TranslatorError as e:
        print("TRANSLATOR-ERROR:", e)
        sys.exit(2)
    dst = sys.argv[1] if len(sys.argv) > 1 else None
    if dst:
        open(dst, "w").write(res["Dispatch.v"])
    else:
        print(res["Dispatch.v"])
