#!/bin/bash
# usage: tools/coqgoals.sh coq/Proofs/X.v LINE   -> prints the goals after LINE (inclusive)
f="$1"; n="$2"
tmp="$(mktemp /tmp/goalsXXXX.v)"
head -n "$n" "$f" > "$tmp"
echo "Show. Abort." >> "$tmp"   # Show prints goals; rest ignored
cd "$(dirname "$0")/../coq" && timeout 300 coqc -Q . VF "$tmp" 2>&1 | head -${3:-80}
rm -f "$tmp" "${tmp%.v}.vo" "${tmp%.v}.glob" "${tmp%.v}.vok" "${tmp%.v}.vos"
