"""Translator module (property C15): actors/miner/src/{lib.rs,monies.rs,policy.rs,ext.rs}, runtime policy
   ->  coq/Gen/Gated.v          call-site inventory per handler of the penalty / debt-gate plumbing
   ->  coq/Gen/PenaltyConsts.v  the integer constants the penalty closed forms use

Gated.v: for each of the functions
    repay_debts_or_abort, apply_penalty, repay_partial_debt_in_priority_order, burn_funds,
    notify_pledge_changed, check_balance_invariants, process_early_terminations
the list of `fn`s of lib.rs whose body contains a call, with the number of call sites, in source order.

Purely syntactic.  Aborts (tr.TranslatorError) when
  * `fn repay_debts_or_abort` is missing or no longer forwards `state.repay_debts(..)` with `?`,
  * a call site of repay_debts_or_abort is not of the form `repay_debts_or_abort(rt, state)?`
    (a dropped `?` would swallow the rejection),
  * `fn burn_funds` no longer sends to BURNT_FUNDS_ACTOR_ADDR, or any inventory is empty,
  * a lazy_static TokenAmount constant is not `TokenAmount::from_whole(<int>)`.
"""
import re

TR = None


def err(msg):
    raise TR.TranslatorError("gated: " + msg)


def strip_comments_keep_strings(src):
    out = []
    i, n = 0, len(src)
    while i < n:
        c = src[i]
        if c == '"':
            j = i + 1
            while j < n and src[j] != '"':
                j += 2 if src[j] == "\\" else 1
            out.append(src[i:j + 1])
            i = j + 1
        elif src.startswith("//", i):
            j = src.find("\n", i)
            i = n if j < 0 else j
        elif src.startswith("/*", i):
            depth, j = 1, i + 2
            while j < n and depth:
                if src.startswith("/*", j):
                    depth += 1; j += 2
                elif src.startswith("*/", j):
                    depth -= 1; j += 2
                else:
                    j += 1
            i = j
        else:
            out.append(c)
            i += 1
    return "".join(out)


def blank_strings(src):
    out = list(src)
    i, n = 0, len(src)
    while i < n:
        if src[i] == '"':
            j = i + 1
            while j < n and src[j] != '"':
                j += 2 if src[j] == "\\" else 1
            for k in range(i + 1, min(j, n)):
                out[k] = " "
            i = j + 1
        elif src[i] == "'" and i + 2 < n and src[i + 2] == "'":
            out[i + 1] = " "
            i += 3
        else:
            i += 1
    return "".join(out)


def match_close(text, i):
    depth = 0
    for j in range(i, len(text)):
        if text[j] == "{":
            depth += 1
        elif text[j] == "}":
            depth -= 1
            if depth == 0:
                return j
    err("unbalanced braces")


FN_RE = re.compile(r"\bfn\s+([a-z_][a-z_0-9]*)\s*(?:<[^>{;]*>)?\s*\(")


def functions(text):
    """[(name, body_start, body_end)] of every `fn` with a body, in source order (nested fns included)."""
    out = []
    for m in FN_RE.finditer(text):
        # find the opening brace of the body: first `{` or `;` at paren depth 0 after the parameter list
        i = m.end() - 1
        depth = 0
        j = i
        while j < len(text):
            ch = text[j]
            if ch == "(":
                depth += 1
            elif ch == ")":
                depth -= 1
            elif depth == 0 and ch in "{;":
                break
            j += 1
        if j >= len(text) or text[j] == ";":
            continue
        out.append((m.group(1), j, match_close(text, j)))
    return out


TARGETS = [
    ("repay_debts_or_abort", r"(?<!fn )\brepay_debts_or_abort\s*\("),
    ("apply_penalty", r"\.\s*apply_penalty\s*\("),
    ("repay_partial_debt_in_priority_order", r"\.\s*repay_partial_debt_in_priority_order\s*\("),
    ("burn_funds", r"(?<!fn )\bburn_funds\s*\("),
    ("notify_pledge_changed", r"(?<!fn )\bnotify_pledge_changed\s*\("),
    ("check_balance_invariants", r"\.\s*check_balance_invariants\s*\("),
    ("process_early_terminations", r"(?<!fn )\bprocess_early_terminations\s*\("),
]


def inventory(text, fns, pat):
    """innermost enclosing fn of every match"""
    counts = {}
    order = []
    for m in re.finditer(pat, text):
        best = None
        for (name, s, e) in fns:
            if s < m.start() < e and (best is None or s > best[1]):
                best = (name, s, e)
        if best is None:
            err("call site outside any fn: " + text[m.start():m.start() + 40])
        if best[0] not in counts:
            counts[best[0]] = 0
            order.append(best[0])
        counts[best[0]] += 1
    return [(n, counts[n]) for n in order]


def coq_list(rows):
    return "[" + "; ".join('("%s", %d%%Z)' % (n, c) for n, c in rows) + "]"


def gen_gated():
    src = strip_comments_keep_strings(TR.read("actors/miner/src/lib.rs"))
    text = blank_strings(src)
    fns = functions(text)
    names = [f[0] for f in fns]
    # ---- shape checks -------------------------------------------------------------------------
    if names.count("repay_debts_or_abort") != 1:
        err("expected exactly one `fn repay_debts_or_abort` in actors/miner/src/lib.rs")
    (_, s, e) = [f for f in fns if f[0] == "repay_debts_or_abort"][0]
    body = " ".join(text[s:e].split())
    if not re.search(r"state\s*\.\s*repay_debts\s*\(\s*&\s*rt\s*\.\s*current_balance\s*\(\s*\)\s*\)\s*\.\s*map_err\s*\(.*\)\s*\?\s*;", body):
        err("repay_debts_or_abort no longer forwards `state.repay_debts(&rt.current_balance()).map_err(..)?`")
    for m in re.finditer(TARGETS[0][1], text):
        tail = " ".join(text[m.start():m.start() + 80].split())
        if not re.match(r"repay_debts_or_abort\s*\(\s*rt\s*,\s*state\s*\)\s*\?", tail):
            err("call site of repay_debts_or_abort without `?` or with unexpected arguments: " + tail[:50])
    if names.count("burn_funds") != 1:
        err("expected exactly one `fn burn_funds`")
    (_, s, e) = [f for f in fns if f[0] == "burn_funds"][0]
    body = " ".join(text[s:e].split())
    if not re.search(r"if amount\s*\.\s*is_positive\s*\(\s*\)\s*\{\s*extract_send_result\s*\(\s*rt\s*\.\s*send_simple\s*\(\s*&\s*BURNT_FUNDS_ACTOR_ADDR\s*,\s*METHOD_SEND\s*,\s*None\s*,\s*amount\s*\)\s*\)\s*\?\s*;", body):
        err("burn_funds no longer has the shape `if amount.is_positive() { send(BURNT_FUNDS_ACTOR_ADDR, METHOD_SEND, None, amount)? }`")
    # state.rs: repay_debts compares the unlocked balance with the fee debt
    st = " ".join(blank_strings(strip_comments_keep_strings(TR.read("actors/miner/src/state.rs"))).split())
    m = re.search(r"pub fn repay_debts\s*\(.*?\)\s*->\s*anyhow::Result<TokenAmount>\s*\{(.*?)Ok\s*\(\s*std::mem::take\s*\(\s*&mut self\.fee_debt\s*\)\s*\)", st)
    if not m or not re.search(r"if unlocked_balance < self\.fee_debt\s*\{\s*return Err\s*\(\s*actor_error!\s*\(\s*insufficient_funds", m.group(1)):
        err("state.rs repay_debts no longer rejects `unlocked_balance < self.fee_debt` with insufficient_funds")
    # ---- inventories --------------------------------------------------------------------------
    lines = [
        "(* GENERATED by tools/translator_gated.py from /repo/actors/miner/src/lib.rs -- do not edit. *)",
        "From Coq Require Import ZArith List String.",
        "Import ListNotations.",
        "Local Open Scope string_scope.",
        "",
        "(* (fn of lib.rs, number of call sites), in source order *)",
    ]
    for (name, pat) in TARGETS:
        rows = inventory(text, fns, pat)
        if not rows:
            err("no call site of %s found" % name)
        lines.append("Definition callers_%s : list (string * Z) := %s." % (name, coq_list(rows)))
    lines.append("")
    lines.append("(* the handlers behind the debt gate *)")
    lines.append("Definition gated_handlers : list string := map fst callers_repay_debts_or_abort.")
    return "\n".join(lines) + "\n"


# (source file, rust name)
PCONSTS = [
    ("actors/miner/src/monies.rs", "CONTINUED_FAULT_FACTOR_NUM"),
    ("actors/miner/src/monies.rs", "CONTINUED_FAULT_FACTOR_DENOM"),
    ("actors/miner/src/monies.rs", "CONTINUED_FAULT_PROJECTION_PERIOD"),
    ("actors/miner/src/monies.rs", "INVALID_WINDOW_POST_PROJECTION_PERIOD"),
    ("actors/miner/src/monies.rs", "TERMINATION_PENALTY_LOWER_BOUND_PROJECTIONS_PERIOD"),
    ("actors/miner/src/monies.rs", "TERMINATION_LIFETIME_CAP"),
    ("actors/miner/src/monies.rs", "CONSENSUS_FAULT_FACTOR"),
    ("runtime/src/builtin/network.rs", "EXPECTED_LEADERS_PER_EPOCH"),
    ("runtime/src/runtime/policy.rs", "CONSENSUS_FAULT_INELIGIBILITY_DURATION"),
    ("runtime/src/runtime/policy.rs", "DAILY_FEE_BLOCK_REWARD_CAP_DENOM"),
    ("actors/miner/src/ext.rs", "UPDATE_CLAIMED_POWER_METHOD"),
    ("actors/miner/src/ext.rs", "ENROLL_CRON_EVENT_METHOD"),
    ("actors/miner/src/ext.rs", "UPDATE_PLEDGE_TOTAL_METHOD"),
    ("actors/miner/src/ext.rs", "CURRENT_TOTAL_POWER_METHOD"),
    ("actors/miner/src/ext.rs", "THIS_EPOCH_REWARD_METHOD"),
    ("actors/miner/src/ext.rs", "ON_MINER_SECTORS_TERMINATE_METHOD"),
    ("actors/miner/src/ext.rs", "VERIFY_DEALS_FOR_ACTIVATION_METHOD"),
]

ERR_CONSTS = [("actors/miner/src/lib.rs", "ERR_BALANCE_INVARIANTS_BROKEN")]


def gen_consts():
    lines = [
        "(* GENERATED by tools/translator_gated.py from /repo's Rust sources -- do not edit. *)",
        "From Coq Require Import ZArith.",
        "Open Scope Z_scope.",
        "",
    ]
    network = TR.scan_consts("runtime/src/builtin/network.rs")
    cache = {}
    for rel, name in PCONSTS:
        if rel not in cache:
            cache[rel] = TR.scan_consts(rel)
        if name not in cache[rel]:
            err("constant %s not found in %s" % (name, rel))
        env = dict(network)
        env.update(cache[rel])
        val = TR.eval_int(cache[rel][name][1], env)
        lines.append("Definition %s : Z := %d.  (* %s: %s *)" % (name, val, rel, cache[rel][name][1]))
    # lazy_static TokenAmount constants of monies.rs
    src = TR.strip_comments(TR.read("actors/miner/src/monies.rs"))
    for nm in ("BASE_REWARD_FOR_DISPUTED_WINDOW_POST", "BASE_PENALTY_FOR_DISPUTED_WINDOW_POST"):
        m = re.search(r"static\s+ref\s+" + nm + r"\s*:\s*TokenAmount\s*=\s*TokenAmount::from_whole\(\s*(\d+)\s*\)\s*;", src)
        if not m:
            err("%s is not `TokenAmount::from_whole(<int>)` in actors/miner/src/monies.rs" % nm)
        lines.append("Definition %s : Z := %d.  (* from_whole(%s) *)" % (nm, int(m.group(1)) * 10**18, m.group(1)))
    # ERR_BALANCE_INVARIANTS_BROKEN: ExitCode::new(1000)
    src = TR.strip_comments(TR.read("actors/miner/src/lib.rs"))
    m = re.search(r"const\s+ERR_BALANCE_INVARIANTS_BROKEN\s*:\s*ExitCode\s*=\s*ExitCode::new\(\s*(\d+)\s*\)\s*;", src)
    if not m:
        err("ERR_BALANCE_INVARIANTS_BROKEN is not `ExitCode::new(<int>)` in actors/miner/src/lib.rs")
    lines.append("Definition ERR_BALANCE_INVARIANTS_BROKEN : Z := %d." % int(m.group(1)))
    return "\n".join(lines) + "\n"


def generate(tr):
    global TR
    TR = tr
    return {"Gated.v": gen_gated(), "PenaltyConsts.v": gen_consts()}
