#!/usr/bin/env python3
import subprocess, re
t = subprocess.check_output(["python3", "/verif/tools/seeded_table.py"], text=True)
s = open("/verif/DESIGN.md").read()
s = re.sub(r"<!-- SEEDED-TABLE-BEGIN -->.*?<!-- SEEDED-TABLE-END -->", "<!-- SEEDED-TABLE-BEGIN -->\n" + t + "<!-- SEEDED-TABLE-END -->", s, flags=re.S)
open("/verif/DESIGN.md", "w").write(s)
print("updated")
