#!/usr/bin/env python3
"""Translator: regenerates coq/Gen/*.v from /repo's current Rust sources on every run.

Deliberately small and syntactic. It aborts (exit 2, message on stderr) when an expected syntactic
shape is missing, rather than guessing; the check driver then reports the property as no longer
shown (`no-failing-input-found`, naming the translator).

Gen/Consts.v   integer constants (evaluated constant expressions)
Gen/Dispatch.v method/guard table per actor                       (see translator_dispatch.py)
Gen/Opcodes.v  EVM opcode table                                    (see translator_evm.py)
"""
import os, re, sys

REPO = os.environ.get("VERIF_REPO", "/repo")
OUT = os.path.join(os.path.dirname(os.path.abspath(__file__)), "..", "coq", "Gen")


class TranslatorError(Exception):
    pass


def read(rel):
    p = os.path.join(REPO, rel)
    if not os.path.exists(p):
        raise TranslatorError(f"missing source file {rel}")
    return open(p).read()


def strip_comments(src):
    src = re.sub(r"/\*.*?\*/", "", src, flags=re.S)
    src = re.sub(r"//[^\n]*", "", src)
    return src


# ---- cfg evaluation with no cargo feature enabled and no custom cfg set -------------------------
def eval_cfg(expr):
    expr = expr.strip()
    m = re.fullmatch(r"not\((.*)\)", expr, flags=re.S)
    if m:
        return not eval_cfg(m.group(1))
    m = re.fullmatch(r"(any|all)\((.*)\)", expr, flags=re.S)
    if m:
        parts = split_top(m.group(2))
        vals = [eval_cfg(p) for p in parts if p.strip()]
        return any(vals) if m.group(1) == "any" else all(vals)
    if re.fullmatch(r'feature\s*=\s*"[^"]*"', expr):
        return False
    if expr in ("test", "debug_assertions"):
        return False
    if re.fullmatch(r'target_arch\s*=\s*"wasm32"', expr):
        return False
    if re.fullmatch(r"[a-z_A-Z0-9]+", expr):
        return False
    raise TranslatorError(f"cannot evaluate cfg({expr})")


def split_top(s):
    out, depth, cur = [], 0, ""
    for ch in s:
        if ch == "(":
            depth += 1
        if ch == ")":
            depth -= 1
        if ch == "," and depth == 0:
            out.append(cur)
            cur = ""
        else:
            cur += ch
    out.append(cur)
    return out


CONST_RE = re.compile(
    r"((?:#\[cfg\((?P<cfg>[^\]]*)\)\]\s*)?)(?:pub(?:\([a-z]+\))?\s+)?const\s+(?P<name>[A-Z_0-9]+)\s*:\s*(?P<ty>[^=;]+?)\s*=\s*(?P<expr>[^;]+);",
    re.S,
)


def scan_consts(rel):
    src = strip_comments(read(rel))
    out = {}
    for m in CONST_RE.finditer(src):
        cfg = m.group("cfg")
        if cfg is not None and not eval_cfg(cfg):
            continue
        out[m.group("name")] = (m.group("ty").strip(), " ".join(m.group("expr").split()))
    return out


INT_TYPES = {"i64", "u64", "u32", "i32", "usize", "u128", "i128", "u8", "ChainEpoch", "MethodNum",
             "ActorID", "SectorNumber", "u16"}


def eval_int(expr, env, depth=0):
    if depth > 20:
        raise TranslatorError("constant recursion too deep: " + expr)
    e = expr
    e = re.sub(r"\bi64::MAX\b", str(2**63 - 1), e)
    e = re.sub(r"\bu64::MAX\b", str(2**64 - 1), e)
    e = re.sub(r"\bu32::MAX\b", str(2**32 - 1), e)
    e = re.sub(r"\bi64::MIN\b", str(-(2**63)), e)
    e = re.sub(r"\s+as\s+[a-zA-Z0-9_]+", "", e)
    e = re.sub(r"(?<=\d)_(?=\d)", "", e)
    e = re.sub(r"(\d)(?:u64|i64|u32|i32|usize|u128|i128|u8)\b", r"\1", e)
    e = re.sub(r"\b[a-z_]+::", "", e)  # path prefixes such as network::
    def repl(m):
        n = m.group(0)
        if n not in env:
            raise TranslatorError(f"unknown identifier {n} in constant expression `{expr}`")
        return "(" + str(eval_int(env[n][1], env, depth + 1)) + ")"
    e = re.sub(r"\b[A-Z][A-Z_0-9]*\b", repl, e)
    if not re.fullmatch(r"[0-9xXa-fA-F\s\+\-\*/\(\)<>%]*", e):
        raise TranslatorError(f"unsupported constant expression `{expr}` -> `{e}`")
    e = e.replace("/", "//")
    try:
        return int(eval(e, {"__builtins__": {}}, {}))
    except Exception as ex:  # noqa
        raise TranslatorError(f"cannot evaluate `{expr}`: {ex}")


# (source file, rust name, coq name)
CONSTS = [
    ("runtime/src/builtin/network.rs", "EPOCH_DURATION_SECONDS", "EPOCH_DURATION_SECONDS"),
    ("runtime/src/builtin/network.rs", "EPOCHS_IN_HOUR", "EPOCHS_IN_HOUR"),
    ("runtime/src/builtin/network.rs", "EPOCHS_IN_DAY", "EPOCHS_IN_DAY"),
    ("runtime/src/builtin/network.rs", "EPOCHS_IN_YEAR", "EPOCHS_IN_YEAR"),
    ("runtime/src/builtin/shared.rs", "FIRST_EXPORTED_METHOD_NUMBER", "FIRST_EXPORTED_METHOD_NUMBER"),
    ("runtime/src/builtin/shared.rs", "FIRST_ACTOR_SPECIFIC_EXIT_CODE", "FIRST_ACTOR_SPECIFIC_EXIT_CODE"),
    ("runtime/src/builtin/singletons.rs", "SYSTEM_ACTOR_ID", "SYSTEM_ACTOR_ID"),
    ("runtime/src/builtin/singletons.rs", "INIT_ACTOR_ID", "INIT_ACTOR_ID"),
    ("runtime/src/builtin/singletons.rs", "REWARD_ACTOR_ID", "REWARD_ACTOR_ID"),
    ("runtime/src/builtin/singletons.rs", "CRON_ACTOR_ID", "CRON_ACTOR_ID"),
    ("runtime/src/builtin/singletons.rs", "STORAGE_POWER_ACTOR_ID", "STORAGE_POWER_ACTOR_ID"),
    ("runtime/src/builtin/singletons.rs", "STORAGE_MARKET_ACTOR_ID", "STORAGE_MARKET_ACTOR_ID"),
    ("runtime/src/builtin/singletons.rs", "VERIFIED_REGISTRY_ACTOR_ID", "VERIFIED_REGISTRY_ACTOR_ID"),
    ("runtime/src/builtin/singletons.rs", "DATACAP_TOKEN_ACTOR_ID", "DATACAP_TOKEN_ACTOR_ID"),
    ("runtime/src/builtin/singletons.rs", "EAM_ACTOR_ID", "EAM_ACTOR_ID"),
    ("runtime/src/builtin/singletons.rs", "BURNT_FUNDS_ACTOR_ID", "BURNT_FUNDS_ACTOR_ID"),
    ("runtime/src/builtin/singletons.rs", "FIRST_NON_SINGLETON_ADDR", "FIRST_NON_SINGLETON_ADDR"),
    ("actors/paych/src/types.rs", "MAX_LANE", "MAX_LANE"),
    ("actors/paych/src/types.rs", "SETTLE_DELAY", "SETTLE_DELAY"),
    ("actors/paych/src/types.rs", "MAX_SECRET_SIZE", "MAX_SECRET_SIZE"),
    ("actors/multisig/src/types.rs", "SIGNERS_MAX", "SIGNERS_MAX"),
    ("runtime/src/runtime/policy.rs", "WPOST_PROVING_PERIOD", "WPOST_PROVING_PERIOD"),
    ("runtime/src/runtime/policy.rs", "WPOST_CHALLENGE_WINDOW", "WPOST_CHALLENGE_WINDOW"),
    ("runtime/src/runtime/policy.rs", "WPOST_PERIOD_DEADLINES", "WPOST_PERIOD_DEADLINES"),
    ("runtime/src/runtime/policy.rs", "CHAIN_FINALITY", "CHAIN_FINALITY"),
    ("runtime/src/runtime/policy.rs", "WORKER_KEY_CHANGE_DELAY", "WORKER_KEY_CHANGE_DELAY"),
    ("runtime/src/runtime/policy.rs", "END_OF_LIFE_CLAIM_DROP_PERIOD", "END_OF_LIFE_CLAIM_DROP_PERIOD"),
    ("runtime/src/runtime/policy.rs", "DEAL_UPDATES_INTERVAL", "DEAL_UPDATES_INTERVAL"),
    ("runtime/src/runtime/policy.rs", "MINIMUM_CONSENSUS_POWER", "MINIMUM_CONSENSUS_POWER"),
    ("runtime/src/runtime/policy.rs", "MINIMUM_VERIFIED_ALLOCATION_TERM", "MINIMUM_VERIFIED_ALLOCATION_TERM"),
    ("runtime/src/runtime/policy.rs", "MAXIMUM_VERIFIED_ALLOCATION_TERM", "MAXIMUM_VERIFIED_ALLOCATION_TERM"),
    ("runtime/src/runtime/policy.rs", "MAXIMUM_VERIFIED_ALLOCATION_EXPIRATION", "MAXIMUM_VERIFIED_ALLOCATION_EXPIRATION"),
    ("runtime/src/runtime/policy.rs", "MINIMUM_VERIFIED_ALLOCATION_SIZE", "MINIMUM_VERIFIED_ALLOCATION_SIZE"),
    ("runtime/src/runtime/policy.rs", "MAX_CONTROL_ADDRESSES", "MAX_CONTROL_ADDRESSES"),
    ("runtime/src/runtime/policy.rs", "MIN_SECTOR_EXPIRATION", "MIN_SECTOR_EXPIRATION"),
    ("runtime/src/runtime/policy.rs", "MAX_SECTOR_EXPIRATION_EXTENSION", "MAX_SECTOR_EXPIRATION_EXTENSION"),
    ("actors/miner/src/monies.rs", "TERM_FEE_PLEDGE_MULTIPLE_NUM", "TERM_FEE_PLEDGE_MULTIPLE_NUM"),
    ("actors/miner/src/monies.rs", "TERM_FEE_PLEDGE_MULTIPLE_DENOM", "TERM_FEE_PLEDGE_MULTIPLE_DENOM"),
    ("actors/miner/src/monies.rs", "TERM_FEE_MIN_PLEDGE_MULTIPLE_NUM", "TERM_FEE_MIN_PLEDGE_MULTIPLE_NUM"),
    ("actors/miner/src/monies.rs", "TERM_FEE_MIN_PLEDGE_MULTIPLE_DENOM", "TERM_FEE_MIN_PLEDGE_MULTIPLE_DENOM"),
    ("actors/miner/src/monies.rs", "TERM_FEE_MAX_FAULT_FEE_MULTIPLE_NUM", "TERM_FEE_MAX_FAULT_FEE_MULTIPLE_NUM"),
    ("actors/miner/src/monies.rs", "TERM_FEE_MAX_FAULT_FEE_MULTIPLE_DENOM", "TERM_FEE_MAX_FAULT_FEE_MULTIPLE_DENOM"),
    ("actors/miner/src/policy.rs", "CONSENSUS_FAULT_REPORTER_DEFAULT_SHARE", "CONSENSUS_FAULT_REPORTER_DEFAULT_SHARE"),
    ("actors/evm/src/interpreter/stack.rs", "STACK_SIZE", "STACK_SIZE"),
]


def gen_consts():
    cache = {}
    lines = [
        "(* GENERATED by tools/translator.py from /repo's Rust sources -- do not edit. *)",
        "From Coq Require Import ZArith.",
        "Open Scope Z_scope.",
        "",
    ]
    network = None
    for rel, name, coq in CONSTS:
        if rel not in cache:
            cache[rel] = scan_consts(rel)
        if network is None:
            network = scan_consts("runtime/src/builtin/network.rs")
        env = dict(network)
        env.update(cache[rel])
        if name not in cache[rel]:
            raise TranslatorError(f"constant {name} not found in {rel}")
        val = eval_int(cache[rel][name][1], env)
        lines.append(f"Definition {coq} : Z := {val if val >= 0 else '(%d)' % val}.  (* {rel}: {cache[rel][name][1]} *)")
    # REWARD_VESTING_SPEC (struct constant)
    src = strip_comments(read("actors/miner/src/policy.rs"))
    m = re.search(r"pub const REWARD_VESTING_SPEC\s*:\s*VestSpec\s*=\s*VestSpec\s*\{(.*?)\};", src, re.S)
    if not m:
        raise TranslatorError("REWARD_VESTING_SPEC not found in actors/miner/src/policy.rs")
    fields = dict(re.findall(r"(\w+)\s*:\s*([^,]+),", m.group(1)))
    env = dict(network)
    env.update(scan_consts("actors/miner/src/policy.rs"))
    for f in ("initial_delay", "vest_period", "step_duration", "quantization"):
        if f not in fields:
            raise TranslatorError(f"REWARD_VESTING_SPEC.{f} missing")
        lines.append(f"Definition REWARD_VEST_{f.upper()} : Z := {eval_int(fields[f], env)}.  (* {fields[f].strip()} *)")
    # LOCKED_REWARD_FACTOR_NUM/DENOM (lazy_static BigInt in monies.rs)
    src = strip_comments(read("actors/miner/src/monies.rs"))
    for nm in ("LOCKED_REWARD_FACTOR_NUM", "LOCKED_REWARD_FACTOR_DENOM"):
        m = re.search(nm + r"\s*:\s*\w+\s*=\s*BigInt::from\((\d+)\)", src) or re.search(
            r"const\s+" + nm + r"\s*:\s*\w+\s*=\s*(\d+)", src)
        if not m:
            raise TranslatorError(f"{nm} not found in actors/miner/src/monies.rs")
        lines.append(f"Definition {nm} : Z := {int(m.group(1))}.")
    return "\n".join(lines) + "\n"


def write_if_changed(path, content):
    os.makedirs(os.path.dirname(path), exist_ok=True)
    if os.path.exists(path) and open(path).read() == content:
        return False
    open(path, "w").write(content)
    return True


def main():
    changed = []
    try:
        if write_if_changed(os.path.join(OUT, "Consts.v"), gen_consts()):
            changed.append("Consts.v")
        for modname in sorted(os.path.basename(p)[:-3] for p in __import__("glob").glob(os.path.join(os.path.dirname(os.path.abspath(__file__)), "translator_*.py"))):
            try:
                mod = __import__(modname)
            except ImportError:
                continue
            for fname, content in mod.generate(sys.modules[__name__]).items():
                if write_if_changed(os.path.join(OUT, fname), content):
                    changed.append(fname)
    except TranslatorError as e:
        print(f"TRANSLATOR-ERROR: {e}", file=sys.stderr)
        sys.exit(2)
    print("translator: ok; changed:", changed)


if __name__ == "__main__":
    sys.path.insert(0, os.path.dirname(os.path.abspath(__file__)))
    main()
