#!/bin/bash
# Confirm a seeded change independently in a scratch worktree, then file it under /verif/seeded/<id>/.
# usage: tools/confirm_seed.sh <seed-id> <dir with patch.diff demo.diff README.md> <property> "<cargo test args for existing tests>" "<cargo test args for the demo>"
# e.g.   tools/confirm_seed.sh C16-m1 /tmp/mut/C16_out/m1 C16 "-p fil_actor_paych" "-p fil_actor_paych --test seeded_demo"
set -u
id="$1"; src="$2"; prop="$3"; existing="$4"; demo="$5"
HERE="$(cd "$(dirname "$0")/.." && pwd)"
WT=/tmp/seedcheck_$id
export CARGO_NET_OFFLINE=true CARGO_TARGET_DIR="${CONFIRM_TARGET:-/tmp/confirm_target}"
out="$HERE/seeded/$id"; mkdir -p "$out"
log="$out/confirm.log"; : > "$log"
git -C /repo worktree remove --force "$WT" >/dev/null 2>&1
git -C /repo worktree add -q --detach "$WT" HEAD || exit 3
cd "$WT"
res() { echo "$1" | tee -a "$log"; }
# 1 demo on pristine: must pass
git apply "$src/demo.diff" || { res "demo.diff does not apply"; exit 3; }
if cargo test --offline $demo >> "$log" 2>&1; then res "STEP1 demo on pristine code: PASS (expected)"; s1=ok; else res "STEP1 demo on pristine code: FAIL (unexpected)"; s1=bad; fi
# 2 demo with patch: must fail
git apply "$src/patch.diff" || { res "patch.diff does not apply"; exit 3; }
git apply --numstat "$src/patch.diff" | awk '{print $3}' | while read -r f; do touch -d "+1 hour" "$f"; done
if cargo test --offline $demo >> "$log" 2>&1; then res "STEP2 demo with the change: PASS (unexpected)"; s2=bad; else res "STEP2 demo with the change: FAIL (expected)"; s2=ok; fi
# 3 existing tests with patch only: must pass
git checkout -q -- . && git clean -fdq && git apply "$src/patch.diff"
git apply --numstat "$src/patch.diff" | awk '{print $3}' | while read -r f; do touch -d "+2 hours" "$f"; done
if cargo test --offline $existing >> "$log" 2>&1; then res "STEP3 existing tests ($existing) with the change: PASS (expected)"; s3=ok; else res "STEP3 existing tests with the change: FAIL (unexpected)"; s3=bad; fi
grep -E "^test result" "$log" | tail -40 > "$out/test_results.txt"
cd /; git -C /repo worktree remove --force "$WT"
if [ "$(readlink -f "$src")" != "$(readlink -f "$out")" ]; then cp "$src/patch.diff" "$src/demo.diff" "$out/"; cp "$src/README.md" "$out/SEEDER_README.md" 2>/dev/null; fi
echo "{\"id\": \"$id\", \"property\": \"$prop\", \"demo_pristine\": \"$s1\", \"demo_with_change\": \"$s2\", \"existing_tests_with_change\": \"$s3\", \"existing_cmd\": \"cargo test --offline $existing\", \"demo_cmd\": \"cargo test --offline $demo\"}" > "$out/confirm.json"
cat "$out/confirm.json"
