#!/usr/bin/env python3
"""Prints a markdown table of /verif/seeded/*/meta.json (+ confirm.json) for DESIGN.md."""
import glob, json, os
rows = []
for d in sorted(glob.glob("/verif/seeded/*/")):
    mp = os.path.join(d, "meta.json")
    if not os.path.exists(mp):
        continue
    m = json.load(open(mp))
    c = {}
    cp = os.path.join(d, "confirm.json")
    if os.path.exists(cp):
        try:
            c = json.load(open(cp))
        except Exception:
            c = {}
    conf = "yes" if c and all(c.get(k) == "ok" for k in ("demo_pristine", "demo_with_change", "existing_tests_with_change")) else ("partial" if c else "seeder's logs only")
    last = [x for x in m.get("check_output", []) if x.startswith("[")]
    stat = last[-1] if last else ""
    import re
    mm = re.search(r"disagreements=(\d+) monitor_violations=(\d+)", stat)
    nums = f"{mm.group(1)} disagreements, {mm.group(2)} monitor" if mm else ""
    rows.append((m["id"], m["property"], "**caught**" if m.get("detected") else "missed", nums, conf, m.get("breaks", "")[:150].replace("|", "/"), (m.get("note") or "")[:260].replace("|", "/")))
print("| seed | property | verdict | last run | confirmed by me | change | note |")
print("|---|---|---|---|---|---|---|")
for r in rows:
    print("| " + " | ".join(r) + " |")
print(f"\n{len(rows)} seeded changes; {sum(1 for r in rows if 'caught' in r[2])} caught by the current checks.")
