#!/bin/bash
# Run a check against a PRIVATE copy of /repo (optionally patched) and a private copy of /verif, so that
# neither /repo nor the shared build trees are touched and no global lock is needed.
# usage: tools/isolated_check.sh <patch.diff|none> <property-id> [extra ./check args]
# Output: the check's stdout; the private evidence/replay files are copied to $ISO_OUT (default
# /verif/work/iso_<id>_<pid>/) before the private tree is deleted.
set -u
patch="$1"; pid="$2"; shift 2
[ "$patch" != none ] && patch="$(readlink -f "$patch")"
D="/tmp/iso_${pid}_$$"
OUT="${ISO_OUT:-/verif/work/iso_${pid}_$$}"
mkdir -p "$D" "$OUT"
rsync -a --exclude target --exclude .git /repo/ "$D/repo/"
if [ "$patch" != none ]; then
  (cd "$D/repo" && git apply "$patch") || { echo "patch does not apply"; rm -rf "$D"; exit 3; }
fi
rsync -a --exclude harness/target --exclude work --exclude .git --exclude seeded /verif/ "$D/verif/"
# reuse compiled registry dependencies (workspace crates are rebuilt because their paths differ)
cp -a /verif/harness/target "$D/verif/harness/target" 2>/dev/null
sed -i "s#\"/repo/#\"$D/repo/#g" "$D/verif/harness/Cargo.toml"
rm -f "$D/verif/coq/.build.lock" "$D/verif/.repo.lock"
cd "$D/verif" && VERIF_REPO="$D/repo" VERIF_REPO_LOCKED=1 ./check "$pid" "$@" | sed "s#$D/verif#$OUT#g"
rc=${PIPESTATUS[0]}
cp -a "$D/verif/evidence/$pid.json" "$OUT/" 2>/dev/null
cp -a "$D/verif/evidence/replays/." "$OUT/" 2>/dev/null
rm -rf "$D"
echo "isolated_check: exit=$rc out=$OUT"
exit $rc
