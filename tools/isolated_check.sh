#!/bin/bash
# Run a check against a PRIVATE copy of /repo (optionally patched) and a private copy of /verif, so that
# neither /repo nor the shared build trees are touched and no global lock is needed. The private copies
# are bind-mounted over /repo and /verif inside a private mount namespace (unshare -m), so every absolute
# path stays the same and cargo/make only rebuild what the patch really changes.
# usage: tools/isolated_check.sh <patch.diff|none> <property-id> [extra ./check args]
# Output: the check's stdout; the private evidence/replay files are copied to $ISO_OUT (default
# /verif/work/iso_<id>_<pid>/) before the private tree is deleted.
set -u
patch="$1"; pid="$2"; shift 2
[ "$patch" != none ] && patch="$(readlink -f "$patch")"
D="/tmp/iso_${pid}_$$"
OUT="${ISO_OUT:-/verif/work/iso_${pid}_$$}"
mkdir -p "$D" "$OUT"
rsync -a --exclude target --exclude .git /repo/ "$D/repo/"
if [ "$patch" != none ]; then
  (cd "$D/repo" && git apply "$patch") || { echo "patch does not apply"; rm -rf "$D"; exit 3; }
  # make sure cargo sees the patched files as newer than any existing build output
  (cd "$D/repo" && git apply --numstat "$patch" | awk '{print $3}' | while read -r f; do [ -f "$f" ] && touch -d '+1 hour' "$f"; done)
fi
rsync -a --exclude work --exclude .git --exclude seeded --exclude 'coq/.build.lock' --exclude '.repo.lock' /verif/ "$D/verif/"
mkdir -p "$D/verif/work" "$D/verif/evidence/replays"
args=("$@")
unshare -m bash -c "mount --bind '$D/repo' /repo && mount --bind '$D/verif' /verif && cd /verif && VERIF_REPO_LOCKED=1 ./check '$pid' ${args[*]:-}"
rc=$?
cp -a "$D/verif/evidence/$pid.json" "$OUT/" 2>/dev/null
cp -a "$D/verif/evidence/replays/." "$OUT/" 2>/dev/null
rm -rf "$D"
echo "isolated_check: exit=$rc out=$OUT (replay paths printed above refer to /verif/evidence/replays inside the private copy; the files are in $OUT)"
exit $rc
