#!/bin/bash
# Apply a patch to /repo under an exclusive lock, run a check, and always restore /repo.
# usage: tools/with_mutation.sh <patch.diff> <property-id> [extra ./check args]
# The patch is a unified diff relative to /repo (git apply). All ./check runs hold a shared lock on the
# same file, so nobody builds against a mutated tree by accident.
set -u
HERE="$(cd "$(dirname "$0")/.." && pwd)"
patch="$(readlink -f "$1")"; pid="$2"; shift 2
exec 8>"$HERE/.repo.lock"
flock 8
if ! git -C /repo diff --quiet; then echo "refusing: /repo has uncommitted changes"; exit 3; fi
git -C /repo apply "$patch" || { echo "patch does not apply"; exit 3; }
cd "$HERE" && VERIF_REPO_LOCKED=1 ./check "$pid" "$@"
rc=$?
git -C /repo checkout -- . && git -C /repo clean -fdq -e target
echo "with_mutation: check exit=$rc ; /repo restored"
exit $rc
