"""EVM opcode table translator: /repo/actors/evm/src/interpreter/{execution.rs,instructions/mod.rs}
-> coq/Gen/Opcodes.v.

What is read (syntactically, nothing is guessed):

* execution.rs: the invocation `def_opcodes! { 0x00: STOP, ... }` (byte -> instruction name) and the
  shape of the `def_opcodes!` macro itself (undefined bytes dispatch to the `UNDEFINED` handler that
  fails with EVM_CONTRACT_UNDEFINED_INSTRUCTION, every listed byte calls `instructions::$op`).
* instructions/mod.rs: every `macro_rules! def_<kind>` (all arms) and every invocation
  `def_<kind>! { NAME(args) => path }`.  For every macro arm the *stack discipline* is extracted from
  the arm's body: how the operands are taken (`pop_many()?` with an array pattern of n identifiers,
  `ensure_one()?`, `ensure_one()` with the result ignored, delegated to `$impl(&mut m.state.stack..)`),
  how the result is put back (`push_unchecked`, checked `push(..)?`, nothing) and what happens to pc.
  Each opcode row carries the discipline of the arm its invocation selects.

The generated table is what coq/Model/EvmMachine.v dispatches through and what
coq/Proofs/EvmMachine_lemmas.v proves `arity_discipline` about.
"""
import re

EXEC = "actors/evm/src/interpreter/execution.rs"
INSTR = "actors/evm/src/interpreter/instructions/mod.rs"

KINDS = {
    "def_primop": "KPrimop", "def_stackop": "KStackop", "def_push": "KPush", "def_stdfun": "KStdfun",
    "def_stdproc": "KStdproc", "def_stdfun_code": "KStdfunCode", "def_stdproc_code": "KStdprocCode",
    "def_stdlog": "KStdlog", "def_jmp": "KJmp", "def_exit": "KExit", "def_special": "KSpecial",
}


def _match(src, i, open_ch, close_ch, err):
    """src[i] == open_ch; returns index just after the matching close_ch"""
    assert src[i] == open_ch
    depth = 0
    j = i
    while j < len(src):
        c = src[j]
        if c == open_ch:
            depth += 1
        elif c == close_ch:
            depth -= 1
            if depth == 0:
                return j + 1
        j += 1
    raise err


def _norm(s):
    return re.sub(r"\s+", "", s)


def parse_opcodes(tr):
    src = tr.strip_comments(tr.read(EXEC))
    # the macro definition: undefined bytes must fail with EVM_CONTRACT_UNDEFINED_INSTRUCTION and
    # listed bytes must dispatch to instructions::$op
    m = re.search(r"macro_rules!\s*def_opcodes\s*\{", src)
    if not m:
        raise tr.TranslatorError("execution.rs: macro_rules! def_opcodes not found")
    end = _match(src, m.end() - 1, "{", "}", tr.TranslatorError("execution.rs: unbalanced def_opcodes macro"))
    body = _norm(src[m.end():end])
    for needle, why in [
        ("($($code:literal:$op:ident,)*)=>", "pattern `$code:literal: $op:ident,`"),
        ("UNDEFINED(_m){Err(ActorError::unchecked(crate::EVM_CONTRACT_UNDEFINED_INSTRUCTION,", "UNDEFINED handler"),
        ("$(def_ins_raw!{$op(m){instructions::$op(m)}})*", "per-opcode handler calling instructions::$op"),
        ("letmuttable:[Instruction<'r,'a,RT>;256]=[UNDEFINED;256];$(table[$code]=$op;)*table", "jump table fill"),
    ]:
        if needle not in body:
            raise tr.TranslatorError(f"execution.rs: def_opcodes macro lost its expected shape ({why})")
    # the step function: fetch bytecode[pc], dispatch through JMPTABLE
    if "letop=self.bytecode[self.pc];unsafe{Self::JMPTABLE[opasusize](self)}" not in _norm(src):
        raise tr.TranslatorError("execution.rs: Machine::step lost its expected shape")
    if "whileself.pc<self.bytecode.len(){" not in _norm(src):
        raise tr.TranslatorError("execution.rs: Machine::execute loop lost its expected shape")
    # the invocation
    invs = [x for x in re.finditer(r"def_opcodes!\s*\{", src) if not src[:x.start()].rstrip().endswith("macro_rules!")]
    invs = [x for x in invs if not re.search(r"macro_rules!\s*$", src[:x.start()])]
    if len(invs) != 1:
        raise tr.TranslatorError(f"execution.rs: expected exactly one def_opcodes! invocation, found {len(invs)}")
    x = invs[0]
    end = _match(src, x.end() - 1, "{", "}", tr.TranslatorError("execution.rs: unbalanced def_opcodes! invocation"))
    inner = src[x.end():end - 1]
    rows = []
    rest = inner
    for ent in inner.split(","):
        e = ent.strip()
        if not e:
            continue
        mm = re.fullmatch(r"(0[xX][0-9a-fA-F]{1,2}|\d+)\s*:\s*([A-Z][A-Z0-9_]*)", e)
        if not mm:
            raise tr.TranslatorError(f"execution.rs: unexpected def_opcodes! entry `{e}`")
        code = int(mm.group(1), 0)
        if not (0 <= code <= 255):
            raise tr.TranslatorError(f"execution.rs: opcode byte out of range in `{e}`")
        rows.append((code, mm.group(2)))
    codes = [c for c, _ in rows]
    names = [n for _, n in rows]
    if len(set(codes)) != len(codes):
        raise tr.TranslatorError("execution.rs: a byte is assigned twice in def_opcodes!")
    if len(set(names)) != len(names):
        raise tr.TranslatorError("execution.rs: an instruction name is used twice in def_opcodes!")
    if "UNDEFINED" in names:
        raise tr.TranslatorError("execution.rs: UNDEFINED listed explicitly")
    return rows


def parse_macros(tr, src):
    """returns {macro_name: [arm, ...]} with arm = dict(pattern, body, shape, disc)"""
    out = {}
    for m in re.finditer(r"macro_rules!\s*(def_[a-z_]+)\s*\{", src):
        name = m.group(1)
        end = _match(src, m.end() - 1, "{", "}", tr.TranslatorError(f"mod.rs: unbalanced macro {name}"))
        body = src[m.end():end - 1]
        arms = []
        i = 0
        while True:
            while i < len(body) and body[i] in " \t\r\n;":
                i += 1
            if i >= len(body):
                break
            if body[i] != "(":
                raise tr.TranslatorError(f"mod.rs: macro {name}: cannot parse arm at `{body[i:i+30]}`")
            pe = _match(body, i, "(", ")", tr.TranslatorError(f"mod.rs: macro {name}: unbalanced pattern"))
            pat = body[i + 1:pe - 1]
            mm = re.match(r"\s*=>\s*\{", body[pe:])
            if not mm:
                raise tr.TranslatorError(f"mod.rs: macro {name}: expected `=> {{` after the pattern")
            bs = pe + mm.end() - 1
            be = _match(body, bs, "{", "}", tr.TranslatorError(f"mod.rs: macro {name}: unbalanced arm body"))
            arms.append({"pattern": _norm(pat), "body": _norm(body[bs + 1:be - 1])})
            i = be
        out[name] = arms
    return out


def count_idents(pat_inner):
    """number of identifiers in an array pattern such as `a,b$(,$topic)*` that are fixed
    (non-repeated) and whether the macro's repeated argument list is spliced in"""
    fixed = len(re.findall(r"(?<![\$\w])[a-z_][a-z_0-9]*", re.sub(r"\$\([^)]*\)[\*\+]?", "", pat_inner)))
    rep = len(re.findall(r"\$\(", pat_inner))
    return fixed, rep


def arm_discipline(tr, name, arm):
    """extracts (argshape, pre, extra_pops, post, pushes, pcd) from one macro arm"""
    p, b = arm["pattern"], arm["body"]
    # ---- argument shape of the invocation this arm accepts
    if name in ("def_stackop", "def_push"):
        if p != "$op:ident=>$impl:path":
            raise tr.TranslatorError(f"mod.rs: {name}: unexpected pattern `{p}`")
        shape = "ShapeImpl"
    elif name == "def_stdlog":
        if p != "$op:ident($ntopics:literal,($($topic:ident),*))":
            raise tr.TranslatorError(f"mod.rs: {name}: unexpected pattern `{p}`")
        shape = "ShapeLog"
    elif name == "def_special":
        if p != "$op:ident($m:ident)=>$value:expr":
            raise tr.TranslatorError(f"mod.rs: {name}: unexpected pattern `{p}`")
        shape = "ShapeExpr"
    else:
        if p == "$op:ident($($arg:ident),+)=>$impl:path":
            shape = "ShapeArgs1"      # one or more arguments
        elif p == "$op:ident($($arg:ident),*)=>$impl:path":
            shape = "ShapeArgs0"      # zero or more arguments
        elif p == "$op:ident()=>$impl:path":
            shape = "ShapeNone"       # exactly zero arguments
        else:
            raise tr.TranslatorError(f"mod.rs: {name}: unexpected pattern `{p}`")
    # ---- the body must be a single def_op! wrapper
    mm = re.fullmatch(r"def_op!\{\$op\((?:m|\$m)\)=>\{(.*)\}\}", b)
    if not mm:
        raise tr.TranslatorError(f"mod.rs: {name}: arm body is not `def_op!{{ $op (m) => {{ .. }} }}`")
    inner = mm.group(1)
    if not inner.endswith("Ok(())"):
        raise tr.TranslatorError(f"mod.rs: {name}: arm body does not end with Ok(())")
    # ---- operand acquisition
    extra = 0
    pops_args = False
    n_pop = len(re.findall(r"pop_many\(\)", inner))
    n_ens = len(re.findall(r"ensure_one\(\)", inner))
    if n_pop + n_ens > 1:
        raise tr.TranslatorError(f"mod.rs: {name}: more than one pop_many/ensure_one in one arm")
    if n_pop == 1:
        pm = re.search(r"let&rev!\[(.*?)\]=m\.state\.stack\.pop_many\(\)(\??);", inner)
        if pm and pm.group(2) != "?":
            raise tr.TranslatorError(f"mod.rs: {name}: pop_many result not propagated with `?`")
        if not pm:
            raise tr.TranslatorError(f"mod.rs: {name}: pop_many is not of the form `let &rev![..] = m.state.stack.pop_many()?;`")
        if not inner.startswith(pm.group(0)):
            raise tr.TranslatorError(f"mod.rs: {name}: pop_many is not the first statement")
        if pm.group(2) != "?":
            pre = "PrePopUnchecked"
        else:
            pre = "PrePopMany"
        fixed, rep = count_idents(pm.group(1))
        if rep > 1 or (rep == 1 and shape not in ("ShapeArgs1", "ShapeArgs0", "ShapeLog")):
            raise tr.TranslatorError(f"mod.rs: {name}: unexpected array pattern `{pm.group(1)}`")
        extra = fixed
        pops_args = rep == 1
    elif n_ens == 1:
        em = re.search(r"m\.state\.stack\.ensure_one\(\)(\??);", inner)
        if not em or not inner.startswith(em.group(0)):
            raise tr.TranslatorError(f"mod.rs: {name}: ensure_one is not the first statement")
        pre = "PreEnsureOne" if em.group(1) == "?" else "PreEnsureIgnored"
    elif re.search(r"\$impl\(&mutm\.state\.stack(,code)?\)\?", inner):
        pre = "PreDelegated"
    else:
        pre = "PreNone"
    # the number of identifiers handed to the implementation must be the ones popped
    if pre in ("PrePopMany", "PrePopUnchecked") and shape in ("ShapeArgs1", "ShapeArgs0"):
        if not pops_args:
            raise tr.TranslatorError(f"mod.rs: {name}: pop_many pattern does not bind the macro arguments")
    # ---- result
    n_pu = len(re.findall(r"push_unchecked\(", inner))
    n_pc = len(re.findall(r"m\.state\.stack\.push\([^)]*\)\?", inner))
    n_pc_nocheck = len(re.findall(r"m\.state\.stack\.push\(", inner)) - n_pc
    if n_pc_nocheck:
        raise tr.TranslatorError(f"mod.rs: {name}: stack.push whose result is not propagated with `?`")
    if n_pu and n_pc:
        raise tr.TranslatorError(f"mod.rs: {name}: mixes push and push_unchecked")
    if n_pu:
        post, pushes = "PostPushUnchecked", n_pu
    elif n_pc:
        post, pushes = "PostPushChecked", n_pc
    elif pre == "PreDelegated":
        post, pushes = "PostDelegated", 0
    else:
        post, pushes = "PostNone", 0
    # ---- program counter
    if "m.pc=m.bytecode.len();" in inner:
        pcd = "PcEnd"
        if "m.output=$impl(" not in inner:
            raise tr.TranslatorError(f"mod.rs: {name}: exit arm does not set m.output from $impl")
    elif re.search(r"m\.pc=\$impl\(m\.bytecode,m\.pc", inner):
        pcd = "PcJump"
    elif inner.startswith("m.pc+=1;letcode=&m.bytecode[m.pc..];m.pc+=$impl(&mutm.state.stack,code)?;"):
        pcd = "PcPushData"
    elif inner.count("m.pc+=1;") == 1 and inner.endswith("m.pc+=1;Ok(())"):
        pcd = "PcNext"
    else:
        raise tr.TranslatorError(f"mod.rs: {name}: cannot classify the pc update")
    # failure propagation of the implementation call
    if name not in ("def_primop", "def_special", "def_stdlog") and not re.search(r"\$impl\([^;]*\)\?;", inner):
        raise tr.TranslatorError(f"mod.rs: {name}: result of $impl is not propagated with `?`")
    if name == "def_stdlog" and "log_event::log(&mutm.state,&mutm.system,$ntopics,a,b,&[$($topic),*])?;" not in inner:
        raise tr.TranslatorError("mod.rs: def_stdlog: log call lost its expected shape")
    return {"shape": shape, "pre": pre, "extra": extra, "post": post, "pushes": pushes, "pc": pcd}


def parse_invocations(tr, src, macros):
    rows = {}
    # remove the macro definitions so that only invocations remain
    cleaned = src
    for m in reversed(list(re.finditer(r"macro_rules!\s*def_[a-z_]+\s*\{", src))):
        end = _match(src, m.end() - 1, "{", "}", tr.TranslatorError("mod.rs: unbalanced macro"))
        cleaned = cleaned[:m.start()] + cleaned[end:]
    for m in re.finditer(r"\b(def_[a-z_]+)!\s*\{", cleaned):
        name = m.group(1)
        end = _match(cleaned, m.end() - 1, "{", "}", tr.TranslatorError(f"mod.rs: unbalanced {name}! invocation"))
        inner = _norm(cleaned[m.end():end - 1])
        if name == "def_op":
            raise tr.TranslatorError("mod.rs: a bare def_op! invocation (instruction defined outside the macro zoo)")
        if name not in KINDS or name not in macros:
            raise tr.TranslatorError(f"mod.rs: unknown instruction macro {name}!")
        arg = 0
        impl = ""
        if name in ("def_stackop", "def_push"):
            mm = re.fullmatch(r"([A-Z][A-Z0-9_]*)=>([a-z_]+::[a-z_0-9]+)(?:::<(\d+)>)?", inner)
            if not mm:
                raise tr.TranslatorError(f"mod.rs: cannot parse `{name}! {{ {inner} }}`")
            op, impl, arg = mm.group(1), mm.group(2), int(mm.group(3) or 0)
            nargs, want = 0, ["ShapeImpl"]
        elif name == "def_stdlog":
            mm = re.fullmatch(r"([A-Z][A-Z0-9_]*)\((\d+),\(([a-z_0-9,]*)\)\)", inner)
            if not mm:
                raise tr.TranslatorError(f"mod.rs: cannot parse `{name}! {{ {inner} }}`")
            op, arg = mm.group(1), int(mm.group(2))
            topics = [t for t in mm.group(3).split(",") if t]
            if len(topics) != arg or len(set(topics)) != len(topics):
                raise tr.TranslatorError(f"mod.rs: {op}: number of topic identifiers differs from the literal")
            nargs, want, impl = len(topics), ["ShapeLog"], "log_event::log"
        elif name == "def_special":
            mm = re.fullmatch(r"([A-Z][A-Z0-9_]*)\(m\)=>(.*)", inner)
            if not mm:
                raise tr.TranslatorError(f"mod.rs: cannot parse `{name}! {{ {inner} }}`")
            op, impl = mm.group(1), mm.group(2)
            if op != "PC" or impl != "U256::from(m.pc)":
                raise tr.TranslatorError(f"mod.rs: unexpected def_special instruction `{inner}`")
            nargs, want = 0, ["ShapeExpr"]
        else:
            mm = re.fullmatch(r"([A-Z][A-Z0-9_]*)\(([a-z_0-9,]*)\)=>([a-z_]+::[a-z_0-9]+)", inner)
            if not mm:
                raise tr.TranslatorError(f"mod.rs: cannot parse `{name}! {{ {inner} }}`")
            op, impl = mm.group(1), mm.group(3)
            args = [a for a in mm.group(2).split(",") if a]
            if len(set(args)) != len(args):
                raise tr.TranslatorError(f"mod.rs: {op}: repeated argument identifier")
            nargs = len(args)
            want = ["ShapeArgs1", "ShapeArgs0"] if nargs > 0 else ["ShapeNone", "ShapeArgs0"]
        # macro_rules picks the FIRST arm whose pattern matches
        arm = None
        for a in macros[name]:
            if a["disc"]["shape"] in want:
                if a["disc"]["shape"] == "ShapeArgs1" and nargs == 0:
                    continue
                arm = a
                break
        if arm is None:
            raise tr.TranslatorError(f"mod.rs: no arm of {name} accepts `{inner}`")
        if op in rows:
            raise tr.TranslatorError(f"mod.rs: instruction {op} defined twice")
        d = arm["disc"]
        pops = d["extra"] + (nargs if d["pre"] in ("PrePopMany", "PrePopUnchecked") else 0)
        rows[op] = {"kind": KINDS[name], "pops": pops, "pushes": d["pushes"], "pre": d["pre"],
                    "post": d["post"], "pc": d["pc"], "arg": arg, "impl": impl, "nargs": nargs}
    return rows


def generate(tr):
    optable = parse_opcodes(tr)
    src = tr.strip_comments(tr.read(INSTR))
    macros = parse_macros(tr, src)
    for k in KINDS:
        if k not in macros:
            raise tr.TranslatorError(f"mod.rs: macro {k} not found")
    for k in macros:
        if k not in KINDS and k != "def_op":
            raise tr.TranslatorError(f"mod.rs: unknown instruction macro kind {k}")
    if "def_op" not in macros or len(macros["def_op"]) != 1:
        raise tr.TranslatorError("mod.rs: def_op macro not found")
    for k, arms in macros.items():
        if k == "def_op":
            continue
        for a in arms:
            a["disc"] = arm_discipline(tr, k, a)
    rows = parse_invocations(tr, src, macros)
    names = [n for _, n in optable]
    for n in names:
        if n not in rows:
            raise tr.TranslatorError(f"instruction {n} is in def_opcodes! but has no definition in instructions/mod.rs")
    unused = sorted(set(rows) - set(names))
    # const-generic arguments must be what the instruction name says
    for n, r in rows.items():
        mm = re.fullmatch(r"(PUSH|DUP|SWAP)(\d+)", n)
        if mm:
            want_impl = {"PUSH": "stack::push", "DUP": "stack::dup", "SWAP": "stack::swap"}[mm.group(1)]
            if r["impl"] != want_impl:
                raise tr.TranslatorError(f"mod.rs: {n} is implemented by {r['impl']}")
    L = []
    L.append("(* GENERATED by tools/translator_evm.py from actors/evm/src/interpreter/execution.rs (def_opcodes!)")
    L.append("   and actors/evm/src/interpreter/instructions/mod.rs (def_* macros and their invocations) -- do not edit. *)")
    L.append("From Coq Require Import ZArith List String.")
    L.append("Import ListNotations.")
    L.append("Open Scope Z_scope.")
    L.append("")
    L.append("Inductive instr :=")
    L.append("  " + "\n  ".join("| I_" + n for n in sorted(set(names) | set(unused))) + ".")
    L.append("")
    L.append("Inductive macro_kind := " + " | ".join(sorted(set(KINDS.values()))) + ".")
    L.append("(* how the operands are taken from the stack *)")
    L.append("Inductive pre_disc := PrePopMany | PreEnsureOne | PreEnsureIgnored | PreDelegated | PreNone.")
    L.append("(* how the result is put back *)")
    L.append("Inductive post_disc := PostPushUnchecked | PostPushChecked | PostDelegated | PostNone.")
    L.append("Inductive pc_disc := PcNext | PcJump | PcEnd | PcPushData.")
    L.append("")
    L.append("Record oprow := { op_byte : Z; op_instr : instr; op_kind : macro_kind; op_pops : Z; op_pushes : Z;")
    L.append("                  op_pre : pre_disc; op_post : post_disc; op_pc : pc_disc; op_arg : Z; op_impl : string }.")
    L.append("")
    L.append("Definition opcode_table : list oprow := [")
    items = []
    for code, n in sorted(optable):
        r = rows[n]
        items.append(
            "  {| op_byte := %d; op_instr := I_%s; op_kind := %s; op_pops := %d; op_pushes := %d; op_pre := %s; op_post := %s; op_pc := %s; op_arg := %d; op_impl := \"%s\" |}"
            % (code, n, r["kind"], r["pops"], r["pushes"], r["pre"], r["post"], r["pc"], r["arg"], r["impl"].replace('"', "'")))
    L.append(";\n".join(items))
    L.append("].")
    L.append("")
    L.append("(* the byte of every instruction (`pub const $op: u8 = $code` in def_opcodes!) *)")
    L.append("Definition instr_byte (i : instr) : Z :=")
    L.append("  match i with")
    for code, n in sorted(optable):
        L.append(f"  | I_{n} => {code}")
    for n in unused:
        L.append(f"  | I_{n} => (-1)")
    L.append("  end.")
    L.append("")
    L.append("(* every arm of every instruction macro, used or not: (kind, arm index, pre, fixed extra pops, post, pushes, pc) *)")
    L.append("Definition macro_arms : list (macro_kind * Z * pre_disc * Z * post_disc * Z * pc_disc) := [")
    arms = []
    for k in sorted(KINDS):
        for i, a in enumerate(macros[k]):
            d = a["disc"]
            arms.append("  (%s, %d, %s, %d, %s, %d, %s)" % (KINDS[k], i, d["pre"], d["extra"], d["post"], d["pushes"], d["pc"]))
    L.append(";\n".join(arms))
    L.append("].")
    L.append("")
    # exit codes of the interpreter (actors/evm/src/lib.rs) and limits (stack.rs, system.rs)
    lib = tr.strip_comments(tr.read("actors/evm/src/lib.rs"))
    codes = re.findall(r"pub const (EVM_CONTRACT_[A-Z_]+)\s*:\s*ExitCode\s*=\s*ExitCode::new\((\d+)\);", lib)
    want = ["EVM_CONTRACT_REVERTED", "EVM_CONTRACT_INVALID_INSTRUCTION", "EVM_CONTRACT_UNDEFINED_INSTRUCTION",
            "EVM_CONTRACT_STACK_UNDERFLOW", "EVM_CONTRACT_STACK_OVERFLOW", "EVM_CONTRACT_ILLEGAL_MEMORY_ACCESS",
            "EVM_CONTRACT_BAD_JUMPDEST", "EVM_CONTRACT_SELFDESTRUCT_FAILED"]
    got = dict(codes)
    for w in want:
        if w not in got:
            raise tr.TranslatorError(f"lib.rs: exit code {w} not found")
    for n, v in codes:
        L.append(f"Definition {n} : Z := {int(v)}.")
    m = re.search(r"const EVM_WORD_SIZE\s*:\s*usize\s*=\s*(\d+);", lib)
    if not m:
        raise tr.TranslatorError("lib.rs: EVM_WORD_SIZE not found")
    L.append(f"Definition EVM_WORD_SIZE : Z := {int(m.group(1))}.")
    sysc = tr.scan_consts("actors/evm/src/interpreter/system.rs")
    if "MAX_CODE_SIZE" not in sysc:
        raise tr.TranslatorError("system.rs: MAX_CODE_SIZE not found")
    L.append(f"Definition MAX_CODE_SIZE : Z := {tr.eval_int(sysc['MAX_CODE_SIZE'][1], sysc)}.")
    L.append("")
    L.append("(* instructions defined in instructions/mod.rs but not reachable from the jump table *)")
    L.append("Definition unreachable_instrs : list instr := [" + "; ".join("I_" + n for n in unused) + "].")
    L.append("")
    return {"Opcodes.v": "\n".join(L) + "\n"}
