//! Printing of Gallina literals and of the per-shard `cases_<k>.v` files that the correspondence
//! check evaluates with `vm_compute`.
use std::collections::{BTreeMap, HashSet};
use std::fmt::Write as _;
use std::hash::{Hash, Hasher};
use std::io::Write as _;
use std::path::{Path, PathBuf};

pub fn z<T: std::fmt::Display>(x: T) -> String {
    let s = x.to_string();
    if s.starts_with('-') { format!("({})", s) } else { s }
}
pub fn b(x: bool) -> &'static str {
    if x { "true" } else { "false" }
}
pub fn list<I: IntoIterator<Item = String>>(xs: I) -> String {
    let v: Vec<String> = xs.into_iter().collect();
    format!("[{}]", v.join("; "))
}
pub fn zlist<T: std::fmt::Display, I: IntoIterator<Item = T>>(xs: I) -> String {
    list(xs.into_iter().map(z))
}
pub fn opt(x: Option<String>) -> String {
    match x {
        Some(s) => format!("(Some {})", s),
        None => "None".to_string(),
    }
}

/// One explored history: the Gallina expression of the initial model state, then per step the
/// Gallina expression of the operation and the implementation's observation (already encoded as
/// integers, in the same order as the model's `obs` encoder).
pub struct Case {
    pub init: String,
    pub steps: Vec<(String, Vec<String>)>,
    /// true when at least one state-changing op was accepted and at least one op was rejected
    pub nontrivial: bool,
}

pub struct Stats {
    pub op_hist: BTreeMap<String, u64>,
    pub code_hist: BTreeMap<String, u64>,
    pub accepted: BTreeMap<String, u64>,
    pub monitor_failures: Vec<serde_json::Value>,
    pub panics: Vec<String>,
    pub extra: BTreeMap<String, serde_json::Value>,
}
impl Default for Stats {
    fn default() -> Self {
        Stats {
            op_hist: BTreeMap::new(),
            code_hist: BTreeMap::new(),
            accepted: BTreeMap::new(),
            monitor_failures: vec![],
            panics: vec![],
            extra: BTreeMap::new(),
        }
    }
}
impl Stats {
    pub fn op(&mut self, kind: &str, code: u32) {
        *self.op_hist.entry(kind.to_string()).or_insert(0) += 1;
        *self.code_hist.entry(format!("{}:{}", kind, code)).or_insert(0) += 1;
        if code == 0 {
            *self.accepted.entry(kind.to_string()).or_insert(0) += 1;
        }
    }
    pub fn monitor_fail(&mut self, v: serde_json::Value) {
        if self.monitor_failures.len() < 20 {
            self.monitor_failures.push(v);
        }
    }
}

pub struct CaseWriter {
    pub dir: PathBuf,
    pub header: String,
    /// Gallina function applied to `init` and the list of `(op, obs)`: must have type
    /// `_ -> list (_ * list Z) -> option (Z * list Z * list Z)`
    pub checker: String,
    pub shards: usize,
    cases: Vec<Case>,
}

impl CaseWriter {
    pub fn new(dir: &Path, header: &str, checker: &str, shards: usize) -> Self {
        std::fs::create_dir_all(dir).unwrap();
        CaseWriter {
            dir: dir.to_path_buf(),
            header: header.to_string(),
            checker: checker.to_string(),
            shards: shards.max(1),
            cases: vec![],
        }
    }
    pub fn push(&mut self, c: Case) {
        self.cases.push(c);
    }
    pub fn len(&self) -> usize {
        self.cases.len()
    }
    fn case_text(&self, idx: usize, c: &Case) -> String {
        let mut s = String::new();
        let _ = writeln!(s, "Definition c{} := {} ({}) [", idx, self.checker, c.init);
        for (i, (op, obs)) in c.steps.iter().enumerate() {
            let sep = if i + 1 == c.steps.len() { "" } else { ";" };
            let _ = writeln!(s, "  ({}, [{}]){}", op, obs.join("; "), sep);
        }
        let _ = writeln!(s, "].");
        s
    }
    /// Writes the shards and `stats.json`. Case `i` goes to shard `i % shards` and is named `c<i>`.
    pub fn finish(self, stats: &Stats, tag: &str) {
        let mut files: Vec<String> = (0..self.shards).map(|_| self.header.clone()).collect();
        let mut names: Vec<Vec<usize>> = vec![vec![]; self.shards];
        let mut distinct: HashSet<u64> = HashSet::new();
        let mut distinct_nontrivial = 0u64;
        let mut steps_total = 0u64;
        for (i, c) in self.cases.iter().enumerate() {
            let t = self.case_text(i, c);
            let mut h = std::collections::hash_map::DefaultHasher::new();
            // hash without the name
            c.init.hash(&mut h);
            for (op, obs) in &c.steps {
                op.hash(&mut h);
                obs.hash(&mut h);
            }
            let hv = h.finish();
            if distinct.insert(hv) && c.nontrivial {
                distinct_nontrivial += 1;
            }
            steps_total += c.steps.len() as u64;
            files[i % self.shards].push_str(&t);
            names[i % self.shards].push(i);
        }
        for k in 0..self.shards {
            let mut f = std::fs::File::create(self.dir.join(format!("cases_{}_{}.v", tag, k))).unwrap();
            f.write_all(files[k].as_bytes()).unwrap();
            // result: list of (case index, first mismatch)
            let items: Vec<String> =
                names[k].iter().map(|i| format!("({}, c{})", i, i)).collect();
            writeln!(
                f,
                "Definition all_results : list (Z * option (Z * list Z * list Z)) := [{}].",
                items.join("; ")
            )
            .unwrap();
            writeln!(f, "Eval vm_compute in (VF.Base.Corr.flat_failures all_results).").unwrap();
        }
        let samples: Vec<String> =
            self.cases.iter().take(3).enumerate().map(|(i, c)| self.case_text(i, c)).collect();
        let js = serde_json::json!({
            "tag": tag,
            "cases": self.cases.len(),
            "steps": steps_total,
            "distinct": distinct.len(),
            "distinct_nontrivial": distinct_nontrivial,
            "op_hist": stats.op_hist,
            "code_hist": stats.code_hist,
            "accepted": stats.accepted,
            "monitor_failures": stats.monitor_failures,
            "panics": stats.panics,
            "extra": stats.extra,
            "samples": samples,
            "shards": self.shards,
        });
        std::fs::write(self.dir.join(format!("stats_{}.json", tag)), serde_json::to_string_pretty(&js).unwrap())
            .unwrap();
    }
}

/// Common command-line arguments of every harness binary:
/// `--seed N --cases N --len N --shards N --out DIR [--replay FILE]`
pub struct Args {
    pub seed: u64,
    pub cases: usize,
    pub len: usize,
    pub shards: usize,
    pub out: PathBuf,
    pub replay: Option<PathBuf>,
    pub rest: BTreeMap<String, String>,
}
pub fn parse_args() -> Args {
    let mut a = Args {
        seed: 1,
        cases: 100,
        len: 30,
        shards: 16,
        out: PathBuf::from("out"),
        replay: None,
        rest: BTreeMap::new(),
    };
    let v: Vec<String> = std::env::args().collect();
    let mut i = 1;
    while i < v.len() {
        let k = v[i].clone();
        let val = v.get(i + 1).cloned().unwrap_or_default();
        match k.as_str() {
            "--seed" => a.seed = val.parse().unwrap(),
            "--cases" => a.cases = val.parse().unwrap(),
            "--len" => a.len = val.parse().unwrap(),
            "--shards" => a.shards = val.parse().unwrap(),
            "--out" => a.out = PathBuf::from(val),
            "--replay" => a.replay = Some(PathBuf::from(val)),
            _ => {
                a.rest.insert(k.trim_start_matches("--").to_string(), val);
            }
        }
        i += 2;
    }
    a
}
