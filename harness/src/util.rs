//! Shared helpers for harness binaries.
use crate::vvm::Vvm;
use fil_actors_runtime::test_blockstores::MemoryBlockstore;
use fvm_ipld_encoding::ipld_block::IpldBlock;
use fvm_shared::address::Address;
use fvm_shared::econ::TokenAmount;
use fvm_shared::MethodNum;
use serde::Serialize;
use vm_api::{MessageResult, VM};

pub fn new_world() -> Vvm {
    Vvm::new_with_singletons(MemoryBlockstore::new())
}

pub fn atto(x: i64) -> TokenAmount {
    TokenAmount::from_atto(x)
}

/// Execute a top-level message and return the result (exit code + return block); never panics on
/// actor failure.
pub fn exec<P: Serialize>(
    v: &Vvm,
    from: &Address,
    to: &Address,
    value: &TokenAmount,
    method: MethodNum,
    params: Option<P>,
) -> MessageResult {
    let blk = match params {
        Some(p) => IpldBlock::serialize_cbor(&p).unwrap(),
        None => None,
    };
    v.execute_message(from, to, value, method, blk).unwrap()
}

pub fn code(r: &MessageResult) -> u32 {
    r.code.value()
}

/// total of all actor balances in the state tree
pub fn total_balance(v: &Vvm) -> TokenAmount {
    let mut t = TokenAmount::from_atto(0);
    for (_, a) in v.actor_states() {
        t += a.balance;
    }
    t
}

/// signer-specific fake signature understood by Vvm::verify_signature
pub fn sign(signer_key_addr: &Address, plaintext: &[u8]) -> Vec<u8> {
    let mut v = signer_key_addr.to_bytes();
    v.extend_from_slice(plaintext);
    v
}
