use cid::Cid;
use fil_actor_account::State as AccountState;
use fil_actor_cron::{Entry as CronEntry, State as CronState};
use fil_actor_datacap::State as DataCapState;
use fil_actor_init::{ExecReturn, State as InitState};
use fil_actor_market::{Method as MarketMethod, State as MarketState};
use fil_actor_power::{Method as MethodPower, State as PowerState};
use fil_actor_reward::State as RewardState;
use fil_actor_system::State as SystemState;
use fil_actor_verifreg::State as VerifRegState;
use fil_actors_runtime::DATACAP_TOKEN_ACTOR_ADDR;
use fil_actors_runtime::cbor::serialize;
use fil_actors_runtime::runtime::builtins::Type;
use fil_actors_runtime::runtime::{EMPTY_ARR_CID, Policy, Primitives};
use fil_actors_runtime::test_blockstores::MemoryBlockstore;
use fil_actors_runtime::{
    BURNT_FUNDS_ACTOR_ADDR, CRON_ACTOR_ADDR, EAM_ACTOR_ADDR, INIT_ACTOR_ADDR, REWARD_ACTOR_ADDR,
    STORAGE_MARKET_ACTOR_ADDR, STORAGE_POWER_ACTOR_ADDR, SYSTEM_ACTOR_ADDR,
    VERIFIED_REGISTRY_ACTOR_ADDR,
};
use fil_actors_runtime::{DEFAULT_HAMT_CONFIG, Map2, test_utils::*};
use fvm_ipld_blockstore::Blockstore;
use fvm_ipld_encoding::CborStore;
use fvm_ipld_encoding::ipld_block::IpldBlock;
use fvm_ipld_hamt::{BytesKey, Hamt, Sha256};
use fvm_shared::address::Address;
use fvm_shared::bigint::Zero;
use fvm_shared::clock::ChainEpoch;
use fvm_shared::econ::TokenAmount;
use fvm_shared::error::ExitCode;
use fvm_shared::sector::StoragePower;
use fvm_shared::version::NetworkVersion;
use fvm_shared::{METHOD_SEND, MethodNum};
use multihash_codetable::Code;
use serde::ser;
use std::cell::{RefCell, RefMut};
use std::collections::{BTreeMap, HashMap};
use std::rc::Rc;
use vm_api::trace::InvocationTrace;
use vm_api::{ActorState, MessageResult, MockPrimitives, VM, VMError, new_actor};

use vm_api::util::{get_state, serialize_ok};

pub use test_vm::{VERIFREG_ROOT_KEY, TEST_VERIFREG_ROOT_SIGNER_ADDR, TEST_VERIFREG_ROOT_ADDR, FAUCET_ROOT_KEY, TEST_FAUCET_ADDR, FIRST_TEST_USER_ADDR, TEST_VM_RAND_ARRAY, TEST_VM_INVALID_POST};
pub use crate::vvm_messaging::*;
use std::collections::HashSet;
use fvm_shared::consensus::ConsensusFault;

/// An in-memory rust-execution VM for testing builtin-actors that yields sensible stack traces and debug info
pub struct Vvm {
    pub primitives: FakePrimitives,
    pub store: Rc<MemoryBlockstore>,
    pub state_root: RefCell<Cid>,
    actors_dirty: RefCell<bool>,
    actors_cache: RefCell<HashMap<Address, ActorState>>,
    invocations: RefCell<Vec<InvocationTrace>>,
    // MachineContext equivalents
    pub(crate) network_version: NetworkVersion,
    curr_epoch: RefCell<ChainEpoch>,
    circulating_supply: RefCell<TokenAmount>,
    base_fee: RefCell<TokenAmount>,
    timestamp: RefCell<u64>,
    // --- verification-harness additions ---
    /// actors deleted since the last checkpoint
    pub(crate) deleted: RefCell<HashSet<Address>>,
    /// policy used by every invocation
    pub policy: Policy,
    /// fail the nested send with this ordinal (0-based, counted over the current top-level
    /// message in call order) with the given exit code, instead of executing it
    pub fail_plan: RefCell<Option<(u64, ExitCode)>>,
    pub(crate) send_counter: RefCell<u64>,
    /// what verify_consensus_fault answers
    pub consensus_fault: RefCell<Option<ConsensusFault>>,
    /// when true only signatures of the form `signer_bytes ++ plaintext` verify
    pub strict_sigs: RefCell<bool>,
    /// set when a panic was caught inside an actor invocation
    pub panics: RefCell<Vec<String>>,
    /// when `ledger_on`, every executed top-level message is appended here (not drained by
    /// take_invocations): its trace, the balances after it of every actor the trace mentions, and the
    /// total of all balances after it
    pub ledger_on: RefCell<bool>,
    pub ledger_log: RefCell<Vec<LedgerEntry>>,
}

pub struct LedgerEntry {
    pub trace: InvocationTrace,
    pub post: Vec<(u64, TokenAmount)>,
    pub total: TokenAmount,
    pub epoch: ChainEpoch,
}

fn touched_ids(t: &InvocationTrace, out: &mut std::collections::BTreeSet<u64>) {
    out.insert(t.from);
    if let Ok(id) = t.to.id() {
        out.insert(id);
    }
    for s in &t.subinvocations {
        touched_ids(s, out);
    }
}

impl Vvm {
    pub fn new(store: impl Into<Rc<MemoryBlockstore>>) -> Vvm {
        let store = store.into();
        let mut actors =
            Hamt::<Rc<MemoryBlockstore>, ActorState, BytesKey, Sha256>::new_with_config(
                Rc::clone(&store),
                DEFAULT_HAMT_CONFIG,
            );

        Vvm {
            primitives: FakePrimitives::default(),
            store,
            state_root: RefCell::new(actors.flush().unwrap()),
            circulating_supply: RefCell::new(TokenAmount::zero()),
            actors_dirty: RefCell::new(false),
            actors_cache: RefCell::new(HashMap::new()),
            network_version: NetworkVersion::V16,
            curr_epoch: RefCell::new(ChainEpoch::zero()),
            invocations: RefCell::new(vec![]),
            base_fee: RefCell::new(TokenAmount::zero()),
            timestamp: RefCell::new(0),
            deleted: RefCell::new(HashSet::new()),
            policy: Policy::default(),
            fail_plan: RefCell::new(None),
            send_counter: RefCell::new(0),
            consensus_fault: RefCell::new(None),
            strict_sigs: RefCell::new(false),
            panics: RefCell::new(vec![]),
            ledger_on: RefCell::new(false),
            ledger_log: RefCell::new(vec![]),
        }
    }

    pub fn new_with_singletons(store: impl Into<Rc<MemoryBlockstore>>) -> Vvm {
        let reward_total = TokenAmount::from_whole(1_100_000_000i64);
        let faucet_total = TokenAmount::from_whole(1_000_000_000i64);

        let store = store.into();

        let v = Vvm::new(Rc::clone(&store));
        v.set_circulating_supply(&reward_total + &faucet_total);

        // system
        let sys_st = SystemState::new(&store).unwrap();
        let sys_head = v.put_store(&sys_st);
        let sys_value = faucet_total.clone(); // delegate faucet funds to system so we can construct faucet by sending to bls addr
        v.set_actor(
            &SYSTEM_ACTOR_ADDR,
            new_actor(*SYSTEM_ACTOR_CODE_ID, sys_head, 0, sys_value, None),
        );

        // init
        let init_st = InitState::new(&store, "integration-test".to_string()).unwrap();
        let init_head = v.put_store(&init_st);
        v.set_actor(
            &INIT_ACTOR_ADDR,
            new_actor(*INIT_ACTOR_CODE_ID, init_head, 0, TokenAmount::zero(), None),
        );

        // reward

        let reward_head = v.put_store(&RewardState::new(StoragePower::zero()));
        v.set_actor(
            &REWARD_ACTOR_ADDR,
            new_actor(*REWARD_ACTOR_CODE_ID, reward_head, 0, reward_total, None),
        );

        // cron
        let builtin_entries = vec![
            CronEntry {
                receiver: STORAGE_POWER_ACTOR_ADDR,
                method_num: MethodPower::OnEpochTickEnd as u64,
            },
            CronEntry {
                receiver: STORAGE_MARKET_ACTOR_ADDR,
                method_num: MarketMethod::CronTick as u64,
            },
        ];
        let cron_head = v.put_store(&CronState { entries: builtin_entries });
        v.set_actor(
            &CRON_ACTOR_ADDR,
            new_actor(*CRON_ACTOR_CODE_ID, cron_head, 0, TokenAmount::zero(), None),
        );

        // power
        let power_head = v.put_store(&PowerState::new(&v.store).unwrap());
        v.set_actor(
            &STORAGE_POWER_ACTOR_ADDR,
            new_actor(*POWER_ACTOR_CODE_ID, power_head, 0, TokenAmount::zero(), None),
        );

        // market
        let market_head = v.put_store(&MarketState::new(&v.store).unwrap());
        v.set_actor(
            &STORAGE_MARKET_ACTOR_ADDR,
            new_actor(*MARKET_ACTOR_CODE_ID, market_head, 0, TokenAmount::zero(), None),
        );

        // verifreg
        // initialize verifreg root signer
        v.execute_message(
            &INIT_ACTOR_ADDR,
            &Address::new_bls(VERIFREG_ROOT_KEY).unwrap(),
            &TokenAmount::zero(),
            METHOD_SEND,
            None,
        )
        .unwrap();
        let verifreg_root_signer =
            v.resolve_id_address(&Address::new_bls(VERIFREG_ROOT_KEY).unwrap()).unwrap();
        assert_eq!(TEST_VERIFREG_ROOT_SIGNER_ADDR, verifreg_root_signer);
        // verifreg root msig
        let msig_ctor_params = serialize(
            &fil_actor_multisig::ConstructorParams {
                signers: vec![verifreg_root_signer],
                num_approvals_threshold: 1,
                unlock_duration: 0,
                start_epoch: 0,
            },
            "multisig ctor params",
        )
        .unwrap();
        let msig_ctor_ret: ExecReturn = v
            .execute_message(
                &SYSTEM_ACTOR_ADDR,
                &INIT_ACTOR_ADDR,
                &TokenAmount::zero(),
                fil_actor_init::Method::Exec as u64,
                Some(serialize_ok(&fil_actor_init::ExecParams {
                    code_cid: *MULTISIG_ACTOR_CODE_ID,
                    constructor_params: msig_ctor_params,
                })),
            )
            .unwrap()
            .ret
            .unwrap()
            .deserialize()
            .unwrap();
        let root_msig_addr = msig_ctor_ret.id_address;
        assert_eq!(TEST_VERIFREG_ROOT_ADDR, root_msig_addr);
        // verifreg
        let verifreg_head = v.put_store(&VerifRegState::new(&v.store, root_msig_addr).unwrap());
        v.set_actor(
            &VERIFIED_REGISTRY_ACTOR_ADDR,
            new_actor(*VERIFREG_ACTOR_CODE_ID, verifreg_head, 0, TokenAmount::zero(), None),
        );

        // Ethereum Address Manager
        v.set_actor(
            &EAM_ACTOR_ADDR,
            new_actor(*EAM_ACTOR_CODE_ID, EMPTY_ARR_CID, 0, TokenAmount::zero(), None),
        );

        // datacap
        let datacap_head =
            v.put_store(&DataCapState::new(&v.store, VERIFIED_REGISTRY_ACTOR_ADDR).unwrap());
        v.set_actor(
            &DATACAP_TOKEN_ACTOR_ADDR,
            new_actor(*DATACAP_TOKEN_ACTOR_CODE_ID, datacap_head, 0, TokenAmount::zero(), None),
        );

        // burnt funds
        let burnt_funds_head = v.put_store(&AccountState { address: BURNT_FUNDS_ACTOR_ADDR });
        v.set_actor(
            &BURNT_FUNDS_ACTOR_ADDR,
            new_actor(*ACCOUNT_ACTOR_CODE_ID, burnt_funds_head, 0, TokenAmount::zero(), None),
        );

        // create a faucet with 1 billion FIL for setting up test accounts
        v.execute_message(
            &SYSTEM_ACTOR_ADDR,
            &Address::new_bls(FAUCET_ROOT_KEY).unwrap(),
            &faucet_total,
            METHOD_SEND,
            None,
        )
        .unwrap();

        v.checkpoint();
        v
    }

    pub fn put_store<S>(&self, obj: &S) -> Cid
    where
        S: ser::Serialize,
    {
        self.store.put_cbor(obj, Code::Blake2b256).unwrap()
    }

    pub fn checkpoint(&self) -> Cid {
        // persist cache on top of latest checkpoint and clear
        let mut actors =
            Hamt::<Rc<MemoryBlockstore>, ActorState, BytesKey, Sha256>::load_with_config(
                &self.state_root.borrow(),
                Rc::clone(&self.store),
                DEFAULT_HAMT_CONFIG,
            )
            .unwrap();
        for (addr, act) in self.actors_cache.borrow().iter() {
            actors.set(addr.to_bytes().into(), act.clone()).unwrap();
        }
        for addr in self.deleted.borrow().iter() {
            actors.delete(&BytesKey::from(addr.to_bytes())).unwrap();
        }
        self.deleted.borrow_mut().clear();

        self.state_root.replace(actors.flush().unwrap());
        self.actors_dirty.replace(false);
        *self.state_root.borrow()
    }

    pub fn rollback(&self, root: Cid) {
        self.actors_cache.replace(HashMap::new());
        self.deleted.borrow_mut().clear();
        self.state_root.replace(root);
        self.actors_dirty.replace(false);
    }

    /// remove an actor (used by Runtime::delete_actor)
    pub(crate) fn remove_actor(&self, key: &Address) {
        self.actors_cache.borrow_mut().remove(key);
        self.deleted.borrow_mut().insert(*key);
        self.actors_dirty.replace(true);
    }

    fn actor_map(&self) -> Map2<&MemoryBlockstore, Address, ActorState> {
        Map2::load(self.store.as_ref(), &self.checkpoint(), DEFAULT_HAMT_CONFIG, "actors").unwrap()
    }

    /// (C11, additive) Invoke `to.method(params)` with `from` as the immediate caller and `origin`
    /// as the message originator -- the same path as `execute_message` (same `InvocationCtx::invoke`,
    /// same roll-back on error) but without touching the sender's nonce, without turning a
    /// placeholder sender into an EthAccount, and with an origin that may differ from the caller.
    /// Returns (exit code, message, "a validate_immediate_caller_* primitive was reached").
    /// Nothing is recorded in the invocation log / ledger.
    pub fn inject_call(
        &self,
        from: fvm_shared::ActorID,
        origin: &Address,
        to: &Address,
        value: &TokenAmount,
        method: MethodNum,
        params: Option<IpldBlock>,
    ) -> (ExitCode, String, bool) {
        let prior_root = self.checkpoint();
        self.send_counter.replace(0);
        let top = TopCtx {
            originator_stable_addr: *origin,
            originator_call_seq: self.actor(origin).map(|a| a.sequence).unwrap_or(0),
            new_actor_addr_count: Rc::new(RefCell::new(0)),
            circ_supply: self.circulating_supply.borrow().clone(),
        };
        let msg = InternalMessage { from, to: *to, value: value.clone(), method, params };
        let mut ctx = InvocationCtx {
            v: self,
            top,
            msg,
            allow_side_effects: RefCell::new(true),
            caller_validated: RefCell::new(false),
            read_only: false,
            policy: &self.policy,
            subinvocations: RefCell::new(vec![]),
            events: RefCell::new(vec![]),
        };
        let res = ctx.invoke();
        let validated = *ctx.caller_validated.borrow();
        match res {
            Err(ae) => {
                self.rollback(prior_root);
                (ae.exit_code(), ae.msg().to_string(), validated)
            }
            Ok(_) => {
                self.checkpoint();
                (ExitCode::OK, "OK".to_string(), validated)
            }
        }
    }
}

impl VM for Vvm {
    fn blockstore(&self) -> &dyn Blockstore {
        self.store.as_ref()
    }

    fn execute_message(
        &self,
        from: &Address,
        to: &Address,
        value: &TokenAmount,
        method: MethodNum,
        params: Option<IpldBlock>,
    ) -> Result<MessageResult, VMError> {
        let from_id = &self.resolve_id_address(from).unwrap();
        // TODO: for non-implicit calls validate that from_id is either the
        // account actor or the ethereum account actor and error otherwise
        let mut a = self.actor(from_id).unwrap();
        let call_seq = a.sequence;
        a.sequence = call_seq + 1;
        // EthAccount abstractions turns Placeholders into EthAccounts
        if a.code == *PLACEHOLDER_ACTOR_CODE_ID {
            // TODO: for non-implicit calls validate that the actor has a
            // delegated f4 address in the EAM's namespace
            a.code = *ETHACCOUNT_ACTOR_CODE_ID;
        }
        self.set_actor(from_id, a);

        let prior_root = self.checkpoint();
        self.send_counter.replace(0);

        // big.Mul(big.NewInt(1e9), big.NewInt(1e18))
        // make top level context with internal context
        let top = TopCtx {
            originator_stable_addr: *from,
            originator_call_seq: call_seq,
            new_actor_addr_count: Rc::new(RefCell::new(0)),
            circ_supply: self.circulating_supply.borrow().clone(),
        };
        let msg = InternalMessage {
            from: from_id.id().unwrap(),
            to: *to,
            value: value.clone(),
            method,
            params,
        };
        let mut new_ctx = InvocationCtx {
            v: self,
            top,
            msg,
            allow_side_effects: RefCell::new(true),
            caller_validated: RefCell::new(false),
            read_only: false,
            policy: &self.policy,
            subinvocations: RefCell::new(vec![]),
            events: RefCell::new(vec![]),
        };
        let res = new_ctx.invoke();

        let invoc = new_ctx.gather_trace(res.clone());
        let ledger_copy = if *self.ledger_on.borrow() { Some(invoc.clone()) } else { None };
        RefMut::map(self.invocations.borrow_mut(), |invocs| {
            invocs.push(invoc);
            invocs
        });
        let out = match res {
            Err(mut ae) => {
                self.rollback(prior_root);
                Ok(MessageResult {
                    code: ae.exit_code(),
                    message: ae.msg().to_string(),
                    ret: ae.take_data(),
                })
            }
            Ok(ret) => {
                self.checkpoint();
                Ok(MessageResult { code: ExitCode::OK, message: "OK".to_string(), ret })
            }
        };
        if let Some(tr) = ledger_copy {
            let mut ids = std::collections::BTreeSet::new();
            touched_ids(&tr, &mut ids);
            let post: Vec<(u64, TokenAmount)> =
                ids.iter().map(|i| (*i, self.balance(&Address::new_id(*i)))).collect();
            let mut total = TokenAmount::zero();
            for (_, a) in self.actor_states() {
                total += a.balance;
            }
            self.ledger_log.borrow_mut().push(LedgerEntry { trace: tr, post, total, epoch: self.epoch() });
        }
        out
    }

    fn execute_message_implicit(
        &self,
        from: &Address,
        to: &Address,
        value: &TokenAmount,
        method: MethodNum,
        params: Option<IpldBlock>,
    ) -> Result<MessageResult, VMError> {
        self.execute_message(from, to, value, method, params)
    }
    fn resolve_id_address(&self, address: &Address) -> Option<Address> {
        let st: InitState = get_state(self, &INIT_ACTOR_ADDR).unwrap();
        st.resolve_address(&self.store, address).unwrap()
    }

    fn balance(&self, address: &Address) -> TokenAmount {
        let a = self.actor(address);
        a.map_or(TokenAmount::zero(), |a| a.balance)
    }

    fn take_invocations(&self) -> Vec<InvocationTrace> {
        self.invocations.take()
    }

    fn actor(&self, address: &Address) -> Option<ActorState> {
        if self.deleted.borrow().contains(address) {
            return None;
        }
        // check for inclusion in cache of changed actors
        if let Some(act) = self.actors_cache.borrow().get(address) {
            return Some(act.clone());
        }
        // go to persisted map
        let actors = self.actor_map();
        let actor = actors.get(address).unwrap().cloned();
        actor.iter().for_each(|a| {
            self.actors_cache.borrow_mut().insert(*address, a.clone());
        });
        actor
    }

    fn set_actor(&self, key: &Address, a: ActorState) {
        self.deleted.borrow_mut().remove(key);
        self.actors_cache.borrow_mut().insert(*key, a);
        self.actors_dirty.replace(true);
    }

    fn primitives(&self) -> &dyn Primitives {
        &self.primitives
    }

    fn actor_manifest(&self) -> BTreeMap<Cid, Type> {
        ACTOR_TYPES.clone()
    }

    fn actor_states(&self) -> BTreeMap<Address, ActorState> {
        let map = self.actor_map();
        let mut tree = BTreeMap::new();
        map.for_each(|k, v| {
            tree.insert(k, v.clone());
            Ok(())
        })
        .unwrap();

        tree
    }

    fn epoch(&self) -> ChainEpoch {
        *self.curr_epoch.borrow()
    }

    fn set_epoch(&self, epoch: ChainEpoch) {
        self.curr_epoch.replace(epoch);
    }
    fn circulating_supply(&self) -> TokenAmount {
        self.circulating_supply.borrow().clone()
    }

    fn set_circulating_supply(&self, supply: TokenAmount) {
        self.circulating_supply.replace(supply);
    }

    fn base_fee(&self) -> TokenAmount {
        self.base_fee.borrow().clone()
    }

    fn set_base_fee(&self, amount: TokenAmount) {
        self.base_fee.replace(amount);
    }

    fn timestamp(&self) -> u64 {
        *self.timestamp.borrow()
    }

    fn set_timestamp(&self, timestamp: u64) {
        self.timestamp.replace(timestamp);
    }

    fn mut_primitives(&self) -> &dyn MockPrimitives {
        &self.primitives
    }
}
