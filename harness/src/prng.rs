//! One deterministic PRNG stream (splitmix64) so that every random choice replays from VERIF_SEED.
#[derive(Clone)]
pub struct Prng(pub u64);

impl Prng {
    pub fn new(seed: u64) -> Self {
        Prng(seed ^ 0x9E37_79B9_7F4A_7C15)
    }
    pub fn fork(&mut self, salt: u64) -> Prng {
        Prng(self.next_u64() ^ salt.wrapping_mul(0xBF58_476D_1CE4_E5B9))
    }
    pub fn next_u64(&mut self) -> u64 {
        self.0 = self.0.wrapping_add(0x9E37_79B9_7F4A_7C15);
        let mut z = self.0;
        z = (z ^ (z >> 30)).wrapping_mul(0xBF58_476D_1CE4_E5B9);
        z = (z ^ (z >> 27)).wrapping_mul(0x94D0_49BB_1331_11EB);
        z ^ (z >> 31)
    }
    /// uniform in [0, n)
    pub fn below(&mut self, n: u64) -> u64 {
        if n == 0 { 0 } else { self.next_u64() % n }
    }
    /// uniform in [a, b] inclusive
    pub fn range(&mut self, a: i64, b: i64) -> i64 {
        if b <= a { a } else { a + (self.below((b - a + 1) as u64) as i64) }
    }
    /// true with probability pct/100
    pub fn chance(&mut self, pct: u64) -> bool {
        self.below(100) < pct
    }
    pub fn pick<'a, T>(&mut self, xs: &'a [T]) -> &'a T {
        &xs[self.below(xs.len() as u64) as usize]
    }
    pub fn bytes(&mut self, n: usize) -> Vec<u8> {
        (0..n).map(|_| self.next_u64() as u8).collect()
    }
}
