use anyhow::anyhow;
use cid::Cid;
use fil_actor_account::Actor as AccountActor;
use fil_actor_cron::Actor as CronActor;
use fil_actor_datacap::Actor as DataCapActor;
use fil_actor_eam::EamActor;
use fil_actor_ethaccount::EthAccountActor;
use fil_actor_evm::EvmContractActor;
use fil_actor_init::{Actor as InitActor, State as InitState};
use fil_actor_market::Actor as MarketActor;
use fil_actor_miner::Actor as MinerActor;
use fil_actor_multisig::Actor as MultisigActor;
use fil_actor_paych::Actor as PaychActor;
use fil_actor_power::Actor as PowerActor;
use fil_actor_reward::Actor as RewardActor;
use fil_actor_system::Actor as SystemActor;
use fil_actor_verifreg::Actor as VerifregActor;
use multihash_codetable::Code;

use fil_actors_runtime::runtime::builtins::Type;
use fil_actors_runtime::runtime::{
    ActorCode, DomainSeparationTag, EMPTY_ARR_CID, MessageInfo, Policy, Primitives, Runtime,
    RuntimePolicy,
};
use fil_actors_runtime::{ActorError, INIT_ACTOR_ADDR};
use fil_actors_runtime::{SYSTEM_ACTOR_ID, test_utils::*};
use fil_actors_runtime::{SendError, actor_error};
use fvm_ipld_encoding::CborStore;
use fvm_ipld_encoding::ipld_block::IpldBlock;

use fvm_shared::address::Address;
use fvm_shared::address::Payload;
use fvm_shared::bigint::Zero;
use fvm_shared::chainid::ChainID;
use fvm_shared::clock::ChainEpoch;
use fvm_shared::consensus::ConsensusFault;
use fvm_shared::crypto::hash::SupportedHashes;
use fvm_shared::crypto::signature::{
    SECP_PUB_LEN, SECP_SIG_LEN, SECP_SIG_MESSAGE_HASH_SIZE, Signature,
};
use fvm_shared::econ::TokenAmount;
use fvm_shared::error::ExitCode;
use fvm_shared::event::ActorEvent;
use fvm_shared::piece::PieceInfo;

use fvm_shared::randomness::RANDOMNESS_LENGTH;
use fvm_shared::sector::{
    AggregateSealVerifyProofAndInfos, RegisteredSealProof, ReplicaUpdateInfo, SealVerifyInfo,
    WindowPoStVerifyInfo,
};

use fvm_shared::sys::SendFlags;
use fvm_shared::version::NetworkVersion;
use fvm_shared::{ActorID, IPLD_RAW, METHOD_CONSTRUCTOR, METHOD_SEND, MethodNum, Response};

use serde::Serialize;
use serde::de::DeserializeOwned;
use std::cell::{RefCell, RefMut};
use vm_api::trace::{EmittedEvent, InvocationTrace};
use vm_api::util::get_state;
use vm_api::{ActorState, VM, new_actor};

use fil_actors_runtime::test_blockstores::MemoryBlockstore;
use std::ops::Add;
use std::rc::Rc;

use crate::vvm::{TEST_VM_INVALID_POST, TEST_VM_RAND_ARRAY, Vvm};

#[derive(Clone)]
pub struct TopCtx {
    pub originator_stable_addr: Address,
    pub originator_call_seq: u64,
    /// shared by every nested context of one top-level message (harness fix: test_vm clones the
    /// counter per nested call, so two sibling creations in one message get the same robust address)
    pub new_actor_addr_count: Rc<RefCell<u64>>,
    pub circ_supply: TokenAmount,
}

#[derive(Clone, Debug)]
pub struct InternalMessage {
    pub from: ActorID,
    pub to: Address,
    pub value: TokenAmount,
    pub method: MethodNum,
    pub params: Option<IpldBlock>,
}

impl MessageInfo for InvocationCtx<'_> {
    fn nonce(&self) -> u64 {
        self.top.originator_call_seq
    }
    fn caller(&self) -> Address {
        Address::new_id(self.msg.from)
    }
    fn origin(&self) -> Address {
        Address::new_id(self.resolve_address(&self.top.originator_stable_addr).unwrap())
    }
    fn receiver(&self) -> Address {
        self.to()
    }
    fn value_received(&self) -> TokenAmount {
        self.msg.value.clone()
    }
    fn gas_premium(&self) -> TokenAmount {
        TokenAmount::zero()
    }
}

pub struct InvocationCtx<'invocation> {
    pub v: &'invocation Vvm,
    pub top: TopCtx,
    pub msg: InternalMessage,
    pub allow_side_effects: RefCell<bool>,
    pub caller_validated: RefCell<bool>,
    pub read_only: bool,
    pub policy: &'invocation Policy,
    pub subinvocations: RefCell<Vec<InvocationTrace>>,
    pub events: RefCell<Vec<EmittedEvent>>,
}

impl<'invocation> InvocationCtx<'invocation> {
    fn resolve_target(
        &'invocation self,
        target: &Address,
    ) -> Result<(ActorState, Address), ActorError> {
        if let Some(a) = self.v.resolve_id_address(target)
            && let Some(act) = self.v.actor(&a)
        {
            return Ok((act, a));
        }

        // Address does not yet exist, create it
        let is_account = match target.payload() {
            Payload::Secp256k1(_) | Payload::BLS(_) => true,
            Payload::Delegated(da)
            // Validate that there's an actor at the target ID (we don't care what is there,
            // just that something is there).
            if self.v.actor(&Address::new_id(da.namespace())).is_some() =>
                {
                    false
                }
            _ => {
                return Err(ActorError::unchecked(
                    ExitCode::SYS_INVALID_RECEIVER,
                    format!("cannot create account for address {} type {}", target, target.protocol()),
                ));
            }
        };

        // But only if we're not in read-only mode.
        if self.read_only() {
            return Err(ActorError::unchecked(
                ExitCode::USR_READ_ONLY,
                format!("cannot create actor {target} in read-only mode"),
            ));
        }

        let mut st: InitState = get_state(self.v, &INIT_ACTOR_ADDR).unwrap();
        let (target_id, existing) = st.map_addresses_to_id(&self.v.store, target, None).unwrap();
        assert!(!existing, "should never have existing actor when no f4 address is specified");
        let target_id_addr = Address::new_id(target_id);
        let mut init_actor = self.v.actor(&INIT_ACTOR_ADDR).unwrap();
        init_actor.state = self.v.store.put_cbor(&st, Code::Blake2b256).unwrap();
        self.v.set_actor(&INIT_ACTOR_ADDR, init_actor);

        let new_actor_msg = InternalMessage {
            from: SYSTEM_ACTOR_ID,
            to: target_id_addr,
            value: TokenAmount::zero(),
            method: METHOD_CONSTRUCTOR,
            params: IpldBlock::serialize_cbor(target).unwrap(),
        };
        {
            let mut new_ctx = InvocationCtx {
                v: self.v,
                top: self.top.clone(),
                msg: new_actor_msg,
                allow_side_effects: RefCell::new(true),
                caller_validated: RefCell::new(false),
                read_only: false,
                policy: self.policy,
                subinvocations: RefCell::new(vec![]),
                events: RefCell::new(vec![]),
            };
            if is_account {
                new_ctx.create_actor(*ACCOUNT_ACTOR_CODE_ID, target_id, None).unwrap();
                let res = new_ctx.invoke();
                let invoc = new_ctx.gather_trace(res);
                RefMut::map(self.subinvocations.borrow_mut(), |subinvocs| {
                    subinvocs.push(invoc);
                    subinvocs
                });
            } else {
                new_ctx.create_actor(*PLACEHOLDER_ACTOR_CODE_ID, target_id, Some(*target)).unwrap();
            }
        }

        Ok((self.v.actor(&target_id_addr).unwrap(), target_id_addr))
    }

    pub fn gather_trace(
        &mut self,
        invoke_result: Result<Option<IpldBlock>, ActorError>,
    ) -> InvocationTrace {
        let (ret, code) = match invoke_result {
            Ok(rb) => (rb, ExitCode::OK),
            Err(ae) => (None, ae.exit_code()),
        };
        let mut msg = self.msg.clone();
        msg.to = match self.resolve_target(&self.msg.to) {
            Ok((_, addr)) => addr, // use normalized address in trace
            _ => self.msg.to, // if target resolution fails don't fail whole invoke, just use non normalized
        };
        InvocationTrace {
            from: msg.from,
            to: msg.to,
            value: msg.value,
            method: msg.method,
            params: msg.params,
            // Actors should wrap syscall errors
            error_number: None,
            return_value: ret,
            exit_code: code,
            subinvocations: self.subinvocations.take(),
            events: self.events.take(),
        }
    }

    fn to(&'_ self) -> Address {
        self.resolve_target(&self.msg.to).unwrap().1
    }

    pub fn invoke(&mut self) -> Result<Option<IpldBlock>, ActorError> {
        let prior_root = self.v.checkpoint();

        // Transfer funds
        let mut from_actor = self.v.actor(&Address::new_id(self.msg.from)).unwrap();
        if !self.msg.value.is_zero() {
            if self.msg.value.is_negative() {
                return Err(ActorError::unchecked(
                    ExitCode::SYS_ASSERTION_FAILED,
                    "attempt to transfer negative value".to_string(),
                ));
            }
            if from_actor.balance < self.msg.value {
                return Err(ActorError::unchecked(
                    ExitCode::SYS_INSUFFICIENT_FUNDS,
                    "insufficient balance to transfer".to_string(),
                ));
            }
            if self.read_only() {
                return Err(ActorError::unchecked(
                    ExitCode::USR_READ_ONLY,
                    "cannot transfer value in read-only mode".to_string(),
                ));
            }
        }

        // Load, deduct, store from actor before loading to actor to handle self-send case
        from_actor.balance -= &self.msg.value;
        self.v.set_actor(&Address::new_id(self.msg.from), from_actor);

        let (mut to_actor, to_addr) = match self.resolve_target(&self.msg.to) {
            Ok(x) => x,
            Err(e) => {
                // harness fix: test_vm leaks the sender's debit here
                self.v.rollback(prior_root);
                return Err(e);
            }
        };
        to_actor.balance = to_actor.balance.add(&self.msg.value);
        self.v.set_actor(&to_addr, to_actor);

        // Exit early on send
        if self.msg.method == METHOD_SEND {
            return Ok(None);
        }
        self.msg.to = to_addr;

        // call target actor
        let to_actor = self.v.actor(&to_addr).unwrap();
        let params = self.msg.params.clone();
        let code_ty = *ACTOR_TYPES.get(&to_actor.code).expect("Target actor is not a builtin");
        let caught = std::panic::catch_unwind(std::panic::AssertUnwindSafe(|| match code_ty{
            Type::Account => AccountActor::invoke_method(self, self.msg.method, params),
            Type::Cron => CronActor::invoke_method(self, self.msg.method, params),
            Type::Init => InitActor::invoke_method(self, self.msg.method, params),
            Type::Market => MarketActor::invoke_method(self, self.msg.method, params),
            Type::Miner => MinerActor::invoke_method(self, self.msg.method, params),
            Type::Multisig => MultisigActor::invoke_method(self, self.msg.method, params),
            Type::System => SystemActor::invoke_method(self, self.msg.method, params),
            Type::Reward => RewardActor::invoke_method(self, self.msg.method, params),
            Type::Power => PowerActor::invoke_method(self, self.msg.method, params),
            Type::PaymentChannel => PaychActor::invoke_method(self, self.msg.method, params),
            Type::VerifiedRegistry => VerifregActor::invoke_method(self, self.msg.method, params),
            Type::DataCap => DataCapActor::invoke_method(self, self.msg.method, params),
            Type::Placeholder => {
                Err(ActorError::unhandled_message("placeholder actors only handle method 0".into()))
            }
            Type::EVM => EvmContractActor::invoke_method(self, self.msg.method, params),
            Type::EAM => EamActor::invoke_method(self, self.msg.method, params),
            Type::EthAccount => EthAccountActor::invoke_method(self, self.msg.method, params),
        }));
        let mut res = match caught {
            Ok(r) => r,
            Err(p) => {
                let msg = if let Some(s) = p.downcast_ref::<String>() { s.clone() } else if let Some(s) = p.downcast_ref::<&str>() { s.to_string() } else { "panic".to_string() };
                self.v.panics.borrow_mut().push(format!("to={} method={} : {}", to_addr, self.msg.method, msg));
                self.allow_side_effects.replace(true);
                Err(ActorError::unchecked(ExitCode::USR_ASSERTION_FAILED, format!("panic: {}", msg)))
            }
        };
        if res.is_ok() && !*self.caller_validated.borrow() {
            res = Err(actor_error!(assertion_failed, "failed to validate caller"));
        }
        if res.is_err() {
            self.v.rollback(prior_root)
        };

        res
    }
}

impl Runtime for InvocationCtx<'_> {
    type Blockstore = Rc<MemoryBlockstore>;

    fn create_actor(
        &self,
        code_id: Cid,
        actor_id: ActorID,
        predictable_address: Option<Address>,
    ) -> Result<(), ActorError> {
        match NON_SINGLETON_CODES.get(&code_id) {
            Some(_) => (),
            None => {
                return Err(ActorError::unchecked(
                    ExitCode::SYS_ASSERTION_FAILED,
                    "create_actor called with singleton builtin actor code cid".to_string(),
                ));
            }
        }
        let addr = &Address::new_id(actor_id);
        let actor = match self.v.actor(addr) {
            Some(mut act) if act.code == *PLACEHOLDER_ACTOR_CODE_ID => {
                act.code = code_id;
                act
            }
            None => new_actor(code_id, EMPTY_ARR_CID, 0, TokenAmount::zero(), predictable_address),
            _ => {
                return Err(actor_error!(forbidden;
                    "attempt to create new actor at existing address {}", addr));
            }
        };

        if self.read_only() {
            return Err(ActorError::unchecked(
                ExitCode::USR_READ_ONLY,
                "cannot create actor in read-only mode".into(),
            ));
        }

        self.top.new_actor_addr_count.replace_with(|old| *old + 1);
        self.v.set_actor(addr, actor);
        Ok(())
    }

    fn store(&self) -> &Rc<MemoryBlockstore> {
        &self.v.store
    }

    fn network_version(&self) -> NetworkVersion {
        self.v.network_version
    }

    fn message(&self) -> &dyn MessageInfo {
        self
    }

    fn curr_epoch(&self) -> ChainEpoch {
        self.v.epoch()
    }

    fn chain_id(&self) -> ChainID {
        ChainID::from(0)
    }

    fn validate_immediate_caller_accept_any(&self) -> Result<(), ActorError> {
        if *self.caller_validated.borrow() {
            Err(ActorError::unchecked(
                ExitCode::SYS_ASSERTION_FAILED,
                "caller double validated".to_string(),
            ))
        } else {
            self.caller_validated.replace(true);
            Ok(())
        }
    }

    fn validate_immediate_caller_namespace<I>(
        &self,
        namespace_manager_addresses: I,
    ) -> Result<(), ActorError>
    where
        I: IntoIterator<Item = u64>,
    {
        if *self.caller_validated.borrow() {
            return Err(ActorError::unchecked(
                ExitCode::SYS_ASSERTION_FAILED,
                "caller double validated".to_string(),
            ));
        }
        let managers: Vec<_> = namespace_manager_addresses.into_iter().collect();

        if let Some(delegated) =
            self.lookup_delegated_address(self.message().caller().id().unwrap())
        {
            for id in managers {
                if match delegated.payload() {
                    Payload::Delegated(d) => d.namespace() == id,
                    _ => false,
                } {
                    return Ok(());
                }
            }
        } else {
            return Err(ActorError::unchecked(
                ExitCode::SYS_ASSERTION_FAILED,
                "immediate caller actor expected to have namespace".to_string(),
            ));
        }

        Err(ActorError::unchecked(
            ExitCode::SYS_ASSERTION_FAILED,
            "immediate caller actor namespace forbidden".to_string(),
        ))
    }

    fn validate_immediate_caller_is<'a, I>(&self, addresses: I) -> Result<(), ActorError>
    where
        I: IntoIterator<Item = &'a Address>,
    {
        if *self.caller_validated.borrow() {
            return Err(ActorError::unchecked(
                ExitCode::USR_ASSERTION_FAILED,
                "caller double validated".to_string(),
            ));
        }
        self.caller_validated.replace(true);
        for addr in addresses {
            if *addr == Address::new_id(self.msg.from) {
                return Ok(());
            }
        }
        Err(ActorError::unchecked(
            ExitCode::USR_FORBIDDEN,
            "immediate caller address forbidden".to_string(),
        ))
    }

    fn validate_immediate_caller_type<'a, I>(&self, types: I) -> Result<(), ActorError>
    where
        I: IntoIterator<Item = &'a Type>,
    {
        if *self.caller_validated.borrow() {
            return Err(ActorError::unchecked(
                ExitCode::SYS_ASSERTION_FAILED,
                "caller double validated".to_string(),
            ));
        }
        self.caller_validated.replace(true);
        // harness (C11): a caller whose code is not a built-in has no `Type`; the production
        // runtime answers "forbidden" in that case (test_vm unwraps and panics)
        let to_match =
            ACTOR_TYPES.get(&self.v.actor(&Address::new_id(self.msg.from)).unwrap().code);
        if let Some(to_match) = to_match
            && types.into_iter().any(|t| *t == *to_match)
        {
            return Ok(());
        }
        Err(ActorError::unchecked(
            ExitCode::SYS_ASSERTION_FAILED,
            "immediate caller actor type forbidden".to_string(),
        ))
    }

    fn current_balance(&self) -> TokenAmount {
        self.v.actor(&self.to()).unwrap().balance
    }

    fn resolve_address(&self, addr: &Address) -> Option<ActorID> {
        if let Some(normalize_addr) = self.v.resolve_id_address(addr)
            && let &Payload::ID(id) = normalize_addr.payload()
        {
            return Some(id);
        }
        None
    }

    fn get_actor_code_cid(&self, id: &ActorID) -> Option<Cid> {
        let maybe_act = self.v.actor(&Address::new_id(*id));
        match maybe_act {
            None => None,
            Some(act) => Some(act.code),
        }
    }

    fn lookup_delegated_address(&self, id: ActorID) -> Option<Address> {
        self.v.actor(&Address::new_id(id)).and_then(|act| act.delegated_address)
    }

    fn send(
        &self,
        to: &Address,
        method: MethodNum,
        params: Option<IpldBlock>,
        value: TokenAmount,
        _gas_limit: Option<u64>,
        mut send_flags: SendFlags,
    ) -> Result<Response, SendError> {
        // replicate FVM by silently propagating read only flag to subcalls
        if self.read_only() {
            send_flags.set(SendFlags::READ_ONLY, true)
        }

        if !*self.allow_side_effects.borrow() {
            return Ok(Response { exit_code: ExitCode::SYS_ASSERTION_FAILED, return_data: None });
        }

        let from_id = self.resolve_address(&self.to()).unwrap();

        // harness: fault plan
        let ordinal = *self.v.send_counter.borrow();
        self.v.send_counter.replace(ordinal + 1);
        if let Some((k, code)) = *self.v.fail_plan.borrow() {
            if k == ordinal {
                let tr = InvocationTrace {
                    from: from_id,
                    to: *to,
                    value: value.clone(),
                    method,
                    params: params.clone(),
                    error_number: None,
                    return_value: None,
                    exit_code: code,
                    subinvocations: vec![],
                    events: vec![],
                };
                self.subinvocations.borrow_mut().push(tr);
                return Ok(Response { exit_code: code, return_data: None });
            }
        }

        let new_actor_msg = InternalMessage { from: from_id, to: *to, value, method, params };
        let mut new_ctx = InvocationCtx {
            v: self.v,
            top: self.top.clone(),
            msg: new_actor_msg,
            allow_side_effects: RefCell::new(true),
            caller_validated: RefCell::new(false),
            read_only: send_flags.read_only(),
            policy: self.policy,
            subinvocations: RefCell::new(vec![]),
            events: RefCell::new(vec![]),
        };
        let res = new_ctx.invoke();
        let invoc = new_ctx.gather_trace(res.clone());
        RefMut::map(self.subinvocations.borrow_mut(), |subinvocs| {
            subinvocs.push(invoc);
            subinvocs
        });

        Ok(Response {
            exit_code: res.as_ref().err().map(|e| e.exit_code()).unwrap_or(ExitCode::OK),
            return_data: res.unwrap_or_else(|mut e| e.take_data()),
        })
    }

    fn get_randomness_from_tickets(
        &self,
        _personalization: DomainSeparationTag,
        _rand_epoch: ChainEpoch,
        _entropy: &[u8],
    ) -> Result<[u8; RANDOMNESS_LENGTH], ActorError> {
        Ok(TEST_VM_RAND_ARRAY)
    }

    fn get_randomness_from_beacon(
        &self,
        _personalization: DomainSeparationTag,
        _rand_epoch: ChainEpoch,
        _entropy: &[u8],
    ) -> Result<[u8; RANDOMNESS_LENGTH], ActorError> {
        Ok(TEST_VM_RAND_ARRAY)
    }

    fn get_beacon_randomness(
        &self,
        _rand_epoch: ChainEpoch,
    ) -> Result<[u8; RANDOMNESS_LENGTH], ActorError> {
        Ok(TEST_VM_RAND_ARRAY)
    }

    fn get_state_root(&self) -> Result<Cid, ActorError> {
        Ok(self.v.actor(&self.to()).unwrap().state)
    }

    fn set_state_root(&self, root: &Cid) -> Result<(), ActorError> {
        let maybe_act = self.v.actor(&self.to());
        match maybe_act {
            None => Err(ActorError::unchecked(
                ExitCode::SYS_ASSERTION_FAILED,
                "actor does not exist".to_string(),
            )),
            Some(mut act) if !self.read_only() => {
                act.state = *root;
                self.v.set_actor(&self.to(), act);
                Ok(())
            }
            _ => Err(ActorError::unchecked(
                ExitCode::USR_READ_ONLY,
                "actor is read-only".to_string(),
            )),
        }
    }

    fn transaction<S, RT, F>(&self, f: F) -> Result<RT, ActorError>
    where
        S: Serialize + DeserializeOwned,
        F: FnOnce(&mut S, &Self) -> Result<RT, ActorError>,
    {
        let mut st = self.state::<S>().unwrap();
        self.allow_side_effects.replace(false);
        let result = f(&mut st, self);
        self.allow_side_effects.replace(true);
        let ret = result?;
        let mut act = self.v.actor(&self.to()).unwrap();
        act.state = self.v.store.put_cbor(&st, Code::Blake2b256).unwrap();

        if self.read_only {
            return Err(ActorError::unchecked(
                ExitCode::USR_READ_ONLY,
                "actor is read-only".to_string(),
            ));
        }

        self.v.set_actor(&self.to(), act);
        Ok(ret)
    }

    fn new_actor_address(&self) -> Result<Address, ActorError> {
        let mut b = self.top.originator_stable_addr.to_bytes();
        b.extend_from_slice(&self.top.originator_call_seq.to_be_bytes());
        b.extend_from_slice(&self.top.new_actor_addr_count.borrow().to_be_bytes());
        Ok(Address::new_actor(&b))
    }

    fn delete_actor(&self) -> Result<(), ActorError> {
        if !*self.allow_side_effects.borrow() {
            return Err(actor_error!(assertion_failed; "delete_actor is not allowed during transaction"));
        }
        if self.read_only() {
            return Err(ActorError::unchecked(ExitCode::USR_READ_ONLY, "cannot delete actor in read-only mode".into()));
        }
        let me = self.to();
        let act = self.v.actor(&me).unwrap();
        if !act.balance.is_zero() {
            return Err(ActorError::unchecked(ExitCode::USR_ILLEGAL_STATE, "cannot delete actor with unspent balance".into()));
        }
        self.v.remove_actor(&me);
        Ok(())
    }

    fn resolve_builtin_actor_type(&self, code_id: &Cid) -> Option<Type> {
        ACTOR_TYPES.get(code_id).cloned()
    }

    fn get_code_cid_for_type(&self, typ: Type) -> Cid {
        ACTOR_CODES.get(&typ).cloned().unwrap()
    }

    fn total_fil_circ_supply(&self) -> TokenAmount {
        self.top.circ_supply.clone()
    }

    fn charge_gas(&self, _name: &'static str, _compute: i64) {}

    fn base_fee(&self) -> TokenAmount {
        TokenAmount::zero()
    }

    fn actor_balance(&self, id: ActorID) -> Option<TokenAmount> {
        self.v.actor(&Address::new_id(id)).map(|act| act.balance)
    }

    fn gas_available(&self) -> u64 {
        u32::MAX.into()
    }

    fn tipset_timestamp(&self) -> u64 {
        0
    }

    fn tipset_cid(&self, _epoch: i64) -> Result<Cid, ActorError> {
        Ok(Cid::new_v1(IPLD_RAW, Multihash::wrap(0, b"faketipset").unwrap()))
    }

    fn emit_event(&self, event: &ActorEvent) -> Result<(), ActorError> {
        self.events
            .borrow_mut()
            .push(EmittedEvent { emitter: self.msg.to.id().unwrap(), event: event.clone() });
        Ok(())
    }

    fn read_only(&self) -> bool {
        self.read_only
    }
}

impl Primitives for InvocationCtx<'_> {
    fn verify_signature(
        &self,
        signature: &Signature,
        signer: &Address,
        plaintext: &[u8],
    ) -> Result<(), anyhow::Error> {
        // harness: signer-specific fake signatures `signer_bytes ++ plaintext`
        let sb = signer.to_bytes();
        if signature.bytes.len() == sb.len() + plaintext.len()
            && signature.bytes[..sb.len()] == sb[..]
            && signature.bytes[sb.len()..] == *plaintext
        {
            return Ok(());
        }
        if *self.v.strict_sigs.borrow() {
            return Err(anyhow!("invalid signature (strict)"));
        }
        self.v.primitives().verify_signature(signature, signer, plaintext)
    }

    fn hash_blake2b(&self, data: &[u8]) -> [u8; 32] {
        self.v.primitives().hash_blake2b(data)
    }

    fn compute_unsealed_sector_cid(
        &self,
        proof_type: RegisteredSealProof,
        pieces: &[PieceInfo],
    ) -> Result<Cid, anyhow::Error> {
        self.v.primitives().compute_unsealed_sector_cid(proof_type, pieces)
    }

    fn hash(&self, hasher: SupportedHashes, data: &[u8]) -> Vec<u8> {
        self.v.primitives().hash(hasher, data)
    }

    fn hash_64(&self, hasher: SupportedHashes, data: &[u8]) -> ([u8; 64], usize) {
        self.v.primitives().hash_64(hasher, data)
    }

    fn recover_secp_public_key(
        &self,
        hash: &[u8; SECP_SIG_MESSAGE_HASH_SIZE],
        signature: &[u8; SECP_SIG_LEN],
    ) -> Result<[u8; SECP_PUB_LEN], anyhow::Error> {
        self.v.primitives().recover_secp_public_key(hash, signature)
    }

    fn verify_post(&self, verify_info: &WindowPoStVerifyInfo) -> Result<(), anyhow::Error> {
        for proof in &verify_info.proofs {
            if proof.proof_bytes.eq(&TEST_VM_INVALID_POST.as_bytes().to_vec()) {
                return Err(anyhow!("invalid proof"));
            }
        }

        Ok(())
    }

    fn verify_consensus_fault(
        &self,
        _h1: &[u8],
        _h2: &[u8],
        _extra: &[u8],
    ) -> Result<Option<ConsensusFault>, anyhow::Error> {
        Ok(self.v.consensus_fault.borrow().clone())
    }

    fn batch_verify_seals(&self, batch: &[SealVerifyInfo]) -> anyhow::Result<Vec<bool>> {
        Ok(vec![true; batch.len()]) // everyone wins
    }

    fn verify_aggregate_seals(
        &self,
        _aggregate: &AggregateSealVerifyProofAndInfos,
    ) -> Result<(), anyhow::Error> {
        Ok(())
    }

    fn verify_replica_update(&self, replica: &ReplicaUpdateInfo) -> Result<(), anyhow::Error> {
        self.v.primitives().verify_replica_update(replica)
    }
}

impl RuntimePolicy for InvocationCtx<'_> {
    fn policy(&self) -> &Policy {
        self.policy
    }
}
