pub mod vvm;
pub mod vvm_messaging;
pub mod prng;
pub mod coqfmt;
pub mod util;
