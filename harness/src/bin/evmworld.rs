//! C19 correspondence + monitor harness: systems of 2-4 scripted contracts compiled to real EVM
//! bytecode, deployed through the real EAM / Init / EVM actors on the harness VM, against the
//! abstract specification of coq/Model/EvmWorld.v.  A Rust transcription of that specification
//! (`spec`) is the monitor oracle that classifies mismatches; the official comparison is the one
//! `coqc` performs on the cases files.
use fil_actor_evm::State as EvmState;
use fil_actors_evm_shared::address::EthAddress;
use fil_actors_evm_shared::uints::U256;
use fil_actors_runtime::test_utils::EVM_ACTOR_CODE_ID;
use fil_actors_runtime::{EAM_ACTOR_ADDR, EAM_ACTOR_ID};
use fvm_ipld_blockstore::Blockstore;
use fvm_ipld_encoding::{BytesDe, BytesSer};
use fvm_ipld_kamt::{AsHashedKey, Config as KamtConfig, HashedKey, Kamt};
use fvm_shared::address::Address;
use fvm_shared::bigint::{BigInt, BigUint};
use fvm_shared::crypto::hash::SupportedHashes;
use fvm_shared::econ::TokenAmount;
use fvm_shared::METHOD_SEND;
use serde::{Deserialize, Serialize};
use std::borrow::Cow;
use std::collections::{BTreeMap, BTreeSet, HashMap};
use vharness::coqfmt::{self as cf, Case, CaseWriter, Stats};
use vharness::prng::Prng;
use vharness::util::*;
use vharness::vvm::Vvm;
use vm_api::trace::InvocationTrace;
use vm_api::util::get_state;
use vm_api::VM;

// ------------------------------------------------------------------------------------------------
// scripts
// ------------------------------------------------------------------------------------------------
type MAddr = i64; // model address: contracts 1..=n, EOAs 101.., CREATE2 200.., CREATE 1000..

#[derive(Clone, Debug, Serialize, Deserialize, PartialEq)]
enum Act {
    SStore { k: u8, v: u8 },
    SLoad { k: u8 },
    TStore { k: u8, v: u8 },
    TLoad { k: u8 },
    Log { tag: u8 },
    Env { what: u8 },
    /// kind: 0 CALL, 1 STATICCALL, 2 DELEGATECALL
    Call { kind: u8, target: MAddr, entry: u8, value: u64, propagate: bool },
    Create { tmpl: u8, value: u64 },
    Create2 { salt: u8, tmpl: u8, value: u64 },
    SelfDestruct { beneficiary: MAddr },
    Revert,
    Return,
}
type Script = Vec<Act>;
type Code = Vec<Script>;

#[derive(Clone, Debug, Serialize, Deserialize)]
struct Tmpl {
    ctor: Script,
    code: Code,
}

#[derive(Clone, Debug, Serialize, Deserialize)]
struct Msg {
    from: MAddr,
    to: MAddr,
    entry: u8,
    value: u64,
}

#[derive(Clone, Debug, Serialize, Deserialize)]
struct CaseSpec {
    contracts: Vec<Code>,
    tmpls: Vec<Tmpl>,
    /// initial balance of every contract
    funds: Vec<u64>,
    msgs: Vec<Msg>,
}

const N_SALTS: i64 = 2;
const EOA_BASE: MAddr = 101;
const C2_BASE: MAddr = 200;
const CR_BASE: MAddr = 1000;
const TMPL_ID_BASE: i64 = 50;

fn c2_addr(ntmpl: usize, creator: MAddr, salt: u8, tmpl: u8) -> MAddr {
    C2_BASE + ((creator - 1) * N_SALTS + salt as i64) * ntmpl as i64 + tmpl as i64
}
fn cr_addr(creator: MAddr, nonce: u64) -> MAddr {
    CR_BASE + (creator - 1) * 100 + nonce as i64
}

// ------------------------------------------------------------------------------------------------
// assembler
// ------------------------------------------------------------------------------------------------
#[allow(dead_code)]
mod op {
    pub const STOP: u8 = 0x00;
    pub const ADD: u8 = 0x01;
    pub const SUB: u8 = 0x03;
    pub const EQ: u8 = 0x14;
    pub const ISZERO: u8 = 0x15;
    pub const SHR: u8 = 0x1c;
    pub const ADDRESS: u8 = 0x30;
    pub const CALLER: u8 = 0x33;
    pub const CALLVALUE: u8 = 0x34;
    pub const CALLDATALOAD: u8 = 0x35;
    pub const CALLDATASIZE: u8 = 0x36;
    pub const CODECOPY: u8 = 0x39;
    pub const RETURNDATASIZE: u8 = 0x3d;
    pub const RETURNDATACOPY: u8 = 0x3e;
    pub const SELFBALANCE: u8 = 0x47;
    pub const POP: u8 = 0x50;
    pub const MLOAD: u8 = 0x51;
    pub const MSTORE: u8 = 0x52;
    pub const MSTORE8: u8 = 0x53;
    pub const SLOAD: u8 = 0x54;
    pub const SSTORE: u8 = 0x55;
    pub const JUMP: u8 = 0x56;
    pub const JUMPI: u8 = 0x57;
    pub const JUMPDEST: u8 = 0x5b;
    pub const TLOAD: u8 = 0x5c;
    pub const TSTORE: u8 = 0x5d;
    pub const PUSH0: u8 = 0x5f;
    pub const PUSH1: u8 = 0x60;
    pub const DUP1: u8 = 0x80;
    pub const DUP2: u8 = 0x81;
    pub const SWAP1: u8 = 0x90;
    pub const LOG1: u8 = 0xa1;
    pub const CREATE: u8 = 0xf0;
    pub const CALL: u8 = 0xf1;
    pub const RETURN: u8 = 0xf3;
    pub const DELEGATECALL: u8 = 0xf4;
    pub const CREATE2: u8 = 0xf5;
    pub const STATICCALL: u8 = 0xfa;
    pub const REVERT: u8 = 0xfd;
    pub const SELFDESTRUCT: u8 = 0xff;
}
use op::*;

/// memory layout of every activation: mem[0..32) = end of the log (absolute offset), mem[32] = the
/// calldata byte of outgoing calls, log words from 0x40.
const LOG_START: u64 = 0x40;

struct Asm {
    code: Vec<u8>,
    labels: HashMap<String, usize>,
    fixups: Vec<(usize, String)>,
}
impl Asm {
    fn new() -> Self {
        Asm { code: vec![], labels: HashMap::new(), fixups: vec![] }
    }
    fn op(&mut self, b: u8) {
        self.code.push(b);
    }
    fn ops(&mut self, bs: &[u8]) {
        self.code.extend_from_slice(bs);
    }
    fn push(&mut self, v: u64) {
        if v == 0 {
            self.op(PUSH0);
            return;
        }
        let be = v.to_be_bytes();
        let skip = be.iter().take_while(|b| **b == 0).count();
        self.op(PUSH1 + (8 - skip - 1) as u8);
        self.ops(&be[skip..]);
    }
    fn push_bytes(&mut self, b: &[u8]) {
        assert!(!b.is_empty() && b.len() <= 32);
        self.op(PUSH1 + (b.len() - 1) as u8);
        self.ops(b);
    }
    fn push2(&mut self, v: usize) {
        assert!(v < 65536);
        self.op(PUSH1 + 1);
        self.ops(&(v as u16).to_be_bytes());
    }
    fn push_label(&mut self, l: &str) {
        self.op(PUSH1 + 1);
        self.fixups.push((self.code.len(), l.to_string()));
        self.ops(&[0, 0]);
    }
    fn label(&mut self, l: &str) {
        self.mark(l);
        self.op(JUMPDEST);
    }
    fn mark(&mut self, l: &str) {
        let prev = self.labels.insert(l.to_string(), self.code.len());
        assert!(prev.is_none(), "duplicate label {l}");
    }
    fn finish(mut self) -> Vec<u8> {
        for (pos, l) in &self.fixups {
            let t = *self.labels.get(l).unwrap_or_else(|| panic!("undefined label {l}"));
            assert!(t < 65536);
            self.code[*pos] = (t >> 8) as u8;
            self.code[*pos + 1] = t as u8;
        }
        self.code
    }
    /// append the word on top of the stack to the log
    fn append(&mut self) {
        self.ops(&[PUSH0, MLOAD, SWAP1, DUP2, MSTORE, PUSH1, 0x20, ADD, PUSH0, MSTORE]);
    }
    fn init_log(&mut self) {
        self.push(LOG_START);
        self.ops(&[PUSH0, MSTORE]);
    }
    /// leaves [size, offset] for RETURN / REVERT (offset on top)
    fn log_region(&mut self) {
        self.push(LOG_START);
        self.ops(&[PUSH0, MLOAD, SUB]);
        self.push(LOG_START);
    }
}

struct Linker<'a> {
    eth: &'a dyn Fn(MAddr) -> [u8; 20],
    /// initcode of every template (empty slice while compiling the templates themselves)
    inits: &'a [Vec<u8>],
}

fn compile_script(a: &mut Asm, s: &Script, lk: &Linker) {
    for act in s {
        match act {
            Act::SStore { k, v } => {
                a.push(*v as u64);
                a.push(*k as u64);
                a.op(SSTORE);
            }
            Act::SLoad { k } => {
                a.push(*k as u64);
                a.op(SLOAD);
                a.append();
            }
            Act::TStore { k, v } => {
                a.push(*v as u64);
                a.push(*k as u64);
                a.op(TSTORE);
            }
            Act::TLoad { k } => {
                a.push(*k as u64);
                a.op(TLOAD);
                a.append();
            }
            Act::Log { tag } => {
                a.push(*tag as u64);
                a.ops(&[PUSH0, PUSH0, LOG1]);
            }
            Act::Env { what } => {
                a.op(match what {
                    0 => CALLER,
                    1 => CALLVALUE,
                    2 => ADDRESS,
                    _ => SELFBALANCE,
                });
                a.append();
            }
            Act::Call { kind, target, entry, value, propagate } => {
                a.push(*entry as u64);
                a.ops(&[PUSH1, 0x20, MSTORE8]);
                a.ops(&[PUSH0, PUSH0, PUSH1, 1, PUSH1, 0x20]); // outSize outOff inSize inOff
                if *kind == 0 {
                    a.push(*value);
                }
                a.push_bytes(&(lk.eth)(*target));
                a.push(0xffff_ffff);
                a.op(match kind {
                    0 => CALL,
                    1 => STATICCALL,
                    _ => DELEGATECALL,
                });
                // [status]
                a.op(DUP1);
                a.append();
                // copy the returned log behind ours
                a.ops(&[RETURNDATASIZE, PUSH0, PUSH0, MLOAD, RETURNDATACOPY]);
                a.ops(&[RETURNDATASIZE, PUSH0, MLOAD, ADD, PUSH0, MSTORE]);
                if *propagate {
                    a.op(ISZERO);
                    a.push_label("rev");
                    a.op(JUMPI);
                } else {
                    a.op(POP);
                }
            }
            Act::Create { tmpl, value } | Act::Create2 { tmpl, value, .. } => {
                let init = &lk.inits[*tmpl as usize];
                a.push2(init.len());
                a.push_label(&format!("tmpl{}", tmpl));
                a.ops(&[PUSH0, MLOAD, CODECOPY]);
                if let Act::Create2 { salt, .. } = act {
                    a.push(*salt as u64);
                }
                a.push2(init.len());
                a.ops(&[PUSH0, MLOAD]);
                a.push(*value);
                a.op(if matches!(act, Act::Create { .. }) { CREATE } else { CREATE2 });
                a.ops(&[ISZERO, ISZERO]);
                a.append();
            }
            Act::SelfDestruct { beneficiary } => {
                a.push_bytes(&(lk.eth)(*beneficiary));
                a.op(SELFDESTRUCT);
            }
            Act::Revert => {
                a.push_label("rev");
                a.op(JUMP);
            }
            Act::Return => {
                a.push_label("ret");
                a.op(JUMP);
            }
        }
    }
}

fn used_tmpls(code: &Code) -> BTreeSet<u8> {
    let mut s = BTreeSet::new();
    for sc in code {
        for a in sc {
            if let Act::Create { tmpl, .. } | Act::Create2 { tmpl, .. } = a {
                s.insert(*tmpl);
            }
        }
    }
    s
}

/// `marker` makes the bytecode of every contract / template distinct (identical scripts would
/// otherwise give identical CREATE2 addresses and code ids)
fn compile_runtime(code: &Code, lk: &Linker, marker: u8) -> Vec<u8> {
    let mut a = Asm::new();
    a.init_log();
    a.ops(&[CALLDATASIZE, ISZERO]);
    a.push_label("stop");
    a.op(JUMPI);
    a.ops(&[PUSH0, CALLDATALOAD, PUSH1, 0xf8, SHR]);
    for i in 0..code.len() {
        a.op(DUP1);
        a.push(i as u64);
        a.op(EQ);
        a.push_label(&format!("e{}", i));
        a.op(JUMPI);
    }
    a.label("stop");
    a.op(STOP);
    for (i, s) in code.iter().enumerate() {
        a.label(&format!("e{}", i));
        a.op(POP);
        compile_script(&mut a, s, lk);
        a.push_label("ret");
        a.op(JUMP);
    }
    a.label("ret");
    a.log_region();
    a.op(RETURN);
    a.label("rev");
    a.log_region();
    a.op(REVERT);
    for t in used_tmpls(code) {
        a.mark(&format!("tmpl{}", t));
        a.ops(&lk.inits[t as usize]);
    }
    a.ops(&[0xfe, marker]);
    a.finish()
}

fn compile_init(t: &Tmpl, lk: &Linker, marker: u8) -> (Vec<u8>, Vec<u8>) {
    let runtime = compile_runtime(&t.code, lk, marker);
    let mut a = Asm::new();
    a.init_log();
    compile_script(&mut a, &t.ctor, lk);
    a.label("ret");
    a.push2(runtime.len());
    a.push_label("rt");
    a.ops(&[PUSH0, CODECOPY]);
    a.push2(runtime.len());
    a.ops(&[PUSH0, RETURN]);
    a.label("rev");
    a.log_region();
    a.op(REVERT);
    a.mark("rt");
    a.ops(&runtime);
    (a.finish(), runtime)
}

// ------------------------------------------------------------------------------------------------
// address derivation (the EAM's rules; checked against what the EAM actually assigns)
// ------------------------------------------------------------------------------------------------
fn keccak(v: &Vvm, d: &[u8]) -> Vec<u8> {
    v.primitives().hash(SupportedHashes::Keccak256, d)
}
fn hash20(v: &Vvm, d: &[u8]) -> [u8; 20] {
    keccak(v, d)[12..32].try_into().unwrap()
}
fn addr_create(v: &Vvm, from: &[u8; 20], nonce: u64) -> [u8; 20] {
    let mut payload = vec![0x94];
    payload.extend_from_slice(from);
    if nonce == 0 {
        payload.push(0x80);
    } else if nonce < 0x80 {
        payload.push(nonce as u8);
    } else {
        let be = nonce.to_be_bytes();
        let skip = be.iter().take_while(|b| **b == 0).count();
        payload.push(0x80 + (8 - skip) as u8);
        payload.extend_from_slice(&be[skip..]);
    }
    let mut out = vec![0xc0 + payload.len() as u8];
    out.extend_from_slice(&payload);
    hash20(v, &out)
}
fn addr_create2(v: &Vvm, from: &[u8; 20], salt: u8, init: &[u8]) -> [u8; 20] {
    let mut d = vec![0xff];
    d.extend_from_slice(from);
    let mut s = [0u8; 32];
    s[31] = salt;
    d.extend_from_slice(&s);
    d.extend_from_slice(&keccak(v, init));
    hash20(v, &d)
}

// ------------------------------------------------------------------------------------------------
// reading the real state
// ------------------------------------------------------------------------------------------------
struct BeKey;
impl AsHashedKey<U256, 32> for BeKey {
    fn as_hashed_key(key: &U256) -> Cow<'_, HashedKey<32>> {
        Cow::Owned(key.to_big_endian())
    }
}
// the configuration of actors/evm/src/interpreter/system.rs (loading with another one fails loudly)
const KAMT_CONFIG: KamtConfig = KamtConfig { min_data_depth: 0, bit_width: 5, max_array_width: 1 };

fn u256_dec(x: &U256) -> String {
    BigUint::from_bytes_be(&x.to_big_endian()).to_string()
}

#[derive(Clone, Debug, PartialEq, Default)]
struct AddrObs {
    /// 0 no contract, 1 live, 2 dead
    status: u8,
    codeid: i64,
    nonce: u64,
    slots: Vec<(String, String)>,
    bal: String,
}
impl AddrObs {
    fn enc(&self) -> Vec<String> {
        let mut o = vec![self.status.to_string(), cf::z(self.codeid), self.nonce.to_string(), self.slots.len().to_string()];
        for (k, v) in &self.slots {
            o.push(k.clone());
            o.push(v.clone());
        }
        o.push(cf::z(&self.bal));
        o
    }
}

struct World {
    v: Vvm,
    eoas: Vec<Address>,
    /// model address -> eth address
    eth: BTreeMap<MAddr, [u8; 20]>,
    /// runtime bytecode -> code id
    code_ids: HashMap<Vec<u8>, i64>,
    ncontracts: usize,
}

fn f4(e: &[u8; 20]) -> Address {
    Address::new_delegated(EAM_ACTOR_ID, e).unwrap()
}

fn read_addr(w: &World, m: MAddr) -> AddrObs {
    let e = w.eth[&m];
    let target: Address = if m >= EOA_BASE && m < C2_BASE { w.eoas[(m - EOA_BASE) as usize] } else { f4(&e) };
    let id = match w.v.resolve_id_address(&target) {
        Some(a) => a,
        None => return AddrObs { bal: "0".into(), ..Default::default() },
    };
    let act = match w.v.actor(&id) {
        Some(a) => a,
        None => return AddrObs { bal: "0".into(), ..Default::default() },
    };
    let bal = act.balance.atto().to_string();
    if act.code != *EVM_ACTOR_CODE_ID {
        return AddrObs { bal, ..Default::default() };
    }
    let st: EvmState = get_state(&w.v, &id).unwrap();
    if st.tombstone.is_some() {
        return AddrObs { status: 2, bal, ..Default::default() };
    }
    let bytes = w.v.store.get(&st.bytecode).unwrap().unwrap();
    let codeid = *w.code_ids.get(&bytes).unwrap_or(&-1);
    let kamt: Kamt<_, U256, U256, BeKey> =
        Kamt::load_with_config(&st.contract_state, w.v.store.clone(), KAMT_CONFIG).unwrap();
    let mut slots: Vec<(U256, U256)> = vec![];
    kamt.for_each(|k, v| {
        slots.push((*k, *v));
        Ok(())
    })
    .unwrap();
    slots.sort();
    AddrObs {
        status: 1,
        codeid,
        nonce: st.nonce,
        slots: slots.iter().map(|(k, v)| (u256_dec(k), u256_dec(v))).collect(),
        bal,
    }
}

/// events of the successful part of the invocation tree, in emission order is not reconstructible
/// across siblings interleaved with own events from the trace alone, so the comparison uses the
/// canonical order "own events, then sub-invocations" per activation -- see `spec` which uses the same.
fn collect_events(t: &InvocationTrace, out: &mut Vec<(u64, String)>) {
    if !t.exit_code.is_success() {
        return;
    }
    for e in &t.events {
        let tag = e
            .event
            .entries
            .iter()
            .find(|x| x.key == "t1")
            .map(|x| BigUint::from_bytes_be(&x.value).to_string())
            .unwrap_or_else(|| "0".into());
        out.push((e.emitter, tag));
    }
    for s in &t.subinvocations {
        collect_events(s, out);
    }
}

// ------------------------------------------------------------------------------------------------
// the abstract specification, in Rust (monitor oracle; mirrors coq/Model/EvmWorld.v `a*`)
// ------------------------------------------------------------------------------------------------
mod spec {
    use super::*;

    #[derive(Clone, Debug, PartialEq)]
    pub struct Contract {
        pub storage: BTreeMap<i64, i64>,
        pub code: Code,
        pub codeid: i64,
        pub nonce: i64,
        pub tomb: bool,
        pub dead: bool,
    }
    #[derive(Clone, Debug, PartialEq)]
    pub struct SWorld {
        pub contracts: BTreeMap<MAddr, Contract>,
        pub transient: BTreeMap<(MAddr, i64), i64>,
        pub bal: BTreeMap<MAddr, BigInt>,
        /// (activation path id, emitter, tag): kept per activation to reproduce the trace order
        pub events: Vec<(MAddr, i64)>,
    }
    pub struct Envr {
        pub tmpls: Vec<Tmpl>,
        pub ntmpl: usize,
        pub ncontracts: MAddr,
        pub word: BTreeMap<MAddr, String>,
        pub eoas: Vec<MAddr>,
        /// (creator, nonce) pairs / CREATE2 triples whose address the harness knows
        pub known: BTreeSet<MAddr>,
    }
    #[derive(Clone, Copy, Debug)]
    pub struct Ctx {
        pub me: MAddr,
        pub caller: MAddr,
        pub value: u64,
        pub ro: bool,
        /// classification only
        pub in_delegate: bool,
        pub in_static: bool,
    }
    /// (value, source tag): 's' SLoad, 't' TLoad, 'e' Env, 'c' call status, 'k' create status
    pub type LogE = (String, char, u8);
    pub enum Out {
        Ret(Vec<LogE>),
        Revert(Vec<LogE>),
        Fail(u32),
    }
    pub enum Req {
        Call { from: MAddr, to: MAddr, value: u64, entry: u8, ro: bool, st: bool },
        Delegate { c: Ctx, tgt: MAddr, entry: u8 },
        Create { creator: MAddr, na: MAddr, value: u64, t: u8 },
    }
    #[derive(Default, Clone, Debug)]
    pub struct Feat {
        pub failed_call: bool,
        pub reentrant: bool,
        pub delegate: bool,
        pub stat: bool,
        pub selfdestruct: bool,
        pub create: bool,
        pub transient: bool,
    }

    pub fn getb(w: &SWorld, a: MAddr) -> BigInt {
        w.bal.get(&a).cloned().unwrap_or_default()
    }
    fn mv(w: &mut SWorld, from: MAddr, to: MAddr, v: &BigInt) {
        if *v == BigInt::from(0) {
            return;
        }
        let f = getb(w, from) - v;
        w.bal.insert(from, f);
        let t = getb(w, to) + v;
        w.bal.insert(to, t);
    }
    fn ctxflags(c: &Ctx) -> u8 {
        (c.in_delegate as u8) | ((c.in_static as u8) << 1)
    }

    pub struct Machine<'a> {
        pub env: &'a Envr,
        pub feat: Feat,
        pub stack: Vec<MAddr>,
    }

    impl<'a> Machine<'a> {
        pub fn run(&mut self, fuel: u32, c: Ctx, s: &Script, w: &mut SWorld, log: &mut Vec<LogE>) -> Out {
            for a in s {
                match a {
                    Act::SStore { k, v } => {
                        if c.ro {
                            return Out::Fail(25);
                        }
                        if let Some(ct) = w.contracts.get_mut(&c.me) {
                            if *v == 0 {
                                ct.storage.remove(&(*k as i64));
                            } else {
                                ct.storage.insert(*k as i64, *v as i64);
                            }
                        }
                    }
                    Act::SLoad { k } => {
                        let v = w.contracts.get(&c.me).and_then(|ct| ct.storage.get(&(*k as i64)).cloned()).unwrap_or(0);
                        log.push((v.to_string(), 's', ctxflags(&c)));
                    }
                    Act::TStore { k, v } => {
                        if c.ro {
                            return Out::Fail(25);
                        }
                        self.feat.transient = true;
                        if *v == 0 {
                            w.transient.remove(&(c.me, *k as i64));
                        } else {
                            w.transient.insert((c.me, *k as i64), *v as i64);
                        }
                    }
                    Act::TLoad { k } => {
                        self.feat.transient = true;
                        let v = w.transient.get(&(c.me, *k as i64)).cloned().unwrap_or(0);
                        log.push((v.to_string(), 't', ctxflags(&c)));
                    }
                    Act::Log { tag } => {
                        if c.ro {
                            return Out::Fail(25);
                        }
                        w.events.push((c.me, *tag as i64));
                    }
                    Act::Env { what } => {
                        let v = match what {
                            0 => self.env.word.get(&c.caller).cloned().unwrap_or_else(|| "0".into()),
                            1 => c.value.to_string(),
                            2 => self.env.word.get(&c.me).cloned().unwrap_or_else(|| "0".into()),
                            _ => getb(w, c.me).to_string(),
                        };
                        log.push((v, 'e', ctxflags(&c)));
                    }
                    Act::Call { kind, target, entry, value, propagate } => {
                        if *kind == 0 && c.ro && *value > 0 {
                            return Out::Fail(25);
                        }
                        let r = match kind {
                            0 => Req::Call { from: c.me, to: *target, value: *value, entry: *entry, ro: c.ro, st: c.in_static },
                            1 => {
                                self.feat.stat = true;
                                Req::Call { from: c.me, to: *target, value: 0, entry: *entry, ro: true, st: true }
                            }
                            _ => {
                                self.feat.delegate = true;
                                Req::Delegate { c, tgt: *target, entry: *entry }
                            }
                        };
                        let (code, data) = self.invoke(fuel, r, w);
                        if code != 0 {
                            self.feat.failed_call = true;
                        }
                        log.push((((code == 0) as u8).to_string(), 'c', ctxflags(&c)));
                        log.extend(data);
                        if code != 0 && *propagate {
                            return Out::Revert(log.clone());
                        }
                    }
                    Act::Create { tmpl, value } | Act::Create2 { tmpl, value, .. } => {
                        if c.ro {
                            return Out::Fail(25);
                        }
                        self.feat.create = true;
                        if getb(w, c.me) < BigInt::from(*value) {
                            log.push(("0".into(), 'k', ctxflags(&c)));
                            continue;
                        }
                        let nonce = w.contracts.get(&c.me).map(|x| x.nonce).unwrap_or(0);
                        if let Some(ct) = w.contracts.get_mut(&c.me) {
                            ct.nonce += 1;
                        }
                        let na = match a {
                            Act::Create { .. } => cr_addr(c.me, nonce as u64),
                            Act::Create2 { salt, .. } => c2_addr(self.env.ntmpl, c.me, *salt, *tmpl),
                            _ => unreachable!(),
                        };
                        if !self.env.known.contains(&na) || c.me > self.env.ncontracts {
                            // creator outside the oracle tables: the model answers "no address"
                            log.push(("0".into(), 'k', ctxflags(&c)));
                            continue;
                        }
                        let (code, _) = self.invoke(fuel, Req::Create { creator: c.me, na, value: *value, t: *tmpl }, w);
                        log.push((((code == 0) as u8).to_string(), 'k', ctxflags(&c)));
                    }
                    Act::SelfDestruct { beneficiary } => {
                        if c.ro {
                            return Out::Fail(25);
                        }
                        self.feat.selfdestruct = true;
                        let b = getb(w, c.me);
                        mv(w, c.me, *beneficiary, &b);
                        if let Some(ct) = w.contracts.get_mut(&c.me) {
                            ct.tomb = true;
                        }
                        return Out::Ret(vec![]);
                    }
                    Act::Revert => return Out::Revert(log.clone()),
                    Act::Return => return Out::Ret(log.clone()),
                }
            }
            Out::Ret(log.clone())
        }

        fn finish(&mut self, w0: SWorld, w: &mut SWorld, o: Out) -> (u32, Vec<LogE>) {
            match o {
                Out::Ret(l) => (0, l),
                Out::Revert(l) => {
                    *w = w0;
                    (33, l)
                }
                Out::Fail(c) => {
                    *w = w0;
                    (c, vec![])
                }
            }
        }

        pub fn invoke(&mut self, fuel: u32, r: Req, w: &mut SWorld) -> (u32, Vec<LogE>) {
            if fuel == 0 {
                return (99, vec![]);
            }
            match r {
                Req::Call { from, to, value, entry, ro, st } => {
                    let val = BigInt::from(value);
                    if getb(w, from) < val {
                        return (6, vec![]);
                    }
                    if ro && value > 0 {
                        return (25, vec![]);
                    }
                    let w0 = w.clone();
                    mv(w, from, to, &val);
                    let ct = match w.contracts.get(&to) {
                        None => {
                            if self.env.eoas.contains(&to) {
                                return (0, vec![]);
                            }
                            // placeholder / no actor: the platform refuses the method
                            *w = w0;
                            return (22, vec![]);
                        }
                        Some(ct) => ct.clone(),
                    };
                    if ct.dead {
                        return (0, vec![]);
                    }
                    let s = match ct.code.get(entry as usize) {
                        None => return (0, vec![]),
                        Some(s) => s.clone(),
                    };
                    if self.stack.contains(&to) {
                        self.feat.reentrant = true;
                    }
                    self.stack.push(to);
                    let c = Ctx { me: to, caller: from, value, ro, in_delegate: false, in_static: st };
                    let mut log = vec![];
                    let o = self.run(fuel - 1, c, &s, w, &mut log);
                    self.stack.pop();
                    self.finish(w0, w, o)
                }
                Req::Delegate { c, tgt, entry } => {
                    let ct = match w.contracts.get(&tgt) {
                        None => return (0, vec![]),
                        Some(ct) => ct.clone(),
                    };
                    if ct.dead {
                        return (0, vec![]);
                    }
                    let s = match ct.code.get(entry as usize) {
                        None => return (0, vec![]),
                        Some(s) => s.clone(),
                    };
                    let w0 = w.clone();
                    self.feat.reentrant = true; // a delegate call re-enters the calling actor
                    let c2 = Ctx { in_delegate: true, ..c };
                    let mut log = vec![];
                    let o = self.run(fuel - 1, c2, &s, w, &mut log);
                    self.finish(w0, w, o)
                }
                Req::Create { creator, na, value, t } => {
                    let tm = match self.env.tmpls.get(t as usize) {
                        None => return (18, vec![]),
                        Some(t) => t.clone(),
                    };
                    if let Some(ct) = w.contracts.get(&na) {
                        if !ct.dead {
                            return (18, vec![]);
                        }
                    }
                    let w0 = w.clone();
                    mv(w, creator, na, &BigInt::from(value));
                    w.contracts.insert(
                        na,
                        Contract { storage: BTreeMap::new(), code: vec![], codeid: 0, nonce: 1, tomb: false, dead: false },
                    );
                    self.stack.push(na);
                    let c = Ctx { me: na, caller: creator, value, ro: false, in_delegate: false, in_static: false };
                    let mut log = vec![];
                    let o = self.run(fuel - 1, c, &tm.ctor, w, &mut log);
                    self.stack.pop();
                    match o {
                        Out::Ret(_) => {
                            if let Some(ct) = w.contracts.get_mut(&na) {
                                ct.code = tm.code.clone();
                                ct.codeid = TMPL_ID_BASE + t as i64;
                            }
                            (0, vec![])
                        }
                        Out::Revert(l) => {
                            *w = w0;
                            (33, l)
                        }
                        Out::Fail(c) => {
                            *w = w0;
                            (c, vec![])
                        }
                    }
                }
            }
        }
    }

    pub fn finalize(w: &mut SWorld) {
        w.transient.clear();
        for (_, c) in w.contracts.iter_mut() {
            if c.tomb {
                *c = Contract { storage: BTreeMap::new(), code: vec![], codeid: 0, nonce: 0, tomb: false, dead: true };
            }
        }
    }

    pub fn obs_addr(w: &SWorld, a: MAddr) -> AddrObs {
        let bal = getb(w, a).to_string();
        match w.contracts.get(&a) {
            None => AddrObs { bal, ..Default::default() },
            Some(c) if c.dead => AddrObs { status: 2, bal, ..Default::default() },
            Some(c) => AddrObs {
                status: 1,
                codeid: c.codeid,
                nonce: c.nonce as u64,
                slots: c.storage.iter().map(|(k, v)| (k.to_string(), v.to_string())).collect(),
                bal,
            },
        }
    }
}

// ------------------------------------------------------------------------------------------------
// set-up: compile, predict addresses, deploy
// ------------------------------------------------------------------------------------------------
struct Deployed {
    w: World,
    ntmpl: usize,
    /// every model address the oracle tables can name
    create2_tab: Vec<(MAddr, u8, u8, MAddr)>,
}

fn setup(cs: &CaseSpec) -> Deployed {
    let v = new_world();
    let eoas = fil_actors_integration_tests::util::create_accounts(&v, 2, &TokenAmount::from_whole(10_000));
    let n = cs.contracts.len();
    let ntmpl = cs.tmpls.len();
    // the deployer's stable address and sequence give the CreateExternal addresses
    let robust = get_state::<fil_actor_account::State>(&v, &eoas[0]).unwrap().address;
    let stable = hash20(&v, &robust.to_bytes());
    let seq0 = v.actor(&eoas[0]).unwrap().sequence;
    let mut eth: BTreeMap<MAddr, [u8; 20]> = BTreeMap::new();
    for i in 0..n {
        eth.insert(1 + i as MAddr, addr_create(&v, &stable, seq0 + i as u64));
    }
    for (i, e) in eoas.iter().enumerate() {
        eth.insert(EOA_BASE + i as MAddr, EthAddress::from_id(e.id().unwrap()).0);
    }
    // templates reference initial contracts and EOAs only
    let eth0 = eth.clone();
    let resolve0 = move |m: MAddr| -> [u8; 20] { *eth0.get(&m).unwrap_or_else(|| panic!("template references address {m}")) };
    let lk0 = Linker { eth: &resolve0, inits: &[] };
    let mut inits = vec![];
    let mut code_ids: HashMap<Vec<u8>, i64> = HashMap::new();
    for (t, tm) in cs.tmpls.iter().enumerate() {
        let (init, rt) = compile_init(tm, &lk0, 128 + t as u8);
        code_ids.insert(rt, TMPL_ID_BASE + t as i64);
        inits.push(init);
    }
    let mut create2_tab = vec![];
    for c in 1..=n as MAddr {
        for s in 0..N_SALTS as u8 {
            for t in 0..ntmpl as u8 {
                let na = c2_addr(ntmpl, c, s, t);
                let e = addr_create2(&v, &eth[&c], s, &inits[t as usize]);
                eth.insert(na, e);
                create2_tab.push((c, s, t, na));
            }
        }
        for nonce in 1..=60u64 {
            eth.insert(cr_addr(c, nonce), addr_create(&v, &eth[&c], nonce));
        }
    }
    let eth1 = eth.clone();
    let resolve1 = move |m: MAddr| -> [u8; 20] { *eth1.get(&m).unwrap_or_else(|| panic!("script references address {m}")) };
    let lk1 = Linker { eth: &resolve1, inits: &inits };
    for (i, code) in cs.contracts.iter().enumerate() {
        let rt = compile_runtime(code, &lk1, 1 + i as u8);
        // deploy: initcode = copy the runtime and return it
        let mut a = Asm::new();
        a.push2(rt.len());
        a.push_label("rt");
        a.ops(&[PUSH0, CODECOPY]);
        a.push2(rt.len());
        a.ops(&[PUSH0, RETURN]);
        a.mark("rt");
        a.ops(&rt);
        let init = a.finish();
        let r = exec(
            &v,
            &eoas[0],
            &EAM_ACTOR_ADDR,
            &TokenAmount::from_atto(0),
            fil_actor_eam::Method::CreateExternal as u64,
            Some(fil_actor_eam::CreateExternalParams(init)),
        );
        assert_eq!(code_of(&r), 0, "deployment of contract {} failed: {}", i + 1, r.message);
        let ret: fil_actor_eam::CreateExternalReturn = r.ret.unwrap().deserialize().unwrap();
        assert_eq!(ret.eth_address.0, eth[&(1 + i as MAddr)], "predicted CreateExternal address");
        code_ids.insert(rt, 1 + i as i64);
        if cs.funds[i] > 0 {
            let r = exec::<()>(&v, &eoas[1], &f4(&ret.eth_address.0), &TokenAmount::from_atto(cs.funds[i]), METHOD_SEND, None);
            assert_eq!(code_of(&r), 0);
        }
    }
    v.take_invocations();
    Deployed { w: World { v, eoas, eth, code_ids, ncontracts: n }, ntmpl, create2_tab }
}

fn code_of(r: &vm_api::MessageResult) -> u32 {
    r.code.value()
}

fn words(b: &[u8]) -> Vec<String> {
    b.chunks(32).map(|c| BigUint::from_bytes_be(c).to_string()).collect()
}

// ------------------------------------------------------------------------------------------------
// Gallina printing
// ------------------------------------------------------------------------------------------------
fn coq_act(a: &Act) -> String {
    match a {
        Act::SStore { k, v } => format!("SStore {} {}", k, v),
        Act::SLoad { k } => format!("SLoad {}", k),
        Act::TStore { k, v } => format!("TStore {} {}", k, v),
        Act::TLoad { k } => format!("TLoad {}", k),
        Act::Log { tag } => format!("Log {}", tag),
        Act::Env { what } => format!("Env {}", what),
        Act::Call { kind, target, entry, value, propagate } => format!(
            "Call {} {} {} {} {}",
            match kind { 0 => "KCall", 1 => "KStatic", _ => "KDelegate" },
            target, entry, value, cf::b(*propagate)
        ),
        Act::Create { tmpl, value } => format!("Create {} {}", tmpl, value),
        Act::Create2 { salt, tmpl, value } => format!("Create2 {} {} {}", salt, tmpl, value),
        Act::SelfDestruct { beneficiary } => format!("SelfDestruct {}", beneficiary),
        Act::Revert => "Revert".into(),
        Act::Return => "Return".into(),
    }
}
fn coq_script(s: &Script) -> String {
    cf::list(s.iter().map(coq_act))
}
fn coq_code(c: &Code) -> String {
    cf::list(c.iter().map(coq_script))
}

// ------------------------------------------------------------------------------------------------
// generator
// ------------------------------------------------------------------------------------------------
struct GenCtx {
    n: usize,
    m: usize,
    ntmpl: usize,
    /// CREATE2 addresses some script creates (so that calls to them make sense)
    made: Vec<MAddr>,
}

fn gen_target(r: &mut Prng, g: &GenCtx, allow_made: bool) -> MAddr {
    match r.below(100) {
        0..=84 => 1 + r.below(g.n as u64) as MAddr,
        85..=92 if allow_made && !g.made.is_empty() => *r.pick(&g.made),
        85..=95 => EOA_BASE + r.below(2) as MAddr,
        _ => 1 + r.below(g.n as u64) as MAddr,
    }
}

/// `entry`: index of the entry being generated (calls go to strictly higher entries so that every
/// call tree is finite); `me`: Some(contract) for initial contracts, None for template code
fn gen_script(r: &mut Prng, g: &mut GenCtx, entry: usize, me: Option<MAddr>, ctor: bool) -> Script {
    let mut s = vec![];
    let len = 2 + r.below(6);
    let can_call = entry + 1 < g.m;
    for _ in 0..len {
        let roll = r.below(100);
        match roll {
            0..=17 => s.push(Act::SStore { k: r.below(3) as u8, v: r.below(4) as u8 }),
            18..=35 => s.push(Act::SLoad { k: r.below(3) as u8 }),
            36..=42 => s.push(Act::TStore { k: r.below(2) as u8, v: r.below(3) as u8 }),
            43..=50 => s.push(Act::TLoad { k: r.below(2) as u8 }),
            51..=54 => s.push(Act::Log { tag: 1 + r.below(5) as u8 }),
            55..=59 => s.push(Act::Env { what: r.below(4) as u8 }),
            60..=86 if can_call && !ctor => {
                let kind = match r.below(100) {
                    0..=57 => 0u8,
                    58..=72 => 1,
                    _ => {
                        if me.is_some() { 2 } else { 0 }
                    }
                };
                let target = gen_target(r, g, me.is_some());
                let e = entry + 1 + r.below((g.m - entry - 1) as u64) as usize;
                let value = if kind == 0 && r.chance(30) { 1 + r.below(4) } else { 0 };
                // write before, read after: the patterns the flush / reload protocol must get right
                if r.chance(55) {
                    s.push(Act::SStore { k: r.below(3) as u8, v: 1 + r.below(4) as u8 });
                }
                if r.chance(15) {
                    s.push(Act::TStore { k: r.below(2) as u8, v: 1 + r.below(3) as u8 });
                }
                s.push(Act::Call { kind, target, entry: e as u8, value, propagate: r.chance(22) });
                if r.chance(70) {
                    s.push(Act::SLoad { k: r.below(3) as u8 });
                }
                if r.chance(15) {
                    s.push(Act::TLoad { k: r.below(2) as u8 });
                }
                if r.chance(10) {
                    s.push(Act::Env { what: 3 });
                }
            }
            87..=91 if me.is_some() && g.ntmpl > 0 => {
                let tmpl = r.below(g.ntmpl as u64) as u8;
                let value = if r.chance(30) { 1 + r.below(3) } else { 0 };
                if r.chance(80) {
                    let salt = r.below(N_SALTS as u64) as u8;
                    g.made.push(c2_addr(g.ntmpl, me.unwrap(), salt, tmpl));
                    s.push(Act::Create2 { salt, tmpl, value });
                } else {
                    s.push(Act::Create { tmpl, value });
                }
            }
            92..=94 if !ctor => {
                let b = if r.chance(50) { EOA_BASE + r.below(2) as MAddr } else { 1 + r.below(g.n as u64) as MAddr };
                s.push(Act::SelfDestruct { beneficiary: b });
                break;
            }
            95..=96 => {
                s.push(Act::Revert);
                break;
            }
            97 => {
                s.push(Act::Return);
                break;
            }
            _ => s.push(Act::SLoad { k: r.below(3) as u8 }),
        }
    }
    s
}

/// directed family: deploy by CREATE2, kill, call the corpse, re-deploy to the same address
fn gen_case_redeploy(r: &mut Prng, nmsgs: usize) -> CaseSpec {
    let n = 2 + r.below(2) as usize;
    let m = 3;
    let mut g = GenCtx { n, m, ntmpl: 1, made: vec![] };
    let salt = r.below(N_SALTS as u64) as u8;
    let a = c2_addr(1, 1, salt, 0);
    g.made.push(a);
    let mut ctor = vec![];
    if r.chance(70) {
        ctor.push(Act::SStore { k: r.below(2) as u8, v: 1 + r.below(3) as u8 });
    }
    if r.chance(30) {
        ctor.push(Act::TStore { k: 0, v: 2 });
    }
    if r.chance(30) {
        ctor.push(Act::Log { tag: 9 });
    }
    let b = if r.chance(50) { EOA_BASE } else { 1 + r.below(n as u64) as MAddr };
    let tcode = vec![
        gen_script(r, &mut g, 0, None, false),
        vec![Act::SLoad { k: 0 }, Act::SStore { k: 0, v: 1 + r.below(3) as u8 }, Act::TLoad { k: 0 }, Act::Env { what: 3 }],
        vec![Act::SLoad { k: 0 }, Act::SelfDestruct { beneficiary: b }],
    ];
    let tmpls = vec![Tmpl { ctor, code: tcode }];
    let v = if r.chance(50) { 1 + r.below(3) } else { 0 };
    let mut c1 = vec![
        vec![Act::Create2 { salt, tmpl: 0, value: v }, Act::Call { kind: 0, target: a, entry: 1, value: 0, propagate: false }, Act::SLoad { k: 0 }],
        vec![
            Act::Call { kind: 0, target: a, entry: 2, value: 0, propagate: false },
            Act::Call { kind: 0, target: a, entry: 1, value: r.below(2), propagate: false },
            Act::Create2 { salt, tmpl: 0, value: 0 },
            Act::SLoad { k: 1 },
        ],
        gen_script(r, &mut g, 2, Some(1), false),
    ];
    if r.chance(30) {
        c1[1].push(Act::Revert);
    }
    let mut contracts = vec![c1];
    for c in 1..n {
        let mut code = vec![];
        for e in 0..m {
            code.push(gen_script(r, &mut g, e, Some(1 + c as MAddr), false));
        }
        contracts.push(code);
    }
    let funds = (0..n).map(|_| 10 + r.below(20)).collect();
    let mut msgs = vec![];
    for i in 0..nmsgs {
        let (to, entry) = match (i, r.below(100)) {
            (0, 0..=79) => (1, 0),
            (_, 0..=24) => (1, 0),
            (_, 25..=44) => (1, 1),
            (_, 45..=64) => (a, 2),
            (_, 65..=84) => (a, r.below(2) as u8),
            _ => (1 + r.below(n as u64) as MAddr, r.below(m as u64) as u8),
        };
        msgs.push(Msg { from: EOA_BASE + r.below(2) as MAddr, to, entry, value: if r.chance(20) { 1 + r.below(3) } else { 0 } });
    }
    CaseSpec { contracts, tmpls, funds, msgs }
}

fn gen_case(r: &mut Prng, nmsgs: usize) -> CaseSpec {
    if r.chance(12) {
        return gen_case_redeploy(r, nmsgs);
    }
    let n = 2 + r.below(3) as usize;
    let m = 2 + r.below(3) as usize;
    let ntmpl = r.below(3) as usize;
    let mut g = GenCtx { n, m, ntmpl, made: vec![] };
    let mut tmpls = vec![];
    for _ in 0..ntmpl {
        let ctor = if r.chance(60) {
            let mut s = vec![];
            for _ in 0..r.below(3) {
                match r.below(4) {
                    0 => s.push(Act::SStore { k: r.below(3) as u8, v: 1 + r.below(3) as u8 }),
                    1 => s.push(Act::TStore { k: r.below(2) as u8, v: 1 + r.below(3) as u8 }),
                    2 => s.push(Act::Log { tag: 9 }),
                    _ => {
                        if r.chance(20) {
                            s.push(Act::Revert)
                        } else {
                            s.push(Act::SStore { k: 0, v: 3 })
                        }
                    }
                }
            }
            s
        } else {
            vec![]
        };
        let mut code = vec![];
        for e in 0..m {
            let mut sc = gen_script(r, &mut g, e, None, false);
            // the last entry of a template is often a kill switch (re-deployment scenarios)
            if e + 1 == m && r.chance(60) {
                sc = vec![Act::SLoad { k: 0 }, Act::SelfDestruct { beneficiary: EOA_BASE }];
            }
            code.push(sc);
        }
        tmpls.push(Tmpl { ctor, code });
    }
    let mut contracts = vec![];
    for c in 0..n {
        let mut code = vec![];
        for e in 0..m {
            code.push(gen_script(r, &mut g, e, Some(1 + c as MAddr), false));
        }
        contracts.push(code);
    }
    let funds = (0..n).map(|_| if r.chance(70) { 10 + r.below(20) } else { 0 }).collect();
    let mut msgs = vec![];
    for _ in 0..nmsgs {
        let to = if !g.made.is_empty() && r.chance(22) { *r.pick(&g.made) } else { 1 + r.below(n as u64) as MAddr };
        let entry = if r.chance(60) { 0 } else { r.below(m as u64) as u8 };
        msgs.push(Msg {
            from: EOA_BASE + r.below(2) as MAddr,
            to,
            entry: if to >= C2_BASE { r.below(m as u64) as u8 } else { entry },
            value: if r.chance(25) { 1 + r.below(5) } else { 0 },
        });
    }
    CaseSpec { contracts, tmpls, funds, msgs }
}

// ------------------------------------------------------------------------------------------------
// running a case
// ------------------------------------------------------------------------------------------------
/// `src`: source of the first differing log word; `diff`: what differs in the final state
/// ('x' liveness / code / nonce, 'l' storage slots, 'b' balance, 'e' events, 'c' exit code)
fn classify(feat: &spec::Feat, src: Option<(char, u8)>, diff: Option<char>) -> &'static str {
    match src {
        Some(('t', _)) => return "transient-leak",
        Some((_, f)) if f & 2 != 0 => return "readonly-effect",
        Some(('e', _)) => return "delegatecall-context",
        Some((_, f)) if f & 1 != 0 => return "delegatecall-context",
        Some(('s', _)) if feat.failed_call && !feat.reentrant => return "reverted-write-visible",
        Some(('s', _)) => return "stale-read-after-reentrancy",
        Some(('k', _)) => return "selfdestruct-semantics",
        _ => {}
    }
    match diff {
        Some('x') => "selfdestruct-semantics",
        Some('l') if feat.reentrant => "stale-read-after-reentrancy",
        Some('l') | Some('b') | Some('e') if feat.failed_call => "reverted-write-visible",
        Some('b') if feat.selfdestruct => "selfdestruct-semantics",
        _ => {
            if feat.selfdestruct || feat.create {
                "selfdestruct-semantics"
            } else if feat.transient && !feat.failed_call && !feat.reentrant {
                "transient-leak"
            } else if feat.failed_call {
                "reverted-write-visible"
            } else if feat.stat {
                "readonly-effect"
            } else if feat.delegate {
                "delegatecall-context"
            } else {
                "stale-read-after-reentrancy"
            }
        }
    }
}

fn run_case(cs: &CaseSpec, stats: &mut Stats) -> (Case, Vec<serde_json::Value>) {
    let d = setup(cs);
    let w = &d.w;
    let n = w.ncontracts;
    // ---- spec world ----
    let word = |m: MAddr| -> String {
        let e = w.eth[&m];
        BigUint::from_bytes_be(&e).to_string()
    };
    let mut known: BTreeSet<MAddr> = d.create2_tab.iter().map(|x| x.3).collect();
    for c in 1..=n as MAddr {
        for nonce in 1..=60 {
            known.insert(cr_addr(c, nonce));
        }
    }
    let envr = spec::Envr {
        tmpls: cs.tmpls.clone(),
        ntmpl: d.ntmpl,
        ncontracts: n as MAddr,
        word: w.eth.keys().map(|m| (*m, word(*m))).collect(),
        eoas: vec![EOA_BASE, EOA_BASE + 1],
        known,
    };
    let mut sw = spec::SWorld {
        contracts: BTreeMap::new(),
        transient: BTreeMap::new(),
        bal: BTreeMap::new(),
        events: vec![],
    };
    for (i, code) in cs.contracts.iter().enumerate() {
        sw.contracts.insert(
            1 + i as MAddr,
            spec::Contract { storage: BTreeMap::new(), code: code.clone(), codeid: 1 + i as i64, nonce: 1, tomb: false, dead: false },
        );
    }
    let base: Vec<MAddr> = (1..=n as MAddr).chain([EOA_BASE, EOA_BASE + 1]).collect();
    let mut init_bals = vec![];
    for m in &base {
        let o = read_addr(w, *m);
        sw.bal.insert(*m, o.bal.parse::<BigInt>().unwrap());
        init_bals.push((*m, o.bal));
    }
    // candidates for observation: everything the tables can name that is referenced syntactically
    let mut cand: BTreeSet<MAddr> = base.iter().cloned().collect();
    let mut scan = |s: &Script, cand: &mut BTreeSet<MAddr>| {
        for a in s {
            match a {
                Act::Call { target, .. } => {
                    cand.insert(*target);
                }
                Act::SelfDestruct { beneficiary } => {
                    cand.insert(*beneficiary);
                }
                Act::Create2 { salt, tmpl, .. } => {
                    for c in 1..=n as MAddr {
                        cand.insert(c2_addr(d.ntmpl, c, *salt, *tmpl));
                    }
                }
                _ => {}
            }
        }
    };
    for code in cs.contracts.iter().chain(cs.tmpls.iter().map(|t| &t.code)) {
        for s in code {
            scan(s, &mut cand);
        }
    }
    for m in &cs.msgs {
        cand.insert(m.to);
    }
    // CREATE addresses: up to a nonce bound; the ones that never exist are dropped afterwards
    let mut create_seen: BTreeSet<MAddr> = BTreeSet::new();

    let mut fails = vec![];
    let mut steps_raw = vec![];
    let mut max_nonce: u64 = 1;
    let (mut any_ok, mut any_fail) = (false, false);
    for (i, m) in cs.msgs.iter().enumerate() {
        // ---- implementation ----
        let from = w.eoas[(m.from - EOA_BASE) as usize];
        let to = f4(&w.eth[&m.to]);
        let r = exec(
            &w.v,
            &from,
            &to,
            &TokenAmount::from_atto(m.value),
            fil_actor_evm::Method::InvokeContract as u64,
            Some(BytesSer(&[m.entry])),
        );
        let code = code_of(&r);
        let data: Vec<u8> = match &r.ret {
            Some(b) => b.deserialize::<BytesDe>().map(|x| x.0).unwrap_or_else(|_| b.data.clone()),
            None => vec![],
        };
        let log = words(&data);
        let traces = w.v.take_invocations();
        let mut evs = vec![];
        for t in &traces {
            collect_events(t, &mut evs);
        }
        for p in w.v.panics.borrow().iter() {
            stats.panics.push(p.clone());
        }
        w.v.panics.borrow_mut().clear();
        // id -> model address of emitters
        let mut evs_m: Vec<(MAddr, String)> = vec![];
        for (id, tag) in evs {
            let da = w.v.actor(&Address::new_id(id)).and_then(|a| a.delegated_address);
            let ma = da
                .and_then(|a| w.eth.iter().find(|(_, e)| f4(e) == a).map(|(m, _)| *m))
                .unwrap_or(-1);
            evs_m.push((ma, tag));
        }
        evs_m.sort_by_key(|(a, t)| (*a, t.parse::<u64>().unwrap_or(0)));
        let mut addr_obs: BTreeMap<MAddr, AddrObs> = BTreeMap::new();
        for c in 1..=n as MAddr {
            let o = read_addr(w, c);
            max_nonce = max_nonce.max(o.nonce);
        }
        for c in 1..=n as MAddr {
            for nonce in 1..=(max_nonce + 1).min(60) {
                let ma = cr_addr(c, nonce);
                let o = read_addr(w, ma);
                if o.status != 0 || o.bal != "0" {
                    create_seen.insert(ma);
                }
            }
        }
        for ma in cand.iter().chain(create_seen.iter()) {
            addr_obs.insert(*ma, read_addr(w, *ma));
        }
        // ---- specification (monitor oracle) ----
        sw.events.clear();
        let mut mach = spec::Machine { env: &envr, feat: Default::default(), stack: vec![] };
        let (scode, slog) = mach.invoke(
            64,
            spec::Req::Call { from: m.from, to: m.to, value: m.value, entry: m.entry, ro: false, st: false },
            &mut sw,
        );
        spec::finalize(&mut sw);
        let feat = mach.feat.clone();
        let mut what = vec![];
        let mut src = None;
        if scode != code {
            what.push(format!("exit code: implementation {} specification {}", code, scode));
        }
        let slog_v: Vec<String> = slog.iter().map(|x| x.0.clone()).collect();
        if slog_v != log {
            let k = slog_v.iter().zip(log.iter()).position(|(a, b)| a != b).unwrap_or(slog_v.len().min(log.len()));
            src = slog.get(k).map(|x| (x.1, x.2));
            what.push(format!("read log differs at {}: implementation {:?} specification {:?}", k, log, slog_v));
        }
        let mut diff: Option<char> = if scode != code { Some('c') } else { None };
        for (ma, o) in &addr_obs {
            let so = spec::obs_addr(&sw, *ma);
            if so != *o {
                what.push(format!("address {}: implementation {:?} specification {:?}", ma, o, so));
                let d = if so.status != o.status || so.codeid != o.codeid || so.nonce != o.nonce { 'x' }
                        else if so.slots != o.slots { 'l' } else { 'b' };
                if diff.is_none() || diff == Some('c') || d == 'x' {
                    diff = Some(d);
                }
            }
        }
        let mut sev0 = sw.events.clone();
        sev0.sort();
        let sev: Vec<(MAddr, String)> = sev0.iter().map(|(a, t)| (*a, t.to_string())).collect();
        if sev != evs_m {
            what.push(format!("events: implementation {:?} specification {:?}", evs_m, sev));
            if diff.is_none() {
                diff = Some('e');
            }
        }
        if !what.is_empty() {
            fails.push(serde_json::json!({
                "class": classify(&feat, src, diff), "step": i, "what": what,
                "case": CaseSpec { msgs: cs.msgs[..=i].to_vec(), ..cs.clone() },
            }));
        }
        // ---- statistics ----
        stats.op("msg", code);
        for (f, name) in [
            (feat.reentrant, "reentrant"), (feat.failed_call, "failed_inner_call"), (feat.delegate, "delegatecall"),
            (feat.stat, "staticcall"), (feat.selfdestruct, "selfdestruct"), (feat.create, "create"), (feat.transient, "transient"),
        ] {
            if f {
                stats.op(&format!("msg_with_{}", name), code);
            }
        }
        {
            let e = stats.extra.entry("log_words".into()).or_insert(serde_json::json!(0));
            *e = serde_json::json!(e.as_u64().unwrap() + log.len() as u64);
        }
        if code == 0 { any_ok = true } else { any_fail = true }
        steps_raw.push((m.clone(), code, log, addr_obs, evs_m));
    }
    let dead_seen = steps_raw.iter().any(|s| s.3.values().any(|o| o.status == 2));
    if dead_seen {
        let e = stats.extra.entry("cases_with_dead_contract".into()).or_insert(serde_json::json!(0));
        *e = serde_json::json!(e.as_u64().unwrap() + 1);
    }
    let resurrected = {
        let mut seen_dead: BTreeSet<MAddr> = BTreeSet::new();
        let mut res = false;
        for s in &steps_raw {
            for (ma, o) in &s.3 {
                if o.status == 2 {
                    seen_dead.insert(*ma);
                } else if o.status == 1 && seen_dead.contains(ma) {
                    res = true;
                }
            }
        }
        res
    };
    if resurrected {
        let e = stats.extra.entry("cases_with_resurrection".into()).or_insert(serde_json::json!(0));
        *e = serde_json::json!(e.as_u64().unwrap() + 1);
    }
    // ---- Gallina ----
    let universe: Vec<MAddr> = cand.iter().chain(create_seen.iter()).cloned().collect::<BTreeSet<_>>().into_iter().collect();
    let mut words_tab: Vec<String> = vec![];
    for m in w.eth.keys() {
        if universe.contains(m) || *m < C2_BASE {
            words_tab.push(format!("({}, {})", m, word(*m)));
        }
    }
    let create_tab: Vec<String> = (1..=n as MAddr)
        .flat_map(|c| (1..=(max_nonce + 1).min(60)).map(move |k| format!("({}, {}, {})", c, k, cr_addr(c, k))))
        .collect();
    let env = format!(
        "{{| e_tmpls := {}; e_create2 := {}; e_create := {}; e_word := {}; e_universe := {}; e_eoas := {} |}}",
        cf::list(cs.tmpls.iter().enumerate().map(|(t, tm)| format!(
            "{{| t_ctor := {}; t_code := {}; t_id := {} |}}", coq_script(&tm.ctor), coq_code(&tm.code), TMPL_ID_BASE + t as i64))),
        cf::list(d.create2_tab.iter().map(|(c, s, t, na)| format!("({}, {}, {}, {})", c, s, t, na))),
        cf::list(create_tab),
        cf::list(words_tab),
        cf::zlist(universe.iter()),
        cf::zlist([EOA_BASE, EOA_BASE + 1]),
    );
    let init = format!(
        "mk_state {} {} {}",
        env,
        cf::list(cs.contracts.iter().enumerate().map(|(i, c)| format!("({}, {})", i + 1, coq_code(c)))),
        cf::list(init_bals.iter().map(|(m, b)| format!("({}, {})", m, b))),
    );
    let mut steps = vec![];
    for (m, code, log, addr_obs, evs) in steps_raw {
        let op = format!("{{| m_from := {}; m_to := {}; m_entry := {}; m_value := {} |}}", m.from, m.to, m.entry, m.value);
        let mut o = vec![code.to_string(), log.len().to_string()];
        o.extend(log);
        for ma in &universe {
            let ao = addr_obs.get(ma).cloned().unwrap_or_else(|| read_default());
            o.extend(ao.enc());
        }
        o.push(evs.len().to_string());
        for (a, t) in evs {
            o.push(cf::z(a));
            o.push(t);
        }
        // the concrete System-protocol model must reproduce the specification's observation
        o.push("1".into());
        steps.push((op, o));
    }
    (Case { init, steps, nontrivial: any_ok && any_fail }, fails)
}

fn read_default() -> AddrObs {
    AddrObs { bal: "0".into(), ..Default::default() }
}

fn main() {
    let a = cf::parse_args();
    let mut stats = Stats::default();
    let header = "From VF Require Import Model.EvmWorld Base.Corr.\nFrom Coq Require Import ZArith List.\nImport ListNotations.\nOpen Scope Z_scope.\n";
    let mut cw = CaseWriter::new(&a.out, header, "check_case", a.shards);
    let run_file = |p: &std::path::Path, stats: &mut Stats, cw: &mut CaseWriter| {
        let v: serde_json::Value = serde_json::from_str(&std::fs::read_to_string(p).unwrap()).unwrap();
        let cs: CaseSpec = serde_json::from_value(v["case"].clone()).unwrap();
        let (c, fails) = run_case(&cs, stats);
        cw.push(c);
        for f in fails {
            stats.monitor_fail(f);
        }
    };
    if let Some(p) = &a.replay {
        run_file(p, &mut stats, &mut cw);
        cw.finish(&stats, "evmworld");
        return;
    }
    let corpus = std::path::Path::new(env!("CARGO_MANIFEST_DIR")).join("../corpus/C19");
    if let Ok(rd) = std::fs::read_dir(&corpus) {
        let mut files: Vec<_> = rd.filter_map(|e| e.ok()).map(|e| e.path()).collect();
        files.sort();
        for f in files {
            if f.extension().map(|x| x == "json").unwrap_or(false) {
                run_file(&f, &mut stats, &mut cw);
            }
        }
    }
    let mut root = Prng::new(a.seed);
    for k in 0..a.cases {
        let mut r = root.fork(k as u64);
        let cs = gen_case(&mut r, a.len);
        let (c, fails) = run_case(&cs, &mut stats);
        cw.push(c);
        for f in fails {
            stats.monitor_fail(f);
        }
    }
    cw.finish(&stats, "evmworld");
}
