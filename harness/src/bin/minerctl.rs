//! C13 correspondence + monitor harness: the real miner actor (created through the real power
//! actor, with real init/account/cron/reward actors) on the harness VM against
//! coq/Model/MinerCtl.v.
use fil_actor_miner::{
    ChangeBeneficiaryParams, ChangeOwnerAddressParams, ChangePeerIDParams,
    ChangeWorkerAddressParams, CronEventPayload, DeferredCronEventParams, GetBeneficiaryReturn,
    GetControlAddressesReturn, GetOwnerReturn, IsControllingAddressParam,
    IsControllingAddressReturn, Method as MM, State as MinerState, WithdrawBalanceParams,
    WithdrawBalanceReturn, CRON_EVENT_PROVING_DEADLINE,
};
use fil_actor_power::{EnrollCronEventParams, Method as PowerMethod};
use fil_actors_runtime::reward::FilterEstimate;
use fil_actors_runtime::STORAGE_POWER_ACTOR_ADDR;
use fvm_ipld_encoding::RawBytes;
use fvm_shared::address::Address;
use fvm_shared::econ::TokenAmount;
use fvm_shared::sector::RegisteredPoStProof;
use fvm_shared::METHOD_SEND;
use num_traits::Zero;
use serde::{Deserialize, Serialize};
use serde_json::json;
use vharness::coqfmt::{self as cf, Case, CaseWriter, Stats};
use vharness::prng::Prng;
use vharness::util::*;
use vharness::vvm::{Vvm, TEST_FAUCET_ADDR};
use vm_api::trace::InvocationTrace;
use vm_api::util::get_state;
use vm_api::VM;

/// number of BLS accounts in the pool; pool index N_BLS is a secp256k1 account
const N_BLS: u8 = 8;
const POOL: u8 = N_BLS + 1;
const NO_ACTOR_ID: u64 = 987_654;

#[derive(Clone, Copy, Debug, Serialize, Deserialize, PartialEq)]
enum AddrSpec {
    /// pool member, ID-address form
    Id(u8),
    /// pool member, key-address (robust) form
    Key(u8),
    /// a BLS key address that was never seen on chain
    Unknown,
    /// an ID address with no actor behind it
    NoActor,
    /// the miner actor itself (an existing non-account actor)
    Miner,
}

#[derive(Clone, Debug, Serialize, Deserialize)]
enum MOp {
    ChangeOwner { caller: u8, epoch: i64, new: AddrSpec, x: bool },
    ChangeWorker { caller: u8, epoch: i64, new: AddrSpec, ctrls: Vec<AddrSpec>, x: bool },
    ConfirmWorker { caller: u8, epoch: i64, x: bool },
    /// real = true: enrolled at the power actor and delivered by a real cron tick;
    /// real = false: OnDeferredCronEvent sent with the power actor as the caller
    Cron { epoch: i64, real: bool },
    ChangeBeneficiary { caller: u8, epoch: i64, new: AddrSpec, quota: i128, exp: i64, x: bool },
    Withdraw { caller: u8, epoch: i64, req: i128, x: bool },
    ChangePeer { caller: u8, epoch: i64, x: bool },
}

#[derive(Clone, Debug, Serialize, Deserialize)]
struct MCase {
    funds: i128,
    ops: Vec<MOp>,
}

struct World {
    v: Vvm,
    ids: Vec<Address>,  // pool, ID addresses
    keys: Vec<Address>, // pool, key addresses
    unknown: Address,
    miner: Address,
}

fn setup(funds: i128) -> World {
    let v = new_world();
    let ids0 = fil_actors_integration_tests::util::create_accounts(&v, N_BLS as u64, &TokenAmount::from_whole(10_000));
    let mut ids = ids0.clone();
    let mut keys: Vec<Address> =
        ids0.iter().map(|a| get_state::<fil_actor_account::State>(&v, a).unwrap().address).collect();
    // a secp256k1 account
    let secp = Address::new_secp256k1(&[7u8; 65]).unwrap();
    let r = exec::<()>(&v, &TEST_FAUCET_ADDR, &secp, &TokenAmount::from_whole(10), METHOD_SEND, None);
    assert_eq!(code(&r), 0);
    ids.push(v.resolve_id_address(&secp).unwrap());
    keys.push(secp);
    let unknown = Address::new_bls(&[9u8; 48]).unwrap();
    assert!(v.resolve_id_address(&unknown).is_none());
    assert!(v.actor(&Address::new_id(NO_ACTOR_ID)).is_none());
    // owner = pool[0], worker = pool[2]; created by the real power actor (Power::CreateMiner ->
    // Init::Exec -> Miner::Constructor); the helper then zeroes the creation deposit's vesting
    // table and sets the balance (keeps the known deposit/pledge-total defect out of C13)
    let (miner, _robust) = fil_actors_integration_tests::util::create_miner(
        &v,
        &ids[0],
        &ids[2],
        RegisteredPoStProof::StackedDRGWindow32GiBV1P1,
        &TokenAmount::from_atto(funds),
    );
    v.take_invocations();
    World { v, ids, keys, unknown, miner }
}

#[derive(Clone, Debug, Default, PartialEq)]
struct PTerm {
    new: u64,
    quota: i128,
    exp: i64,
    by_ben: bool,
    by_nom: bool,
}
#[derive(Clone, Debug, Default, PartialEq)]
struct Snap {
    owner: u64,
    pending_owner: Option<u64>,
    worker: u64,
    pending_worker: Option<(u64, i64)>,
    controls: Vec<u64>,
    beneficiary: u64,
    quota: i128,
    used: i128,
    expiration: i64,
    pending_term: Option<PTerm>,
    funds: i128,
}
impl Snap {
    fn info_eq(&self, o: &Snap) -> bool {
        self == o
    }
    fn available(&self, epoch: i64) -> i128 {
        if self.expiration > epoch { (self.quota - self.used).max(0) } else { 0 }
    }
    fn control_set(&self) -> Vec<u64> {
        let mut s = self.controls.clone();
        s.push(self.worker);
        s.push(self.owner);
        s
    }
}

fn aid(a: &Address) -> u64 {
    a.id().expect("ID address expected in MinerInfo")
}
fn i128_of(t: &TokenAmount) -> i128 {
    t.atto().try_into().unwrap()
}

fn snapshot(w: &World) -> Snap {
    let st: MinerState = get_state(&w.v, &w.miner).unwrap();
    let info = st.get_info(w.v.store.as_ref()).unwrap();
    let bal = w.v.balance(&w.miner);
    Snap {
        owner: aid(&info.owner),
        pending_owner: info.pending_owner_address.as_ref().map(aid),
        worker: aid(&info.worker),
        pending_worker: info.pending_worker_key.as_ref().map(|k| (aid(&k.new_worker), k.effective_at)),
        controls: info.control_addresses.iter().map(aid).collect(),
        beneficiary: aid(&info.beneficiary),
        quota: i128_of(&info.beneficiary_term.quota),
        used: i128_of(&info.beneficiary_term.used_quota),
        expiration: info.beneficiary_term.expiration,
        pending_term: info.pending_beneficiary_term.as_ref().map(|p| PTerm {
            new: aid(&p.new_beneficiary),
            quota: i128_of(&p.new_quota),
            exp: p.new_expiration,
            by_ben: p.approved_by_beneficiary,
            by_nom: p.approved_by_nominee,
        }),
        funds: i128_of(&st.get_available_balance(&bal).unwrap()),
    }
}

fn addr_of(w: &World, a: &AddrSpec) -> Address {
    match a {
        AddrSpec::Id(i) => w.ids[*i as usize],
        AddrSpec::Key(i) => w.keys[*i as usize],
        AddrSpec::Unknown => w.unknown,
        AddrSpec::NoActor => Address::new_id(NO_ACTOR_ID),
        AddrSpec::Miner => w.miner,
    }
}
/// what rt.resolve_address gives for the spec (None = unresolvable)
fn resolved(w: &World, a: &AddrSpec) -> Option<u64> {
    match a {
        AddrSpec::Id(i) | AddrSpec::Key(i) => Some(aid(&w.ids[*i as usize])),
        AddrSpec::Unknown => None,
        AddrSpec::NoActor => Some(NO_ACTOR_ID),
        AddrSpec::Miner => Some(aid(&w.miner)),
    }
}

struct Outcome {
    code: u32,
    withdrawn: i128,
    payee: u64,
}

fn pay_sends(t: &InvocationTrace, from: u64, out: &mut Vec<(u64, TokenAmount)>) {
    for s in &t.subinvocations {
        if s.from == from && s.method == METHOD_SEND && s.value.is_positive() && s.exit_code.is_success() {
            out.push((s.to.id().unwrap_or(0), s.value.clone()));
        }
        pay_sends(s, from, out);
    }
}

fn m(x: bool, internal: MM, exported: MM) -> u64 {
    if x { exported as u64 } else { internal as u64 }
}

fn run_op(w: &World, op: &MOp) -> Outcome {
    let z = TokenAmount::zero();
    w.v.take_invocations();
    let mut out = Outcome { code: 0, withdrawn: 0, payee: 0 };
    match op {
        MOp::ChangeOwner { caller, epoch, new, x } => {
            w.v.set_epoch(*epoch);
            let p = ChangeOwnerAddressParams { new_owner: addr_of(w, new) };
            out.code = code(&exec(&w.v, &w.ids[*caller as usize], &w.miner, &z, m(*x, MM::ChangeOwnerAddress, MM::ChangeOwnerAddressExported), Some(p)));
        }
        MOp::ChangeWorker { caller, epoch, new, ctrls, x } => {
            w.v.set_epoch(*epoch);
            let p = ChangeWorkerAddressParams {
                new_worker: addr_of(w, new),
                new_control_addresses: ctrls.iter().map(|a| addr_of(w, a)).collect(),
            };
            out.code = code(&exec(&w.v, &w.ids[*caller as usize], &w.miner, &z, m(*x, MM::ChangeWorkerAddress, MM::ChangeWorkerAddressExported), Some(p)));
        }
        MOp::ConfirmWorker { caller, epoch, x } => {
            w.v.set_epoch(*epoch);
            out.code = code(&exec::<()>(&w.v, &w.ids[*caller as usize], &w.miner, &z, m(*x, MM::ConfirmChangeWorkerAddress, MM::ConfirmChangeWorkerAddressExported), None));
        }
        MOp::Cron { epoch, real } => {
            let payload = RawBytes::serialize(CronEventPayload { event_type: CRON_EVENT_PROVING_DEADLINE }).unwrap();
            if *real {
                // the miner enrolls a proving-deadline event for this epoch at the power actor
                // (what enroll_cron_event does when the deadline cron is active), then the cron
                // actor ticks: Cron -> Power::OnEpochTickEnd -> Miner::OnDeferredCronEvent
                let p = EnrollCronEventParams { event_epoch: *epoch, payload };
                let r = exec(&w.v, &w.miner, &STORAGE_POWER_ACTOR_ADDR, &z, PowerMethod::EnrollCronEvent as u64, Some(p));
                assert_eq!(code(&r), 0, "enroll failed: {}", r.message);
                w.v.set_epoch(*epoch);
                w.v.take_invocations();
                fil_actors_integration_tests::util::cron_tick(&w.v);
                // the miner must have been called back, successfully
                let inv = w.v.take_invocations();
                let mut found = None;
                fn find(t: &InvocationTrace, miner: &Address, found: &mut Option<u32>) {
                    for s in &t.subinvocations {
                        if s.to == *miner && s.method == MM::OnDeferredCronEvent as u64 {
                            *found = Some(s.exit_code.value());
                        }
                        find(s, miner, found);
                    }
                }
                for t in &inv { find(t, &w.miner, &mut found); }
                out.code = found.unwrap_or(98);
            } else {
                w.v.set_epoch(*epoch);
                let p = DeferredCronEventParams {
                    event_payload: payload.to_vec(),
                    reward_smoothed: FilterEstimate::default(),
                    quality_adj_power_smoothed: FilterEstimate::default(),
                };
                out.code = code(&exec(&w.v, &STORAGE_POWER_ACTOR_ADDR, &w.miner, &z, MM::OnDeferredCronEvent as u64, Some(p)));
            }
        }
        MOp::ChangeBeneficiary { caller, epoch, new, quota, exp, x } => {
            w.v.set_epoch(*epoch);
            let p = ChangeBeneficiaryParams {
                new_beneficiary: addr_of(w, new),
                new_quota: TokenAmount::from_atto(*quota),
                new_expiration: *exp,
            };
            out.code = code(&exec(&w.v, &w.ids[*caller as usize], &w.miner, &z, m(*x, MM::ChangeBeneficiary, MM::ChangeBeneficiaryExported), Some(p)));
        }
        MOp::Withdraw { caller, epoch, req, x } => {
            w.v.set_epoch(*epoch);
            let p = WithdrawBalanceParams { amount_requested: TokenAmount::from_atto(*req) };
            let r = exec(&w.v, &w.ids[*caller as usize], &w.miner, &z, m(*x, MM::WithdrawBalance, MM::WithdrawBalanceExported), Some(p));
            out.code = code(&r);
            if out.code == 0 {
                let ret: WithdrawBalanceReturn = r.ret.unwrap().deserialize().unwrap();
                out.withdrawn = i128_of(&ret.amount_withdrawn);
                let mut sends = vec![];
                for t in w.v.take_invocations().iter() {
                    pay_sends(t, aid(&w.miner), &mut sends);
                }
                // the burnt-funds actor is never a payee here (no fee debt); keep everything
                if sends.len() == 1 {
                    out.payee = sends[0].0;
                    if i128_of(&sends[0].1) != out.withdrawn { out.payee = u64::MAX; }
                } else if !sends.is_empty() {
                    out.payee = u64::MAX; // more than one payout: never matches the model
                }
            }
        }
        MOp::ChangePeer { caller, epoch, x } => {
            w.v.set_epoch(*epoch);
            let p = ChangePeerIDParams { new_id: b"peer-id".to_vec() };
            out.code = code(&exec(&w.v, &w.ids[*caller as usize], &w.miner, &z, m(*x, MM::ChangePeerID, MM::ChangePeerIDExported), Some(p)));
        }
    }
    out
}

// ---------- Gallina printing ----------
fn pid(w: &World, i: u8) -> u64 {
    aid(&w.ids[i as usize])
}
fn coq_wres(w: &World, a: &AddrSpec) -> String {
    match a {
        AddrSpec::Id(i) | AddrSpec::Key(i) => {
            if *i < N_BLS { format!("(WOk {})", pid(w, *i)) } else { "WNotBLS".into() }
        }
        AddrSpec::Unknown => "WUnresolved".into(),
        AddrSpec::NoActor => "WNoActor".into(),
        AddrSpec::Miner => "WNotAccount".into(),
    }
}
fn coq_op(w: &World, op: &MOp) -> String {
    match op {
        MOp::ChangeOwner { caller, epoch, new, .. } => {
            let addr = addr_of(w, new);
            let (id, is_id) = match addr.id() { Ok(i) => (i, true), Err(_) => (0, false) };
            format!("ChangeOwner {} {} {} {}", pid(w, *caller), cf::z(*epoch), id, cf::b(is_id))
        }
        MOp::ChangeWorker { caller, epoch, new, ctrls, .. } => format!(
            "ChangeWorker {} {} {} {}",
            pid(w, *caller),
            cf::z(*epoch),
            coq_wres(w, new),
            cf::list(ctrls.iter().map(|a| cf::opt(resolved(w, a).map(|i| i.to_string()))))
        ),
        MOp::ConfirmWorker { caller, epoch, .. } => format!("ConfirmWorker {} {}", pid(w, *caller), cf::z(*epoch)),
        MOp::Cron { epoch, .. } => format!("Cron {}", cf::z(*epoch)),
        MOp::ChangeBeneficiary { caller, epoch, new, quota, exp, .. } => format!(
            "ChangeBeneficiary {} {} {} {} {}",
            pid(w, *caller),
            cf::z(*epoch),
            cf::opt(resolved(w, new).map(|i| i.to_string())),
            cf::z(*quota),
            cf::z(*exp)
        ),
        MOp::Withdraw { caller, epoch, req, .. } => format!("Withdraw {} {} {}", pid(w, *caller), cf::z(*epoch), cf::z(*req)),
        MOp::ChangePeer { caller, epoch, .. } => format!("ChangePeer {} {}", pid(w, *caller), cf::z(*epoch)),
    }
}
fn obs(s: &Snap, o: &Outcome) -> Vec<String> {
    let mut v = vec![cf::z(o.code), cf::z(o.withdrawn), cf::z(o.payee), cf::z(s.owner)];
    match s.pending_owner { None => v.push("0".into()), Some(p) => { v.push("1".into()); v.push(cf::z(p)); } }
    v.push(cf::z(s.worker));
    match s.pending_worker { None => v.push("0".into()), Some((n, e)) => { v.push("1".into()); v.push(cf::z(n)); v.push(cf::z(e)); } }
    v.push(cf::z(s.controls.len()));
    for c in &s.controls { v.push(cf::z(c)); }
    v.push(cf::z(s.beneficiary));
    v.push(cf::z(s.quota));
    v.push(cf::z(s.used));
    v.push(cf::z(s.expiration));
    match &s.pending_term {
        None => v.push("0".into()),
        Some(p) => {
            v.push("1".into());
            v.push(cf::z(p.new));
            v.push(cf::z(p.quota));
            v.push(cf::z(p.exp));
            v.push(cf::z(p.by_ben as u8));
            v.push(cf::z(p.by_nom as u8));
        }
    }
    v.push(cf::z(s.funds));
    v
}

// ---------- generator ----------
fn idx_of(w: &World, id: u64) -> Option<u8> {
    w.ids.iter().position(|a| aid(a) == id).map(|i| i as u8)
}
fn rand_party(r: &mut Prng) -> u8 {
    r.below(POOL as u64) as u8
}
fn rand_bls(r: &mut Prng) -> u8 {
    r.below(N_BLS as u64) as u8
}
fn form(r: &mut Prng, i: u8) -> AddrSpec {
    if r.chance(80) { AddrSpec::Id(i) } else { AddrSpec::Key(i) }
}
fn odd_addr(r: &mut Prng) -> AddrSpec {
    *r.pick(&[AddrSpec::Unknown, AddrSpec::NoActor, AddrSpec::Miner])
}

fn gen_op(w: &World, r: &mut Prng, s: &Snap, epoch: &mut i64) -> MOp {
    *epoch += *r.pick(&[0i64, 0, 0, 1, 1, 3, 20, 150, 449, 450, 899, 900, 901]);
    if let Some((_, eff)) = s.pending_worker {
        if r.chance(30) { *epoch = (*epoch).max(eff + r.range(-1, 1)); }
    }
    if s.expiration > *epoch && s.expiration < *epoch + 3000 && r.chance(10) {
        *epoch = s.expiration + r.range(-1, 1);
    }
    let e = *epoch;
    let owner = idx_of(w, s.owner);
    let x = r.chance(35);
    let any = |r: &mut Prng| rand_party(r);
    let active_ben = s.beneficiary != s.owner && s.available(e) > 0;
    let roll = if active_ben && r.chance(30) { 44 + r.below(30) } else { r.below(100) };
    match roll {
        0..=13 => {
            // ChangeOwner
            let pend = s.pending_owner.and_then(|p| idx_of(w, p));
            let caller = match (r.below(100), owner, pend) {
                (0..=49, Some(o), _) => o,
                (50..=74, _, Some(p)) => p,
                (50..=64, Some(o), None) => o,
                _ => any(r),
            };
            let new = if Some(caller) == pend && r.chance(85) {
                AddrSpec::Id(caller)
            } else {
                match r.below(100) {
                    0..=54 => AddrSpec::Id(any(r)),
                    55..=64 => owner.map(AddrSpec::Id).unwrap_or(AddrSpec::NoActor),
                    65..=74 => pend.map(AddrSpec::Id).unwrap_or(AddrSpec::Id(any(r))),
                    75..=84 => AddrSpec::Key(any(r)),
                    85..=89 => AddrSpec::Id(caller),
                    _ => odd_addr(r),
                }
            };
            MOp::ChangeOwner { caller, epoch: e, new, x }
        }
        14..=27 => {
            let caller = match (r.below(100), owner) { (0..=79, Some(o)) => o, _ => any(r) };
            let new = match r.below(100) {
                0..=61 => { let i = rand_bls(r); form(r, i) }
                62..=73 => idx_of(w, s.worker).map(AddrSpec::Id).unwrap_or(AddrSpec::Id(2)),
                74..=79 => s.pending_worker.and_then(|p| idx_of(w, p.0)).map(AddrSpec::Id).unwrap_or(AddrSpec::Id(3)),
                80..=87 => form(r, N_BLS),
                _ => odd_addr(r),
            };
            let n = match r.below(100) { 0..=24 => 0, 25..=59 => 1, 60..=84 => 2, 85..=94 => 3, 95..=96 => 10, _ => 11 };
            let mut ctrls = vec![];
            for _ in 0..n {
                ctrls.push(match r.below(100) {
                    0..=89 => { let i = any(r); form(r, i) }
                    90..=94 => AddrSpec::Unknown,
                    95..=97 => AddrSpec::NoActor,
                    _ => AddrSpec::Miner,
                });
            }
            MOp::ChangeWorker { caller, epoch: e, new, ctrls, x }
        }
        28..=35 => {
            let caller = match (r.below(100), owner) { (0..=74, Some(o)) => o, _ => any(r) };
            MOp::ConfirmWorker { caller, epoch: e, x }
        }
        36..=43 => MOp::Cron { epoch: e, real: r.chance(50) },
        44..=73 => {
            // ChangeBeneficiary
            let ben = idx_of(w, s.beneficiary);
            let exp_choice = |r: &mut Prng| e + *r.pick(&[-1i64, 0, 1, 900, 5000, 100000, 100000, 1000000, 1000000, 1000000]);
            if let (Some(pt), true) = (&s.pending_term, r.chance(72)) {
                let nom = idx_of(w, pt.new);
                let caller = match (r.below(100), ben, nom, owner) {
                    (0..=39, Some(b), _, _) => b,
                    (40..=79, _, Some(n), _) => n,
                    (80..=89, _, _, Some(o)) => o,
                    _ => any(r),
                };
                let (mut new, mut quota, mut exp) = (nom.map(AddrSpec::Id).unwrap_or(AddrSpec::NoActor), pt.quota, pt.exp);
                if pt.new == aid(&w.miner) { new = AddrSpec::Miner; }
                match r.below(100) {
                    0..=81 => {}
                    82..=86 => new = AddrSpec::Id(any(r)),
                    87..=91 => quota += *r.pick(&[-1i128, 1]),
                    92..=96 => exp += *r.pick(&[-1i64, 1]),
                    _ => new = AddrSpec::Unknown,
                }
                if let (AddrSpec::Id(i), true) = (new, r.chance(15)) { new = AddrSpec::Key(i); }
                MOp::ChangeBeneficiary { caller, epoch: e, new, quota, exp, x }
            } else {
                let caller = match (r.below(100), owner) { (0..=79, Some(o)) => o, _ => any(r) };
                let to_owner = r.chance(18);
                let new = if to_owner {
                    owner.map(AddrSpec::Id).unwrap_or(AddrSpec::NoActor)
                } else {
                    match r.below(100) { 0..=84 => { let i = any(r); form(r, i) } 85..=89 => AddrSpec::Unknown, 90..=94 => AddrSpec::NoActor, _ => AddrSpec::Miner }
                };
                let (quota, exp) = if to_owner && r.chance(80) {
                    (0, 0)
                } else {
                    (match r.below(100) { 0..=84 => 1 + r.below(6000) as i128, 85..=92 => 0, 93..=96 => -1, _ => s.used + r.range(-1, 1) as i128 }, exp_choice(r))
                };
                MOp::ChangeBeneficiary { caller, epoch: e, new, quota, exp, x }
            }
        }
        74..=91 => {
            let ben = idx_of(w, s.beneficiary);
            let caller = match (r.below(100), owner, ben) { (0..=39, Some(o), _) => o, (40..=84, _, Some(b)) => b, _ => any(r) };
            let avail = s.available(e);
            let req = match r.below(100) {
                0..=29 => r.below(1500) as i128,
                30..=49 => r.below(200) as i128,
                50..=59 => avail + r.range(-1, 1) as i128,
                60..=66 => s.funds + r.range(-1, 1) as i128,
                67..=71 => 1_000_000_000,
                72..=84 => 1 + r.below(40) as i128,
                85..=92 => 0,
                _ => -1 - r.below(3) as i128,
            };
            MOp::Withdraw { caller, epoch: e, req, x }
        }
        _ => {
            let cs = s.control_set();
            let caller = if r.chance(60) { idx_of(w, *r.pick(&cs)).unwrap_or(0) } else { any(r) };
            MOp::ChangePeer { caller, epoch: e, x }
        }
    }
}

// ---------- monitor: the per-step relations of the theorems, on the implementation's states ----------
#[derive(Default)]
struct Mon {
    /// last accepted owner proposal: (proposer = then-owner, proposed address, epoch)
    owner_req: Option<(u64, u64, i64)>,
    /// the accepted ChangeWorker that created the pending key: (requester, new worker, epoch)
    worker_req: Option<(u64, u64, i64)>,
    /// current beneficiary proposal: (proposer, nominee, quota, exp, term exhausted at proposal,
    /// approved by beneficiary b (id), approved by nominee)
    ben_prop: Option<(u64, u64, i128, i64, bool, Option<u64>, bool)>,
}

fn caller_of(w: &World, op: &MOp) -> Option<u64> {
    match op {
        MOp::ChangeOwner { caller, .. } | MOp::ChangeWorker { caller, .. } | MOp::ConfirmWorker { caller, .. }
        | MOp::ChangeBeneficiary { caller, .. } | MOp::Withdraw { caller, .. } | MOp::ChangePeer { caller, .. } => Some(pid(w, *caller)),
        MOp::Cron { .. } => None,
    }
}
fn epoch_of(op: &MOp) -> i64 {
    match op {
        MOp::ChangeOwner { epoch, .. } | MOp::ChangeWorker { epoch, .. } | MOp::ConfirmWorker { epoch, .. } | MOp::Cron { epoch, .. }
        | MOp::ChangeBeneficiary { epoch, .. } | MOp::Withdraw { epoch, .. } | MOp::ChangePeer { epoch, .. } => *epoch,
    }
}

fn monitor(w: &World, op: &MOp, pre: &Snap, post: &Snap, out: &Outcome, mon: &mut Mon, delay: i64) -> Vec<(String, String)> {
    let mut bad: Vec<(String, String)> = vec![];
    let mut fail = |class: &str, what: String| bad.push((class.to_string(), what));
    let c = caller_of(w, op);
    let e = epoch_of(op);
    let ok = out.code == 0;
    if !ok && !pre.info_eq(post) {
        fail("rejected-call-changed-state", format!("code {}", out.code));
    }
    let nominee = pre.pending_term.as_ref().map(|p| p.new);
    // strangers change nothing
    if let Some(c) = c {
        let party = c == pre.owner || Some(c) == pre.pending_owner || c == pre.beneficiary || Some(c) == nominee;
        if !party && !pre.info_eq(post) {
            fail("stranger-changed-control", format!("caller {} is none of owner/pending owner/beneficiary/nominee", c));
        }
        // only the owner touches worker key requests and control addresses
        if c != pre.owner && (post.controls != pre.controls || post.worker != pre.worker || post.pending_worker != pre.pending_worker) {
            fail("non-owner-changed-worker-or-controls", format!("caller {}", c));
        }
    }
    // ---- owner handshake ----
    if post.owner != pre.owner {
        let good = match op {
            MOp::ChangeOwner { new, .. } => {
                ok && c == Some(post.owner) && resolved(w, new) == Some(post.owner) && matches!(new, AddrSpec::Id(_) | AddrSpec::NoActor | AddrSpec::Miner)
                    && pre.pending_owner == Some(post.owner)
                    && matches!(mon.owner_req, Some((proposer, addr, _)) if proposer == pre.owner && addr == post.owner)
            }
            _ => false,
        };
        if !good { fail("owner-changed-without-handshake", format!("{} -> {}", pre.owner, post.owner)); }
        if post.pending_owner.is_some() { fail("owner-changed-without-handshake", "pending owner not cleared".into()); }
        if post.pending_term.is_some() { fail("owner-change-kept-beneficiary-proposal", String::new()); }
    }
    if post.pending_owner != pre.pending_owner && post.owner == pre.owner {
        // set, replaced or revoked: only by the owner
        if !(matches!(op, MOp::ChangeOwner { .. }) && c == Some(pre.owner) && ok) {
            fail("pending-owner-changed-by-non-owner", format!("{:?} -> {:?} by {:?}", pre.pending_owner, post.pending_owner, c));
        }
    }
    if let (true, MOp::ChangeOwner { .. }) = (ok, op) {
        if !(c == Some(pre.owner) || (c.is_some() && c == pre.pending_owner)) {
            fail("caller-set", format!("ChangeOwner accepted from {:?}", c));
        }
        if c == Some(pre.owner) {
            mon.owner_req = post.pending_owner.map(|p| (pre.owner, p, e));
        }
    }
    if post.pending_owner.is_none() { mon.owner_req = None; }
    // ---- worker delay ----
    if post.worker != pre.worker {
        let by_ok = match op { MOp::ConfirmWorker { .. } => c == Some(pre.owner), MOp::Cron { .. } => true, _ => false };
        let pend_ok = matches!(pre.pending_worker, Some((n, eff)) if n == post.worker && eff <= e);
        let hist_ok = matches!(mon.worker_req, Some((_, n, e0)) if n == post.worker && e0 + delay <= e);
        if !(ok && by_ok && pend_ok && hist_ok && post.pending_worker.is_none()) {
            fail("worker-changed-early-or-unrequested", format!("{} -> {} at {} (pending {:?}, request {:?})", pre.worker, post.worker, e, pre.pending_worker, mon.worker_req));
        }
    }
    if post.pending_worker != pre.pending_worker {
        match (pre.pending_worker, post.pending_worker) {
            (None, Some((n, eff))) => {
                if !(ok && matches!(op, MOp::ChangeWorker { .. }) && c == Some(pre.owner) && eff == e + delay && n != pre.worker) {
                    fail("worker-request-not-by-owner-or-wrong-delay", format!("pending ({}, {}) at {}", n, eff, e));
                }
                mon.worker_req = Some((pre.owner, n, e));
            }
            (Some((n, _)), None) => {
                if post.worker != n { fail("pending-worker-withdrawn", "pending worker key vanished without taking effect".into()); }
                mon.worker_req = None;
            }
            _ => fail("pending-worker-withdrawn", "pending worker key replaced".into()),
        }
    }
    if ok {
        match op {
            MOp::ChangeWorker { .. } | MOp::ConfirmWorker { .. } => {
                if c != Some(pre.owner) { fail("caller-set", format!("{:?} accepted from non-owner", op)); }
            }
            _ => {}
        }
    }
    if let MOp::ConfirmWorker { .. } = op {
        if ok != (c == Some(pre.owner)) { fail("caller-set", "ConfirmChangeWorkerAddress acceptance is not exactly {owner}".into()); }
    }
    if let MOp::ChangePeer { .. } = op {
        if ok != pre.control_set().contains(&c.unwrap()) { fail("caller-set", "ChangePeerID acceptance is not exactly controls+worker+owner".into()); }
    }
    // ---- beneficiary ----
    if let (true, MOp::ChangeBeneficiary { new, quota, exp, .. }) = (ok, op) {
        let c = c.unwrap();
        let nb = resolved(w, new).unwrap_or(u64::MAX);
        if !(c == pre.owner || c == pre.beneficiary || Some(c) == nominee) {
            fail("caller-set", format!("ChangeBeneficiary accepted from {}", c));
        }
        if c == pre.owner {
            mon.ben_prop = Some((c, nb, *quota, *exp, pre.available(e) == 0, None, false));
        } else if !matches!(mon.ben_prop, Some((_, n, q, x, _, _, _)) if n == nb && q == *quota && x == *exp) {
            fail("beneficiary-approval-of-other-proposal", format!("approval ({}, {}, {}) vs proposal {:?}", nb, quota, exp, mon.ben_prop));
        }
        if let Some(p) = mon.ben_prop.as_mut() {
            if c == pre.beneficiary { p.5 = Some(c); }
            if c == nb { p.6 = true; }
        }
    }
    if post.beneficiary != pre.beneficiary {
        let handover = post.owner != pre.owner && pre.beneficiary == pre.owner && post.beneficiary == post.owner;
        let two_sided = matches!(op, MOp::ChangeBeneficiary { .. }) && ok
            && matches!(mon.ben_prop, Some((proposer, n, q, x, exhausted, by_ben, by_nom))
                if proposer == pre.owner && n == post.beneficiary && q == post.quota && x == post.expiration
                   && by_nom && (exhausted || by_ben == Some(pre.beneficiary)));
        if !(handover || two_sided) {
            fail("beneficiary-changed-one-sided", format!("{} -> {} ; proposal {:?}", pre.beneficiary, post.beneficiary, mon.ben_prop));
        }
        if post.used != 0 && !handover { fail("beneficiary-changed-one-sided", "used_quota not reset".into()); }
    }
    if (post.quota, post.expiration) != (pre.quota, pre.expiration) {
        // the term is only rewritten by a completed two-sided change
        let two_sided = matches!(op, MOp::ChangeBeneficiary { .. }) && ok
            && matches!(mon.ben_prop, Some((proposer, n, q, x, exhausted, by_ben, by_nom))
                if proposer == pre.owner && n == post.beneficiary && q == post.quota && x == post.expiration
                   && by_nom && (exhausted || by_ben == Some(pre.beneficiary)));
        if !two_sided { fail("beneficiary-changed-one-sided", "term rewritten without both approvals".into()); }
    }
    if post.pending_term != pre.pending_term {
        if let Some(p) = &pre.pending_term {
            let same_prop = matches!(&post.pending_term, Some(q) if q.new == p.new && q.quota == p.quota && q.exp == p.exp && (q.by_ben || !p.by_ben) && (q.by_nom || !p.by_nom));
            let by_owner = matches!(op, MOp::ChangeBeneficiary { .. }) && c == Some(pre.owner) && ok;
            let completed = post.pending_term.is_none() && post.beneficiary == p.new && post.quota == p.quota && post.expiration == p.exp && matches!(op, MOp::ChangeBeneficiary { .. }) && ok;
            let owner_handover = post.pending_term.is_none() && post.owner != pre.owner;
            if !(same_prop || by_owner || completed || owner_handover) {
                fail("pending-beneficiary-withdrawn-by-non-owner", format!("{:?} -> {:?} by {:?}", pre.pending_term, post.pending_term, c));
            }
        } else if !(matches!(op, MOp::ChangeBeneficiary { .. }) && c == Some(pre.owner) && ok) {
            fail("beneficiary-proposal-by-non-owner", format!("{:?}", post.pending_term));
        }
    }
    if post.pending_term.is_none() { mon.ben_prop = None; }
    // ---- withdrawals ----
    if let MOp::Withdraw { req, .. } = op {
        if ok {
            let c = c.unwrap();
            if !(c == pre.owner || c == pre.beneficiary) { fail("caller-set", format!("WithdrawBalance accepted from {}", c)); }
            if out.withdrawn > 0 && out.payee != pre.beneficiary { fail("withdraw-payee", format!("paid {} instead of beneficiary {}", out.payee, pre.beneficiary)); }
            if out.withdrawn > *req || out.withdrawn < 0 { fail("withdraw-amount", format!("{} of {}", out.withdrawn, req)); }
            if pre.beneficiary != pre.owner {
                if out.withdrawn > pre.available(e) { fail("withdraw-over-quota", format!("{} > {}", out.withdrawn, pre.available(e))); }
                if post.used != pre.used + out.withdrawn { fail("withdraw-over-quota", "used_quota not advanced by the amount".into()); }
            } else if post.used != pre.used { fail("withdraw-over-quota", "used_quota changed for owner-beneficiary".into()); }
            if pre.funds - post.funds != out.withdrawn { fail("withdraw-amount", "balance delta differs from the amount".into()); }
        }
    } else if post.used != pre.used && post.beneficiary == pre.beneficiary {
        fail("withdraw-over-quota", "used_quota changed outside a withdrawal".into());
    }
    if let MOp::Cron { .. } = op {
        if out.code != 0 { fail("cron-failed", format!("OnDeferredCronEvent exit {}", out.code)); }
    }
    bad
}

/// the exported getters must report the stored MinerInfo
fn check_getters(w: &World, s: &Snap, step: usize) -> Vec<(String, String)> {
    let mut bad = vec![];
    let z = TokenAmount::zero();
    let from = w.ids[7];
    let o: GetOwnerReturn = exec::<()>(&w.v, &from, &w.miner, &z, MM::GetOwnerExported as u64, None).ret.unwrap().deserialize().unwrap();
    if aid(&o.owner) != s.owner || o.proposed.as_ref().map(aid) != s.pending_owner {
        bad.push(("getter-mismatch".to_string(), "GetOwner".to_string()));
    }
    let c: GetControlAddressesReturn = exec::<()>(&w.v, &from, &w.miner, &z, MM::ControlAddresses as u64, None).ret.unwrap().deserialize().unwrap();
    if aid(&c.owner) != s.owner || aid(&c.worker) != s.worker || c.control_addresses.iter().map(aid).collect::<Vec<_>>() != s.controls {
        bad.push(("getter-mismatch".to_string(), "ControlAddresses".to_string()));
    }
    let b: GetBeneficiaryReturn = exec::<()>(&w.v, &from, &w.miner, &z, MM::GetBeneficiaryExported as u64, None).ret.unwrap().deserialize().unwrap();
    let pt = b.proposed.as_ref().map(|p| PTerm { new: aid(&p.new_beneficiary), quota: i128_of(&p.new_quota), exp: p.new_expiration, by_ben: p.approved_by_beneficiary, by_nom: p.approved_by_nominee });
    if aid(&b.active.beneficiary) != s.beneficiary || i128_of(&b.active.term.quota) != s.quota || i128_of(&b.active.term.used_quota) != s.used || b.active.term.expiration != s.expiration || pt != s.pending_term {
        bad.push(("getter-mismatch".to_string(), "GetBeneficiary".to_string()));
    }
    let i = (step % POOL as usize) as u8;
    let ic: IsControllingAddressReturn = exec(&w.v, &from, &w.miner, &z, MM::IsControllingAddressExported as u64, Some(IsControllingAddressParam { address: w.keys[i as usize] })).ret.unwrap().deserialize().unwrap();
    if ic.is_controlling != s.control_set().contains(&pid(w, i)) {
        bad.push(("getter-mismatch".to_string(), "IsControllingAddress".to_string()));
    }
    w.v.take_invocations();
    bad
}

fn kind(op: &MOp) -> &'static str {
    match op {
        MOp::ChangeOwner { .. } => "change_owner",
        MOp::ChangeWorker { .. } => "change_worker",
        MOp::ConfirmWorker { .. } => "confirm_worker",
        MOp::Cron { real: true, .. } => "cron_real",
        MOp::Cron { real: false, .. } => "cron_direct",
        MOp::ChangeBeneficiary { .. } => "change_beneficiary",
        MOp::Withdraw { .. } => "withdraw",
        MOp::ChangePeer { .. } => "change_peer",
    }
}

#[derive(Default)]
struct Cover {
    owner_handover: u64,
    owner_revoke: u64,
    worker_effective_confirm: u64,
    worker_effective_cron: u64,
    ben_changed: u64,
    ben_auto_approved: u64,
    ben_back_to_owner: u64,
    ben_follows_owner: u64,
    quota_limited_withdraw: u64,
    proposal_cancelled_by_owner_change: u64,
}

fn run_case(mc: &MCase, stats: &mut Stats, cover: &mut Cover, genr: Option<(&mut Prng, usize)>) -> (Case, Vec<serde_json::Value>) {
    let w = setup(mc.funds);
    let delay = w.v.policy.worker_key_change_delay;
    let mut snap = snapshot(&w);
    let init = format!("init {} {} {} {}", snap.owner, snap.worker, cf::zlist(snap.controls.iter()), cf::z(snap.funds));
    assert!(snap.pending_owner.is_none() && snap.pending_worker.is_none() && snap.pending_term.is_none());
    assert!(snap.beneficiary == snap.owner && snap.quota == 0 && snap.used == 0 && snap.expiration == 0);
    let mut steps = vec![];
    let mut ops_done: Vec<MOp> = vec![];
    let mut mon = Mon::default();
    let mut fails = vec![];
    let (mut acc, mut rej) = (false, false);
    let mut epoch = 1i64;
    let mut genr = genr;
    let n = match &genr { Some((_, n)) => *n, None => mc.ops.len() };
    for i in 0..n {
        let op = match &mut genr { Some((r, _)) => gen_op(&w, r, &snap, &mut epoch), None => mc.ops[i].clone() };
        let out = run_op(&w, &op);
        let post = snapshot(&w);
        stats.op(kind(&op), out.code);
        if out.code == 0 && !snap.info_eq(&post) { acc = true }
        if out.code != 0 { rej = true }
        let exhausted = mon.ben_prop.as_ref().map(|p| p.4).unwrap_or(false);
        let mut bad = monitor(&w, &op, &snap, &post, &out, &mut mon, delay);
        bad.extend(check_getters(&w, &post, i));
        ops_done.push(op.clone());
        for (class, what) in bad {
            fails.push(json!({"class": class, "step": i, "what": [what], "case": MCase { funds: mc.funds, ops: ops_done.clone() }}));
        }
        // coverage of the interesting transitions
        if post.owner != snap.owner {
            cover.owner_handover += 1;
            if snap.pending_term.is_some() { cover.proposal_cancelled_by_owner_change += 1; }
            if post.beneficiary != snap.beneficiary { cover.ben_follows_owner += 1; }
        } else if post.beneficiary != snap.beneficiary {
            cover.ben_changed += 1;
            if exhausted || matches!(op, MOp::ChangeBeneficiary { caller, .. } if pid(&w, caller) == snap.owner && snap.available(epoch_of(&op)) == 0) { cover.ben_auto_approved += 1; }
            if post.beneficiary == post.owner { cover.ben_back_to_owner += 1; }
        }
        if snap.pending_owner.is_some() && post.pending_owner.is_none() && post.owner == snap.owner { cover.owner_revoke += 1; }
        if post.worker != snap.worker {
            if matches!(op, MOp::Cron { .. }) { cover.worker_effective_cron += 1 } else { cover.worker_effective_confirm += 1 }
        }
        if let MOp::Withdraw { req, .. } = &op {
            if out.code == 0 && snap.beneficiary != snap.owner && out.withdrawn < *req && out.withdrawn < snap.funds { cover.quota_limited_withdraw += 1; }
        }
        for p in w.v.panics.borrow().iter() { stats.panics.push(p.clone()); }
        w.v.panics.borrow_mut().clear();
        steps.push((coq_op(&w, &op), obs(&post, &out)));
        snap = post;
    }
    stats.extra.insert("worker_key_change_delay".into(), json!(delay));
    stats.extra.insert("max_control_addresses".into(), json!(w.v.policy.max_control_addresses));
    (Case { init, steps, nontrivial: acc && rej }, fails)
}

fn main() {
    let a = cf::parse_args();
    let mut stats = Stats::default();
    let mut cover = Cover::default();
    let header = "From VF Require Import Model.MinerCtl Base.Corr.\nFrom Coq Require Import ZArith List.\nImport ListNotations.\nOpen Scope Z_scope.\n";
    let mut cw = CaseWriter::new(&a.out, header, "check_case", a.shards);
    let finish = |cw: CaseWriter, mut stats: Stats, cover: &Cover| {
        stats.extra.insert("transitions".into(), json!({
            "owner_handover": cover.owner_handover, "owner_proposal_revoked": cover.owner_revoke,
            "worker_effective_by_confirm": cover.worker_effective_confirm, "worker_effective_by_cron": cover.worker_effective_cron,
            "beneficiary_changed_two_sided": cover.ben_changed, "of_which_auto_approved_exhausted_term": cover.ben_auto_approved,
            "beneficiary_back_to_owner": cover.ben_back_to_owner, "beneficiary_follows_owner_handover": cover.ben_follows_owner,
            "withdraw_limited_by_quota": cover.quota_limited_withdraw,
            "beneficiary_proposal_cancelled_by_owner_handover": cover.proposal_cancelled_by_owner_change,
        }));
        cw.finish(&stats, "minerctl");
    };
    if let Some(p) = &a.replay {
        let v: serde_json::Value = serde_json::from_str(&std::fs::read_to_string(p).unwrap()).unwrap();
        // accepted layouts: {"case": ..} (corpus / monitor failure entry) and the replay files
        // written by ./check ({"violation": {"detail": {"case": ..}}} or {"found": {"detail": ..}})
        let case = [&v["case"], &v["violation"]["detail"]["case"], &v["found"]["detail"]["case"], &v["detail"]["case"]]
            .into_iter()
            .find(|c| !c.is_null())
            .expect("no `case` in the replay file")
            .clone();
        let mc: MCase = serde_json::from_value(case).unwrap();
        let (c, fails) = run_case(&mc, &mut stats, &mut cover, None);
        cw.push(c);
        for f in fails { stats.monitor_fail(f); }
        finish(cw, stats, &cover);
        return;
    }
    let corpus = std::path::Path::new(env!("CARGO_MANIFEST_DIR")).join("../corpus/C13");
    if let Ok(rd) = std::fs::read_dir(&corpus) {
        let mut files: Vec<_> = rd.filter_map(|e| e.ok()).map(|e| e.path()).collect();
        files.sort();
        for f in files {
            if f.extension().map(|x| x == "json").unwrap_or(false) {
                let v: serde_json::Value = serde_json::from_str(&std::fs::read_to_string(&f).unwrap()).unwrap();
                let mc: MCase = serde_json::from_value(v["case"].clone()).unwrap();
                let (c, fails) = run_case(&mc, &mut stats, &mut cover, None);
                cw.push(c);
                for f in fails { stats.monitor_fail(f); }
            }
        }
    }
    let mut root = Prng::new(a.seed);
    for k in 0..a.cases {
        let mut r = root.fork(k as u64);
        let funds = match r.below(10) { 0 => 0, 1 => 1 + r.below(50) as i128, _ => 2000 + r.below(20_000) as i128 };
        let mc = MCase { funds, ops: vec![] };
        let (c, fails) = run_case(&mc, &mut stats, &mut cover, Some((&mut r, a.len)));
        cw.push(c);
        for f in fails { stats.monitor_fail(f); }
    }
    finish(cw, stats, &cover);
}
