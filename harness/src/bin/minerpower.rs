//! C02 handler-level MONITOR harness (no Coq model): the real miner, power, market, verifreg,
//! datacap, reward and cron actors on the harness VM. Random, state-aware sector life-cycle
//! histories (pre-commit / ProveCommitSectors3 / ProveCommitSectorsNI, window PoSt with skipped
//! sectors, missed PoSt, invalid optimistic PoSt + dispute, DeclareFaults, DeclareFaultsRecovered,
//! TerminateSectors, ExtendSectorExpiration2, ProveReplicaUpdates3, CompactPartitions, natural
//! expiry) for 1-2 miners; after EVERY top-level message (cron ticks included) the monitor checks that
//! the claim the power actor holds for each miner equals the power of the miner's sectors that are
//! proven and neither faulty, terminated nor expired.
//!
//! CLI as every harness binary (`--seed --cases --len --shards --out [--replay FILE]`); extra:
//! `--only K` runs only case index K of the seed, `--mutate 1` deliberately counts unproven sectors as
//! active in monitor (a) (self-test of the monitor; never use in a check), `--probe 1` runs only the
//! deterministic expiration-epoch scenario (see `probe_expiration_epoch`). A case is a pure function
//! of (seed, case index, len): the replay record of a monitor failure is `{"seed","index","len"}`
//! plus the tail of the message log. The shard files contain an empty result list.
use fil_actor_miner::{
    deadline_available_for_compaction, deadline_is_mutable, new_deadline_info,
    new_deadline_info_from_offset_and_epoch, max_prove_commit_duration, power_for_sectors,
    CompactCommD, CompactPartitionsParams, DeadlineInfo, DeclareFaultsParams,
    DeclareFaultsRecoveredParams, DisputeWindowedPoStParams, ExpirationExtension2,
    ExtendSectorExpiration2Params, FaultDeclaration, Method as MM, PieceActivationManifest,
    PoStPartition, PowerPair, PreCommitSectorBatchParams2, ProveCommitSectors3Params,
    ProveCommitSectorsNIParams, ProveReplicaUpdates3Params, RecoveryDeclaration,
    SectorActivationManifest, SectorClaim, SectorNIActivationInfo, SectorOnChainInfo,
    SectorPreCommitInfo, SectorUpdateManifest, Sectors, State as MinerState,
    SubmitWindowedPoStParams, TerminateSectorsParams, TerminationDeclaration,
    VerifiedAllocationKey,
};
use fil_actor_power::{
    Claim, Method as PowerMethod, State as PowerState, UpdateClaimedPowerParams,
    CONSENSUS_MINER_MIN_MINERS,
};
use fil_actor_verifreg::{
    AllocationRequest, AllocationRequests, AllocationsResponse, Method as VrMethod, VerifierParams,
};
use fil_actors_integration_tests::util::{
    create_accounts, create_miner, invariant_failure_patterns, miner_info,
    override_compute_unsealed_sector_cid, verifreg_list_claims,
};
use fil_actors_runtime::runtime::Policy;
use fil_actors_runtime::test_utils::{make_piece_cid, make_sealed_cid};
use fil_actors_runtime::{
    CRON_ACTOR_ADDR, DATACAP_TOKEN_ACTOR_ADDR, EPOCHS_IN_DAY, STORAGE_POWER_ACTOR_ADDR,
    SYSTEM_ACTOR_ADDR, VERIFIED_REGISTRY_ACTOR_ADDR,
};
use fil_builtin_actors_state::check::check_state_invariants;
use frc46_token::token::types::{TransferParams, TransferReturn};
use fvm_ipld_bitfield::BitField;
use fvm_ipld_encoding::RawBytes;
use fvm_shared::address::Address;
use fvm_shared::bigint::BigInt;
use fvm_shared::clock::ChainEpoch;
use fvm_shared::econ::TokenAmount;
use fvm_shared::piece::{PaddedPieceSize, PieceInfo};
use fvm_shared::randomness::Randomness;
use fvm_shared::sector::{
    PoStProof, RegisteredAggregateProof, RegisteredPoStProof, RegisteredSealProof, SectorSize,
};
use num_traits::{Signed, Zero};
use serde::Serialize;
use serde_json::{json, Value};
use std::collections::{BTreeMap, BTreeSet};
use vharness::coqfmt::{self as cf, CaseWriter, Stats};
use vharness::prng::Prng;
use vharness::util::*;
use vharness::vvm::{Vvm, TEST_VERIFREG_ROOT_ADDR, TEST_VM_INVALID_POST, TEST_VM_RAND_ARRAY};
use vm_api::trace::InvocationTrace;
use vm_api::util::get_state;
use vm_api::{MessageResult, VM};

const SEAL: RegisteredSealProof = RegisteredSealProof::StackedDRG32GiBV1P1;
const SEAL_NI: RegisteredSealProof = RegisteredSealProof::StackedDRG32GiBV1P2_Feat_NiPoRep;
const WPOST: RegisteredPoStProof = RegisteredPoStProof::StackedDRGWindow32GiBV1P1;
const MAX_SECTORS_PER_MINER: usize = 36;
/// DisputeWindowedPoSt records the faults of the disputed sectors with the sector infos of the deadline's
/// SNAPSHOT (`Sectors::load(store, &dl_current.sectors_snapshot)`), so a sector whose power changed after
/// the snapshot (ProveReplicaUpdates3 inside the dispute window) is debited with its OLD power.
const DISPUTE_SNAPSHOT_CLASS: &str = "dispute-records-faults-with-snapshot-sector-power";
const UPDATE_CLAIMED_POWER: u64 = PowerMethod::UpdateClaimedPower as u64;

// ---------------------------------------------------------------------------------------------
// world
// ---------------------------------------------------------------------------------------------
struct PendingSector {
    number: u64,
    pieces: Vec<PieceActivationManifest>,
    claims: Vec<u64>,
}
struct Pending {
    epoch: ChainEpoch,
    sectors: Vec<PendingSector>,
    tries: u32,
}
struct MinerCtl {
    addr: Address,
    worker: Address,
    sector_size: SectorSize,
    next_sector: u64,
    /// running sum of the UpdateClaimedPower deltas that took effect
    delta: (BigInt, BigInt),
    pending: Vec<Pending>,
    /// verified claim ids per sector
    claims: BTreeMap<u64, Vec<u64>>,
    /// `open` of the deadline for which the PoSt decision was already taken
    decided_open: ChainEpoch,
    /// partitions for which a PoSt message of the deadline `decided_open` succeeded
    submitted: BTreeSet<u64>,
    /// optimistically accepted PoSts with an invalid proof: (deadline index, close epoch)
    invalid_posts: Vec<(u64, ChainEpoch)>,
}

#[derive(Clone)]
struct PartView {
    dl: u64,
    idx: u64,
    sectors: BitField,
    unproven: BitField,
    faults: BitField,
    recoveries: BitField,
    terminated: BitField,
    live: BitField,
    active: BitField,
    memo_live: PowerPair,
    memo_unproven: PowerPair,
    memo_faulty: PowerPair,
    memo_recovering: PowerPair,
    memo_active: PowerPair,
    /// power_for_sectors over the individual sector infos of `active` (monitor (a))
    recomputed: PowerPair,
    /// infos of all live sectors
    infos: Vec<SectorOnChainInfo>,
    /// Deadline.partitions_posted contains this partition
    posted: bool,
}
#[derive(Clone)]
struct MinerView {
    parts: Vec<PartView>,
    pps: ChainEpoch,
    cron_active: bool,
    claim: Option<(BigInt, BigInt)>,
    nlive: usize,
    /// State.early_terminations (deadlines with early terminations still to be processed)
    early_state: Vec<u64>,
    /// the deadlines whose own early_terminations bitfield (partitions with queued early terminations) is non-empty
    early_deadlines: Vec<u64>,
}

struct Run<'a> {
    v: Vvm,
    policy: Policy,
    miners: Vec<MinerCtl>,
    views: Vec<MinerView>,
    client: Address,
    disputer: Address,
    stats: &'a mut Stats,
    cnt: &'a mut BTreeMap<String, u64>,
    fails: Vec<Value>,
    reported: BTreeSet<String>,
    oplog: Vec<String>,
    step: usize,
    case_id: Value,
    mutate: bool,
    filtered: BTreeSet<String>,
    /// sector numbers changed (replica update / extension) at an epoch >= their expiration epoch
    rebased_after_expiry: BTreeSet<u64>,
    /// see DISPUTE_SNAPSHOT_CLASS
    tainted: Option<String>,
    /// proof types of the case (32GiB, or 2KiB: partitions of 2 sectors)
    seal: RegisteredSealProof,
    seal_ni: RegisteredSealProof,
    wpost: RegisteredPoStProof,
    small: bool,
}

fn bump(cnt: &mut BTreeMap<String, u64>, k: &str, n: u64) {
    *cnt.entry(k.to_string()).or_insert(0) += n;
}
fn bmax(cnt: &mut BTreeMap<String, u64>, k: &str, n: u64) {
    let e = cnt.entry(k.to_string()).or_insert(0);
    if n > *e {
        *e = n;
    }
}
fn bits(b: &BitField) -> Vec<u64> {
    b.iter().collect()
}
fn bf(xs: &[u64]) -> BitField {
    BitField::try_from_bits(xs.iter().copied()).unwrap()
}
fn pp(p: &PowerPair) -> String {
    format!("(raw {}, qa {})", p.raw, p.qa)
}
fn subset(r: &mut Prng, xs: &[u64]) -> Vec<u64> {
    if xs.is_empty() {
        return vec![];
    }
    match r.below(10) {
        0..=3 => vec![*r.pick(xs)],
        4..=7 => {
            let mut o: Vec<u64> = xs.iter().copied().filter(|_| r.chance(50)).collect();
            if o.is_empty() {
                o.push(*r.pick(xs));
            }
            o
        }
        _ => xs.to_vec(),
    }
}

impl<'a> Run<'a> {
    fn epoch(&self) -> ChainEpoch {
        self.v.epoch()
    }
    fn dlinfo(&self, m: usize) -> DeadlineInfo {
        new_deadline_info_from_offset_and_epoch(&self.policy, self.views[m].pps, self.epoch())
    }

    fn fail(&mut self, class: &str, what: Vec<String>, detail: Value) {
        // Once a successful DisputeWindowedPoSt has recorded faults with the power of the deadline's
        // sector SNAPSHOT for sectors whose power changed since (diagnosed in op_dispute), the claim
        // and the partition memos of this history are off for good: everything that follows in this
        // history is reported, once, under the class of that cause (the first symptom is kept in the
        // detail).
        let (class, detail) = match &self.tainted {
            Some(t) => (DISPUTE_SNAPSHOT_CLASS, json!({"cause": t, "first_symptom_class": class, "detail": detail})),
            None => (class, detail),
        };
        if !self.reported.insert(class.to_string()) {
            return;
        }
        let n = self.oplog.len();
        let tail: Vec<String> = self.oplog[n.saturating_sub(80)..].to_vec();
        self.fails.push(json!({
            "class": class,
            "what": what,
            "step": self.step,
            "epoch": self.epoch(),
            "detail": detail,
            "case": {"id": self.case_id, "messages_total": n, "messages_tail": tail},
        }));
    }

    // ---------- reading the implementation's state ----------
    fn view_of(&self, m: usize) -> MinerView {
        let mc = &self.miners[m];
        let store = self.v.store.as_ref();
        let st: MinerState = get_state(&self.v, &mc.addr).unwrap();
        let pst: PowerState = get_state(&self.v, &STORAGE_POWER_ACTOR_ADDR).unwrap();
        let claim: Option<Claim> = pst.get_claim(store, &mc.addr).unwrap();
        let sectors = Sectors::load(store, &st.sectors).unwrap();
        let dls = st.load_deadlines(store).unwrap();
        let mut parts = vec![];
        let mut nlive = 0usize;
        let mutate = self.mutate;
        let mut dls_with_early: Vec<u64> = vec![];
        dls.for_each(store, |dl, deadline| {
            let posted = deadline.partitions_posted.clone();
            if !deadline.early_terminations.is_empty() {
                dls_with_early.push(dl);
            }
            deadline.for_each(store, |idx, p| {
                let live = p.live_sectors();
                let active = p.active_sectors();
                let infos = sectors.load_sectors(&live).map_err(|e| anyhow::anyhow!("{}", e))?;
                let counted = if mutate { &active | &p.unproven } else { active.clone() };
                let act_infos: Vec<SectorOnChainInfo> =
                    infos.iter().filter(|i| counted.get(i.sector_number)).cloned().collect();
                nlive += infos.len();
                parts.push(PartView {
                    dl,
                    idx,
                    sectors: p.sectors.clone(),
                    unproven: p.unproven.clone(),
                    faults: p.faults.clone(),
                    recoveries: p.recoveries.clone(),
                    terminated: p.terminated.clone(),
                    live,
                    active,
                    memo_live: p.live_power.clone(),
                    memo_unproven: p.unproven_power.clone(),
                    memo_faulty: p.faulty_power.clone(),
                    memo_recovering: p.recovering_power.clone(),
                    memo_active: p.active_power(),
                    recomputed: power_for_sectors(mc.sector_size, &act_infos),
                    infos,
                    posted: posted.get(idx),
                });
                Ok(())
            })
        })
        .unwrap();
        MinerView {
            parts,
            pps: st.proving_period_start,
            cron_active: st.deadline_cron_active,
            claim: claim.map(|c| (c.raw_byte_power, c.quality_adj_power)),
            nlive,
            early_state: bits(&st.early_terminations),
            early_deadlines: dls_with_early,
        }
    }

    fn part_json(&self, m: usize, p: &PartView) -> Value {
        let ss = self.miners[m].sector_size;
        let pw = |b: &BitField| -> String {
            let i: Vec<SectorOnChainInfo> = p.infos.iter().filter(|i| b.get(i.sector_number)).cloned().collect();
            pp(&power_for_sectors(ss, &i))
        };
        json!({
            "deadline": p.dl, "partition": p.idx,
            "sectors": bits(&p.sectors), "unproven": bits(&p.unproven), "faults": bits(&p.faults),
            "recoveries": bits(&p.recoveries), "terminated": bits(&p.terminated), "active": bits(&p.active),
            "memo": {"live": pp(&p.memo_live), "unproven": pp(&p.memo_unproven), "faulty": pp(&p.memo_faulty),
                     "recovering": pp(&p.memo_recovering), "active": pp(&p.memo_active)},
            "recomputed": {"active": pp(&p.recomputed), "unproven": pw(&p.unproven), "faults": pw(&p.faults)},
        })
    }

    // ---------- the monitor ----------
    /// evaluated after every top-level message
    fn monitor(&mut self, after: &str) {
        bump(self.cnt, "monitor_evaluations", 1);
        let n = self.miners.len();
        let views: Vec<MinerView> = (0..n).map(|m| self.view_of(m)).collect();
        for m in 0..n {
            let v = &views[m];
            let id = self.miners[m].addr.id().unwrap();
            bmax(self.cnt, "max_sectors_per_miner", v.nlive as u64);
            if v.early_state != v.early_deadlines {
                self.fail("state-early-terminations-vs-deadlines", vec![format!("after {}: miner {} State.early_terminations = {:?} but the deadlines with queued early terminations are {:?}", after, id, v.early_state, v.early_deadlines)], json!({"miner": id}));
            }
            let claim = match &v.claim {
                Some(c) => PowerPair::new(c.0.clone(), c.1.clone()),
                None => {
                    self.fail("claim-missing", vec![format!("miner {} has no claim in the power actor after {}", id, after)], json!({"miner": id}));
                    PowerPair::zero()
                }
            };
            let mut sum_a = PowerPair::zero();
            let mut sum_memo = PowerPair::zero();
            for p in &v.parts {
                sum_a = &sum_a + &p.recomputed;
                sum_memo = &sum_memo + &p.memo_active;
            }
            // (a)
            if claim != sum_a {
                let parts: Vec<Value> = v.parts.iter().map(|p| self.part_json(m, p)).collect();
                let diff = &claim - &sum_a;
                // (d) look for the sector(s) that explain the difference
                let ss = self.miners[m].sector_size;
                let mut offender: Option<(&str, Value)> = None;
                'outer: for p in &v.parts {
                    for (name, set) in [("unproven-has-power", &p.unproven), ("faulty-has-power", &p.faults)] {
                        let infos: Vec<SectorOnChainInfo> = p.infos.iter().filter(|i| set.get(i.sector_number)).cloned().collect();
                        for i in &infos {
                            if power_for_sectors(ss, std::slice::from_ref(i)) == diff {
                                offender = Some((name, json!({"deadline": p.dl, "partition": p.idx, "sector": i.sector_number, "power": pp(&diff)})));
                                break 'outer;
                            }
                        }
                        if !infos.is_empty() && power_for_sectors(ss, &infos) == diff {
                            offender = Some((name, json!({"deadline": p.dl, "partition": p.idx, "sectors": bits(set), "power": pp(&diff)})));
                            break 'outer;
                        }
                    }
                }
                self.fail(
                    "claim-vs-active-sectors",
                    vec![format!("after {}: miner {} claim {} != sum over active sectors {} (claim - sum = {})", after, id, pp(&claim), pp(&sum_a), pp(&diff))],
                    json!({"miner": id, "partitions": parts}),
                );
                if let Some((name, d)) = offender {
                    self.fail(name, vec![format!("after {}: miner {}: the claim exceeds the active sectors by exactly the power of {}", after, id, d)], json!({"miner": id, "offender": d, "partitions": v.parts.iter().map(|p| self.part_json(m, p)).collect::<Vec<_>>()}));
                }
            }
            // (b)
            if claim != sum_memo {
                let parts: Vec<Value> = v.parts.iter().map(|p| self.part_json(m, p)).collect();
                self.fail(
                    "claim-vs-memo",
                    vec![format!("after {}: miner {} claim {} != sum of partition active_power() {}", after, id, pp(&claim), pp(&sum_memo))],
                    json!({"miner": id, "partitions": parts}),
                );
            }
            // (c)
            let d = &self.miners[m].delta;
            if claim.raw != d.0 || claim.qa != d.1 {
                self.fail(
                    "claim-vs-delta-sum",
                    vec![format!("after {}: miner {} claim {} != running sum of effective UpdateClaimedPower deltas (raw {}, qa {})", after, id, pp(&claim), d.0, d.1)],
                    json!({"miner": id}),
                );
            }
        }
        // (e)
        let bad = self.monitor_totals();
        if !bad.is_empty() {
            self.fail("network-totals", bad, json!({"after": after}));
        }
        self.views = views;
    }

    /// copy of power.rs monitor_totals on the power actor's state
    fn monitor_totals(&self) -> Vec<String> {
        let st: PowerState = get_state(&self.v, &STORAGE_POWER_ACTOR_ADDR).unwrap();
        let claims = st.load_claims(self.v.store.as_ref()).unwrap();
        let min_power = &self.policy.minimum_consensus_power;
        let mut bad = vec![];
        let (mut sr, mut sq, mut ar, mut aq, mut cnt) = (BigInt::zero(), BigInt::zero(), BigInt::zero(), BigInt::zero(), 0i64);
        claims
            .for_each(|k: Address, c: &Claim| {
                let (r, q) = (&c.raw_byte_power, &c.quality_adj_power);
                if r.is_negative() || q.is_negative() {
                    bad.push(format!("claim of {} negative: ({}, {})", k, r, q));
                }
                sr += r;
                sq += q;
                if r >= min_power {
                    ar += r;
                    aq += q;
                    cnt += 1;
                }
                Ok(())
            })
            .unwrap();
        if st.total_bytes_committed != sr { bad.push(format!("total_bytes_committed {} != sum raw {}", st.total_bytes_committed, sr)); }
        if st.total_qa_bytes_committed != sq { bad.push(format!("total_qa_bytes_committed {} != sum qa {}", st.total_qa_bytes_committed, sq)); }
        if st.total_raw_byte_power != ar { bad.push(format!("total_raw_byte_power {} != sum raw above min {}", st.total_raw_byte_power, ar)); }
        if st.total_quality_adj_power != aq { bad.push(format!("total_quality_adj_power {} != sum qa above min {}", st.total_quality_adj_power, aq)); }
        if st.miner_above_min_power_count != cnt { bad.push(format!("miner_above_min_power_count {} != {}", st.miner_above_min_power_count, cnt)); }
        let expect = if st.miner_above_min_power_count < CONSENSUS_MINER_MIN_MINERS {
            (st.total_bytes_committed.clone(), st.total_qa_bytes_committed.clone())
        } else {
            (st.total_raw_byte_power.clone(), st.total_quality_adj_power.clone())
        };
        if st.current_total_power() != expect { bad.push(format!("current_total_power {:?} != {:?}", st.current_total_power(), expect)); }
        if cnt > 0 { /* coverage */ }
        bad
    }

    fn repo_invariants(&mut self) {
        bump(self.cnt, "repo_invariant_evaluations", 1);
        let res = check_state_invariants(
            self.v.store.as_ref(),
            &self.v.actor_manifest(),
            &self.policy,
            &self.v.actor_states(),
            None,
            // the state already contains the effects of the messages executed AT the current epoch
            // (the integration tests pass epoch() - 1 because they check after moving the clock)
            self.epoch(),
        );
        match res {
            Err(e) => self.fail("repo-state-invariants", vec![format!("check_state_invariants failed to run: {:#}", e)], json!({})),
            Ok(acc) => {
                let mut bad = vec![];
                for msg in acc.messages() {
                    // the integration tests allow exactly this one (expect_invariants with
                    // invariant_failure_patterns::REWARD_STATE_EPOCH_MISMATCH): the test VMs run the
                    // cron only at the epochs of interest
                    if invariant_failure_patterns::REWARD_STATE_EPOCH_MISMATCH.is_match(&msg) {
                        self.filtered.insert("reward state epoch N does not match prior_epoch+1 M".to_string());
                        bump(self.cnt, "repo_invariant_messages_filtered", 1);
                    } else if msg.strip_prefix("power base epoch is not before the sector expiration ").and_then(|n| n.parse::<u64>().ok()).map(|n| self.rebased_after_expiry.contains(&n)).unwrap_or(false) {
                        // a sector whose expiration epoch has passed stays live until the cron at the end of
                        // its deadline; ProveReplicaUpdates3 accepts it and sets power_base_epoch = now >=
                        // expiration. Power accounting stays exact (monitors (a)-(c)); not part of the C02
                        // statement: counted and kept as an observation with replay, like power.rs does
                        // for miner_count.
                        self.filtered.insert("power base epoch is not before the sector expiration N (sector replica-updated at an epoch >= its expiration, see stats.extra.replica_update_after_expiration_example)".to_string());
                        bump(self.cnt, "repo_invariant_messages_filtered_power_base_after_expiration", 1);
                        if !self.stats.extra.contains_key("replica_update_after_expiration_example") {
                            let n = self.oplog.len();
                            let v = json!({"message": msg, "case": self.case_id, "step": self.step, "epoch": self.epoch(), "messages_tail": self.oplog[n.saturating_sub(12)..].to_vec()});
                            self.stats.extra.insert("replica_update_after_expiration_example".to_string(), v);
                        }
                    } else if msg.starts_with("sector verified weight ") && msg.contains(" does not match claims of ") && self.verified_weights_consistent() {
                        // state/src/check.rs expects verified_deal_weight == sum(claim.size) * (expiration -
                        // claim.term_start); ExtendSectorExpiration2 (simple-QAP sectors, maintained claims)
                        // re-bases the weight to (new expiration - power_base_epoch = epoch of the extension).
                        // Filtered ONLY when every live verified sector of every miner satisfies
                        // verified_deal_weight == sum(claim.size) * (expiration - power_base_epoch), i.e. the
                        // checker's formula is stale, the sector is consistent (power is computed over
                        // expiration - power_base_epoch). Not C02 relevant; reported as an observation.
                        self.filtered.insert("sector verified weight W does not match claims of W' for miner M (extended sector: weight re-based to power_base_epoch, see stats.extra.checker_verified_weight_example)".to_string());
                        bump(self.cnt, "repo_invariant_messages_filtered_verified_weight_after_extension", 1);
                        if !self.stats.extra.contains_key("checker_verified_weight_example") {
                            let n = self.oplog.len();
                            let v = json!({"message": msg, "case": self.case_id, "step": self.step, "epoch": self.epoch(), "messages_tail": self.oplog[n.saturating_sub(12)..].to_vec()});
                            self.stats.extra.insert("checker_verified_weight_example".to_string(), v);
                        }
                    } else {
                        bad.push(msg);
                    }
                }
                if !bad.is_empty() {
                    self.fail("repo-state-invariants", bad, json!({}));
                }
            }
        }
    }

    /// every live sector with verified weight: weight == sum of its claims' sizes * (expiration - power_base_epoch)
    fn verified_weights_consistent(&self) -> bool {
        for m in 0..self.miners.len() {
            let claims = verifreg_list_claims(&self.v, self.miners[m].addr.id().unwrap());
            for p in &self.views[m].parts {
                for i in p.infos.iter().filter(|i| i.verified_deal_weight.is_positive()) {
                    let space: u64 = claims.values().filter(|c| c.sector == i.sector_number).map(|c| c.size.0).sum();
                    if i.verified_deal_weight != BigInt::from(space) * BigInt::from(i.expiration - i.power_base_epoch) {
                        return false;
                    }
                }
            }
        }
        true
    }

    // ---------- sending ----------
    fn walk(&mut self, t: &InvocationTrace, ok_so_far: bool) {
        let ok = ok_so_far && t.exit_code.is_success();
        if t.method == UPDATE_CLAIMED_POWER && t.to == STORAGE_POWER_ACTOR_ADDR {
            bump(self.cnt, "update_claimed_power_sends_observed", 1);
            if ok {
                if let Some(mi) = self.miners.iter().position(|m| m.addr.id().unwrap() == t.from) {
                    let p: UpdateClaimedPowerParams = t.params.as_ref().unwrap().deserialize().unwrap();
                    let mc = &mut self.miners[mi];
                    mc.delta.0 += &p.raw_byte_delta;
                    mc.delta.1 += &p.quality_adjusted_delta;
                    if !p.raw_byte_delta.is_zero() || !p.quality_adjusted_delta.is_zero() {
                        bump(self.cnt, "update_claimed_power_nonzero_effective", 1);
                    }
                } else {
                    bump(self.cnt, "update_claimed_power_from_unknown_sender", 1);
                }
            } else {
                bump(self.cnt, "update_claimed_power_sends_rolled_back", 1);
            }
        }
        for s in &t.subinvocations {
            self.walk(s, ok);
        }
    }

    fn drain(&mut self) {
        let trs = self.v.take_invocations();
        for t in &trs {
            self.walk(t, true);
        }
        let ps: Vec<String> = self.v.panics.borrow().iter().cloned().collect();
        for p in ps {
            // known, unrelated to C02 (reported separately): quality_for_weight divides by
            // size * (expiration - power_base_epoch) = 0 when a sector is re-based exactly at its
            // expiration epoch; the message aborts with exit 24 and nothing is committed
            if p.contains("attempt to divide by zero") {
                let n = self.stats.extra.get("panics_divide_by_zero_at_expiration_epoch").and_then(|x| x.as_u64()).unwrap_or(0);
                self.stats.extra.insert("panics_divide_by_zero_at_expiration_epoch".into(), serde_json::json!(n + 1));
            } else {
                self.stats.panics.push(p);
            }
        }
        self.v.panics.borrow_mut().clear();
    }

    /// execute one top-level message, record it, account its UpdateClaimedPower sends, run the monitor
    fn send<P: Serialize>(&mut self, kind: &str, note: String, from: &Address, to: &Address, method: u64, params: Option<P>) -> MessageResult {
        let r = exec(&self.v, from, to, &TokenAmount::zero(), method, params);
        let c = code(&r);
        self.stats.op(kind, c);
        if std::env::var("VERIF_DEBUG").is_ok() && c != 0 {
            eprintln!("DBG {} {} @{} -> {}: {}", kind, note, self.epoch(), c, r.message);
        }
        self.oplog.push(format!("@{} {} {} -> {}", self.epoch(), kind, note, c));
        self.drain();
        let after = format!("message #{} ({} {} -> {})", self.oplog.len(), kind, note, c);
        self.monitor(&after);
        r
    }

    // ---------- time ----------
    /// cron at the current epoch (PoSt decisions first for every miner whose deadline closes now),
    /// then epoch + 1
    fn tick(&mut self, r: &mut Prng, diligence: u64) {
        let e = self.epoch();
        let n = self.miners.len();
        let closing: Vec<usize> = (0..n).filter(|m| self.dlinfo(*m).last() == e).collect();
        for m in &closing {
            self.decide_post(*m, r, diligence);
        }
        let pre: Vec<MinerView> = self.views.clone();
        let infos: Vec<DeadlineInfo> = (0..n).map(|m| self.dlinfo(m)).collect();
        self.send::<()>("cron_tick", String::new(), &SYSTEM_ACTOR_ADDR, &CRON_ACTOR_ADDR, fil_actor_cron::Method::EpochTick as u64, None);
        // (f) and coverage
        for m in closing {
            let d = infos[m].index;
            let id = self.miners[m].addr.id().unwrap();
            let submitted = self.miners[m].submitted.clone();
            for p in pre[m].parts.iter().filter(|p| p.dl == d) {
                let had_power = !p.active.is_empty() && !p.memo_active.is_zero();
                let had_unproven = !p.unproven.is_empty();
                if submitted.contains(&p.idx) && !p.posted {
                    let pj = self.part_json(m, p);
                    self.fail("post-not-recorded", vec![format!("miner {} deadline {} partition {}: SubmitWindowedPoSt succeeded but partitions_posted does not contain it", id, d, p.idx)], pj);
                }
                if p.posted || submitted.contains(&p.idx) {
                    continue;
                }
                if had_power { bump(self.cnt, "missed_deadlines_with_active_power", 1); }
                if had_unproven { bump(self.cnt, "missed_deadlines_with_unproven_sectors", 1); }
                if !p.recoveries.is_empty() { bump(self.cnt, "failed_recoveries", 1); }
                if !(had_power || had_unproven) {
                    continue;
                }
                let post = self.views[m].parts.iter().find(|q| q.dl == d && q.idx == p.idx).cloned();
                let mut what = vec![];
                match &post {
                    None => what.push(format!("partition ({}, {}) disappeared at the deadline end", d, p.idx)),
                    Some(q) => {
                        if !pre[m].cron_active { what.push("the miner's deadline cron was not active although it had live non-faulty sectors".to_string()); }
                        if q.faults != q.live { what.push(format!("faults {:?} != live sectors {:?} after the deadline closed without PoSt", bits(&q.faults), bits(&q.live))); }
                        if !q.unproven.is_empty() { what.push(format!("unproven {:?} not cleared", bits(&q.unproven))); }
                        if !q.memo_active.is_zero() { what.push(format!("memoised active power {} != 0", pp(&q.memo_active))); }
                        if !q.recomputed.is_zero() { what.push(format!("recomputed active power {} != 0", pp(&q.recomputed))); }
                    }
                }
                if !what.is_empty() {
                    let detail = json!({"miner": id, "before": self.part_json(m, p), "after": post.as_ref().map(|q| self.part_json(m, q))});
                    self.fail("missed-post-removes-power", what, detail);
                }
            }
            // expirations: sectors leaving `live` at a cron (terminations by message leave it at once)
            let live_pre: BTreeSet<u64> = pre[m].parts.iter().flat_map(|p| bits(&p.live)).collect();
            let live_post: BTreeSet<u64> = self.views[m].parts.iter().flat_map(|p| bits(&p.live)).collect();
            let gone: Vec<u64> = live_pre.difference(&live_post).copied().collect();
            if !gone.is_empty() {
                let exp: BTreeMap<u64, ChainEpoch> = pre[m].parts.iter().flat_map(|p| p.infos.iter().map(|i| (i.sector_number, i.expiration))).collect();
                for s in &gone {
                    if exp.get(s).map(|x| *x <= e + 1).unwrap_or(false) { bump(self.cnt, "expirations_observed_on_time", 1); } else { bump(self.cnt, "expirations_observed_early_by_cron", 1); }
                }
                self.oplog.push(format!("@{} (note) m{} sectors {:?} left the live set at the cron", e, m, gone));
            }
            self.miners[m].submitted.clear();
        }
        self.v.set_epoch(e + 1);
        let now = e + 1;
        for mc in self.miners.iter_mut() {
            mc.invalid_posts.retain(|(_, close)| now < *close + 1800 + 120);
        }
    }

    fn next_boundary(&self) -> ChainEpoch {
        (0..self.miners.len()).map(|m| self.dlinfo(m).last()).min().unwrap()
    }

    fn advance(&mut self, r: &mut Prng, ticks: u64, diligence: u64) {
        for _ in 0..ticks {
            let t = self.next_boundary();
            self.v.set_epoch(t);
            self.tick(r, diligence);
        }
    }

    fn nudge(&mut self, r: &mut Prng) {
        let t = self.next_boundary();
        let e = self.epoch();
        if t > e {
            self.v.set_epoch(e + r.below((t - e) as u64 + 1) as i64);
        }
    }

    // ---------- window PoSt ----------
    fn decide_post(&mut self, m: usize, r: &mut Prng, diligence: u64) {
        let info = self.dlinfo(m);
        if self.miners[m].decided_open == info.open {
            return;
        }
        self.miners[m].decided_open = info.open;
        self.miners[m].submitted.clear();
        // partitions whose live sectors are all faulty and not recovering cannot be proven ("no active
        // sectors", exit 16): mostly left alone
        let provable = r.chance(85);
        let parts: Vec<PartView> = self.views[m].parts.iter()
            .filter(|p| p.dl == info.index && !p.live.is_empty())
            .filter(|p| !provable || !p.active.is_empty() || !p.unproven.is_empty() || !p.recoveries.is_empty())
            .cloned().collect();
        if parts.is_empty() {
            return;
        }
        let mut plist = vec![];
        let mut kind = "post_full";
        let mut invalid = false;
        let mut note = format!("m{} dl{}", m, info.index);
        let mut skipped_recovering = false;
        for p in &parts {
            let roll = r.below(100);
            let dil = if p.recoveries.is_empty() { diligence } else { diligence.saturating_sub(20) };
            if roll < dil {
                plist.push(PoStPartition { index: p.idx, skipped: BitField::new() });
                note += &format!(" p{}:full", p.idx);
            } else {
                match r.below(10) {
                    0..=4 => {
                        let live = bits(&p.live);
                        let mut sk = subset(r, &live);
                        if sk.len() == live.len() && live.len() > 1 && r.chance(70) {
                            sk.pop();
                        }
                        if sk.iter().any(|s| p.recoveries.get(*s)) { skipped_recovering = true; }
                        note += &format!(" p{}:skip{:?}", p.idx, sk);
                        plist.push(PoStPartition { index: p.idx, skipped: bf(&sk) });
                        kind = "post_skipped";
                    }
                    5..=6 => {
                        plist.push(PoStPartition { index: p.idx, skipped: BitField::new() });
                        invalid = true;
                        note += &format!(" p{}:invalid-proof", p.idx);
                    }
                    _ => {
                        note += &format!(" p{}:MISS", p.idx);
                    }
                }
            }
        }
        if plist.is_empty() {
            self.oplog.push(format!("@{} (no PoSt) {}", self.epoch(), note));
            return;
        }
        if invalid { kind = "post_invalid_proof"; }
        let idxs: Vec<u64> = plist.iter().map(|p| p.index).collect();
        let params = SubmitWindowedPoStParams {
            deadline: info.index,
            partitions: plist,
            proofs: vec![PoStProof { post_proof: self.wpost, proof_bytes: if invalid { TEST_VM_INVALID_POST.as_bytes().to_vec() } else { vec![] } }],
            chain_commit_epoch: info.challenge,
            chain_commit_rand: Randomness(TEST_VM_RAND_ARRAY.into()),
        };
        let (worker, addr) = (self.miners[m].worker, self.miners[m].addr);
        let res = self.send(kind, note, &worker, &addr, MM::SubmitWindowedPoSt as u64, Some(params));
        if code(&res) == 0 {
            for i in idxs { self.miners[m].submitted.insert(i); }
            if kind == "post_skipped" { bump(self.cnt, "posts_with_skipped_sectors", 1); }
            if invalid {
                bump(self.cnt, "optimistic_posts_with_invalid_proof", 1);
                self.miners[m].invalid_posts.push((info.index, info.close));
            }
            if skipped_recovering { bump(self.cnt, "failed_recoveries", 1); }
            // recoveries completed: recovering before, not faulty after
            for p in &parts {
                if p.recoveries.is_empty() { continue; }
                if let Some(q) = self.views[m].parts.iter().find(|q| q.dl == p.dl && q.idx == p.idx) {
                    let rec = bits(&p.recoveries).into_iter().filter(|s| !q.faults.get(*s) && q.live.get(*s)).count();
                    if rec > 0 { bump(self.cnt, "recoveries_completed", 1); bump(self.cnt, "sectors_recovered", rec as u64); }
                }
            }
        }
    }

    // ---------- operations ----------
    fn alloc(&mut self, m: usize, size: u64, cid: cid::Cid) -> Option<u64> {
        let req = AllocationRequest {
            provider: self.miners[m].addr.id().unwrap(),
            data: cid,
            size: PaddedPieceSize(size),
            term_min: self.policy.minimum_verified_allocation_term,
            term_max: self.policy.maximum_verified_allocation_term,
            expiration: self.epoch() + self.policy.maximum_verified_allocation_expiration / 2,
        };
        let params = TransferParams {
            to: VERIFIED_REGISTRY_ACTOR_ADDR,
            amount: TokenAmount::from_whole(size),
            operator_data: RawBytes::serialize(AllocationRequests { allocations: vec![req], extensions: vec![] }).unwrap(),
        };
        let client = self.client;
        let res = self.send("alloc", format!("m{} size {}", m, size), &client, &DATACAP_TOKEN_ACTOR_ADDR, fil_actor_datacap::Method::TransferExported as u64, Some(params));
        if code(&res) != 0 {
            return None;
        }
        let tr: TransferReturn = res.ret.unwrap().deserialize().unwrap();
        let ar: AllocationsResponse = tr.recipient_data.deserialize().unwrap();
        ar.new_allocations.first().copied()
    }

    fn commd(&self, pieces: &[PieceActivationManifest], proof: RegisteredSealProof) -> CompactCommD {
        if pieces.is_empty() {
            return CompactCommD::empty();
        }
        let pis: Vec<PieceInfo> = pieces.iter().map(|p| PieceInfo { size: p.size, cid: p.cid }).collect();
        CompactCommD::of(self.v.primitives().compute_unsealed_sector_cid(proof, &pis).unwrap())
    }

    /// a data piece for sector `s`: 0 none (CC), 1 unverified piece, 2 verified allocation
    fn make_pieces(&mut self, m: usize, s: u64, what: u64, tag: &str) -> (Vec<PieceActivationManifest>, Vec<u64>) {
        let ss = self.miners[m].sector_size as u64;
        match what {
            0 => (vec![], vec![]),
            1 => (
                vec![PieceActivationManifest { cid: make_piece_cid(format!("{}-u-{}-{}", tag, m, s).as_bytes()), size: PaddedPieceSize(ss), verified_allocation_key: None, notify: vec![] }],
                vec![],
            ),
            _ => {
                let size = if s % 2 == 0 { ss } else { ss / 2 };
                let cid = make_piece_cid(format!("{}-v-{}-{}", tag, m, s).as_bytes());
                match self.alloc(m, size, cid) {
                    Some(id) => (
                        vec![PieceActivationManifest { cid, size: PaddedPieceSize(size), verified_allocation_key: Some(VerifiedAllocationKey { client: self.client.id().unwrap(), id }), notify: vec![] }],
                        vec![id],
                    ),
                    None => (vec![], vec![]),
                }
            }
        }
    }

    fn op_precommit(&mut self, m: usize, r: &mut Prng) {
        let e = self.epoch();
        let k = 1 + r.below(4);
        let base = e + max_prove_commit_duration(&self.policy, self.seal).unwrap() + self.policy.min_sector_expiration;
        let mut infos = vec![];
        let mut pend = vec![];
        let bad = r.chance(4);
        for _ in 0..k {
            let s = self.miners[m].next_sector;
            self.miners[m].next_sector += 1;
            let what = match r.below(10) { 0..=4 => 0, 5..=6 => 1, _ => 2 };
            let (pieces, claims) = self.make_pieces(m, s, what, "pc");
            let expiration = if bad {
                base - 1 - r.below(1000) as i64
            } else {
                match r.below(10) {
                    0..=3 => base + 1 + r.below(2880) as i64,
                    4..=7 => base + r.below(200) as i64 * EPOCHS_IN_DAY,
                    _ => e + self.policy.max_sector_expiration_extension - r.below(5000) as i64,
                }
            };
            infos.push(SectorPreCommitInfo {
                seal_proof: self.seal,
                sector_number: s,
                sealed_cid: make_sealed_cid(format!("sn: {} {}", m, s).as_bytes()),
                seal_rand_epoch: e - 1,
                deal_ids: vec![],
                expiration,
                unsealed_cid: self.commd(&pieces, self.seal),
            });
            pend.push(PendingSector { number: s, pieces, claims });
        }
        let nums: Vec<u64> = pend.iter().map(|p| p.number).collect();
        let (worker, addr) = (self.miners[m].worker, self.miners[m].addr);
        let res = self.send("precommit", format!("m{} {:?}{}", m, nums, if bad { " (expiration too early)" } else { "" }), &worker, &addr, MM::PreCommitSectorBatch2 as u64, Some(PreCommitSectorBatchParams2 { sectors: infos }));
        if code(&res) == 0 {
            self.miners[m].pending.push(Pending { epoch: e, sectors: pend, tries: 0 });
        }
    }

    fn op_prove(&mut self, m: usize, r: &mut Prng) {
        let e = self.epoch();
        let delay = self.policy.pre_commit_challenge_delay;
        let ready: Vec<usize> = (0..self.miners[m].pending.len()).filter(|i| e > self.miners[m].pending[*i].epoch + delay).collect();
        let i = if !ready.is_empty() && r.chance(92) { *r.pick(&ready) } else { r.below(self.miners[m].pending.len() as u64) as usize };
        let p = &self.miners[m].pending[i];
        let acts: Vec<SectorActivationManifest> = p.sectors.iter().map(|s| SectorActivationManifest { sector_number: s.number, pieces: s.pieces.clone() }).collect();
        let nums: Vec<u64> = p.sectors.iter().map(|s| s.number).collect();
        let params = ProveCommitSectors3Params {
            sector_proofs: acts.iter().map(|_| RawBytes::new(vec![1, 2, 3, 4])).collect(),
            sector_activations: acts,
            aggregate_proof: RawBytes::default(),
            aggregate_proof_type: None,
            require_activation_success: true,
            require_notification_success: false,
        };
        let (worker, addr) = (self.miners[m].worker, self.miners[m].addr);
        let res = self.send("prove_commit", format!("m{} {:?} (precommitted @{})", m, nums, self.miners[m].pending[i].epoch), &worker, &addr, MM::ProveCommitSectors3 as u64, Some(params));
        if code(&res) == 0 {
            let p = self.miners[m].pending.remove(i);
            for s in p.sectors {
                if !s.claims.is_empty() {
                    self.miners[m].claims.insert(s.number, s.claims);
                }
            }
            bump(self.cnt, "sectors_onboarded", nums.len() as u64);
        } else {
            let maxd = max_prove_commit_duration(&self.policy, self.seal).unwrap();
            let p = &mut self.miners[m].pending[i];
            if e > p.epoch + delay { p.tries += 1; }
            if p.tries >= 2 || e > p.epoch + maxd {
                self.miners[m].pending.remove(i);
            }
        }
    }

    fn mutable_deadlines(&self, m: usize) -> Vec<u64> {
        let info = self.dlinfo(m);
        (0..self.policy.wpost_period_deadlines).filter(|d| deadline_is_mutable(&self.policy, info.period_start, *d, self.epoch())).collect()
    }

    fn op_ni(&mut self, m: usize, r: &mut Prng) {
        self.op_ni_at(m, r, None)
    }

    /// Scripted prelude: sectors NI-committed into two different mutable deadlines, one full proving
    /// period of complete PoSts so both groups are proven and active, then ONE TerminateSectors message
    /// with a declaration in each deadline.  The ordinary monitors judge the result.
    fn scenario_two_deadline_termination(&mut self, m: usize, r: &mut Prng) {
        let mutable = self.mutable_deadlines(m);
        if mutable.len() < 2 {
            return;
        }
        let a = *r.pick(&mutable);
        let rest: Vec<u64> = mutable.iter().copied().filter(|d| *d != a).collect();
        let b = *r.pick(&rest);
        self.op_ni_at(m, r, Some(a));
        self.op_ni_at(m, r, Some(b));
        if r.chance(30) {
            let c = *r.pick(&mutable);
            self.op_ni_at(m, r, Some(c));
        }
        let per = self.policy.wpost_period_deadlines * self.miners.len() as u64;
        let extra = r.below(per / 2 + 1);
        self.advance(r, per + extra, 100);
        if self.terminate_multi(m, r, 100, true) {
            bump(self.cnt, "scripted_two_deadline_terminations", 1);
        }
    }

    fn op_ni_at(&mut self, m: usize, r: &mut Prng, fixed: Option<u64>) {
        let e = self.epoch();
        let k = 1 + r.below(3);
        let mutable = self.mutable_deadlines(m);
        let dl = if !mutable.is_empty() && r.chance(88) { *r.pick(&mutable) } else { r.below(self.policy.wpost_period_deadlines) };
        // prefer a deadline that already has sectors half of the time
        let dl = if r.chance(40) { self.views[m].parts.iter().map(|p| p.dl).filter(|d| mutable.contains(d)).next().unwrap_or(dl) } else { dl };
        // 2KiB cases: fill up deadlines that already hold sectors, so that they get several partitions
        let dl = if self.small && fixed.is_none() && r.chance(60) {
            let have: Vec<u64> = self.views[m].parts.iter().map(|p| p.dl).filter(|d| mutable.contains(d)).collect();
            if have.is_empty() { dl } else { *r.pick(&have) }
        } else { dl };
        let dl = fixed.unwrap_or(dl);
        let mut sectors = vec![];
        for _ in 0..k {
            let s = self.miners[m].next_sector;
            self.miners[m].next_sector += 1;
            let expiration = e + self.policy.min_sector_expiration + match r.below(10) { 0..=5 => 1 + r.below(2880) as i64, 6..=8 => r.below(100) as i64 * EPOCHS_IN_DAY, _ => -1 };
            sectors.push(SectorNIActivationInfo {
                sealing_number: s,
                sealer_id: self.miners[m].addr.id().unwrap(),
                sealed_cid: make_sealed_cid(format!("ni: {} {}", m, s).as_bytes()),
                sector_number: s,
                seal_rand_epoch: e - 1,
                expiration,
            });
        }
        let nums: Vec<u64> = sectors.iter().map(|s| s.sector_number).collect();
        let params = ProveCommitSectorsNIParams {
            sectors,
            aggregate_proof: RawBytes::new(vec![1, 2, 3, 4]),
            seal_proof_type: self.seal_ni,
            aggregate_proof_type: RegisteredAggregateProof::SnarkPackV2,
            proving_deadline: dl,
            require_activation_success: true,
        };
        let (worker, addr) = (self.miners[m].worker, self.miners[m].addr);
        let res = self.send("prove_commit_ni", format!("m{} {:?} dl{}", m, nums, dl), &worker, &addr, MM::ProveCommitSectorsNI as u64, Some(params));
        if code(&res) == 0 {
            bump(self.cnt, "sectors_onboarded_ni", nums.len() as u64);
        }
    }

    fn cutoff_open(&self, m: usize, dl: u64) -> bool {
        let info = self.dlinfo(m);
        !new_deadline_info(&self.policy, info.period_start, dl, self.epoch()).next_not_elapsed().fault_cutoff_passed()
    }

    fn pick_part<F: Fn(&PartView) -> bool>(&self, m: usize, r: &mut Prng, good: F, prefer: impl Fn(&PartView) -> bool) -> Option<PartView> {
        let c: Vec<&PartView> = self.views[m].parts.iter().filter(|p| good(p)).collect();
        if c.is_empty() {
            return None;
        }
        let pref: Vec<&PartView> = c.iter().copied().filter(|p| prefer(p)).collect();
        if !pref.is_empty() && r.chance(85) { Some((*r.pick(&pref)).clone()) } else { Some((*r.pick(&c)).clone()) }
    }

    fn op_declare_faults(&mut self, m: usize, r: &mut Prng) -> bool {
        let p = match self.pick_part(m, r, |p| !(&p.live - &p.faults).is_empty(), |p| self.cutoff_open(m, p.dl)) { Some(p) => p, None => return false };
        let cand = bits(&(&p.live - &p.faults));
        let ss = subset(r, &cand);
        let params = DeclareFaultsParams { faults: vec![FaultDeclaration { deadline: p.dl, partition: p.idx, sectors: bf(&ss) }] };
        let (worker, addr) = (self.miners[m].worker, self.miners[m].addr);
        let res = self.send("declare_faults", format!("m{} dl{} p{} {:?}", m, p.dl, p.idx, ss), &worker, &addr, MM::DeclareFaults as u64, Some(params));
        if code(&res) == 0 { bump(self.cnt, "fault_declarations", 1); }
        true
    }

    fn op_declare_recovered(&mut self, m: usize, r: &mut Prng) -> bool {
        let p = match self.pick_part(m, r, |p| !(&p.faults - &p.recoveries).is_empty(), |p| self.cutoff_open(m, p.dl)) { Some(p) => p, None => return false };
        let cand = bits(&(&p.faults - &p.recoveries));
        let ss = subset(r, &cand);
        let params = DeclareFaultsRecoveredParams { recoveries: vec![RecoveryDeclaration { deadline: p.dl, partition: p.idx, sectors: bf(&ss) }] };
        let (worker, addr) = (self.miners[m].worker, self.miners[m].addr);
        let res = self.send("declare_recovered", format!("m{} dl{} p{} {:?}", m, p.dl, p.idx, ss), &worker, &addr, MM::DeclareFaultsRecovered as u64, Some(params));
        if code(&res) == 0 { bump(self.cnt, "recovery_declarations", 1); }
        true
    }

    fn is_mutable(&self, m: usize, dl: u64) -> bool {
        deadline_is_mutable(&self.policy, self.dlinfo(m).period_start, dl, self.epoch())
    }

    fn op_terminate(&mut self, m: usize, r: &mut Prng, diligence: u64) -> bool {
        if self.terminate_multi(m, r, diligence, false) {
            return true;
        }
        let p = match self.pick_part(m, r, |p| !p.live.is_empty(), |p| self.is_mutable(m, p.dl)) { Some(p) => p, None => return false };
        let ss = subset(r, &bits(&p.live));
        let params = TerminateSectorsParams { terminations: vec![TerminationDeclaration { deadline: p.dl, partition: p.idx, sectors: bf(&ss) }] };
        let (worker, addr) = (self.miners[m].worker, self.miners[m].addr);
        let exact = self.limit_exactly(r, ss.len() as u64);
        let res = self.send("terminate", format!("m{} dl{} p{} {:?}{}", m, p.dl, p.idx, ss, if exact { " [addressed_sectors_max = number of sectors]" } else { "" }), &worker, &addr, MM::TerminateSectors as u64, Some(params));
        self.limit_restore(exact, code(&res) == 0);
        if code(&res) == 0 {
            bump(self.cnt, "terminations", 1);
            bump(self.cnt, "sectors_terminated", ss.len() as u64);
            if r.chance(70) {
                // cron processes the remaining early terminations
                self.tick(r, diligence);
            }
        }
        true
    }

    /// 1 termination in 3: for the duration of the message, policy.addressed_sectors_max is lowered to the
    /// number of sectors declared, so that the early-termination batch processed inside the handler hits
    /// the limit exactly at the end of the last deadline it touches.
    fn limit_exactly(&mut self, r: &mut Prng, n: u64) -> bool {
        if n == 0 || !r.chance(34) {
            return false;
        }
        self.v.policy.addressed_sectors_max = n;
        true
    }

    fn limit_restore(&mut self, exact: bool, accepted: bool) {
        if exact {
            self.v.policy.addressed_sectors_max = self.policy.addressed_sectors_max;
            if accepted { bump(self.cnt, "terminations_with_batch_limit_hit_exactly", 1); }
        }
    }

    /// Returns true when a multi-deadline TerminateSectors message was sent.
    fn terminate_multi(&mut self, m: usize, r: &mut Prng, diligence: u64, force: bool) -> bool {
        // One TerminateSectors message addressing several deadlines (the handler accumulates the power
        // delta over the deadlines it touches): preferred when active sectors sit in 2+ mutable deadlines.
        let mut by_dl: BTreeMap<u64, Vec<PartView>> = BTreeMap::new();
        for p in self.views[m].parts.iter().filter(|p| !p.live.is_empty() && self.is_mutable(m, p.dl)) {
            by_dl.entry(p.dl).or_default().push(p.clone());
        }
        let with_active: Vec<u64> = by_dl.iter().filter(|(_, ps)| ps.iter().any(|p| !p.active.is_empty())).map(|(d, _)| *d).collect();
        if with_active.len() >= 2 && (force || r.chance(75)) {
            let k = 2 + r.below((with_active.len() as u64 - 1).min(2)) as usize;
            let mut dls = with_active.clone();
            // deterministic shuffle
            for i in (1..dls.len()).rev() { let j = r.below(i as u64 + 1) as usize; dls.swap(i, j); }
            dls.truncate(k);
            dls.sort();
            let mut terminations = vec![];
            let mut note = vec![];
            let mut total = 0u64;
            for d in &dls {
                let ps = &by_dl[d];
                let cands: Vec<&PartView> = ps.iter().filter(|p| !p.active.is_empty()).collect();
                let p = *r.pick(&cands);
                let pool = if r.chance(80) { bits(&p.active) } else { bits(&p.live) };
                let ss = subset(r, &pool);
                total += ss.len() as u64;
                note.push(format!("dl{} p{} {:?}", p.dl, p.idx, ss));
                terminations.push(TerminationDeclaration { deadline: p.dl, partition: p.idx, sectors: bf(&ss) });
            }
            let params = TerminateSectorsParams { terminations };
            let (worker, addr) = (self.miners[m].worker, self.miners[m].addr);
            let exact = self.limit_exactly(r, total);
            let res = self.send("terminate_multi_deadline", format!("m{} {}{}", m, note.join(" + "), if exact { " [addressed_sectors_max = number of sectors]" } else { "" }), &worker, &addr, MM::TerminateSectors as u64, Some(params));
            self.limit_restore(exact, code(&res) == 0);
            if code(&res) == 0 {
                bump(self.cnt, "terminations", 1);
                bump(self.cnt, "terminations_spanning_2plus_deadlines", 1);
                bump(self.cnt, "sectors_terminated", total);
                if r.chance(70) {
                    self.tick(r, diligence);
                }
            }
            return true;
        }
        false
    }

    fn op_extend(&mut self, m: usize, r: &mut Prng) -> bool {
        self.extend(m, r, false)
    }

    /// Scripted prelude of the 2KiB cases: 5-6 sectors NI-committed into ONE mutable deadline (3 partitions
    /// of 2 sectors), one proving period of complete PoSts, then ONE ExtendSectorExpiration2 with
    /// declarations for two or three partitions of that deadline.
    fn scenario_two_partition_extension(&mut self, m: usize, r: &mut Prng) {
        let mutable = self.mutable_deadlines(m);
        if mutable.is_empty() {
            return;
        }
        let d = *r.pick(&mutable);
        self.op_ni_at(m, r, Some(d));
        self.op_ni_at(m, r, Some(d));
        self.op_ni_at(m, r, Some(d));
        let per = self.policy.wpost_period_deadlines * self.miners.len() as u64;
        let extra = r.below(per / 2 + 1);
        self.advance(r, per + extra, 100);
        let before = *self.cnt.get("extensions_of_2plus_partitions_of_one_deadline").unwrap_or(&0);
        self.extend(m, r, true);
        if *self.cnt.get("extensions_of_2plus_partitions_of_one_deadline").unwrap_or(&0) > before {
            bump(self.cnt, "scripted_two_partition_extensions", 1);
        }
    }

    fn extend(&mut self, m: usize, r: &mut Prng, force_multi: bool) -> bool {
        let multi_dl = |p: &PartView| self.views[m].parts.iter().any(|q| q.dl == p.dl && q.idx != p.idx && !q.active.is_empty());
        let p = if force_multi {
            let c: Vec<PartView> = self.views[m].parts.iter().filter(|p| !p.active.is_empty() && self.is_mutable(m, p.dl) && multi_dl(p)).cloned().collect();
            if c.is_empty() { None } else { Some((*r.pick(&c)).clone()) }
        } else { None };
        let p = match p { Some(p) => p, None => match self.pick_part(m, r, |p| !p.active.is_empty(), |p| self.is_mutable(m, p.dl)) { Some(p) => p, None => return false } };
        // one message with declarations for several partitions of the SAME deadline (the handler groups
        // the declarations by deadline and re-registers every touched partition at the new epoch)
        let mut chosen: Vec<PartView> = vec![p.clone()];
        let others: Vec<PartView> = self.views[m].parts.iter().filter(|q| q.dl == p.dl && q.idx != p.idx && !q.active.is_empty()).cloned().collect();
        if !others.is_empty() && (force_multi || r.chance(75)) {
            let k = 1 + r.below((others.len() as u64).min(2)) as usize;
            let mut o = others;
            for i in (1..o.len()).rev() { let j = r.below(i as u64 + 1) as usize; o.swap(i, j); }
            o.truncate(k);
            chosen.extend(o);
            chosen.sort_by_key(|q| q.idx);
        }
        let e = self.epoch();
        let mut picked: Vec<(PartView, Vec<u64>)> = vec![];
        let mut max_old = e;
        let mut first = true;
        for q in chosen {
            let pool = if r.chance(90) { bits(&q.active) } else { bits(&q.live) };
            let ss = subset(r, &pool);
            let mo = q.infos.iter().filter(|i| ss.contains(&i.sector_number)).map(|i| i.expiration).max().unwrap_or(e);
            max_old = if first { mo } else { max_old.max(mo) };
            first = false;
            picked.push((q, ss));
        }
        let add = match r.below(10) { 0..=3 => EPOCHS_IN_DAY, 4..=7 => 30 * EPOCHS_IN_DAY, 8 => 300 * EPOCHS_IN_DAY, _ => -10 };
        let new_expiration = (max_old + add).min(e + self.policy.max_sector_expiration_extension);
        let mut extensions = vec![];
        let mut note = vec![];
        for (q, ss) in &picked {
            let mut plain = vec![];
            let mut with_claims = vec![];
            for s in ss {
                let info = q.infos.iter().find(|i| i.sector_number == *s).unwrap();
                match self.miners[m].claims.get(s) {
                    Some(c) if info.verified_deal_weight.is_positive() => with_claims.push(SectorClaim { sector_number: *s, maintain_claims: c.clone(), drop_claims: vec![] }),
                    _ => plain.push(*s),
                }
            }
            note.push(format!("dl{} p{} {:?}", q.dl, q.idx, ss));
            extensions.push(ExpirationExtension2 { deadline: q.dl, partition: q.idx, sectors: bf(&plain), sectors_with_claims: with_claims, new_expiration });
        }
        let n = extensions.len();
        let params = ExtendSectorExpiration2Params { extensions };
        let (worker, addr) = (self.miners[m].worker, self.miners[m].addr);
        let kind = if n > 1 { "extend_multi_partition" } else { "extend" };
        let res = self.send(kind, format!("m{} {} -> {}", m, note.join(" + "), new_expiration), &worker, &addr, MM::ExtendSectorExpiration2 as u64, Some(params));
        if code(&res) == 0 {
            bump(self.cnt, "extensions", 1);
            if n > 1 { bump(self.cnt, "extensions_of_2plus_partitions_of_one_deadline", 1); }
        }
        true
    }

    fn op_replica_update(&mut self, m: usize, r: &mut Prng) -> bool {
        let e = self.epoch();
        // sectors past their expiration epoch (awaiting the deadline-end cron) only 1 time in 10
        let allow_expired = r.chance(10);
        let is_cc = |i: &SectorOnChainInfo| i.deal_weight.is_zero() && i.verified_deal_weight.is_zero() && (allow_expired || i.expiration > e);
        // VERIF_MP_DISPUTE_BIAS=1 (witness search, off in ./check): prefer sectors of a deadline whose last,
        // optimistically accepted PoSt carried an invalid proof and is still open to dispute
        let bias = std::env::var("VERIF_MP_DISPUTE_BIAS").is_ok();
        let open_disputes: Vec<u64> = self.miners[m].invalid_posts.iter().filter(|(_, close)| *close <= e).map(|(d, _)| *d).collect();
        let p = match self.pick_part(m, r, |p| p.infos.iter().any(|i| p.active.get(i.sector_number) && is_cc(i)), |p| self.is_mutable(m, p.dl) && (!bias || open_disputes.contains(&p.dl))) { Some(p) => p, None => return false };
        let cands: Vec<&SectorOnChainInfo> = p.infos.iter().filter(|i| p.active.get(i.sector_number) && is_cc(i)).collect();
        let info = (*r.pick(&cands)).clone();
        let s = info.sector_number;
        let what = if r.chance(50) { 2 } else { 1 };
        let (pieces, claims) = self.make_pieces(m, s, what, "ru");
        if pieces.is_empty() {
            return true;
        }
        let params = ProveReplicaUpdates3Params {
            sector_updates: vec![SectorUpdateManifest { sector: s, deadline: p.dl, partition: p.idx, new_sealed_cid: make_sealed_cid(format!("ru: {} {}", m, s).as_bytes()), pieces }],
            sector_proofs: vec![RawBytes::new(vec![1, 2, 3, 4])],
            aggregate_proof: RawBytes::default(),
            update_proofs_type: info.seal_proof.registered_update_proof().unwrap(),
            aggregate_proof_type: None,
            require_activation_success: true,
            require_notification_success: false,
        };
        let (worker, addr) = (self.miners[m].worker, self.miners[m].addr);
        let res = self.send("replica_update", format!("m{} dl{} p{} sector {} ({})", m, p.dl, p.idx, s, if what == 2 { "verified" } else { "unverified" }), &worker, &addr, MM::ProveReplicaUpdates3 as u64, Some(params));
        if code(&res) == 0 {
            bump(self.cnt, "replica_updates", 1);
            if info.expiration <= e {
                bump(self.cnt, "replica_updates_at_or_after_expiration_epoch", 1);
                self.rebased_after_expiry.insert(s);
            }
            if !claims.is_empty() { self.miners[m].claims.insert(s, claims); }
            if bias && open_disputes.contains(&p.dl) {
                self.op_dispute(m, r);
            }
        }
        true
    }

    fn op_compact(&mut self, m: usize, r: &mut Prng) -> bool {
        let info = self.dlinfo(m);
        let ok = |p: &PartView| deadline_available_for_compaction(&self.policy, info.period_start, p.dl, self.epoch());
        let with_term = self.views[m].parts.iter().any(|p| ok(p) && !p.terminated.is_empty() && p.faults.is_empty() && p.unproven.is_empty());
        let p = match self.pick_part(m, r, |_| true, |p| ok(p) && p.faults.is_empty() && p.unproven.is_empty() && (!with_term || !p.terminated.is_empty())) { Some(p) => p, None => return false };
        let idxs: Vec<u64> = self.views[m].parts.iter().filter(|q| q.dl == p.dl).map(|q| q.idx).collect();
        let params = CompactPartitionsParams { deadline: p.dl, partitions: bf(&idxs) };
        let (worker, addr) = (self.miners[m].worker, self.miners[m].addr);
        let res = self.send("compact", format!("m{} dl{} partitions {:?}", m, p.dl, idxs), &worker, &addr, MM::CompactPartitions as u64, Some(params));
        if code(&res) == 0 {
            bump(self.cnt, "compactions", 1);
            if !p.terminated.is_empty() { bump(self.cnt, "compactions_removing_terminated_sectors", 1); }
        }
        true
    }

    fn op_dispute(&mut self, m: usize, r: &mut Prng) -> bool {
        if self.miners[m].invalid_posts.is_empty() {
            return false;
        }
        let e = self.epoch();
        let closed: Vec<usize> = (0..self.miners[m].invalid_posts.len()).filter(|i| self.miners[m].invalid_posts[*i].1 <= e).collect();
        if closed.is_empty() && r.chance(90) {
            return false;
        }
        let i = if closed.is_empty() { 0 } else { *r.pick(&closed) };
        let (dl, _) = self.miners[m].invalid_posts[i];
        let params = DisputeWindowedPoStParams { deadline: dl, post_index: 0 };
        let (disputer, addr) = (self.disputer, self.miners[m].addr);
        // Sectors of this deadline that are active now and whose power in the deadline's sector snapshot
        // (taken at the last deadline end; the dispute handler records faults with THOSE infos) differs
        // from their power in the current sector table.
        let stale: Vec<(u64, u64, String, String)> = {
            let store = self.v.store.as_ref();
            let st: MinerState = get_state(&self.v, &addr).unwrap();
            let dls = st.load_deadlines(store).unwrap();
            let d = dls.load_deadline(store, dl).unwrap();
            let ss = self.miners[m].sector_size;
            let mut out = vec![];
            if let Ok(snap) = Sectors::load(store, &d.sectors_snapshot) {
                for p in self.views[m].parts.iter().filter(|p| p.dl == dl) {
                    for i in p.infos.iter().filter(|i| p.active.get(i.sector_number)) {
                        if let Ok(Some(old)) = snap.get(i.sector_number) {
                            let (a, b) = (power_for_sectors(ss, std::slice::from_ref(&old)), power_for_sectors(ss, std::slice::from_ref(i)));
                            if a != b {
                                out.push((p.idx, i.sector_number, pp(&a), pp(&b)));
                            }
                        }
                    }
                }
            }
            out
        };
        // send() runs the monitors: the diagnosis must be in place before, and is withdrawn when the
        // dispute is rejected or none of the stale sectors was declared faulty by it
        let before = self.tainted.clone();
        if !stale.is_empty() && self.tainted.is_none() {
            self.tainted = Some(format!("DisputeWindowedPoSt m{} dl{}: (partition, sector, power in snapshot, power now) = {:?}", m, dl, stale));
        }
        let nfails = self.fails.len();
        let res = self.send("dispute", format!("m{} dl{}", m, dl), &disputer, &addr, MM::DisputeWindowedPoSt as u64, Some(params));
        let hit = code(&res) == 0 && stale.iter().any(|(pi, s, _, _)| self.views[m].parts.iter().any(|p| p.dl == dl && p.idx == *pi && p.faults.get(*s)));
        if !hit && before.is_none() {
            // not the diagnosed cause: whatever the monitors reported goes back under its own class
            self.tainted = None;
            let moved: Vec<Value> = self.fails.drain(nfails..).collect();
            self.reported.remove(DISPUTE_SNAPSHOT_CLASS);
            for f in moved {
                let class = f["detail"]["first_symptom_class"].as_str().unwrap_or("?").to_string();
                let what: Vec<String> = f["what"].as_array().map(|a| a.iter().map(|x| x.as_str().unwrap_or("").to_string()).collect()).unwrap_or_default();
                self.fail(&class, what, f["detail"]["detail"].clone());
            }
        } else if hit && before.is_none() {
            bump(self.cnt, "histories_with_dispute_recording_faults_with_stale_snapshot_power", 1);
        }
        if code(&res) == 0 {
            bump(self.cnt, "disputes_succeeded", 1);
            self.miners[m].invalid_posts.remove(i);
        }
        true
    }
}

impl<'a> Run<'a> {
    /// `--probe 1`: deterministic scenario around the expiration EPOCH of a sector (which stays live
    /// until the cron at the end of its deadline): two NI sectors A, B with expiration E, proven; at
    /// epoch E: ExtendSectorExpiration2(A, new_expiration = E) and ProveReplicaUpdates3(B); at E + 1:
    /// ProveReplicaUpdates3(A). Results go to stats.extra["probe_expiration_epoch"].
    fn probe_expiration_epoch(&mut self, r: &mut Prng) {
        let m = 0usize;
        let e0 = self.epoch();
        let nd = self.policy.wpost_period_deadlines;
        let d = (self.dlinfo(m).index + 10) % nd;
        let pps = self.views[m].pps;
        let mut ex = e0 + self.policy.min_sector_expiration + 1;
        loop {
            let inf = new_deadline_info_from_offset_and_epoch(&self.policy, pps, ex);
            if deadline_is_mutable(&self.policy, inf.period_start, d, ex) && deadline_is_mutable(&self.policy, inf.period_start, d, ex + 1) && inf.last() > ex + 1 {
                break;
            }
            ex += 1;
        }
        let (a, b) = (100u64, 101u64);
        let mid = self.miners[m].addr.id().unwrap();
        let sectors: Vec<SectorNIActivationInfo> = [a, b].iter().map(|s| SectorNIActivationInfo {
            sealing_number: *s, sealer_id: mid, sealed_cid: make_sealed_cid(format!("probe {}", s).as_bytes()), sector_number: *s, seal_rand_epoch: e0 - 1, expiration: ex,
        }).collect();
        let params = ProveCommitSectorsNIParams { sectors, aggregate_proof: RawBytes::new(vec![1, 2, 3, 4]), seal_proof_type: self.seal_ni, aggregate_proof_type: RegisteredAggregateProof::SnarkPackV2, proving_deadline: d, require_activation_success: true };
        let (worker, addr) = (self.miners[m].worker, self.miners[m].addr);
        let r0 = self.send("prove_commit_ni", format!("probe [{}, {}] dl{} expiration {}", a, b, d, ex), &worker, &addr, MM::ProveCommitSectorsNI as u64, Some(params));
        let mut out = vec![json!({"op": "ProveCommitSectorsNI", "epoch": e0, "expiration": ex, "code": code(&r0), "message": r0.message})];
        while self.next_boundary() < ex {
            self.advance(r, 1, 100);
        }
        self.v.set_epoch(ex);
        let part = self.views[m].parts.iter().find(|p| p.sectors.get(a)).cloned();
        if let Some(p) = part {
            out.push(json!({"at": ex, "active": bits(&p.active), "faults": bits(&p.faults), "unproven": bits(&p.unproven), "claim": self.views[m].claim.as_ref().map(|c| format!("({}, {})", c.0, c.1))}));
            let params = ExtendSectorExpiration2Params { extensions: vec![ExpirationExtension2 { deadline: p.dl, partition: p.idx, sectors: bf(&[a]), sectors_with_claims: vec![], new_expiration: ex }] };
            let r1 = self.send("extend", format!("probe sector {} new_expiration == expiration == now {}", a, ex), &worker, &addr, MM::ExtendSectorExpiration2 as u64, Some(params));
            out.push(json!({"op": "ExtendSectorExpiration2 at epoch == expiration, new_expiration == expiration", "epoch": ex, "code": code(&r1), "message": r1.message}));
            let ssize = self.miners[m].sector_size as u64;
            let upd = |s: u64, tag: &str| ProveReplicaUpdates3Params {
                sector_updates: vec![SectorUpdateManifest { sector: s, deadline: p.dl, partition: p.idx, new_sealed_cid: make_sealed_cid(format!("probe ru {} {}", s, tag).as_bytes()),
                    pieces: vec![PieceActivationManifest { cid: make_piece_cid(format!("probe piece {} {}", s, tag).as_bytes()), size: PaddedPieceSize(ssize), verified_allocation_key: None, notify: vec![] }] }],
                sector_proofs: vec![RawBytes::new(vec![1, 2, 3, 4])],
                aggregate_proof: RawBytes::default(),
                update_proofs_type: SEAL_NI.registered_update_proof().unwrap(),
                aggregate_proof_type: None,
                require_activation_success: true,
                require_notification_success: false,
            };
            let pb = upd(b, "b");
            let r2 = self.send("replica_update", format!("probe sector {} at epoch == expiration {}", b, ex), &worker, &addr, MM::ProveReplicaUpdates3 as u64, Some(pb));
            out.push(json!({"op": "ProveReplicaUpdates3 at epoch == expiration", "epoch": ex, "code": code(&r2), "message": r2.message}));
            self.v.set_epoch(ex + 1);
            let pa = upd(a, "a");
            let r3 = self.send("replica_update", format!("probe sector {} at epoch == expiration + 1 {}", a, ex + 1), &worker, &addr, MM::ProveReplicaUpdates3 as u64, Some(pa));
            if code(&r3) == 0 { self.rebased_after_expiry.insert(a); }
            out.push(json!({"op": "ProveReplicaUpdates3 at epoch == expiration + 1", "epoch": ex + 1, "code": code(&r3), "message": r3.message}));
            let infos: Vec<Value> = self.views[m].parts.iter().flat_map(|p| p.infos.iter()).filter(|i| i.sector_number == a || i.sector_number == b)
                .map(|i| json!({"sector": i.sector_number, "activation": i.activation, "power_base_epoch": i.power_base_epoch, "expiration": i.expiration, "deal_weight": i.deal_weight.to_string()})).collect();
            out.push(json!({"sector_infos_after": infos, "claim": self.views[m].claim.as_ref().map(|c| format!("({}, {})", c.0, c.1))}));
            // let the deadline close: both sectors expire
            self.advance(r, nd, 100);
            out.push(json!({"after_one_more_period": {"live": self.views[m].nlive, "claim": self.views[m].claim.as_ref().map(|c| format!("({}, {})", c.0, c.1))}}));
        } else {
            out.push(json!({"error": "probe sector not found in any partition"}));
        }
        out.push(json!({"panics": self.stats.panics.clone()}));
        self.stats.extra.insert("probe_expiration_epoch".to_string(), json!(out));
    }
}

// ---------------------------------------------------------------------------------------------
// one case
// ---------------------------------------------------------------------------------------------
fn run_case(seed: u64, index: usize, len: usize, r: &mut Prng, stats: &mut Stats, cnt: &mut BTreeMap<String, u64>, mutate: bool, probe: bool) -> (Vec<Value>, BTreeSet<String>) {
    let mut v = new_world();
    // case parameters
    // 1 case in 25: one miner, default lifetimes, and at the end of the case the clock is advanced
    // deadline by deadline until the first sector expires naturally (>= 10080 deadline crons)
    let long_haul = !probe && r.chance(4);
    let n_miners = if long_haul || probe { 1 } else { 1 + r.below(2) as usize };
    let short_life = probe || (!long_haul && r.chance(35));
    let diligence = *r.pick(&[45u64, 70, 85, 93]);
    let min_power_sectors = *r.pick(&[0u64, 2, 3, 320]);
    if short_life {
        // natural expiry is out of reach with the default 180-day minimum lifetime (>= 8640 deadline
        // crons); NI sectors of these cases live a little more than 2 proving periods
        v.policy.min_sector_expiration = 2 * v.policy.wpost_proving_period;
    }
    // 1 case in 4: 2KiB proofs, i.e. partitions of 2 sectors, so that deadlines hold several partitions
    let small = !probe && !long_haul && index % 4 == 1;
    let (seal, seal_ni, wpost) = if small {
        (RegisteredSealProof::StackedDRG2KiBV1P1, RegisteredSealProof::StackedDRG2KiBV1P2_Feat_NiPoRep, RegisteredPoStProof::StackedDRGWindow2KiBV1P1)
    } else {
        (SEAL, SEAL_NI, WPOST)
    };
    let unit: u64 = if small { 2 << 10 } else { 32u64 << 30 };
    if small {
        v.policy.valid_pre_commit_proof_type.insert(seal);
        v.policy.valid_prove_commit_ni_proof_type.insert(seal_ni);
        v.policy.valid_post_proof_type.insert(wpost);
        // (verified allocations are below the registry's minimum size with 2KiB sectors: these cases carry
        // unverified data only)
        // a deadline's partitions are all proven in one message
        v.policy.posted_partitions_max = 64;
        bump(cnt, "cases_2KiB_proofs_partitions_of_2_sectors", 1);
    }
    if min_power_sectors > 0 {
        v.policy.minimum_consensus_power = BigInt::from(min_power_sectors) * BigInt::from(unit);
    }
    let policy = v.policy.clone();
    override_compute_unsealed_sector_cid(&v);
    let accts = create_accounts(&v, 5, &TokenAmount::from_whole(100_000));
    let (verifier, client, disputer) = (accts[2], accts[3], accts[4]);
    let mut miners = vec![];
    for i in 0..n_miners {
        let owner = accts[i];
        let (addr, _) = create_miner(&v, &owner, &owner, wpost, &TokenAmount::from_whole(1_000_000));
        let sector_size = miner_info(&v, &addr).sector_size;
        miners.push(MinerCtl {
            addr,
            worker: owner,
            sector_size,
            next_sector: 100,
            delta: (BigInt::zero(), BigInt::zero()),
            pending: vec![],
            claims: BTreeMap::new(),
            decided_open: -1,
            submitted: BTreeSet::new(),
            invalid_posts: vec![],
        });
        // different proving-period phases for the two miners
        v.set_epoch(v.epoch() + 37);
    }
    // datacap
    let cap: BigInt = BigInt::from(32u64 << 30) * BigInt::from(100_000u64);
    let rr = exec(&v, &TEST_VERIFREG_ROOT_ADDR, &VERIFIED_REGISTRY_ACTOR_ADDR, &TokenAmount::zero(), VrMethod::AddVerifier as u64, Some(VerifierParams { address: verifier, allowance: cap.clone() }));
    assert_eq!(code(&rr), 0, "AddVerifier: {}", rr.message);
    let rr = exec(&v, &verifier, &VERIFIED_REGISTRY_ACTOR_ADDR, &TokenAmount::zero(), VrMethod::AddVerifiedClient as u64, Some(VerifierParams { address: client, allowance: cap }));
    assert_eq!(code(&rr), 0, "AddVerifiedClient: {}", rr.message);
    v.set_epoch(200 + r.below(3000) as i64);

    let case_id = json!({"seed": seed, "index": index, "len": len, "miners": n_miners, "short_life": short_life, "long_haul": long_haul, "diligence": diligence, "min_power_sectors": min_power_sectors, "small_sectors": small});
    let mut run = Run {
        v,
        policy,
        miners,
        views: vec![],
        client,
        disputer,
        stats,
        cnt,
        fails: vec![],
        reported: BTreeSet::new(),
        oplog: vec![],
        step: 0,
        case_id,
        mutate,
        filtered: BTreeSet::new(),
        rebased_after_expiry: BTreeSet::new(),
        tainted: None,
        seal,
        seal_ni,
        wpost,
        small,
    };
    run.drain();
    run.monitor("setup");
    if short_life { bump(run.cnt, "cases_short_life_policy", 1); }
    if probe {
        run.probe_expiration_epoch(r);
        run.repo_invariants();
        return (run.fails, run.filtered);
    }

    if index % 3 == 0 {
        let m = r.below(n_miners as u64) as usize;
        run.scenario_two_deadline_termination(m, r);
    }
    if small {
        let m = r.below(n_miners as u64) as usize;
        run.scenario_two_partition_extension(m, r);
    }

    for step in 0..len {
        run.step = step;
        let m = r.below(n_miners as u64) as usize;
        let view = run.views[m].clone();
        let e = run.epoch();
        let delay = run.policy.pre_commit_challenge_delay;
        let has_pending = !run.miners[m].pending.is_empty();
        let ready = run.miners[m].pending.iter().any(|p| e > p.epoch + delay);
        let any_live = run.views.iter().any(|v| v.nlive > 0);
        let has_faults = view.parts.iter().any(|p| !p.faults.is_empty());
        let room = view.nlive + run.miners[m].pending.iter().map(|p| p.sectors.len()).sum::<usize>() < MAX_SECTORS_PER_MINER;
        // weights
        let mut w: Vec<(&str, u64)> = vec![];
        if room { w.push(("precommit", if view.nlive == 0 && !has_pending { 40 } else { 9 })); w.push(("ni", if short_life { 12 } else { 5 })); }
        if has_pending { w.push(("prove", if ready { 40 } else { 2 })); }
        w.push(("advance", if any_live || has_pending { 34 } else { 6 }));
        let near_expiry = run.views.iter().any(|v| v.parts.iter().any(|p| p.infos.iter().any(|i| i.expiration < e + 4 * run.policy.wpost_proving_period)));
        if near_expiry { w.push(("advance_period", 30)); }
        if view.nlive > 0 {
            w.push(("faults", 7));
            if has_faults { w.push(("recover", 12)); }
            w.push(("terminate", 4));
            w.push(("extend", 5));
            w.push(("replica", 5));
            w.push(("compact", if view.parts.iter().any(|p| !p.terminated.is_empty()) { 10 } else { 1 }));
        }
        if !run.miners[m].invalid_posts.is_empty() { w.push(("dispute", 14)); }
        let total: u64 = w.iter().map(|x| x.1).sum();
        let mut roll = r.below(total);
        let mut choice = w[0].0;
        for (k, wt) in &w {
            if roll < *wt { choice = *k; break; }
            roll -= wt;
        }
        run.oplog.push(format!("--- step {} : {} (m{})", step, choice, m));
        let done = match choice {
            "precommit" => { run.op_precommit(m, r); true }
            "ni" => { run.op_ni(m, r); true }
            "prove" => { run.op_prove(m, r); true }
            "faults" => run.op_declare_faults(m, r),
            "recover" => run.op_declare_recovered(m, r),
            "terminate" => run.op_terminate(m, r, diligence),
            "extend" => run.op_extend(m, r),
            "replica" => run.op_replica_update(m, r),
            "compact" => run.op_compact(m, r),
            "dispute" => run.op_dispute(m, r),
            _ => false,
        };
        if !done {
            // advance time by whole deadlines
            let per = run.policy.wpost_period_deadlines * n_miners as u64;
            let ticks = if choice == "advance_period" || (near_expiry && r.chance(30)) {
                per
            } else {
                match r.below(100) {
                    0..=19 => 1,
                    20..=49 => 2 + r.below(3),
                    50..=69 => 4 + r.below(6),
                    70..=93 => {
                        // up to the close of the next deadline holding live sectors of some miner
                        let mut best = per;
                        for mi in 0..n_miners {
                            let cur = run.dlinfo(mi).index;
                            for p in run.views[mi].parts.iter().filter(|p| !p.live.is_empty()) {
                                let dist = (p.dl + run.policy.wpost_period_deadlines - cur) % run.policy.wpost_period_deadlines + 1;
                                best = best.min(dist * n_miners as u64);
                            }
                        }
                        best
                    }
                    _ => per,
                }
            };
            run.advance(r, ticks, diligence);
            if r.chance(50) { run.nudge(r); }
        }
        run.repo_invariants();
    }
    if long_haul {
        bump(run.cnt, "cases_long_haul", 1);
        let target = run.views[0].parts.iter().flat_map(|p| p.infos.iter().map(|i| i.expiration)).min();
        if let Some(t) = target {
            run.oplog.push(format!("--- long haul to the first expiration {}", t));
            let mut guard = 0u64;
            while run.epoch() <= t + 2 * run.policy.wpost_proving_period && guard < 12_000 {
                run.advance(r, 48, diligence);
                guard += 48;
                if guard % 960 == 0 { run.repo_invariants(); }
            }
            run.repo_invariants();
        }
    }
    (run.fails, run.filtered)
}

fn main() {
    let a = cf::parse_args();
    let mut stats = Stats::default();
    let header = "From VF Require Import Base.Corr.\nFrom Coq Require Import ZArith List.\nImport ListNotations.\nOpen Scope Z_scope.\n";
    let cw = CaseWriter::new(&a.out, header, "check_case", a.shards);
    let mutate = a.rest.get("mutate").map(|x| x == "1").unwrap_or(false);
    let probe = a.rest.get("probe").map(|x| x == "1").unwrap_or(false);
    let mut only: Option<usize> = a.rest.get("only").map(|x| x.parse().unwrap());
    let (mut seed, mut cases, mut len) = (a.seed, a.cases, a.len);
    if let Some(p) = &a.replay {
        let v: Value = serde_json::from_str(&std::fs::read_to_string(p).unwrap()).unwrap();
        let id = if v["case"]["id"].is_object() { v["case"]["id"].clone() } else { v["case"].clone() };
        seed = id["seed"].as_u64().unwrap();
        len = id["len"].as_u64().unwrap() as usize;
        let k = id["index"].as_u64().unwrap() as usize;
        only = Some(k);
        cases = k + 1;
    }
    let mut cnt: BTreeMap<String, u64> = BTreeMap::new();
    for k in ["posts_with_skipped_sectors", "missed_deadlines_with_active_power", "recoveries_completed", "failed_recoveries", "terminations", "extensions", "replica_updates", "compactions", "expirations_observed_on_time", "expirations_observed_early_by_cron", "max_sectors_per_miner", "update_claimed_power_sends_observed", "monitor_evaluations"] {
        cnt.insert(k.to_string(), 0);
    }
    let mut filtered_all: BTreeSet<String> = BTreeSet::new();
    let mut root = Prng::new(seed);
    let t0 = std::time::Instant::now();
    let mut ran = 0u64;
    if probe {
        let mut r = root.fork(u64::MAX);
        let (fails, filtered) = run_case(seed, usize::MAX, 0, &mut r, &mut stats, &mut cnt, false, true);
        for f in fails { stats.monitor_fail(f); }
        filtered_all.extend(filtered);
        cases = 0;
    }
    for k in 0..cases {
        let mut r = root.fork(k as u64);
        if let Some(o) = only { if o != k { continue; } }
        let (fails, filtered) = run_case(seed, k, len, &mut r, &mut stats, &mut cnt, mutate, false);
        for f in fails { stats.monitor_fail(f); }
        filtered_all.extend(filtered);
        ran += 1;
    }
    let secs = t0.elapsed().as_secs_f64();
    for (k, v) in &cnt {
        stats.extra.insert(k.clone(), json!(v));
    }
    stats.extra.insert("cases_run".into(), json!(ran));
    stats.extra.insert("steps_per_case".into(), json!(len));
    stats.extra.insert("seconds_total".into(), json!(secs));
    stats.extra.insert("seconds_per_case".into(), json!(if ran > 0 { secs / ran as f64 } else { 0.0 }));
    stats.extra.insert("repo_invariant_messages_filtered_patterns".into(), json!(filtered_all));
    stats.extra.insert("monitor_mutated".into(), json!(mutate));
    cw.finish(&stats, "minerpower");
}
