//! C17 (word level) correspondence harness: every arithmetic / comparison / bitwise / shift
//! instruction of the REAL EVM interpreter (actors/evm) against coq/Model/EvmSpec.v (`spec_ops`) and
//! coq/Model/EvmWord.v (`impl_ops`).
//!
//! For each instruction one contract is deployed through the real EAM (`CreateExternal` with init code
//! that returns the runtime code) on the harness VM:
//!     PUSH1 0x40 CALLDATALOAD  PUSH1 0x20 CALLDATALOAD  PUSH0 CALLDATALOAD   (as many as the arity)
//!     OP  PUSH0 MSTORE  PUSH1 0x20 PUSH0 RETURN
//! and invoked with `InvokeContract`, the operands in the call data (first word = top of the stack).
//! A sample of the cases (every `--imm-every`-th chunk of `--len` cases) is ALSO executed in the
//! immediate form, batched into one fresh contract per chunk
//!     { PUSH32 c PUSH32 b PUSH32 a OP PUSH2 32*i MSTORE }*  PUSH2 32*n PUSH0 RETURN
//! and must return the same words (a deployment through the EAM costs ~50 ms on the harness VM, so
//! not every case gets its own contract).
//! Operands: all pairs / triples of a boundary set, plus seeded random words of several shapes.
//! The cases files make Coq evaluate `apply_op spec_ops` and `apply_op impl_ops` on the same operands
//! and compare both with the returned 32-byte word (coq/Model/EvmWordCorr.v: the step carries the
//! returned word, the observation is [] iff both evaluations equal it).
//! Monitor: an independent big-integer evaluation of the Ethereum definition of the instruction in
//! Rust (so that a wrong result is reported with a replayable input even before Coq runs).
use fil_actor_evm::interpreter::opcodes as oc;
use fil_actors_runtime::EAM_ACTOR_ADDR;
use fvm_ipld_encoding::{BytesDe, BytesSer};
use fvm_shared::address::Address;
use fvm_shared::bigint::{BigInt, Integer, Sign};
use fvm_shared::econ::TokenAmount;
use num_traits::{One, Signed, Zero};
use serde::{Deserialize, Serialize};
use vharness::coqfmt::{self as cf, Case, CaseWriter, Stats};
use vharness::prng::Prng;
use vharness::util::*;
use vharness::vvm::Vvm;

#[derive(Clone, Copy)]
struct OpDef {
    name: &'static str,
    byte: u8,
    arity: usize,
}

/// the instructions of the property's word-level families; `byte` is read from the jump table the
/// real interpreter is built from (execution.rs `def_opcodes!`), not restated here
const OPS: &[OpDef] = &[
    OpDef { name: "ADD", byte: oc::ADD, arity: 2 },
    OpDef { name: "MUL", byte: oc::MUL, arity: 2 },
    OpDef { name: "SUB", byte: oc::SUB, arity: 2 },
    OpDef { name: "DIV", byte: oc::DIV, arity: 2 },
    OpDef { name: "SDIV", byte: oc::SDIV, arity: 2 },
    OpDef { name: "MOD", byte: oc::MOD, arity: 2 },
    OpDef { name: "SMOD", byte: oc::SMOD, arity: 2 },
    OpDef { name: "ADDMOD", byte: oc::ADDMOD, arity: 3 },
    OpDef { name: "MULMOD", byte: oc::MULMOD, arity: 3 },
    OpDef { name: "EXP", byte: oc::EXP, arity: 2 },
    OpDef { name: "SIGNEXTEND", byte: oc::SIGNEXTEND, arity: 2 },
    OpDef { name: "LT", byte: oc::LT, arity: 2 },
    OpDef { name: "GT", byte: oc::GT, arity: 2 },
    OpDef { name: "SLT", byte: oc::SLT, arity: 2 },
    OpDef { name: "SGT", byte: oc::SGT, arity: 2 },
    OpDef { name: "EQ", byte: oc::EQ, arity: 2 },
    OpDef { name: "ISZERO", byte: oc::ISZERO, arity: 1 },
    OpDef { name: "AND", byte: oc::AND, arity: 2 },
    OpDef { name: "OR", byte: oc::OR, arity: 2 },
    OpDef { name: "XOR", byte: oc::XOR, arity: 2 },
    OpDef { name: "NOT", byte: oc::NOT, arity: 1 },
    OpDef { name: "BYTE", byte: oc::BYTE, arity: 2 },
    OpDef { name: "SHL", byte: oc::SHL, arity: 2 },
    OpDef { name: "SHR", byte: oc::SHR, arity: 2 },
    OpDef { name: "SAR", byte: oc::SAR, arity: 2 },
    OpDef { name: "CLZ", byte: oc::CLZ, arity: 1 },
];

/// the Ethereum names of the opcode bytes (Yellow Paper appendix H, EIP-145, EIP-7939): used by
/// the monitor so that a re-pointed jump-table entry is a monitor failure
fn eth_name(byte: u8) -> &'static str {
    match byte {
        0x01 => "ADD", 0x02 => "MUL", 0x03 => "SUB", 0x04 => "DIV", 0x05 => "SDIV", 0x06 => "MOD",
        0x07 => "SMOD", 0x08 => "ADDMOD", 0x09 => "MULMOD", 0x0a => "EXP", 0x0b => "SIGNEXTEND",
        0x10 => "LT", 0x11 => "GT", 0x12 => "SLT", 0x13 => "SGT", 0x14 => "EQ", 0x15 => "ISZERO",
        0x16 => "AND", 0x17 => "OR", 0x18 => "XOR", 0x19 => "NOT", 0x1a => "BYTE", 0x1b => "SHL",
        0x1c => "SHR", 0x1d => "SAR", 0x1e => "CLZ",
        _ => "?",
    }
}

fn w() -> BigInt {
    BigInt::one() << 256usize
}
fn half() -> BigInt {
    BigInt::one() << 255usize
}
fn to_signed(x: &BigInt) -> BigInt {
    if *x < half() { x.clone() } else { x - w() }
}
fn wrap(x: BigInt) -> BigInt {
    x.mod_floor(&w())
}
fn b2w(b: bool) -> BigInt {
    if b { BigInt::one() } else { BigInt::zero() }
}

/// reference evaluation (monitor): the Ethereum definition on unbounded integers
fn reference(name: &str, a: &BigInt, b: &BigInt, c: &BigInt) -> BigInt {
    let z = BigInt::zero();
    match name {
        "ADD" => wrap(a + b),
        "MUL" => wrap(a * b),
        "SUB" => wrap(a - b),
        "DIV" => if b.is_zero() { z } else { a / b },
        "SDIV" => if b.is_zero() { z } else { wrap(to_signed(a) / to_signed(b)) }, // BigInt `/` truncates
        "MOD" => if b.is_zero() { z } else { a % b },
        "SMOD" => if b.is_zero() { z } else { wrap(to_signed(a) % to_signed(b)) }, // sign of the dividend
        "ADDMOD" => if c.is_zero() { z } else { (a + b) % c },
        "MULMOD" => if c.is_zero() { z } else { (a * b) % c },
        "EXP" => a.modpow(b, &w()),
        "SIGNEXTEND" => {
            if *a < BigInt::from(31) {
                let t = 8 * a.to_u64_digits().1.first().cloned().unwrap_or(0) as usize + 7;
                let m = BigInt::one() << (t + 1);
                let low = b % &m;
                if low >= (BigInt::one() << t) { low + (w() - m) } else { low }
            } else {
                b.clone()
            }
        }
        "LT" => b2w(a < b),
        "GT" => b2w(a > b),
        "SLT" => b2w(to_signed(a) < to_signed(b)),
        "SGT" => b2w(to_signed(a) > to_signed(b)),
        "EQ" => b2w(a == b),
        "ISZERO" => b2w(a.is_zero()),
        "AND" => a & b,
        "OR" => a | b,
        "XOR" => a ^ b,
        "NOT" => w() - 1 - a,
        "BYTE" => {
            if *a < BigInt::from(32) {
                let i = a.to_u64_digits().1.first().cloned().unwrap_or(0) as usize;
                (b >> (8 * (31 - i))) % BigInt::from(256)
            } else {
                z
            }
        }
        "SHL" => if *a < BigInt::from(256) { wrap(b << small(a)) } else { z },
        "SHR" => if *a < BigInt::from(256) { b >> small(a) } else { z },
        "SAR" => {
            let v = to_signed(b);
            if *a < BigInt::from(256) {
                wrap(v.div_floor(&(BigInt::one() << small(a))))
            } else if v.is_negative() {
                w() - 1
            } else {
                z
            }
        }
        "CLZ" => BigInt::from(256 - a.bits()),
        _ => BigInt::from(-1),
    }
}
fn small(a: &BigInt) -> usize {
    a.to_u64_digits().1.first().cloned().unwrap_or(0) as usize
}

/// five 60-bit limbs, least significant first, as Coq primitive-integer literals
fn limbs5(x: &BigInt) -> String {
    let m = (BigInt::one() << 60usize) - BigInt::one();
    let mut v = vec![];
    for i in 0..5 {
        let l: BigInt = (x >> (60usize * i)) & &m;
        v.push(l.to_string());
    }
    v.join(" ")
}

fn to_be32(x: &BigInt) -> [u8; 32] {
    let (_, bytes) = x.to_bytes_be();
    let mut out = [0u8; 32];
    assert!(bytes.len() <= 32);
    out[32 - bytes.len()..].copy_from_slice(&bytes);
    out
}
fn from_be(bytes: &[u8]) -> BigInt {
    BigInt::from_bytes_be(Sign::Plus, bytes)
}

const PUSH0: u8 = oc::PUSH0;
const PUSH1: u8 = oc::PUSH1;
const PUSH32: u8 = oc::PUSH32;

fn tail(code: &mut Vec<u8>) {
    // PUSH0 MSTORE PUSH1 0x20 PUSH0 RETURN
    code.extend_from_slice(&[PUSH0, oc::MSTORE, PUSH1, 0x20, PUSH0, oc::RETURN]);
}

/// runtime code reading the operands from the call data
fn calldata_contract(op: &OpDef) -> Vec<u8> {
    let mut code = vec![];
    for j in (0..op.arity).rev() {
        if j == 0 {
            code.push(PUSH0);
        } else {
            code.extend_from_slice(&[PUSH1, (32 * j) as u8]);
        }
        code.push(oc::CALLDATALOAD);
    }
    code.push(op.byte);
    tail(&mut code);
    code
}

/// runtime code with the operands as PUSH32 immediates, for a batch of cases of one instruction
fn immediate_batch_contract(op: &OpDef, batch: &[[BigInt; 3]]) -> Vec<u8> {
    let mut code = vec![];
    for (i, args) in batch.iter().enumerate() {
        for j in (0..op.arity).rev() {
            code.push(PUSH32);
            code.extend_from_slice(&to_be32(&args[j]));
        }
        code.push(op.byte);
        let off = 32 * i;
        code.extend_from_slice(&[oc::PUSH2, (off >> 8) as u8, off as u8, oc::MSTORE]);
    }
    let n = 32 * batch.len();
    code.extend_from_slice(&[oc::PUSH2, (n >> 8) as u8, n as u8, PUSH0, oc::RETURN]);
    code
}

/// init code returning `runtime`: PUSH2 len DUP1 PUSH1 off PUSH0 CODECOPY PUSH0 RETURN ++ runtime
fn initcode(runtime: &[u8]) -> Vec<u8> {
    let len = runtime.len();
    assert!(len < 65536);
    let mut c = vec![oc::PUSH2, (len >> 8) as u8, len as u8, oc::DUP1, PUSH1, 10, PUSH0, oc::CODECOPY, PUSH0, oc::RETURN];
    assert_eq!(c.len(), 10);
    c.extend_from_slice(runtime);
    c
}

struct World {
    v: Vvm,
    account: Address,
    contracts: Vec<Address>, // per OPS index
}

fn deploy(v: &Vvm, account: &Address, runtime: &[u8]) -> Address {
    let r = exec(
        v,
        account,
        &EAM_ACTOR_ADDR,
        &TokenAmount::zero(),
        fil_actor_eam::Method::CreateExternal as u64,
        Some(fil_actor_eam::CreateExternalParams(initcode(runtime))),
    );
    assert_eq!(code(&r), 0, "contract creation failed: {}", r.message);
    let ret: fil_actor_eam::CreateExternalReturn = r.ret.unwrap().deserialize().unwrap();
    // the deployed code must be exactly the runtime code
    let id = Address::new_id(ret.actor_id);
    id
}

fn setup() -> World {
    let v = new_world();
    let account = fil_actors_integration_tests::util::create_accounts(&v, 1, &TokenAmount::from_whole(10_000))[0];
    let contracts = OPS.iter().map(|op| deploy(&v, &account, &calldata_contract(op))).collect();
    World { v, account, contracts }
}

/// run one contract; Ok(returned bytes) or Err(exit code)
fn invoke_raw(w: &World, to: &Address, calldata: &[u8]) -> Result<Vec<u8>, u32> {
    let r = exec(
        &w.v,
        &w.account,
        to,
        &TokenAmount::zero(),
        fil_actor_evm::Method::InvokeContract as u64,
        Some(BytesSer(calldata)),
    );
    if code(&r) != 0 {
        return Err(code(&r));
    }
    let BytesDe(out) = r.ret.unwrap().deserialize().unwrap();
    Ok(out)
}

/// run one contract; Ok(32-byte word) or Err(exit code)
fn invoke(w: &World, to: &Address, calldata: &[u8]) -> Result<BigInt, u32> {
    let r = exec(
        &w.v,
        &w.account,
        to,
        &TokenAmount::zero(),
        fil_actor_evm::Method::InvokeContract as u64,
        Some(BytesSer(calldata)),
    );
    if code(&r) != 0 {
        return Err(code(&r));
    }
    let BytesDe(out) = r.ret.unwrap().deserialize().unwrap();
    if out.len() != 32 {
        return Err(1000 + out.len() as u32);
    }
    Ok(from_be(&out))
}

#[derive(Clone, Debug, Serialize, Deserialize)]
struct WCase {
    /// opcode byte
    op: u8,
    /// operands, decimal strings; unused ones are "0"
    a: String,
    b: String,
    c: String,
}

fn parse(s: &str) -> BigInt {
    s.parse::<BigInt>().unwrap()
}

// ---------- operand generation ----------
fn boundary() -> Vec<BigInt> {
    let one = BigInt::one();
    let p = |k: usize| BigInt::one() << k;
    vec![
        BigInt::zero(), one.clone(), BigInt::from(2), BigInt::from(7), BigInt::from(8), BigInt::from(31),
        BigInt::from(32), BigInt::from(255), BigInt::from(256), p(64) - &one, p(64), p(64) + &one, p(128),
        p(255) - &one, p(255), p(255) + &one, w() - BigInt::from(2), w() - &one,
    ]
}

fn rand_bits(r: &mut Prng, bits: usize) -> BigInt {
    if bits == 0 {
        return BigInt::zero();
    }
    let nbytes = (bits + 7) / 8;
    let bytes = r.bytes(nbytes);
    from_be(&bytes) % (BigInt::one() << bits)
}

/// random word of a random bit length in [lo, lo + span)
fn rand_len(r: &mut Prng, lo: usize, span: u64) -> BigInt {
    let len = lo + r.below(span) as usize;
    rand_bits(r, len)
}

fn gen_word(r: &mut Prng, bnd: &[BigInt]) -> BigInt {
    let x = match r.below(12) {
        0 | 1 => rand_bits(r, 256),                                       // dense
        2 => BigInt::from(r.below(1 << 16)),                               // small
        3 => (BigInt::one() << (r.below(257) as usize)) + BigInt::from(r.range(-2, 2)), // near 2^k
        4 => {                                                             // sparse
            let mut x = BigInt::zero();
            for _ in 0..(1 + r.below(4)) {
                x |= BigInt::one() << (r.below(256) as usize);
            }
            x
        }
        5 => w() - BigInt::from(r.below(1 << 16)),                         // small negative
        6 => {                                                             // dense with random length
            let len = 1 + r.below(256) as usize;
            rand_bits(r, len) | (BigInt::one() << (len - 1))
        }
        7 => r.pick(bnd).clone(),
        8 => {                                                             // run of ones: ones(k) << j
            let k = 1 + r.below(256) as usize;
            let j = r.below(256) as usize;
            ((BigInt::one() << k) - BigInt::one()) << j
        }
        9 => half() + BigInt::from(r.range(-300, 300)),                    // around the sign boundary
        10 => w() - rand_len(r, 1, 255),               // negative of random length
        _ => {                                                             // limb patterns
            let mut x = BigInt::zero();
            for i in 0..4 {
                let l: u64 = match r.below(4) { 0 => 0, 1 => u64::MAX, 2 => 1 << 63, _ => r.next_u64() };
                x |= BigInt::from(l) << (64 * i);
            }
            x
        }
    };
    wrap(x)
}

/// operand tuple shaped for the instruction
fn gen_args(r: &mut Prng, op: &OpDef, bnd: &[BigInt]) -> [BigInt; 3] {
    let mut a = gen_word(r, bnd);
    let mut b = gen_word(r, bnd);
    let mut c = gen_word(r, bnd);
    match op.name {
        // first operand is an index / shift amount: mostly near the interesting range
        "BYTE" | "SIGNEXTEND" => {
            if r.chance(75) { a = BigInt::from(r.below(36)); }
        }
        "SHL" | "SHR" | "SAR" => {
            if r.chance(75) { a = BigInt::from(r.below(300)); }
            else if r.chance(30) { a = BigInt::from(256u64) * BigInt::from(r.below(1 << 20)) + BigInt::from(r.below(256)); }
        }
        "EXP" => {
            b = match r.below(100) {
                0..=49 => BigInt::from(r.below(1 << 12)),
                50..=74 => BigInt::from(r.next_u64()),
                75..=89 => rand_len(r, 60, 80),
                _ => gen_word(r, bnd),
            };
        }
        "DIV" | "SDIV" | "MOD" | "SMOD" => match r.below(10) {
            0 => b = a.clone(),
            1 => b = wrap(w() - &a),
            2 => b = BigInt::from(1 + r.below(1000)),
            3 => b = wrap(w() - BigInt::from(1 + r.below(1000))),
            4 => {
                // dividend an exact multiple (plus a small remainder) of the divisor
                let q = rand_len(r, 1, 100);
                let d = rand_len(r, 1, 150);
                a = wrap(&q * &d + BigInt::from(r.below(3)));
                b = d;
                if r.chance(50) { a = wrap(w() - &a); }
                if r.chance(50) { b = wrap(w() - &b); }
            }
            _ => {}
        },
        "ADDMOD" | "MULMOD" => match r.below(10) {
            0 => c = BigInt::zero(),
            1 => c = BigInt::from(1 + r.below(1000)),
            2 => c = a.clone(),
            3 => { a = w() - BigInt::from(1 + r.below(5)); b = w() - BigInt::from(1 + r.below(5)); }
            _ => {}
        },
        "LT" | "GT" | "SLT" | "SGT" | "EQ" => match r.below(10) {
            0 => b = a.clone(),
            1 => b = wrap(&a + BigInt::one()),
            2 => b = wrap(&a - BigInt::one()),
            _ => {}
        },
        _ => {}
    }
    if op.arity < 3 { c = BigInt::zero(); }
    if op.arity < 2 { b = BigInt::zero(); }
    [a, b, c]
}

impl Runner {
    /// a chunk of cases of one instruction through the calldata contract; optionally also as one
    /// contract with PUSH32 immediates
    fn run_chunk(&mut self, opi: usize, batch: &[[BigInt; 3]], also_immediate: bool) -> Vec<(String, Vec<String>)> {
        let mut steps = vec![];
        let mut results = vec![];
        for args in batch {
            steps.push(self.run(opi, args));
            results.push(self.last.clone());
        }
        if also_immediate && !batch.is_empty() {
            let op = &OPS[opi];
            let addr = deploy(&self.w.v, &self.w.account, &immediate_batch_contract(op, batch));
            let out = invoke_raw(&self.w, &addr, &[]);
            for (i, args) in batch.iter().enumerate() {
                self.imm_checked += 1;
                let r2 = match &out {
                    Ok(bytes) if bytes.len() == 32 * batch.len() => Ok(from_be(&bytes[32 * i..32 * i + 32])),
                    Ok(bytes) => Err(1000 + bytes.len() as u32),
                    Err(c) => Err(*c),
                };
                if r2 != results[i] {
                    self.fails.push(serde_json::json!({
                        "class": "immediate-vs-calldata",
                        "what": [format!("opcode 0x{:02x}: PUSH32 form returned {:?}, CALLDATALOAD form {:?}", op.byte, r2, results[i])],
                        "case": [WCase { op: op.byte, a: args[0].to_string(), b: args[1].to_string(), c: args[2].to_string() }],
                    }));
                }
            }
        }
        steps
    }
}

struct Runner {
    w: World,
    stats: Stats,
    fails: Vec<serde_json::Value>,
    imm_checked: u64,
    last: Result<BigInt, u32>,
}

impl Runner {
    /// executes one case on the real interpreter; returns the Coq step
    fn run(&mut self, opi: usize, args: &[BigInt; 3]) -> (String, Vec<String>) {
        let op = &OPS[opi];
        let mut calldata = vec![];
        for j in 0..op.arity {
            calldata.extend_from_slice(&to_be32(&args[j]));
        }
        let res = invoke(&self.w, &self.w.contracts[opi], &calldata);
        let wc = WCase { op: op.byte, a: args[0].to_string(), b: args[1].to_string(), c: args[2].to_string() };
        let (obs, exit) = match &res {
            Ok(v) => (v.clone(), 0),
            Err(c) => (BigInt::from(-2), *c),
        };
        self.stats.op(op.name, exit);
        // monitor: the instruction the Ethereum specification assigns to this opcode byte
        let expect = reference(eth_name(op.byte), &args[0], &args[1], &args[2]);
        if res.as_ref().ok() != Some(&expect) {
            self.fails.push(serde_json::json!({
                "class": format!("{}-wrong-result", eth_name(op.byte)),
                "what": [format!("opcode 0x{:02x} ({}) on a={} b={} c={}: interpreter returned {} (exit {}), the Ethereum definition gives {}",
                    op.byte, eth_name(op.byte), args[0], args[1], args[2], obs, exit, expect)],
                "case": [wc.clone()],
            }));
        }
        self.last = res.clone();
        for p in self.w.v.panics.borrow().iter() {
            self.stats.panics.push(p.clone());
        }
        self.w.v.panics.borrow_mut().clear();
        // the step: opcode, operands and the returned word as 60-bit primitive-integer limbs; the model
        // compares its two evaluations with the word and yields [] when both agree (EvmWordCorr.v)
        let r = match &res { Ok(v) => v.clone(), Err(_) => w() }; // 2^256 can never equal a model result
        let mut t = format!("W{} {}", op.arity, op.byte);
        for j in 0..op.arity {
            t.push(' ');
            t.push_str(&limbs5(&args[j]));
        }
        t.push(' ');
        t.push_str(&limbs5(&r));
        (t, vec![])
    }
}

fn main() {
    let a = cf::parse_args();
    let header = "From VF Require Import Model.EvmWordCorr Base.Corr.\nFrom Coq Require Import ZArith List Uint63.\nImport ListNotations.\nOpen Scope Z_scope.\n";
    let mut cw = CaseWriter::new(&a.out, header, "check_case", a.shards);
    let mut rn = Runner { w: setup(), stats: Stats::default(), fails: vec![], imm_checked: 0, last: Err(0) };
    let chunk = a.len.max(1);
    let index_of = |byte: u8| OPS.iter().position(|o| o.byte == byte);

    let run_list = |rn: &mut Runner, cw: &mut CaseWriter, list: &[WCase]| {
        let mut steps = vec![];
        for wc in list {
            if let Some(i) = index_of(wc.op) {
                steps.extend(rn.run_chunk(i, &[[parse(&wc.a), parse(&wc.b), parse(&wc.c)]], true));
            }
        }
        if !steps.is_empty() {
            cw.push(Case { init: "tt".into(), steps, nontrivial: true });
        }
    };

    if let Some(p) = &a.replay {
        let v: serde_json::Value = serde_json::from_str(&std::fs::read_to_string(p).unwrap()).unwrap();
        // accept both a bare monitor-failure object and the replay file written by ./check
        let case = if v.get("case").is_some() { v["case"].clone() } else { v["violation"]["detail"]["case"].clone() };
        let list: Vec<WCase> = serde_json::from_value(case).unwrap();
        run_list(&mut rn, &mut cw, &list);
        for f in rn.fails.clone() { rn.stats.monitor_fail(f); }
        rn.stats.extra.insert("replay".into(), serde_json::json!(true));
        cw.finish(&rn.stats, "evm_ops");
        return;
    }
    // corpus first
    let corpus = std::path::Path::new(env!("CARGO_MANIFEST_DIR")).join("../corpus/C17");
    if let Ok(rd) = std::fs::read_dir(&corpus) {
        let mut files: Vec<_> = rd.filter_map(|e| e.ok()).map(|e| e.path()).collect();
        files.sort();
        for f in files {
            if f.extension().map(|x| x == "json").unwrap_or(false) {
                let v: serde_json::Value = serde_json::from_str(&std::fs::read_to_string(&f).unwrap()).unwrap();
                if let Ok(list) = serde_json::from_value::<Vec<WCase>>(v["case"].clone()) {
                    run_list(&mut rn, &mut cw, &list);
                }
            }
        }
    }

    let bnd = boundary();
    let zero = BigInt::zero();
    // per-instruction work lists
    let exp_full: bool = a.rest.get("exp-full").map(|s| s == "1").unwrap_or(false);
    let exp_div: usize = a.rest.get("exp-div").and_then(|s| s.parse().ok()).unwrap_or(8);
    let imm_every: u64 = a.rest.get("imm-every").and_then(|s| s.parse().ok()).unwrap_or(8);
    let mut root = Prng::new(a.seed);
    let mut lists: Vec<Vec<[BigInt; 3]>> = vec![];
    let mut n_boundary = 0u64;
    let mut n_random = 0u64;
    for (k, op) in OPS.iter().enumerate() {
        let mut r = root.fork(k as u64);
        let mut l: Vec<[BigInt; 3]> = vec![];
        match op.arity {
            1 => for x in &bnd { l.push([x.clone(), zero.clone(), zero.clone()]); },
            2 => for x in &bnd { for y in &bnd {
                if op.name == "EXP" && !exp_full {
                    // evaluating a 256-squaring EXP inside Coq costs seconds: in the quick tier exponents
                    // above 2^64+1 are paired with a subset of the bases (all pairs in the thorough tier)
                    let big_e = *y > (BigInt::one() << 64usize) + BigInt::one();
                    let base_sel = *x == BigInt::from(2) || *x == BigInt::from(7) || *x == (BigInt::one() << 64usize) + BigInt::one() || *x == w() - BigInt::one() || *x == half();
                    if big_e && !base_sel { continue; }
                }
                l.push([x.clone(), y.clone(), zero.clone()]);
            } },
            _ => for x in &bnd { for y in &bnd { for t in &bnd { l.push([x.clone(), y.clone(), t.clone()]); } } },
        }
        n_boundary += l.len() as u64;
        let n = if op.name == "EXP" { (a.cases / exp_div.max(1)).max(8) } else { a.cases };
        for _ in 0..n {
            l.push(gen_args(&mut r, op, &bnd));
        }
        n_random += n as u64;
        lists.push(l);
    }
    // interleave the instructions chunk by chunk so that every shard gets a share of each (EXP and the
    // ternary instructions are the expensive ones to evaluate in Coq)
    let mut pos = vec![0usize; OPS.len()];
    let mut counter = 0u64;
    loop {
        let mut progressed = false;
        for k in 0..OPS.len() {
            if pos[k] >= lists[k].len() { continue; }
            progressed = true;
            let end = (pos[k] + chunk).min(lists[k].len());
            counter += 1;
            let imm = imm_every > 0 && counter % imm_every == 0;
            let steps = rn.run_chunk(k, &lists[k][pos[k]..end], imm);
            pos[k] = end;
            cw.push(Case { init: "tt".into(), steps, nontrivial: true });
        }
        if !progressed { break; }
    }
    for f in rn.fails.clone() { rn.stats.monitor_fail(f); }
    rn.stats.extra.insert("boundary_cases".into(), serde_json::json!(n_boundary));
    rn.stats.extra.insert("random_cases".into(), serde_json::json!(n_random));
    rn.stats.extra.insert("immediate_form_cross_checks".into(), serde_json::json!(rn.imm_checked));
    rn.stats.extra.insert("monitor_failures_total".into(), serde_json::json!(rn.fails.len()));
    // per class: how many, and the first witness (stats.monitor_failures keeps only the first 20 overall)
    let mut by_class: std::collections::BTreeMap<String, (u64, serde_json::Value)> = Default::default();
    for f in &rn.fails {
        let c = f["class"].as_str().unwrap_or("?").to_string();
        by_class.entry(c).and_modify(|e| e.0 += 1).or_insert((1, f["what"].clone()));
    }
    rn.stats.extra.insert(
        "monitor_failures_by_class".into(),
        serde_json::json!(by_class.iter().map(|(k, (n, w))| serde_json::json!({"class": k, "count": n, "first": w})).collect::<Vec<_>>()),
    );
    rn.stats.extra.insert("instructions".into(), serde_json::json!(OPS.iter().map(|o| format!("0x{:02x} {}", o.byte, o.name)).collect::<Vec<_>>()));
    cw.finish(&rn.stats, "evm_ops");
}
