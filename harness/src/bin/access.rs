//! C11 -- the EXHAUSTIVE (actor x method x caller-class) matrix on the harness VM.
//!
//! A prepared world holds one target instance of every built-in actor type and one representative
//! caller per class. For every actor, every number of its compiled `Method` enum plus a few
//! undefined numbers, and every representative, the REAL actor code is invoked (through
//! `InvocationCtx::invoke`, i.e. exactly what `Vvm::execute_message` does, but with an explicit
//! origin and without turning placeholder senders into EthAccounts) from a snapshot of the world,
//! and the outcome is classified:
//!   0 caller accepted (the call may fail later for other reasons)
//!   1 rejected by a validate_immediate_caller_* primitive
//!   2 unhandled_message
//!   3 rejected by restrict_internal_api
//!   4 rejected by the explicit caller gate that follows accept_any / the primitive
//! The same classification is computed by coq/Model/Access.v (`expected`) from the generated guard
//! table; the monitors below judge the outcome against the hand-written specification
//! (`spec_table` in coq/Model/Access.v, parsed here) using class membership read from the
//! implementation's own state.
use std::collections::{BTreeMap, BTreeSet};

use cid::Cid;
use fil_actors_runtime::runtime::builtins::Type;
use fil_actors_runtime::runtime::Policy;
use fil_actors_runtime::test_utils::*;
use fil_actors_runtime::{
    BURNT_FUNDS_ACTOR_ADDR, CRON_ACTOR_ADDR, DATACAP_TOKEN_ACTOR_ADDR, EAM_ACTOR_ADDR, EAM_ACTOR_ID,
    INIT_ACTOR_ADDR, REWARD_ACTOR_ADDR, STORAGE_MARKET_ACTOR_ADDR, STORAGE_POWER_ACTOR_ADDR,
    SYSTEM_ACTOR_ADDR, VERIFIED_REGISTRY_ACTOR_ADDR,
};
use fil_actors_integration_tests::util::{
    create_accounts, create_miner, market_add_balance, verifreg_add_client, verifreg_add_verifier,
};
use fvm_ipld_bitfield::BitField;
use fvm_ipld_encoding::ipld_block::IpldBlock;
use fvm_ipld_encoding::{BytesDe, RawBytes, DAG_CBOR};
use fvm_shared::address::Address;
use fvm_shared::bigint::BigInt;
use fvm_shared::crypto::signature::{Signature, SignatureType};
use fvm_shared::econ::TokenAmount;
use fvm_shared::piece::PaddedPieceSize;
use fvm_shared::randomness::Randomness;
use fvm_shared::sector::{PoStProof, RegisteredAggregateProof, RegisteredPoStProof, RegisteredSealProof, RegisteredUpdateProof, StoragePower};
use fvm_shared::{MethodNum, METHOD_SEND};
use num_traits::Zero;
use serde::Serialize;
use serde_json::json;
use vharness::coqfmt::{parse_args, Case, CaseWriter, Stats};
use vharness::util::new_world;
use vharness::vvm::{Vvm, TEST_VERIFREG_ROOT_ADDR, TEST_VERIFREG_ROOT_SIGNER_ADDR};
use vm_api::util::{apply_ok, get_state, DynBlockstore};
use vm_api::{new_actor, VM};

const FIRST_EXPORTED: u64 = 1 << 24;
const UNKNOWN_FRC42: u64 = frc42_dispatch::method_hash!("C11NoSuchMethod");

// ------------------------------------------------------------------------------------------------
// compiled Method enums (the rustc view, cross-checked against the translator's table in Coq)
// ------------------------------------------------------------------------------------------------
macro_rules! methods {
    ($ty:path; $($v:ident),* $(,)?) => {{ use $ty as M; vec![$((stringify!($v), M::$v as u64)),*] }};
}

fn compiled_enums() -> Vec<(&'static str, Vec<(&'static str, u64)>)> {
    vec![
        ("account", methods!(fil_actor_account::Method; Constructor, PubkeyAddress, AuthenticateMessageExported)),
        ("cron", methods!(fil_actor_cron::Method; Constructor, EpochTick)),
        ("datacap", methods!(fil_actor_datacap::Method; Constructor, MintExported, DestroyExported, NameExported,
            SymbolExported, GranularityExported, TotalSupplyExported, BalanceExported, TransferExported,
            TransferFromExported, IncreaseAllowanceExported, DecreaseAllowanceExported, RevokeAllowanceExported,
            BurnExported, BurnFromExported, AllowanceExported)),
        ("eam", methods!(fil_actor_eam::Method; Constructor, Create, Create2, CreateExternal)),
        ("ethaccount", methods!(fil_actor_ethaccount::Method; Constructor)),
        ("evm", methods!(fil_actor_evm::Method; Constructor, Resurrect, GetBytecode, GetBytecodeHash, GetStorageAt,
            InvokeContractDelegate, InvokeContract)),
        ("init", methods!(fil_actor_init::Method; Constructor, Exec, Exec4)),
        ("market", methods!(fil_actor_market::Method; Constructor, AddBalance, WithdrawBalance, PublishStorageDeals,
            VerifyDealsForActivation, BatchActivateDeals, OnMinerSectorsTerminate, CronTick, AddBalanceExported,
            WithdrawBalanceExported, PublishStorageDealsExported, GetBalanceExported, GetDealDataCommitmentExported,
            GetDealClientExported, GetDealProviderExported, GetDealLabelExported, GetDealTermExported,
            GetDealTotalPriceExported, GetDealClientCollateralExported, GetDealProviderCollateralExported,
            GetDealVerifiedExported, GetDealActivationExported, GetDealSectorExported, SettleDealPaymentsExported,
            SectorContentChangedExported)),
        ("miner", methods!(fil_actor_miner::Method; Constructor, ControlAddresses, ChangeWorkerAddress, ChangePeerID,
            SubmitWindowedPoSt, TerminateSectors, DeclareFaults, DeclareFaultsRecovered, OnDeferredCronEvent,
            CheckSectorProven, ApplyRewards, ReportConsensusFault, WithdrawBalance, InternalSectorSetupForPreseal,
            ChangeMultiaddrs, CompactPartitions, CompactSectorNumbers, ConfirmChangeWorkerAddress, RepayDebt,
            ChangeOwnerAddress, DisputeWindowedPoSt, PreCommitSectorBatch2, ChangeBeneficiary, GetBeneficiary,
            ExtendSectorExpiration2, ProveCommitSectors3, ProveReplicaUpdates3, ProveCommitSectorsNI,
            ChangeWorkerAddressExported, ChangePeerIDExported, WithdrawBalanceExported, ChangeMultiaddrsExported,
            ConfirmChangeWorkerAddressExported, RepayDebtExported, ChangeOwnerAddressExported,
            ChangeBeneficiaryExported, GetBeneficiaryExported, GetOwnerExported, IsControllingAddressExported,
            GetSectorSizeExported, GetAvailableBalanceExported, GetVestingFundsExported, GetPeerIDExported,
            GetMultiaddrsExported, MaxTerminationFeeExported, InitialPledgeExported, GenerateSectorLocationExported,
            ValidateSectorStatusExported, GetNominalSectorExpirationExported)),
        ("multisig", methods!(fil_actor_multisig::Method; Constructor, Propose, Approve, Cancel, AddSigner, RemoveSigner,
            SwapSigner, ChangeNumApprovalsThreshold, LockBalance, UniversalReceiverHook)),
        ("paych", methods!(fil_actor_paych::Method; Constructor, UpdateChannelState, Settle, Collect)),
        ("placeholder", vec![]),
        ("power", methods!(fil_actor_power::Method; Constructor, CreateMiner, UpdateClaimedPower, EnrollCronEvent,
            OnEpochTickEnd, UpdatePledgeTotal, CurrentTotalPower, CreateMinerExported, NetworkRawPowerExported,
            MinerRawPowerExported, MinerCountExported, MinerConsensusCountExported, MinerPowerExported)),
        ("reward", methods!(fil_actor_reward::Method; Constructor, AwardBlockReward, ThisEpochReward, UpdateNetworkKPI)),
        ("system", methods!(fil_actor_system::Method; Constructor)),
        ("verifreg", methods!(fil_actor_verifreg::Method; Constructor, AddVerifier, RemoveVerifier, AddVerifiedClient,
            RemoveVerifiedClientDataCap, RemoveExpiredAllocations, ClaimAllocations, GetClaims, ExtendClaimTerms,
            RemoveExpiredClaims, AddVerifiedClientExported, RemoveExpiredAllocationsExported, GetClaimsExported,
            ExtendClaimTermsExported, RemoveExpiredClaimsExported, UniversalReceiverHook)),
    ]
}

// ------------------------------------------------------------------------------------------------
// the prepared world
// ------------------------------------------------------------------------------------------------
#[derive(Clone)]
struct Rep {
    coq: &'static str,
    addr: Option<Address>, // None = the target itself (R_Self)
    origin_self: bool,
}

struct World {
    v: Vvm,
    root: Cid,
    reps: Vec<Rep>,
    targets: BTreeMap<&'static str, Address>,
    default_origin: Address,
    // roles
    owner: Address,
    worker: Address,
    control: Address,
    beneficiary: Address,
    pending_owner: Address,
    nominee: Address,
    signer: Address,
    signer2: Address,
    chan_from: Address,
    chan_to: Address,
    verifier: Address,
    verifier2: Address,
    client: Address,
    stranger: Address,
    fresh: Address, // an account without any role or token balance (new verifier / new client / new signer)
    miner: Address,
    other_miner: Address,
    nominee_quota: TokenAmount,
    nominee_expiration: i64,
}

fn ser<T: Serialize>(t: &T) -> Option<IpldBlock> {
    IpldBlock::serialize_cbor(t).unwrap()
}

fn exec_ok<T: Serialize>(v: &Vvm, from: &Address, to: &Address, value: &TokenAmount, m: MethodNum, p: Option<T>) -> Option<IpldBlock> {
    let r = vharness::util::exec(v, from, to, value, m, p);
    assert!(r.code.is_success(), "setup call {}->{} method {} failed: {} {}", from, to, m, r.code, r.message);
    r.ret
}

fn new_eth_actor(v: &Vvm, bits: [u8; 20], code: Option<Cid>) -> Address {
    let eth_addr = Address::new_delegated(EAM_ACTOR_ID, &bits).unwrap();
    apply_ok(v, &vharness::vvm::TEST_FAUCET_ADDR, &eth_addr, &TokenAmount::from_whole(1000), METHOD_SEND, None::<RawBytes>);
    let id = v.resolve_id_address(&eth_addr).unwrap();
    if let Some(c) = code {
        let mut a = v.actor(&id).unwrap();
        a.code = c;
        v.set_actor(&id, a);
    }
    id
}

fn deploy_contract(v: &Vvm, from: &Address) -> Address {
    let ret = exec_ok(v, from, &EAM_ACTOR_ADDR, &TokenAmount::zero(), fil_actor_eam::Method::CreateExternal as u64,
        Some(fil_actor_eam::CreateExternalParams(vec![])));
    let r: fil_actor_eam::CreateExternalReturn = ret.unwrap().deserialize().unwrap();
    Address::new_id(r.actor_id)
}

fn exec_actor(v: &Vvm, from: &Address, code: Cid, ctor: RawBytes, value: &TokenAmount) -> Address {
    let ret = exec_ok(v, from, &INIT_ACTOR_ADDR, value, fil_actor_init::Method::Exec as u64,
        Some(fil_actor_init::ExecParams { code_cid: code, constructor_params: ctor }));
    let r: fil_actor_init::ExecReturn = ret.unwrap().deserialize().unwrap();
    r.id_address
}

fn new_multisig(v: &Vvm, from: &Address, signers: Vec<Address>, threshold: u64) -> Address {
    let p = fil_actor_multisig::ConstructorParams { signers, num_approvals_threshold: threshold, unlock_duration: 0, start_epoch: 0 };
    exec_actor(v, from, *MULTISIG_ACTOR_CODE_ID, RawBytes::serialize(&p).unwrap(), &TokenAmount::from_whole(10))
}

fn new_paych(v: &Vvm, from: &Address, to: &Address) -> Address {
    let p = fil_actor_paych::ConstructorParams { from: *from, to: *to };
    exec_actor(v, from, *PAYCH_ACTOR_CODE_ID, RawBytes::serialize(&p).unwrap(), &TokenAmount::from_whole(10))
}

fn build_world() -> World {
    let v = new_world();
    v.set_epoch(200);
    let a = create_accounts(&v, 26, &TokenAmount::from_whole(100_000));
    let (owner, worker, control, beneficiary, pending_owner, nominee) = (a[0], a[1], a[2], a[3], a[4], a[5]);
    let (signer, signer2, chan_from, chan_to, verifier, verifier2, client) = (a[6], a[7], a[8], a[9], a[10], a[11], a[12]);
    let (stranger, account_rep, default_origin, origin_acct, target_account) = (a[13], a[14], a[15], a[16], a[17]);
    let (o2, w2, fresh, deployer, ms_signer, p_from, p_to) = (a[18], a[19], a[20], a[21], a[22], a[23], a[24]);

    // ---- miners ----
    let proof = RegisteredPoStProof::StackedDRGWindow32GiBV1P1;
    let (miner, _) = create_miner(&v, &owner, &worker, proof, &TokenAmount::from_whole(10_000));
    let (other_miner, _) = create_miner(&v, &o2, &w2, proof, &TokenAmount::from_whole(10_000));
    // control address
    exec_ok(&v, &owner, &miner, &TokenAmount::zero(), fil_actor_miner::Method::ChangeWorkerAddress as u64,
        Some(fil_actor_miner::ChangeWorkerAddressParams { new_worker: worker, new_control_addresses: vec![control] }));
    // beneficiary: proposed by the owner, confirmed by the new beneficiary
    let quota = TokenAmount::from_whole(100);
    let expiration: i64 = 10_000_000;
    let bp = fil_actor_miner::ChangeBeneficiaryParams { new_beneficiary: beneficiary, new_quota: quota.clone(), new_expiration: expiration };
    exec_ok(&v, &owner, &miner, &TokenAmount::zero(), fil_actor_miner::Method::ChangeBeneficiary as u64, Some(bp.clone()));
    exec_ok(&v, &beneficiary, &miner, &TokenAmount::zero(), fil_actor_miner::Method::ChangeBeneficiary as u64, Some(bp));
    // a pending proposal naming the nominee (needs the approval of both beneficiary and nominee)
    let nominee_quota = TokenAmount::from_whole(50);
    let nominee_expiration: i64 = 9_000_000;
    exec_ok(&v, &owner, &miner, &TokenAmount::zero(), fil_actor_miner::Method::ChangeBeneficiary as u64,
        Some(fil_actor_miner::ChangeBeneficiaryParams { new_beneficiary: nominee, new_quota: nominee_quota.clone(), new_expiration: nominee_expiration }));
    // pending owner
    exec_ok(&v, &owner, &miner, &TokenAmount::zero(), fil_actor_miner::Method::ChangeOwnerAddress as u64,
        Some(fil_actor_miner::ChangeOwnerAddressParams { new_owner: pending_owner }));

    // ---- market balances, one published deal ----
    market_add_balance(&v, &client, &client, &TokenAmount::from_whole(100));
    market_add_balance(&v, &owner, &miner, &TokenAmount::from_whole(100));
    let deal = deal_params(&client, &miner, 300);
    exec_ok(&v, &worker, &STORAGE_MARKET_ACTOR_ADDR, &TokenAmount::zero(), fil_actor_market::Method::PublishStorageDeals as u64, Some(deal));

    // ---- verified registry: two verifiers, one client ----
    let cap = StoragePower::from(1u64 << 40);
    verifreg_add_verifier(&v, &verifier, cap.clone());
    verifreg_add_verifier(&v, &verifier2, cap);
    verifreg_add_client(&v, &verifier, &client, StoragePower::from(1u64 << 30));

    // ---- multisigs ----
    let target_msig = new_multisig(&v, &signer2, vec![signer, signer2], 2);
    // a pending transaction proposed by the second signer (so that the Signer representative can approve)
    exec_ok(&v, &signer2, &target_msig, &TokenAmount::zero(), fil_actor_multisig::Method::Propose as u64,
        Some(fil_actor_multisig::ProposeParams { to: stranger, value: TokenAmount::from_whole(1), method: METHOD_SEND, params: RawBytes::default() }));
    let other_msig = new_multisig(&v, &ms_signer, vec![ms_signer], 1);
    let origin_msig = new_multisig(&v, &ms_signer, vec![ms_signer], 1);

    // ---- payment channels ----
    let target_paych = new_paych(&v, &chan_from, &chan_to);
    let other_paych = new_paych(&v, &p_from, &p_to);

    // ---- EVM world ----
    let target_evm = deploy_contract(&v, &deployer);
    let other_evm = deploy_contract(&v, &deployer);
    let target_eth = new_eth_actor(&v, [0xA1; 20], Some(*ETHACCOUNT_ACTOR_CODE_ID));
    let rep_eth = new_eth_actor(&v, [0xA2; 20], Some(*ETHACCOUNT_ACTOR_CODE_ID));
    let origin_eth = new_eth_actor(&v, [0xA3; 20], Some(*ETHACCOUNT_ACTOR_CODE_ID));
    let target_placeholder = new_eth_actor(&v, [0xA4; 20], None);
    let rep_placeholder = new_eth_actor(&v, [0xA5; 20], None);
    assert_eq!(v.actor(&rep_placeholder).unwrap().code, *PLACEHOLDER_ACTOR_CODE_ID);

    // ---- an actor whose code is not a built-in ----
    let nonbuiltin = Address::new_id(90_001);
    v.set_actor(&nonbuiltin, new_actor(make_identity_cid(b"c11-user-code"), fil_actors_runtime::runtime::EMPTY_ARR_CID, 0, TokenAmount::from_whole(1000), None));

    let reps = vec![
        Rep { coq: "R_System", addr: Some(SYSTEM_ACTOR_ADDR), origin_self: false },
        Rep { coq: "R_Init", addr: Some(INIT_ACTOR_ADDR), origin_self: false },
        Rep { coq: "R_Reward", addr: Some(REWARD_ACTOR_ADDR), origin_self: false },
        Rep { coq: "R_Cron", addr: Some(CRON_ACTOR_ADDR), origin_self: false },
        Rep { coq: "R_Power", addr: Some(STORAGE_POWER_ACTOR_ADDR), origin_self: false },
        Rep { coq: "R_Market", addr: Some(STORAGE_MARKET_ACTOR_ADDR), origin_self: false },
        Rep { coq: "R_Verifreg", addr: Some(VERIFIED_REGISTRY_ACTOR_ADDR), origin_self: false },
        Rep { coq: "R_Datacap", addr: Some(DATACAP_TOKEN_ACTOR_ADDR), origin_self: false },
        Rep { coq: "R_Eam", addr: Some(EAM_ACTOR_ADDR), origin_self: false },
        Rep { coq: "R_Burnt", addr: Some(BURNT_FUNDS_ACTOR_ADDR), origin_self: false },
        Rep { coq: "R_Miner", addr: Some(other_miner), origin_self: false },
        Rep { coq: "R_Account", addr: Some(account_rep), origin_self: false },
        Rep { coq: "R_Multisig", addr: Some(other_msig), origin_self: false },
        Rep { coq: "R_Paych", addr: Some(other_paych), origin_self: false },
        Rep { coq: "R_Evm", addr: Some(other_evm), origin_self: false },
        Rep { coq: "R_EthAccount", addr: Some(rep_eth), origin_self: false },
        Rep { coq: "R_Placeholder", addr: Some(rep_placeholder), origin_self: false },
        Rep { coq: "R_NonBuiltin", addr: Some(nonbuiltin), origin_self: false },
        Rep { coq: "R_Self", addr: None, origin_self: false },
        Rep { coq: "R_Owner", addr: Some(owner), origin_self: false },
        Rep { coq: "R_Worker", addr: Some(worker), origin_self: false },
        Rep { coq: "R_Control", addr: Some(control), origin_self: false },
        Rep { coq: "R_Beneficiary", addr: Some(beneficiary), origin_self: false },
        Rep { coq: "R_PendingOwner", addr: Some(pending_owner), origin_self: false },
        Rep { coq: "R_Nominee", addr: Some(nominee), origin_self: false },
        Rep { coq: "R_Signer", addr: Some(signer), origin_self: false },
        Rep { coq: "R_ChannelFrom", addr: Some(chan_from), origin_self: false },
        Rep { coq: "R_ChannelTo", addr: Some(chan_to), origin_self: false },
        Rep { coq: "R_RootKey", addr: Some(TEST_VERIFREG_ROOT_ADDR), origin_self: false },
        Rep { coq: "R_Verifier", addr: Some(verifier), origin_self: false },
        Rep { coq: "R_Client", addr: Some(client), origin_self: false },
        Rep { coq: "R_OriginAccount", addr: Some(origin_acct), origin_self: true },
        Rep { coq: "R_OriginEthAccount", addr: Some(origin_eth), origin_self: true },
        Rep { coq: "R_OriginMultisig", addr: Some(origin_msig), origin_self: true },
        Rep { coq: "R_Stranger", addr: Some(stranger), origin_self: false },
    ];

    let mut targets: BTreeMap<&'static str, Address> = BTreeMap::new();
    targets.insert("system", SYSTEM_ACTOR_ADDR);
    targets.insert("init", INIT_ACTOR_ADDR);
    targets.insert("reward", REWARD_ACTOR_ADDR);
    targets.insert("cron", CRON_ACTOR_ADDR);
    targets.insert("power", STORAGE_POWER_ACTOR_ADDR);
    targets.insert("market", STORAGE_MARKET_ACTOR_ADDR);
    targets.insert("verifreg", VERIFIED_REGISTRY_ACTOR_ADDR);
    targets.insert("datacap", DATACAP_TOKEN_ACTOR_ADDR);
    targets.insert("eam", EAM_ACTOR_ADDR);
    targets.insert("account", target_account);
    targets.insert("ethaccount", target_eth);
    targets.insert("evm", target_evm);
    targets.insert("miner", miner);
    targets.insert("multisig", target_msig);
    targets.insert("paych", target_paych);
    targets.insert("placeholder", target_placeholder);

    // every caller can pay a small value (add_balance needs a positive value)
    let mut all: Vec<Address> = reps.iter().filter_map(|r| r.addr).collect();
    all.extend(targets.values().cloned());
    for ad in all {
        let mut st = v.actor(&ad).unwrap();
        if st.balance < TokenAmount::from_whole(100) {
            st.balance = TokenAmount::from_whole(100);
            v.set_actor(&ad, st);
        }
    }
    let _ = TEST_VERIFREG_ROOT_SIGNER_ADDR;
    v.take_invocations();
    let root = v.checkpoint();
    World {
        v, root, reps, targets, default_origin, owner, worker, control, beneficiary, pending_owner, nominee,
        signer, signer2, chan_from, chan_to, verifier, verifier2, client, stranger, fresh, miner, other_miner,
        nominee_quota, nominee_expiration,
    }
}

fn deal_params(client: &Address, provider: &Address, start: i64) -> fil_actor_market::PublishStorageDealsParams {
    use fil_actor_market::{ClientDealProposal, DealProposal, Label};
    let proposal = DealProposal {
        piece_cid: make_piece_cid(b"c11-deal"),
        piece_size: PaddedPieceSize(2048),
        verified_deal: false,
        client: *client,
        provider: *provider,
        label: Label::String("c11".to_string()),
        start_epoch: start,
        end_epoch: start + 200 * 2880,
        storage_price_per_epoch: TokenAmount::from_atto(10),
        provider_collateral: TokenAmount::from_whole(2),
        client_collateral: TokenAmount::from_whole(1),
    };
    let signature = Signature { sig_type: SignatureType::BLS, bytes: fvm_ipld_encoding::to_vec(&proposal).unwrap() };
    fil_actor_market::PublishStorageDealsParams { deals: vec![ClientDealProposal { proposal, client_signature: signature }] }
}

// ------------------------------------------------------------------------------------------------
// well-formed parameters for every method (enough to get past every check that precedes the guard)
// ------------------------------------------------------------------------------------------------
fn params_for(w: &World, actor: &str, name: &str, variant: u32) -> (Option<IpldBlock>, TokenAmount) {
    use fil_actors_runtime::reward::FilterEstimate;
    let zero = TokenAmount::zero();
    let none = (None, zero.clone());
    let p = |b: Option<IpldBlock>| (b, TokenAmount::zero());
    let base = name.strip_suffix("Exported").unwrap_or(name);
    let fe = || FilterEstimate::default();
    let empty_bf = BitField::new;
    let miner_id = w.miner.id().unwrap();
    match (actor, base) {
        // ---------------- account ----------------
        ("account", "Constructor") => p(ser(&fil_actor_account::types::ConstructorParams { address: Address::new_bls(&[7u8; 48]).unwrap() })),
        ("account", "PubkeyAddress") => none,
        ("account", "AuthenticateMessage") => p(ser(&fil_actor_account::types::AuthenticateMessageParams { signature: b"msg".to_vec(), message: b"msg".to_vec() })),
        // ---------------- cron ----------------
        ("cron", "Constructor") => p(ser(&fil_actor_cron::ConstructorParams { entries: vec![] })),
        ("cron", "EpochTick") => none,
        // ---------------- datacap ----------------
        ("datacap", "Constructor") => p(ser(&fil_actor_datacap::ConstructorParams { governor: VERIFIED_REGISTRY_ACTOR_ADDR })),
        ("datacap", "Mint") => p(ser(&fil_actor_datacap::MintParams { to: w.client, amount: TokenAmount::from_whole(1), operators: vec![] })),
        ("datacap", "Destroy") => p(ser(&fil_actor_datacap::DestroyParams { owner: w.client, amount: TokenAmount::from_whole(1) })),
        ("datacap", "Name") | ("datacap", "Symbol") | ("datacap", "Granularity") | ("datacap", "TotalSupply") => none,
        ("datacap", "Balance") => p(ser(&w.client)),
        ("datacap", "Transfer") => p(ser(&frc46_token::token::types::TransferParams { to: VERIFIED_REGISTRY_ACTOR_ADDR, amount: zero.clone(), operator_data: RawBytes::default() })),
        ("datacap", "TransferFrom") => p(ser(&frc46_token::token::types::TransferFromParams { from: w.client, to: VERIFIED_REGISTRY_ACTOR_ADDR, amount: zero.clone(), operator_data: RawBytes::default() })),
        ("datacap", "IncreaseAllowance") => p(ser(&frc46_token::token::types::IncreaseAllowanceParams { operator: STORAGE_MARKET_ACTOR_ADDR, increase: TokenAmount::from_whole(1) })),
        ("datacap", "DecreaseAllowance") => p(ser(&frc46_token::token::types::DecreaseAllowanceParams { operator: STORAGE_MARKET_ACTOR_ADDR, decrease: TokenAmount::from_whole(1) })),
        ("datacap", "RevokeAllowance") => p(ser(&frc46_token::token::types::RevokeAllowanceParams { operator: STORAGE_MARKET_ACTOR_ADDR })),
        ("datacap", "Burn") => p(ser(&frc46_token::token::types::BurnParams { amount: zero.clone() })),
        ("datacap", "BurnFrom") => p(ser(&frc46_token::token::types::BurnFromParams { owner: w.client, amount: zero.clone() })),
        ("datacap", "Allowance") => p(ser(&frc46_token::token::types::GetAllowanceParams { owner: w.client, operator: STORAGE_MARKET_ACTOR_ADDR })),
        // ---------------- eam ----------------
        ("eam", "Constructor") => none,
        ("eam", "Create") => p(ser(&fil_actor_eam::CreateParams { initcode: vec![], nonce: 0 })),
        ("eam", "Create2") => p(ser(&fil_actor_eam::Create2Params { initcode: vec![], salt: [0u8; 32] })),
        ("eam", "CreateExternal") => p(ser(&fil_actor_eam::CreateExternalParams(vec![]))),
        // ---------------- ethaccount ----------------
        ("ethaccount", "Constructor") => none,
        // ---------------- evm ----------------
        ("evm", "Constructor") | ("evm", "Resurrect") => p(ser(&fil_actor_evm::ConstructorParams {
            creator: fil_actors_evm_shared::address::EthAddress([0xEE; 20]), initcode: RawBytes::default() })),
        ("evm", "GetBytecode") | ("evm", "GetBytecodeHash") => none,
        ("evm", "GetStorageAt") => p(ser(&fil_actor_evm::GetStorageAtParams { storage_key: fil_actors_evm_shared::uints::U256::from(0u64) })),
        ("evm", "InvokeContractDelegate") => {
            // delegate to the contract's own (stored) bytecode
            let est: fil_actor_evm::State = get_state(&w.v, &w.targets["evm"]).unwrap();
            let dp = fil_actor_evm::DelegateCallParams { code: est.bytecode, input: vec![],
                caller: fil_actors_evm_shared::address::EthAddress([0xEE; 20]), value: zero.clone() };
            p(IpldBlock::serialize(DAG_CBOR, &dp).ok())
        }
        ("evm", "InvokeContract") => none,
        // ---------------- init ----------------
        ("init", "Constructor") => p(ser(&fil_actor_init::ConstructorParams { network_name: "c11".to_string() })),
        ("init", "Exec") => {
            let cp = fil_actor_paych::ConstructorParams { from: w.chan_from, to: w.chan_to };
            p(ser(&fil_actor_init::ExecParams { code_cid: *PAYCH_ACTOR_CODE_ID, constructor_params: RawBytes::serialize(&cp).unwrap() }))
        }
        ("init", "Exec4") => {
            let cp = fil_actor_evm::ConstructorParams { creator: fil_actors_evm_shared::address::EthAddress([0xEE; 20]), initcode: RawBytes::default() };
            p(ser(&fil_actor_init::Exec4Params { code_cid: *EVM_ACTOR_CODE_ID, constructor_params: RawBytes::serialize(&cp).unwrap(),
                subaddress: RawBytes::new(vec![0xB7; 20]) }))
        }
        // ---------------- market ----------------
        ("market", "Constructor") | ("market", "CronTick") => none,
        ("market", "AddBalance") => (ser(&w.miner), TokenAmount::from_atto(1)),
        ("market", "WithdrawBalance") => {
            let who = if variant == 0 { w.miner } else { w.client };
            p(ser(&fil_actor_market::WithdrawBalanceParams { provider_or_client: who, amount: TokenAmount::from_atto(1) }))
        }
        ("market", "PublishStorageDeals") => p(ser(&deal_params(&w.client, &w.miner, 400))),
        ("market", "VerifyDealsForActivation") => p(ser(&fil_actor_market::VerifyDealsForActivationParams { sectors: vec![] })),
        ("market", "BatchActivateDeals") => p(ser(&fil_actor_market::BatchActivateDealsParams { sectors: vec![], compute_cid: false })),
        ("market", "OnMinerSectorsTerminate") => p(ser(&fil_actor_market::OnMinerSectorsTerminateParams { epoch: 200, sectors: empty_bf() })),
        ("market", "GetBalance") => p(ser(&w.client)),
        ("market", "SettleDealPayments") => {
            let mut bf = BitField::new();
            bf.set(0);
            p(ser(&fil_actor_market::SettleDealPaymentsParams { deal_ids: bf }))
        }
        ("market", "SectorContentChanged") => p(ser(&fil_actor_market::ext::miner::SectorContentChangedParams { sectors: vec![] })),
        ("market", n) if n.starts_with("GetDeal") => p(ser(&fil_actor_market::DealQueryParams { id: 0 })),
        // ---------------- miner ----------------
        ("miner", "Constructor") => p(ser(&fil_actor_miner::MinerConstructorParams {
            owner: w.owner, worker: w.worker, control_addresses: vec![], window_post_proof_type: RegisteredPoStProof::StackedDRGWindow32GiBV1P1,
            peer_id: b"peer".to_vec(), multi_addresses: vec![BytesDe(b"addr".to_vec())] })),
        ("miner", "ControlAddresses") | ("miner", "ConfirmChangeWorkerAddress") | ("miner", "RepayDebt") | ("miner", "GetBeneficiary")
        | ("miner", "GetOwner") | ("miner", "GetSectorSize") | ("miner", "GetAvailableBalance") | ("miner", "GetVestingFunds")
        | ("miner", "GetPeerID") | ("miner", "GetMultiaddrs") | ("miner", "InitialPledge") => none,
        ("miner", "ChangeWorkerAddress") => p(ser(&fil_actor_miner::ChangeWorkerAddressParams { new_worker: w.worker, new_control_addresses: vec![w.control] })),
        ("miner", "ChangePeerID") => p(ser(&fil_actor_miner::ChangePeerIDParams { new_id: b"peer2".to_vec() })),
        ("miner", "SubmitWindowedPoSt") => p(ser(&fil_actor_miner::SubmitWindowedPoStParams {
            deadline: 0, partitions: vec![], proofs: vec![PoStProof { post_proof: RegisteredPoStProof::StackedDRGWindow32GiBV1P1, proof_bytes: vec![1, 2, 3] }],
            chain_commit_epoch: 199, chain_commit_rand: Randomness(vec![0u8; 32]) })),
        ("miner", "TerminateSectors") => p(ser(&fil_actor_miner::TerminateSectorsParams { terminations: vec![] })),
        ("miner", "DeclareFaults") => p(ser(&fil_actor_miner::DeclareFaultsParams { faults: vec![] })),
        ("miner", "DeclareFaultsRecovered") => p(ser(&fil_actor_miner::DeclareFaultsRecoveredParams { recoveries: vec![] })),
        ("miner", "OnDeferredCronEvent") => {
            let payload = fvm_ipld_encoding::to_vec(&fil_actor_miner::CronEventPayload { event_type: fil_actor_miner::CRON_EVENT_PROVING_DEADLINE }).unwrap();
            p(ser(&fil_actor_miner::DeferredCronEventParams { event_payload: payload, reward_smoothed: fe(), quality_adj_power_smoothed: fe() }))
        }
        ("miner", "CheckSectorProven") => p(ser(&fil_actor_miner::CheckSectorProvenParams { sector_number: 0 })),
        ("miner", "ApplyRewards") => p(ser(&fil_actor_miner::ApplyRewardParams { reward: zero.clone(), penalty: zero.clone() })),
        ("miner", "ReportConsensusFault") => p(ser(&fil_actor_miner::ReportConsensusFaultParams { header1: vec![1], header2: vec![2], header_extra: vec![] })),
        ("miner", "WithdrawBalance") => p(ser(&fil_actor_miner::WithdrawBalanceParams { amount_requested: TokenAmount::from_atto(1) })),
        ("miner", "InternalSectorSetupForPreseal") => p(ser(&fil_actor_miner::InternalSectorSetupForPresealParams {
            sectors: vec![], reward_smoothed: fe(), reward_baseline_power: StoragePower::zero(), quality_adj_power_smoothed: fe() })),
        ("miner", "ChangeMultiaddrs") => p(ser(&fil_actor_miner::ChangeMultiaddrsParams { new_multi_addrs: vec![BytesDe(b"addr2".to_vec())] })),
        ("miner", "CompactPartitions") => p(ser(&fil_actor_miner::CompactPartitionsParams { deadline: 0, partitions: empty_bf() })),
        ("miner", "CompactSectorNumbers") => {
            let mut bf = BitField::new();
            bf.set(0);
            p(ser(&fil_actor_miner::CompactSectorNumbersParams { mask_sector_numbers: bf }))
        }
        ("miner", "ChangeOwnerAddress") => p(ser(&fil_actor_miner::ChangeOwnerAddressParams { new_owner: w.pending_owner })),
        ("miner", "DisputeWindowedPoSt") => p(ser(&fil_actor_miner::DisputeWindowedPoStParams { deadline: 0, post_index: 0 })),
        ("miner", "PreCommitSectorBatch2") => {
            let seal_proof = RegisteredSealProof::StackedDRG32GiBV1P1;
            let pol = Policy::default();
            let expiration = w.v.epoch() + pol.min_sector_expiration
                + fil_actor_miner::max_prove_commit_duration(&pol, seal_proof).unwrap();
            p(ser(&fil_actor_miner::PreCommitSectorBatchParams2 { sectors: vec![fil_actor_miner::SectorPreCommitInfo {
                seal_proof, sector_number: 100, sealed_cid: make_sealed_cid(b"c11"), seal_rand_epoch: w.v.epoch() - 1,
                deal_ids: vec![], expiration, unsealed_cid: fil_actor_miner::CompactCommD::empty() }] }))
        }
        ("miner", "ChangeBeneficiary") => p(ser(&fil_actor_miner::ChangeBeneficiaryParams {
            new_beneficiary: w.nominee, new_quota: w.nominee_quota.clone(), new_expiration: w.nominee_expiration })),
        ("miner", "ExtendSectorExpiration2") => p(ser(&fil_actor_miner::ExtendSectorExpiration2Params { extensions: vec![] })),
        ("miner", "IsControllingAddress") => p(ser(&w.owner)),
        ("miner", "ProveCommitSectors3") => p(ser(&fil_actor_miner::ProveCommitSectors3Params {
            sector_activations: vec![], sector_proofs: vec![], aggregate_proof: RawBytes::default(), aggregate_proof_type: None,
            require_activation_success: false, require_notification_success: false })),
        ("miner", "ProveReplicaUpdates3") => p(ser(&fil_actor_miner::ProveReplicaUpdates3Params {
            sector_updates: vec![], sector_proofs: vec![], aggregate_proof: RawBytes::default(),
            update_proofs_type: RegisteredUpdateProof::StackedDRG32GiBV1, aggregate_proof_type: None,
            require_activation_success: false, require_notification_success: false })),
        ("miner", "ProveCommitSectorsNI") => p(ser(&fil_actor_miner::ProveCommitSectorsNIParams {
            sectors: vec![fil_actor_miner::SectorNIActivationInfo { sealing_number: 200, sealer_id: miner_id, sealed_cid: make_sealed_cid(b"c11-ni"),
                sector_number: 200, seal_rand_epoch: w.v.epoch() - 1, expiration: w.v.epoch() + Policy::default().min_sector_expiration + 100 }],
            aggregate_proof: RawBytes::new(vec![1, 2, 3]), seal_proof_type: RegisteredSealProof::StackedDRG32GiBV1P2_Feat_NiPoRep,
            aggregate_proof_type: RegisteredAggregateProof::SnarkPackV2, proving_deadline: 2, require_activation_success: false })),
        ("miner", "MaxTerminationFee") => p(ser(&fil_actor_miner::MaxTerminationFeeParams { power: StoragePower::zero(), initial_pledge: zero.clone() })),
        ("miner", "GenerateSectorLocation") => p(ser(&fil_actor_miner::GenerateSectorLocationParams { sector_number: 0 })),
        ("miner", "ValidateSectorStatus") => p(ser(&fil_actor_miner::ValidateSectorStatusParams { sector_number: 0, status: fil_actor_miner::SectorStatusCode::Dead, aux_data: vec![] })),
        ("miner", "GetNominalSectorExpiration") => p(ser(&0u64)),
        // ---------------- multisig ----------------
        ("multisig", "Constructor") => p(ser(&fil_actor_multisig::ConstructorParams { signers: vec![w.signer], num_approvals_threshold: 1, unlock_duration: 0, start_epoch: 0 })),
        ("multisig", "Propose") => p(ser(&fil_actor_multisig::ProposeParams { to: w.stranger, value: zero.clone(), method: METHOD_SEND, params: RawBytes::default() })),
        ("multisig", "Approve") | ("multisig", "Cancel") => p(ser(&fil_actor_multisig::TxnIDParams { id: fil_actor_multisig::TxnID(0), proposal_hash: vec![] })),
        ("multisig", "AddSigner") => p(ser(&fil_actor_multisig::AddSignerParams { signer: w.fresh, increase: false })),
        ("multisig", "RemoveSigner") => p(ser(&fil_actor_multisig::RemoveSignerParams { signer: w.signer2, decrease: true })),
        ("multisig", "SwapSigner") => p(ser(&fil_actor_multisig::SwapSignerParams { from: w.signer2, to: w.fresh })),
        ("multisig", "ChangeNumApprovalsThreshold") => p(ser(&fil_actor_multisig::ChangeNumApprovalsThresholdParams { new_threshold: 1 })),
        ("multisig", "LockBalance") => p(ser(&fil_actor_multisig::LockBalanceParams { start_epoch: 0, unlock_duration: 10, amount: TokenAmount::from_atto(1) })),
        ("multisig", "UniversalReceiverHook") => p(ser(&fvm_actor_utils::receiver::UniversalReceiverParams { type_: 0, payload: RawBytes::default() })),
        // ---------------- paych ----------------
        ("paych", "Constructor") => p(ser(&fil_actor_paych::ConstructorParams { from: w.chan_from, to: w.chan_to })),
        ("paych", "UpdateChannelState") => {
            let sv = fil_actor_paych::SignedVoucher {
                channel_addr: w.targets["paych"], time_lock_min: 0, time_lock_max: 0, secret_pre_image: vec![], extra: None,
                lane: 0, nonce: 1, amount: TokenAmount::from_atto(1), min_settle_height: 0, merges: vec![],
                signature: Some(Signature { sig_type: SignatureType::BLS, bytes: vec![1, 2, 3] }) };
            p(ser(&fil_actor_paych::UpdateChannelStateParams { sv, secret: vec![] }))
        }
        ("paych", "Settle") | ("paych", "Collect") => none,
        // ---------------- power ----------------
        ("power", "Constructor") | ("power", "OnEpochTickEnd") | ("power", "CurrentTotalPower") | ("power", "NetworkRawPower")
        | ("power", "MinerCount") | ("power", "MinerConsensusCount") => none,
        ("power", "CreateMiner") => (ser(&fil_actor_power::CreateMinerParams { owner: w.fresh, worker: w.worker,
            window_post_proof_type: RegisteredPoStProof::StackedDRGWindow32GiBV1P1, peer: b"p".to_vec(), multiaddrs: vec![BytesDe(b"a".to_vec())] }),
            TokenAmount::from_whole(50)),
        ("power", "UpdateClaimedPower") => p(ser(&fil_actor_power::UpdateClaimedPowerParams { raw_byte_delta: StoragePower::zero(), quality_adjusted_delta: StoragePower::zero() })),
        ("power", "EnrollCronEvent") => p(ser(&fil_actor_power::EnrollCronEventParams { event_epoch: 300, payload: RawBytes::default() })),
        ("power", "UpdatePledgeTotal") => p(ser(&fil_actor_power::UpdatePledgeTotalParams { pledge_delta: zero.clone() })),
        ("power", "MinerRawPower") => p(ser(&fil_actor_power::MinerRawPowerParams { miner: miner_id })),
        ("power", "MinerPower") => p(ser(&fil_actor_power::MinerPowerParams { miner: miner_id })),
        // ---------------- reward ----------------
        ("reward", "Constructor") => p(ser(&fil_actor_reward::ConstructorParams { power: None })),
        ("reward", "AwardBlockReward") => p(ser(&fil_actor_reward::AwardBlockRewardParams { miner: w.miner, penalty: zero.clone(), gas_reward: zero.clone(), win_count: 1 })),
        ("reward", "ThisEpochReward") => none,
        ("reward", "UpdateNetworkKPI") => p(ser(&fil_actor_reward::UpdateNetworkKPIParams { curr_realized_power: Some(fvm_shared::bigint::bigint_ser::BigIntDe(BigInt::zero())) })),
        // ---------------- system ----------------
        ("system", "Constructor") => none,
        // ---------------- verifreg ----------------
        ("verifreg", "Constructor") => p(ser(&fil_actor_verifreg::ConstructorParams { root_key: TEST_VERIFREG_ROOT_ADDR })),
        ("verifreg", "AddVerifier") => p(ser(&fil_actor_verifreg::VerifierParams { address: w.fresh, allowance: StoragePower::from(1u64 << 40) })),
        ("verifreg", "RemoveVerifier") => p(ser(&fil_actor_verifreg::RemoveVerifierParams { verifier: w.verifier2 })),
        ("verifreg", "AddVerifiedClient") => p(ser(&fil_actor_verifreg::VerifierParams { address: w.fresh, allowance: StoragePower::from(1u64 << 30) })),
        ("verifreg", "RemoveVerifiedClientDataCap") => {
            let rq = |a: Address| fil_actor_verifreg::RemoveDataCapRequest { verifier: a, signature: Signature { sig_type: SignatureType::BLS, bytes: vec![1] } };
            p(ser(&fil_actor_verifreg::RemoveDataCapParams { verified_client_to_remove: w.client, data_cap_amount_to_remove: StoragePower::from(1u64),
                verifier_request_1: rq(w.verifier), verifier_request_2: rq(w.verifier2) }))
        }
        ("verifreg", "RemoveExpiredAllocations") => p(ser(&fil_actor_verifreg::RemoveExpiredAllocationsParams { client: w.client.id().unwrap(), allocation_ids: vec![] })),
        ("verifreg", "ClaimAllocations") => p(ser(&fil_actor_verifreg::ClaimAllocationsParams { sectors: vec![], all_or_nothing: false })),
        ("verifreg", "GetClaims") => p(ser(&fil_actor_verifreg::GetClaimsParams { provider: miner_id, claim_ids: vec![] })),
        ("verifreg", "ExtendClaimTerms") => p(ser(&fil_actor_verifreg::ExtendClaimTermsParams { terms: vec![] })),
        ("verifreg", "RemoveExpiredClaims") => p(ser(&fil_actor_verifreg::RemoveExpiredClaimsParams { provider: miner_id, claim_ids: vec![] })),
        ("verifreg", "UniversalReceiverHook") => p(ser(&fvm_actor_utils::receiver::UniversalReceiverParams { type_: frc46_token::receiver::FRC46_TOKEN_TYPE, payload: RawBytes::default() })),
        (a, n) => panic!("no parameter builder for {}.{} -- a Method variant was added to /repo; extend harness/src/bin/access.rs", a, n),
    }
}

// ------------------------------------------------------------------------------------------------
// injection + classification
// ------------------------------------------------------------------------------------------------
struct Outcome {
    code: u32,
    msg: String,
    validated: bool,
    root_after: Cid,
    panicked: bool,
}

fn inject(w: &World, from: &Address, origin: &Address, to: &Address, value: &TokenAmount, method: MethodNum, params: Option<IpldBlock>) -> Outcome {
    let v = &w.v;
    v.rollback(w.root);
    v.set_epoch(200);
    let npan = v.panics.borrow().len();
    let prior_root = v.checkpoint();
    assert_eq!(prior_root, w.root);
    let (ec, m, validated) = v.inject_call(from.id().unwrap(), origin, to, value, method, params);
    let code = ec.value();
    let root_after = v.checkpoint();
    let panicked = v.panics.borrow().len() > npan;
    Outcome { code, msg: m, validated, root_after, panicked }
}

#[derive(Clone, Copy, PartialEq, Eq, Debug)]
enum Class {
    Passed = 0,
    RejGuard = 1,
    Unhandled = 2,
    RejInternal = 3,
    RejManual = 4,
    NotDriven = 5,
    NoValidation = 6,
}

fn classify(o: &Outcome) -> Class {
    let m = o.msg.as_str();
    if o.code == 0 {
        return Class::Passed;
    }
    if o.code == 24 && m == "failed to validate caller" {
        return Class::NoValidation;
    }
    if !o.validated && o.code == 18 && (m.ends_with("must be built-in") || m.starts_with("no code for caller")) {
        return Class::RejInternal;
    }
    if o.code == 22 && (m.starts_with("invalid method") || m == "Invalid method" || m.starts_with("placeholder actors only handle")) {
        return Class::Unhandled;
    }
    // the vvm primitives (vvm_messaging.rs)
    if (o.code == 18 && m.ends_with("immediate caller address forbidden"))
        || (o.code == 10 && (m.ends_with("immediate caller actor type forbidden")
            || m.ends_with("immediate caller actor namespace forbidden")
            || m.ends_with("immediate caller actor expected to have namespace")))
    {
        return Class::RejGuard;
    }
    // explicit caller gates
    if (o.code == 18 && (m.contains(" is not a signer") && o.validated))
        || (o.code == 18 && m.contains("is neither proposal beneficiary"))
        || (o.code == 18 && m.contains("No changeBeneficiary proposal exists"))
        || (o.code == 17 && m.contains("caller ") && m.contains(" is not a verifier"))
        || (o.code == 18 && m.contains("is not worker or control address of provider"))
        || (o.code == 18 && (m.contains("disallowed caller type") || m.contains("disallowed caller code")))
    {
        return Class::RejManual;
    }
    if !o.validated {
        return Class::NotDriven;
    }
    Class::Passed
}

// ------------------------------------------------------------------------------------------------
// the specification, parsed from coq/Model/Access.v (single source of truth)
// ------------------------------------------------------------------------------------------------
fn parse_spec() -> BTreeMap<(String, String), Vec<String>> {
    let path = concat!(env!("CARGO_MANIFEST_DIR"), "/../coq/Model/Access.v");
    let txt = std::fs::read_to_string(path).expect("coq/Model/Access.v");
    let start = txt.find("Definition spec_table").expect("spec_table");
    let end = start + txt[start..].find("].").expect("end of spec_table");
    let mut out = BTreeMap::new();
    for line in txt[start..end].lines() {
        let l = line.trim();
        if !l.starts_with("(\"") {
            continue;
        }
        // ("actor", "Method" | fallback_name, classes);
        let l = l.trim_end_matches(';').trim_end_matches(')').trim_start_matches('(');
        let mut parts = l.splitn(3, ',');
        let actor = parts.next().unwrap().trim().trim_matches('"').to_string();
        let method = parts.next().unwrap().trim().trim_matches('"').to_string();
        let cls = parts.next().unwrap().trim();
        let classes: Vec<String> = match cls {
            "Anyone" => vec!["Any".to_string()],
            "OwnerWorkerControl" => vec!["Owner".into(), "Worker".into(), "Control".into()],
            c if c.starts_with('[') && c.ends_with(']') => c[1..c.len() - 1].split(';').map(|x| x.trim().to_string()).filter(|x| !x.is_empty()).collect(),
            c => panic!("spec row not understood: {} / {}", l, c),
        };
        let method = if method == "fallback_name" { "<fallback>".to_string() } else { method };
        out.insert((actor, method), classes);
    }
    assert!(out.len() > 150, "spec_table parse produced only {} rows", out.len());
    out
}

/// class membership decided from the IMPLEMENTATION's state
struct Facts {
    owner: Address,
    worker: Address,
    controls: Vec<Address>,
    beneficiary: Address,
    pending_owner: Option<Address>,
    nominee: Option<Address>,
    signers: Vec<Address>,
    chan_from: Address,
    chan_to: Address,
    root_key: Address,
    governor: Address,
    verifiers: BTreeSet<Address>,
}

fn read_facts(w: &World) -> Facts {
    let v = &w.v;
    let store = DynBlockstore::wrap(v.blockstore());
    let mst: fil_actor_miner::State = get_state(v, &w.miner).unwrap();
    let info = mst.get_info(&store).unwrap();
    let ms: fil_actor_multisig::State = get_state(v, &w.targets["multisig"]).unwrap();
    let ps: fil_actor_paych::State = get_state(v, &w.targets["paych"]).unwrap();
    let vs: fil_actor_verifreg::State = get_state(v, &VERIFIED_REGISTRY_ACTOR_ADDR).unwrap();
    let ds: fil_actor_datacap::State = get_state(v, &DATACAP_TOKEN_ACTOR_ADDR).unwrap();
    let mut verifiers = BTreeSet::new();
    for cand in w.reps.iter().filter_map(|r| r.addr).chain([w.verifier2, w.fresh]) {
        if vs.get_verifier_cap(&store, &cand).unwrap().is_some() {
            verifiers.insert(cand);
        }
    }
    Facts {
        owner: info.owner,
        worker: info.worker,
        controls: info.control_addresses.clone(),
        beneficiary: info.beneficiary,
        pending_owner: info.pending_owner_address,
        nominee: info.pending_beneficiary_term.as_ref().map(|t| t.new_beneficiary),
        signers: ms.signers.clone(),
        chan_from: ps.from,
        chan_to: ps.to,
        root_key: vs.root_key,
        governor: ds.governor,
        verifiers,
    }
}

fn actor_type(v: &Vvm, a: &Address) -> Option<Type> {
    v.actor(a).and_then(|st| ACTOR_TYPES.get(&st.code).cloned())
}

fn in_class(w: &World, f: &Facts, tok: &str, caller: &Address, origin: &Address, target: &Address, variant: u32) -> bool {
    let ty = actor_type(&w.v, caller);
    match tok {
        "Any" => true,
        "System" => *caller == SYSTEM_ACTOR_ADDR,
        "Init" => *caller == INIT_ACTOR_ADDR,
        "Reward" => *caller == REWARD_ACTOR_ADDR,
        "Cron" => *caller == CRON_ACTOR_ADDR,
        "Power" => *caller == STORAGE_POWER_ACTOR_ADDR,
        "Market" => *caller == STORAGE_MARKET_ACTOR_ADDR,
        "Verifreg" => *caller == VERIFIED_REGISTRY_ACTOR_ADDR,
        "Datacap" => *caller == DATACAP_TOKEN_ACTOR_ADDR,
        "Eam" => *caller == EAM_ACTOR_ADDR,
        "Self" => caller == target,
        "Origin" => caller == origin,
        "Owner" => *caller == f.owner,
        "Worker" => *caller == f.worker,
        "Control" => f.controls.contains(caller),
        "Beneficiary" => *caller == f.beneficiary,
        "PendingOwner" => f.pending_owner == Some(*caller),
        "Nominee" => f.nominee == Some(*caller),
        "Signer" => f.signers.contains(caller),
        "ChannelFrom" => *caller == f.chan_from,
        "ChannelTo" => *caller == f.chan_to,
        "RootKey" => *caller == f.root_key,
        "Governor" => *caller == f.governor,
        "Verifier" => f.verifiers.contains(caller),
        "EscrowMinerOwner" => variant == 0 && *caller == f.owner,
        "EscrowMinerWorker" => variant == 0 && *caller == f.worker,
        "EscrowClient" => variant == 1 && *caller == w.client,
        "ProviderController" => *caller == f.owner || *caller == f.worker || f.controls.contains(caller),
        "MinerActor" => ty == Some(Type::Miner),
        "EvmContract" => ty == Some(Type::EVM),
        "InitActor" => ty == Some(Type::Init),
        "TopLevel T_Account" => caller == origin && ty == Some(Type::Account),
        "TopLevel T_EthAccount" => caller == origin && ty == Some(Type::EthAccount),
        t => panic!("class `{}` of the specification is not known to the harness", t),
    }
}

fn fallback_from(actor: &str) -> Option<u64> {
    match actor {
        "account" | "ethaccount" | "multisig" => Some(FIRST_EXPORTED),
        "evm" => Some(1024),
        _ => None,
    }
}

fn main() {
    let args = parse_args();
    let t0 = std::time::Instant::now();
    let w = build_world();
    let facts = read_facts(&w);
    let spec = parse_spec();
    let enums = compiled_enums();

    // the world really has the shape the model assumes
    assert_eq!(facts.owner, w.owner);
    assert_eq!(facts.worker, w.worker);
    assert_eq!(facts.controls, vec![w.control]);
    assert_eq!(facts.beneficiary, w.beneficiary);
    assert_eq!(facts.pending_owner, Some(w.pending_owner));
    assert_eq!(facts.nominee, Some(w.nominee));
    assert_eq!(facts.signers, vec![w.signer, w.signer2]);
    assert_eq!((facts.chan_from, facts.chan_to), (w.chan_from, w.chan_to));
    assert_eq!(facts.root_key, TEST_VERIFREG_ROOT_ADDR);
    assert_eq!(facts.governor, VERIFIED_REGISTRY_ACTOR_ADDR);
    assert!(facts.verifiers.contains(&w.verifier) && facts.verifiers.contains(&w.verifier2) && !facts.verifiers.contains(&w.fresh));
    let _ = (w.other_miner, w.beneficiary);

    let header = "From Coq Require Import ZArith List String.\nFrom VF Require Import Base.Corr Base.AccessTypes Model.Access.\nImport ListNotations.\nOpen Scope string_scope.\nOpen Scope Z_scope.\n";
    let mut cw = CaseWriter::new(&args.out, header, "check_case", args.shards);
    let mut stats = Stats::default();

    let mut cells_total = 0u64;
    let mut cells_driven = 0u64;
    let mut not_driven: BTreeMap<String, u64> = BTreeMap::new();
    let mut per_actor_methods: BTreeMap<String, usize> = BTreeMap::new();
    let mut class_hist: BTreeMap<String, u64> = BTreeMap::new();
    let mut harness_panics: Vec<String> = vec![];
    // per (actor, method): did some cell reach an accepted / a rejected classification
    let mut row_accept: BTreeMap<(String, u64), u64> = BTreeMap::new();
    let mut row_reject: BTreeMap<(String, u64), u64> = BTreeMap::new();
    let mut row_ok: BTreeMap<(String, u64), u64> = BTreeMap::new();
    let mut passed_ok = 0u64;
    let mut later_errors: BTreeMap<String, u64> = BTreeMap::new();

    for (actor, variants) in &enums {
        let target = w.targets[actor];
        // ---- the compiled enum vs the generated table ----
        let mut steps = vec![];
        for (nm, num) in variants {
            steps.push((format!("EnumIs \"{}\" {}", nm, num), vec!["1".to_string()]));
            stats.op("enum", 0);
        }
        let nums: Vec<String> = variants.iter().map(|x| x.1.to_string()).collect();
        steps.push((format!("Covered [{}]", nums.join("; ")), vec!["1".to_string()]));
        stats.op("enum", 0);
        cw.push(Case { init: format!("\"{}\"", actor), steps, nontrivial: false });

        // ---- columns: every enum number + undefined numbers ----
        let mut cols: Vec<(Option<&'static str>, u64)> = variants.iter().map(|(n, m)| (Some(*n), *m)).collect();
        for extra in [0u64, 1, 99, 1023, 1024, FIRST_EXPORTED - 1, FIRST_EXPORTED, UNKNOWN_FRC42] {
            if !cols.iter().any(|c| c.1 == extra) {
                cols.push((None, extra));
            }
        }
        per_actor_methods.insert(actor.to_string(), cols.len());

        for rep in &w.reps {
            let caller = rep.addr.unwrap_or(target);
            let origin = if rep.origin_self { caller } else { w.default_origin };
            let mut steps = vec![];
            let (mut n_acc, mut n_rej) = (0, 0);
            for (name, m) in &cols {
                let variants_for: &[u32] = match (*actor, *name) {
                    ("market", Some("WithdrawBalance")) | ("market", Some("WithdrawBalanceExported")) => &[0, 1],
                    _ => &[0],
                };
                for &variant in variants_for {
                    cells_total += 1;
                    let (params, value) = match name {
                        Some(n) => params_for(&w, actor, n, variant),
                        None => (None, TokenAmount::zero()),
                    };
                    let o = inject(&w, &caller, &origin, &target, &value, *m, params);
                    let cl = classify(&o);
                    let cell = format!("{}.{}#{}[v{}] from {}", actor, name.unwrap_or("<undefined>"), m, variant, rep.coq);
                    *class_hist.entry(format!("{:?}", cl)).or_insert(0) += 1;
                    if o.panicked {
                        let p = w.v.panics.borrow().last().cloned().unwrap_or_default();
                        harness_panics.push(format!("{}: {}", cell, p));
                    }
                    // ---------------- monitors ----------------
                    let rejected = matches!(cl, Class::RejGuard | Class::RejInternal | Class::RejManual);
                    if cl == Class::NoValidation {
                        stats.monitor_fail(json!({"class": "completed-without-validation", "what": [cell.clone()], "code": o.code, "msg": o.msg}));
                    }
                    if (rejected || cl == Class::Unhandled) && o.root_after != w.root {
                        stats.monitor_fail(json!({"class": "rejected-call-changed-state", "what": [cell.clone()], "code": o.code, "msg": o.msg}));
                    }
                    if *m != METHOD_SEND && cl != Class::NotDriven && cl != Class::NoValidation {
                        let external = matches!(actor_type(&w.v, &caller), None | Some(Type::EVM));
                        match name {
                            Some(n) => {
                                let classes = spec.get(&(actor.to_string(), n.to_string()))
                                    .unwrap_or_else(|| panic!("no specification row for {}.{}", actor, n));
                                let designated = classes.iter().any(|c| in_class(&w, &facts, c, &caller, &origin, &target, variant));
                                // internal numbers are closed to external code on every actor but eam/evm
                                let closed = *m < FIRST_EXPORTED && external && !matches!(*actor, "eam" | "evm");
                                if (!designated || closed) && !rejected {
                                    stats.monitor_fail(json!({"class": "outsider-not-rejected", "what": [cell.clone()], "code": o.code, "msg": o.msg,
                                        "designated": classes, "closed_internal": closed}));
                                }
                                if designated && !closed && rejected {
                                    stats.monitor_fail(json!({"class": "designated-caller-rejected-by-guard", "what": [cell.clone()], "code": o.code, "msg": o.msg,
                                        "designated": classes}));
                                }
                            }
                            None => {
                                // undefined number: only a specified fallback may accept it
                                let fb = spec.contains_key(&(actor.to_string(), "<fallback>".to_string()))
                                    && fallback_from(actor).map(|f| *m >= f).unwrap_or(false);
                                if !fb && cl == Class::Passed {
                                    stats.monitor_fail(json!({"class": "outsider-not-rejected", "what": [cell.clone(), "undefined method accepted".to_string()], "code": o.code, "msg": o.msg}));
                                }
                            }
                        }
                    }
                    // ---------------- correspondence ----------------
                    if cl == Class::NotDriven || cl == Class::NoValidation {
                        *not_driven.entry(format!("{}.{}#{}: code {} {}", actor, name.unwrap_or("<undefined>"), m, o.code,
                            o.msg.chars().take(60).collect::<String>())).or_insert(0) += 1;
                        stats.op(&format!("notdriven:{}", actor), 0);
                        continue;
                    }
                    cells_driven += 1;
                    if cl == Class::Passed { n_acc += 1; *row_accept.entry((actor.to_string(), *m)).or_insert(0) += 1; }
                    if cl == Class::Passed && o.code == 0 { passed_ok += 1; *row_ok.entry((actor.to_string(), *m)).or_insert(0) += 1; }
                    if cl == Class::Passed && o.code != 0 {
                        *later_errors.entry(format!("{}.{}: {}", actor, name.unwrap_or("<undefined>"), o.code)).or_insert(0) += 1;
                    }
                    if rejected { n_rej += 1; *row_reject.entry((actor.to_string(), *m)).or_insert(0) += 1; }
                    stats.op(&format!("call:{}", actor), if cl == Class::Passed { 0 } else { o.code });
                    steps.push((format!("Call {} {} {}", variant, m, rep.coq), vec![(cl as u32).to_string()]));
                }
            }
            cw.push(Case { init: format!("\"{}\"", actor), steps, nontrivial: n_acc > 0 && n_rej > 0 });
        }
    }

    // rows for which no cell was accepted / no outsider was rejected
    let mut rows_never_accepted = vec![];
    let mut rows_never_rejected_though_restricted = vec![];
    for (actor, variants) in &enums {
        for (n, m) in variants {
            if row_accept.get(&(actor.to_string(), *m)).copied().unwrap_or(0) == 0 {
                rows_never_accepted.push(format!("{}.{}", actor, n));
            }
            let classes = &spec[&(actor.to_string(), n.to_string())];
            if !classes.contains(&"Any".to_string()) && row_reject.get(&(actor.to_string(), *m)).copied().unwrap_or(0) == 0 {
                rows_never_rejected_though_restricted.push(format!("{}.{}", actor, n));
            }
        }
    }

    let mut rows_never_ok = vec![];
    for (actor, variants) in &enums {
        for (n, m) in variants {
            if row_ok.get(&(actor.to_string(), *m)).copied().unwrap_or(0) == 0 {
                rows_never_ok.push(format!("{}.{}", actor, n));
            }
        }
    }
    stats.extra.insert("accepted_and_completed_ok".into(), json!(passed_ok));
    stats.extra.insert("rows_where_no_accepted_call_completed_ok".into(), json!(rows_never_ok));
    stats.extra.insert("accepted_then_failed_later_by_method_and_code".into(), json!(later_errors));
    let n_methods: usize = per_actor_methods.values().sum();
    stats.extra.insert("exhaustive".into(), json!(true));
    stats.extra.insert("matrix".into(), json!({
        "actors": enums.len(),
        "method_columns_per_actor": per_actor_methods,
        "method_columns_total": n_methods,
        "enum_variants_total": enums.iter().map(|e| e.1.len()).sum::<usize>(),
        "caller_representatives": w.reps.len(),
        "representatives": w.reps.iter().map(|r| r.coq).collect::<Vec<_>>(),
        "extra_variants": "market WithdrawBalance(+Exported): provider_or_client = miner | client",
        "cells_total": cells_total,
        "cells_driven_to_the_guard": cells_driven,
        "cells_not_driven": cells_total - cells_driven,
    }));
    stats.extra.insert("not_driven_by_method".into(), json!(not_driven));
    stats.extra.insert("class_histogram".into(), json!(class_hist));
    stats.extra.insert("rows_never_accepted".into(), json!(rows_never_accepted));
    stats.extra.insert("rows_never_rejected_though_restricted".into(), json!(rows_never_rejected_though_restricted));
    stats.extra.insert("actor_panics_caught".into(), json!(harness_panics));
    stats.extra.insert("undriveable_classes".into(), json!(["NoCode (a caller without code cannot exist on the harness VM; covered by the theorem only)"]));
    stats.extra.insert("wall_s".into(), json!(t0.elapsed().as_secs_f64()));
    let _ = args.replay;
    cw.finish(&stats, "access");
    eprintln!("access: {} cells, {} driven, {} not driven, {:.1}s", cells_total, cells_driven, cells_total - cells_driven, t0.elapsed().as_secs_f64());
}
