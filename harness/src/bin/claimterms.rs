//! C10 correspondence + monitor harness: real miner + power + verifreg + datacap (+ market, reward,
//! cron) on the harness VM against coq/Model/ClaimTerms.v.  Verified sectors are onboarded through
//! the real PreCommit / ProveCommitSectors3 / WindowPoSt flow (direct allocations, no deals), then
//! histories of ExtendSectorExpiration2 declarations (maintain / drop lists drawn from the sector's
//! real claims, with duplicates, foreign ids, claims of another sector), ExtendClaimTerms, datacap
//! claim extensions, RemoveExpiredClaims, terminations and epoch jumps are generated.
#![allow(unused_imports)]
#[path = "vrcommon/mod.rs"]
mod vrcommon;
use vrcommon::*;

use fil_actor_miner::{
    deadline_is_mutable, CompactCommD, ExpirationExtension2, ExtendSectorExpiration2Params,
    Method as MinerMethod, PieceActivationManifest, ProveCommitSectors3Params,
    SectorActivationManifest, SectorClaim, SectorOnChainInfoFlags, State as MinerState,
    TerminateSectorsParams, TerminationDeclaration, VerifiedAllocationKey,
};
use fil_actor_verifreg::{Claim, State as VrState};
use fil_actors_integration_tests::util::{
    advance_by_deadline_to_epoch, advance_to_proving_deadline, create_accounts, create_miner,
    precommit_sectors_v2, submit_windowed_post, PrecommitMetadata,
};
use fil_actors_runtime::runtime::policy_constants::{
    END_OF_LIFE_CLAIM_DROP_PERIOD, MAXIMUM_VERIFIED_ALLOCATION_TERM, MAX_SECTOR_EXPIRATION_EXTENSION,
    MINIMUM_VERIFIED_ALLOCATION_TERM, MIN_SECTOR_EXPIRATION,
};
use fil_actors_runtime::runtime::Policy;
use fil_actors_runtime::test_utils::make_piece_cid;
use fil_actors_runtime::{VERIFIED_REGISTRY_ACTOR_ADDR, EPOCHS_IN_DAY};
use fvm_ipld_bitfield::BitField;
use fvm_ipld_encoding::RawBytes;
use fvm_shared::address::Address;
use fvm_shared::bigint::BigInt;
use fvm_shared::econ::TokenAmount;
use fvm_shared::piece::{PaddedPieceSize, PieceInfo};
use fvm_shared::sector::{RegisteredSealProof, SectorNumber};
use num_traits::{Signed, Zero};
use serde::{Deserialize, Serialize};
use serde_json::json;
use std::collections::{BTreeMap, BTreeSet, HashMap};
use vharness::coqfmt::{self as cf, Case, CaseWriter, Stats};
use vharness::prng::Prng;
use vharness::util::*;
use vharness::vvm::{Vvm, TEST_VERIFREG_ROOT_ADDR};
use vm_api::util::get_state;
use vm_api::VM;

const SEAL: RegisteredSealProof = RegisteredSealProof::StackedDRG32GiBV1P1;
const SECTOR_SIZE: u64 = 32 << 30;

// ---------- operations ----------
#[derive(Clone, Debug, Serialize, Deserialize)]
struct SClaim { sector: u64, maintain: Vec<u64>, drop: Vec<u64> }
#[derive(Clone, Debug, Serialize, Deserialize)]
struct EDecl { sectors: Vec<u64>, claims: Vec<SClaim>, new_exp: i64, bad_deadline: bool }

#[derive(Clone, Debug, Serialize, Deserialize)]
enum COp {
    Vr(VOp),
    /// pre-commit (expiry), advance past the challenge delay, ProveCommitSectors3 with the listed
    /// verified pieces, then (if activated) prove the sector's partition once
    Onboard { n: u64, life: i64, claims: Vec<AClaim> },
    Extend2 { epoch: i64, caller: u64, decls: Vec<EDecl> },
    Terminate { epoch: i64, caller: u64, n: u64 },
}

#[derive(Clone, Debug, Serialize, Deserialize)]
struct CCase { ops: Vec<COp> }

fn ckind(op: &COp) -> &'static str {
    match op {
        COp::Vr(o) => kind(o),
        COp::Onboard { .. } => "onboard_verified_sector",
        COp::Extend2 { .. } => "extend_sector_expiration2",
        COp::Terminate { .. } => "terminate_sectors",
    }
}

// ---------- world ----------
struct CWorld {
    w: World,
    miner: u64,
    owner: u64,
    verifier: u64,
    clients: Vec<u64>,
    outsider: u64,
    precommits: std::cell::RefCell<u32>,
}

fn setup() -> CWorld {
    let v = new_world();
    let accts = create_accounts(&v, 5, &TokenAmount::from_whole(10_000));
    let mut keys = HashMap::new();
    for a in &accts {
        keys.insert(a.id().unwrap(), get_state::<fil_actor_account::State>(&v, a).unwrap().address);
    }
    let (m, _) = create_miner(
        &v,
        &accts[0],
        &accts[0],
        SEAL.registered_window_post_proof().unwrap(),
        &TokenAmount::from_whole(8_000),
    );
    v.take_invocations();
    v.set_epoch(200);
    let cids = (0..NDATA).map(|i| make_piece_cid(format!("piece-{}", i).as_bytes())).collect();
    let ids: Vec<u64> = accts.iter().map(|a| a.id().unwrap()).collect();
    CWorld {
        w: World { v, accts: ids.clone(), keys, miners: vec![m.id().unwrap()], root: TEST_VERIFREG_ROOT_ADDR.id().unwrap(), cids },
        miner: m.id().unwrap(),
        owner: ids[0],
        verifier: ids[1],
        clients: vec![ids[2], ids[3]],
        outsider: ids[4],
        precommits: std::cell::RefCell::new(0),
    }
}

// ---------- snapshot ----------
#[derive(Clone, PartialEq, Debug)]
struct SectorView {
    activation: i64,
    expiration: i64,
    power_base: i64,
    dweight: BigInt,
    vweight: BigInt,
    simple: bool,
    terminated: bool,
    deadline: u64,
    partition: u64,
}
#[derive(Clone, PartialEq, Debug)]
struct CSnap { s: Snap, sectors: BTreeMap<u64, SectorView> }

fn csnapshot(cw: &CWorld, known: &BTreeSet<u64>) -> CSnap {
    let s = snapshot(&cw.w);
    let store = cw.w.v.store.as_ref();
    let st: MinerState = get_state(&cw.w.v, &id(cw.miner)).unwrap();
    let mut sectors = BTreeMap::new();
    for n in known {
        if let Some(si) = st.get_sector(store, *n).unwrap() {
            let (d, p) = st.find_sector(store, *n).unwrap();
            let dls = st.load_deadlines(store).unwrap();
            let dl = dls.load_deadline(store, d).unwrap();
            let part = dl.load_partition(store, p).unwrap();
            sectors.insert(*n, SectorView {
                activation: si.activation,
                expiration: si.expiration,
                power_base: si.power_base_epoch,
                dweight: si.deal_weight.clone(),
                vweight: si.verified_deal_weight.clone(),
                simple: si.flags.contains(SectorOnChainInfoFlags::SIMPLE_QA_POWER),
                terminated: part.terminated.get(*n),
                deadline: d,
                partition: p,
            });
        }
    }
    CSnap { s, sectors }
}

// ---------- execution ----------
struct COutcome { o: Outcome, onboard_epoch: i64, mutable: bool, expiry: i64 }

fn plain(code: u32) -> Outcome {
    Outcome { code, ret: vec![], events: vec![], minted: BigInt::zero(), burnt: BigInt::zero(), group_codes: vec![] }
}

fn run_cop(cw: &CWorld, op: &COp, pre: &CSnap, notes: &mut Vec<String>) -> COutcome {
    let v = &cw.w.v;
    let zero = TokenAmount::zero();
    match op {
        COp::Vr(o) => COutcome { o: run_op(&cw.w, o, notes), onboard_epoch: 0, mutable: false, expiry: 0 },
        COp::Onboard { n, life, claims } => {
            let maddr = id(cw.miner);
            let worker = id(cw.owner);
            let pieces: Vec<PieceActivationManifest> = claims.iter().map(|c| PieceActivationManifest {
                cid: cw.w.cids[c.data as usize],
                size: PaddedPieceSize(c.size),
                verified_allocation_key: Some(VerifiedAllocationKey { client: c.client, id: c.id }),
                notify: vec![],
            }).collect();
            let pis: Vec<PieceInfo> = pieces.iter().map(|p| PieceInfo { size: p.size, cid: p.cid }).collect();
            let commd = v.primitives().compute_unsealed_sector_cid(SEAL, &pis).unwrap();
            let policy = Policy::default();
            let prove_at = v.epoch() + policy.pre_commit_challenge_delay + 1;
            let expiry = prove_at + life;
            let first = *cw.precommits.borrow() == 0;
            precommit_sectors_v2(v, 1, vec![PrecommitMetadata { deals: vec![], commd: CompactCommD::of(commd) }],
                &worker, &maddr, SEAL, *n, first, Some(expiry));
            *cw.precommits.borrow_mut() += 1;
            advance_by_deadline_to_epoch(v, &maddr, prove_at);
            v.take_invocations();
            let params = ProveCommitSectors3Params {
                sector_activations: vec![SectorActivationManifest { sector_number: *n, pieces }],
                sector_proofs: vec![RawBytes::new(vec![1, 2, 3, 4])],
                aggregate_proof: RawBytes::default(),
                aggregate_proof_type: None,
                require_activation_success: true,
                require_notification_success: true,
            };
            let epoch = v.epoch();
            let r = exec(v, &worker, &maddr, &zero, MinerMethod::ProveCommitSectors3 as u64, Some(params));
            let c = code(&r);
            if std::env::var("VERIF_DEBUG").is_ok() && c != 0 { eprintln!("DBG onboard -> {}: {}", c, r.message); }
            let mut out = plain(c);
            let traces = v.take_invocations();
            if c == 0 {
                for t in &traces { walk(t, &mut out.events, &mut out.minted, &mut out.burnt); }
                // first window post so that the sector is active (extensions refuse unproven sectors)
                let (dl, p) = advance_to_proving_deadline(v, &maddr, *n);
                submit_windowed_post(v, &worker, &maddr, dl, p, None);
                v.take_invocations();
            }
            COutcome { o: out, onboard_epoch: epoch, mutable: false, expiry }
        }
        COp::Extend2 { epoch, caller, decls } => {
            v.set_epoch(*epoch);
            let mut exts = vec![];
            for d in decls {
                // every declaration names the real location of its first sector
                let first = d.sectors.iter().chain(d.claims.iter().map(|c| &c.sector)).next().cloned().unwrap_or(0);
                let (dl, p) = pre.sectors.get(&first).map(|s| (s.deadline, s.partition)).unwrap_or((0, 0));
                exts.push(ExpirationExtension2 {
                    deadline: if d.bad_deadline { 48 } else { dl },
                    partition: p,
                    sectors: BitField::try_from_bits(d.sectors.iter().copied()).unwrap(),
                    sectors_with_claims: d.claims.iter().map(|c| SectorClaim {
                        sector_number: c.sector, maintain_claims: c.maintain.clone(), drop_claims: c.drop.clone(),
                    }).collect(),
                    new_expiration: d.new_exp,
                });
            }
            v.take_invocations();
            let r = exec(v, &id(*caller), &id(cw.miner), &zero, MinerMethod::ExtendSectorExpiration2 as u64,
                Some(ExtendSectorExpiration2Params { extensions: exts }));
            if std::env::var("VERIF_DEBUG").is_ok() && code(&r) != 0 { eprintln!("DBG extend2 -> {}: {}", code(&r), r.message); }
            v.take_invocations();
            COutcome { o: plain(code(&r)), onboard_epoch: 0, mutable: false, expiry: 0 }
        }
        COp::Terminate { epoch, caller, n } => {
            v.set_epoch(*epoch);
            let (dl, p) = pre.sectors.get(n).map(|s| (s.deadline, s.partition)).unwrap_or((0, 0));
            let st: MinerState = get_state(v, &id(cw.miner)).unwrap();
            let policy = Policy::default();
            let mutable = deadline_is_mutable(&policy, st.current_proving_period_start(&policy, *epoch), dl, *epoch);
            v.take_invocations();
            let r = exec(v, &id(*caller), &id(cw.miner), &zero, MinerMethod::TerminateSectors as u64,
                Some(TerminateSectorsParams { terminations: vec![TerminationDeclaration {
                    deadline: dl, partition: p, sectors: BitField::try_from_bits([*n].iter().copied()).unwrap() }] }));
            if std::env::var("VERIF_DEBUG").is_ok() && code(&r) != 0 { eprintln!("DBG terminate -> {}: {}", code(&r), r.message); }
            v.take_invocations();
            COutcome { o: plain(code(&r)), onboard_epoch: 0, mutable, expiry: 0 }
        }
    }
}

// ---------- Gallina printing ----------
fn coq_cop(cw: &CWorld, op: &COp, out: &COutcome, pre: &CSnap) -> String {
    match op {
        COp::Vr(o) => format!("Vr ({})", coq_op(o)),
        COp::Onboard { n, claims, .. } => format!(
            "Onboard {} {} {} {} {}", cf::z(out.onboard_epoch), cw.miner, n, cf::z(out.expiry),
            cf::list(claims.iter().map(|c| format!(
                "{{| ac_client := {}; ac_id := {}; ac_data := {}; ac_size := {} |}}", c.client, c.id, c.data, c.size)))),
        COp::Extend2 { epoch, caller, decls } => format!(
            "Extend2 {} {} {} {}", cf::z(*epoch), caller, cw.miner,
            cf::list(decls.iter().map(|d| {
                let first = d.sectors.iter().chain(d.claims.iter().map(|c| &c.sector)).next().cloned().unwrap_or(0);
                let dl = if d.bad_deadline { 48 } else { pre.sectors.get(&first).map(|s| s.deadline).unwrap_or(0) };
                format!(
                    "{{| ed_deadline := {}; ed_new_exp := {}; ed_sectors := {}; ed_claims := {} |}}",
                    dl, cf::z(d.new_exp), cf::zlist(&d.sectors),
                    cf::list(d.claims.iter().map(|c| format!(
                        "{{| sc_sector := {}; sc_maintain := {}; sc_drop := {} |}}", c.sector, cf::zlist(&c.maintain), cf::zlist(&c.drop)))))
            }))),
        COp::Terminate { epoch, caller, n } => format!(
            "Terminate {} {} {} {} {}", cf::z(*epoch), caller, cw.miner, n, cf::b(out.mutable)),
    }
}

fn cobs(cw: &CWorld, s: &CSnap, o: &Outcome) -> Vec<String> {
    let mut v = obs(&cw.w, &s.s, o);
    let mut x = vec![];
    for (n, sv) in &s.sectors {
        x.extend(vec![z(cw.miner), z(n), z(sv.activation), z(sv.expiration), z(sv.power_base), z(&sv.dweight),
            z(&sv.vweight), z(sv.simple as u8), z(sv.terminated as u8)]);
    }
    v.extend(enc_list(x));
    v
}


/// how an ExtendSectorExpiration2 message declares sector `n`:
/// (some claim id repeated among all ids listed for it, it is named by more than one declaration /
/// claim entry)
fn decl_shape(decls: &[EDecl], n: u64) -> (bool, bool) {
    let mut ids: Vec<u64> = vec![];
    let mut entries = 0;
    let mut in_decls = 0;
    for d in decls {
        let mut here = d.sectors.contains(&n);
        for c in d.claims.iter().filter(|c| c.sector == n) {
            entries += 1;
            here = true;
            ids.extend(c.maintain.iter());
            ids.extend(c.drop.iter());
        }
        if here { in_decls += 1; }
    }
    let set: BTreeSet<u64> = ids.iter().cloned().collect();
    (set.len() != ids.len(), entries > 1 || in_decls > 1)
}

// ---------- monitor ----------
struct CMon {
    /// claims that existed at some point: (provider, id) -> largest term_max seen
    seen_tmax: BTreeMap<(u64, u64), i64>,
    extended: u64,
    extended_with_drop: u64,
    dup_accepted: u64,
    split_accepted: u64,
    /// sectors extended by a malformed declaration that was accepted: sector -> finding class
    tainted: BTreeMap<u64, &'static str>,
    claims_removed: u64,
    onboarded: u64,
    terminated: u64,
}

fn covering(s: &Snap, provider: u64, n: u64, expiration: i64) -> u128 {
    s.claims.values().filter(|c| c.provider == provider && c.sector == n && expiration <= c.term_start + c.term_max)
        .map(|c| c.size.0 as u128).sum()
}

fn cmonitor(cw: &CWorld, op: &COp, pre: &CSnap, post: &CSnap, o: &Outcome, m: &mut CMon) -> Vec<(String, String)> {
    let mut bad: Vec<(String, String)> = vec![];
    let now = cw.w.v.epoch();
    // ---- verified weight is backed by claims reaching the sector's expiration ----
    for (n, sv) in &post.sectors {
        if sv.terminated || !sv.simple || sv.expiration <= now || !sv.vweight.is_positive() { continue; }
        let dur = sv.expiration - sv.power_base;
        if dur <= 0 { bad.push(("sector-power-base-after-expiration".into(), format!("sector {}", n))); continue; }
        let space: u128 = (&sv.vweight / dur).try_into().unwrap();
        if &sv.vweight % dur != BigInt::zero() {
            bad.push(("verified-weight-not-space-times-duration".into(), format!("sector {} weight {} duration {}", n, sv.vweight, dur)));
        }
        let cov = covering(&post.s, cw.miner, *n, sv.expiration);
        if space > cov {
            // classify by the malformed declaration (if any) that was accepted for this sector
            if let COp::Extend2 { decls, .. } = op {
                if o.code == 0 {
                    let (dup, multi) = decl_shape(decls, *n);
                    if dup { m.tainted.entry(*n).or_insert("F4-duplicate-claim-id-in-extension"); }
                    else if multi { m.tainted.entry(*n).or_insert("F4b-sector-in-two-declarations"); }
                }
            }
            let class = m.tainted.get(n).cloned().unwrap_or("verified-weight-not-backed");
            bad.push((class.into(), format!(
                "sector {} (expiration {}) carries verified space {} but the claims whose max term reaches the expiration total only {}",
                n, sv.expiration, space, cov)));
        }
        for c in post.s.claims.values().filter(|c| c.provider == cw.miner && c.sector == *n) {
            if c.term_start < sv.activation {
                bad.push(("claim-started-before-activation".into(), format!("sector {} claim term_start {}", n, c.term_start)));
            }
        }
    }
    if o.code != 0 {
        if pre != post && !matches!(op, COp::Onboard { .. }) {
            bad.push(("rejected-message-changed-state".into(), format!("{} exit {}", ckind(op), o.code)));
        }
        return bad;
    }
    // ---- claims: term_max monotone, removal only after expiry, other fields immutable ----
    for (k, c) in &pre.s.claims {
        match post.s.claims.get(k) {
            None => {
                m.claims_removed += 1;
                if now < c.term_start + c.term_max {
                    bad.push(("claim-removed-before-expiry".into(), format!("claim {:?} (term end {}) removed at {}", k, c.term_start + c.term_max, now)));
                }
            }
            Some(c2) => {
                if c2.term_max < c.term_max { bad.push(("claim-term-max-decreased".into(), format!("claim {:?}: {} -> {}", k, c.term_max, c2.term_max))); }
                if (c2.provider, c2.client, &c2.data, c2.size, c2.term_min, c2.term_start, c2.sector)
                    != (c.provider, c.client, &c.data, c.size, c.term_min, c.term_start, c.sector) {
                    bad.push(("claim-fields-changed".into(), format!("claim {:?}", k)));
                }
            }
        }
    }
    for (k, c) in &post.s.claims {
        let e = m.seen_tmax.entry(*k).or_insert(c.term_max);
        if c.term_max < *e { bad.push(("claim-term-max-decreased".into(), format!("claim {:?}", k))); }
        *e = (*e).max(c.term_max);
    }
    // ---- extensions ----
    if let COp::Extend2 { epoch, decls, .. } = op {
        for (n, sv) in &post.sectors {
            let Some(old) = pre.sectors.get(n) else { continue };
            if old == sv { continue; }
            m.extended += 1;
            if sv.expiration < old.expiration { bad.push(("sector-expiration-decreased".into(), format!("sector {}", n))); }
            if !old.simple || !old.vweight.is_positive() { continue; }
            let old_space = &old.vweight / (old.expiration - old.power_base);
            let new_space = if sv.expiration > sv.power_base { &sv.vweight / (sv.expiration - sv.power_base) } else { BigInt::zero() };
            if new_space > old_space { bad.push(("verified-space-grew-on-extension".into(), format!("sector {}", n))); }
            if new_space < old_space {
                m.extended_with_drop += 1;
                if old.expiration - epoch > END_OF_LIFE_CLAIM_DROP_PERIOD {
                    bad.push(("claim-dropped-outside-end-of-life".into(), format!(
                        "sector {} dropped verified space {} -> {} with {} epochs of life left", n, old_space, new_space, old.expiration - epoch)));
                }
            }
            let (dup, multi) = decl_shape(decls, *n);
            if dup { m.dup_accepted += 1; m.tainted.entry(*n).or_insert("F4-duplicate-claim-id-in-extension"); }
            else if multi { m.split_accepted += 1; m.tainted.entry(*n).or_insert("F4b-sector-in-two-declarations"); }
            // since fix 081fc6c such declarations must be refused
            if dup { bad.push(("F4-duplicate-claim-id-in-extension".into(), format!("a declaration listing a claim id twice for sector {} was accepted", n))); }
            else if multi { bad.push(("F4b-sector-in-two-declarations".into(), format!("sector {} was extended by a message naming it in two declarations", n))); }
        }
    }
    if let COp::Onboard { n, .. } = op {
        m.onboarded += 1;
        match post.sectors.get(n) {
            None => bad.push(("onboarded-sector-missing".into(), format!("sector {}", n))),
            Some(sv) => {
                let claims: Vec<&Claim> = post.s.claims.values().filter(|c| c.provider == cw.miner && c.sector == *n).collect();
                let total: u128 = claims.iter().map(|c| c.size.0 as u128).sum();
                let space: u128 = (&sv.vweight / (sv.expiration - sv.power_base)).try_into().unwrap();
                if total != space { bad.push(("onboard-space-not-claims".into(), format!("sector {} space {} claims {}", n, space, total))); }
                for c in claims {
                    if c.term_start != sv.activation || sv.expiration < c.term_start + c.term_min || sv.expiration > c.term_start + c.term_max {
                        bad.push(("onboard-outside-claim-term".into(), format!("sector {} expiration {} claim [{}, {}] from {}", n, sv.expiration, c.term_min, c.term_max, c.term_start)));
                    }
                }
            }
        }
    }
    if let COp::Terminate { .. } = op { m.terminated += 1; }
    bad
}

// ---------- generator ----------
struct CGen<'a> { r: &'a mut Prng, epoch: i64 }

impl<'a> CGen<'a> {
    fn claims_of(&self, cw: &CWorld, s: &CSnap, n: u64) -> Vec<(u64, Claim)> {
        s.s.claims.iter().filter(|((p, _), c)| *p == cw.miner && c.sector == n).map(|((_, i), c)| (*i, c.clone())).collect()
    }
    fn advance(&mut self, cw: &CWorld, s: &CSnap) {
        // interesting targets: end-of-life windows of sectors, term ends of claims
        let mut targets: Vec<i64> = vec![];
        for sv in s.sectors.values() {
            targets.push(sv.expiration - END_OF_LIFE_CLAIM_DROP_PERIOD + self.r.range(-3, 3));
            targets.push(sv.expiration - self.r.range(0, 2000));
            targets.push(sv.expiration + self.r.range(0, 3));
        }
        for c in s.s.claims.values() {
            targets.push(c.term_start + c.term_max + self.r.range(-2, 2));
        }
        let _ = cw;
        let d = match self.r.below(100) {
            0..=34 => 0,
            35..=59 => self.r.range(1, 100),
            60..=74 => self.r.range(1000, 30_000),
            75..=84 => self.r.range(50_000, 300_000),
            _ => {
                let fut: Vec<i64> = targets.iter().cloned().filter(|t| *t > self.epoch).collect();
                if fut.is_empty() { self.r.range(0, 1000) } else { *self.r.pick(&fut) - self.epoch }
            }
        };
        // most of the time stay inside the life of the sectors that are still running
        let live_end = s.sectors.values().filter(|sv| !sv.terminated && sv.expiration >= self.epoch).map(|sv| sv.expiration).min();
        let mut d = d.max(0);
        if let Some(end) = live_end {
            if self.epoch + d > end && self.r.chance(88) { d = (end - self.epoch - self.r.range(0, 50)).max(0).min(d); }
        }
        self.epoch += d.max(0);
    }
    fn sclaim(&mut self, cw: &CWorld, s: &CSnap, n: u64, new_exp: i64) -> SClaim {
        let cl = self.claims_of(cw, s, n);
        let others: Vec<u64> = s.s.claims.iter().filter(|((p, _), c)| *p == cw.miner && c.sector != n).map(|((_, i), _)| *i).collect();
        let sv = &s.sectors[&n];
        let eol = sv.expiration - self.epoch <= END_OF_LIFE_CLAIM_DROP_PERIOD;
        let (mut maintain, mut drop): (Vec<u64>, Vec<u64>) = (vec![], vec![]);
        let mode = self.r.below(100);
        for (i, c) in &cl {
            let reaches = new_exp <= c.term_start + c.term_max;
            let keep = match mode {
                0..=84 => reaches || !eol,
                85..=92 => true,
                _ => self.r.chance(50),
            };
            if keep { maintain.push(*i) } else { drop.push(*i) }
        }
        match self.r.below(100) {
            0..=71 => {}
            72..=81 => { // the F4 shape: one id listed twice instead of another claim of the sector
                if maintain.len() >= 2 {
                    // keep the claim with the longest term, repeat it in place of the shortest
                    let best = *maintain.iter().max_by_key(|i| { let c = &cl.iter().find(|(j, _)| j == *i).unwrap().1; c.term_start + c.term_max }).unwrap();
                    let worst = *maintain.iter().min_by_key(|i| { let c = &cl.iter().find(|(j, _)| j == *i).unwrap().1; c.term_start + c.term_max }).unwrap();
                    if best != worst { for x in maintain.iter_mut() { if *x == worst { *x = best; } } }
                } else if let Some(x) = maintain.first().cloned() { maintain.push(x); }
            }
            82..=85 => if let Some(x) = drop.first().cloned() { drop.push(x) } else if let Some(x) = maintain.first().cloned() { drop.push(x) },
            86..=89 => { if !maintain.is_empty() { let k = self.r.below(maintain.len() as u64) as usize; maintain.remove(k); } }
            90..=93 => if !others.is_empty() { maintain.push(*self.r.pick(&others)) },
            94..=96 => maintain.push(900 + self.r.below(5)),
            _ => { std::mem::swap(&mut maintain, &mut drop); }
        }
        SClaim { sector: n, maintain, drop }
    }
    fn extend(&mut self, cw: &CWorld, s: &CSnap) -> COp {
        let epoch = self.epoch;
        let caller = if self.r.chance(93) { cw.owner } else { cw.outsider };
        let ns: Vec<u64> = s.sectors.keys().cloned().collect();
        let nd = if ns.len() >= 2 && self.r.chance(30) { 2 } else { 1 };
        let mut decls = vec![];
        for _ in 0..nd {
            let n = *self.r.pick(&ns);
            let sv = &s.sectors[&n];
            let cl = self.claims_of(cw, s, n);
            let min_end = cl.iter().map(|(_, c)| c.term_start + c.term_max).min().unwrap_or(i64::MAX / 4);
            let max_end = cl.iter().map(|(_, c)| c.term_start + c.term_max).max().unwrap_or(i64::MAX / 4);
            let cap = (epoch + MAX_SECTOR_EXPIRATION_EXTENSION).min(sv.activation + 5 * 1_051_897);
            let eol = sv.expiration - epoch <= END_OF_LIFE_CLAIM_DROP_PERIOD;
            let new_exp = match self.r.below(100) {
                0..=34 => (sv.expiration + self.r.range(0, 200_000)).min(min_end).min(cap).max(sv.expiration),
                35..=44 => min_end.min(cap).max(sv.expiration),
                45..=64 => (min_end + self.r.range(1, 100_000)).min(if eol || self.r.chance(60) { max_end } else { cap }).min(cap).max(sv.expiration),
                65..=72 => max_end.min(cap).max(sv.expiration),
                73..=77 => (max_end + 1).min(cap),
                78..=84 => cap - self.r.range(0, 1),
                85..=89 => cap + 1,
                90..=94 => sv.expiration,
                _ => sv.expiration - 1,
            };
            let with_claims = sv.vweight.is_positive() && self.r.chance(92);
            let mut d = EDecl { sectors: vec![], claims: vec![], new_exp, bad_deadline: self.r.chance(2) };
            if with_claims { d.claims.push(self.sclaim(cw, s, n, new_exp)); } else { d.sectors.push(n); }
            if self.r.chance(5) { d.sectors.push(n); }
            // the same sector in a second declaration of the same message: without a claim list
            // (its claims were declared once already) and with a later expiration
            if with_claims && self.r.chance(9) {
                let later = match self.r.below(3) { 0 => (max_end + self.r.range(1, 50_000)).min(cap), 1 => cap, _ => (new_exp + self.r.range(0, 1000)).min(cap) };
                decls.push(d.clone());
                d = EDecl { sectors: vec![n], claims: vec![], new_exp: later.max(new_exp), bad_deadline: false };
            }
            decls.push(d);
        }
        COp::Extend2 { epoch, caller, decls }
    }
    fn op(&mut self, cw: &CWorld, s: &CSnap) -> COp {
        self.advance(cw, s);
        let epoch = self.epoch;
        let keys: Vec<(u64, u64)> = s.s.claims.keys().cloned().collect();
        match self.r.below(100) {
            0..=54 if !s.sectors.is_empty() => self.extend(cw, s),
            0..=66 if !keys.is_empty() => { // ExtendClaimTerms by the client
                let n = 1 + self.r.below(2);
                let mut terms = vec![];
                let mut caller = cw.clients[0];
                for j in 0..n {
                    let k = *self.r.pick(&keys);
                    let c = &s.s.claims[&k];
                    if j == 0 { caller = if self.r.chance(90) { c.client } else { cw.outsider }; }
                    let t = match self.r.below(100) {
                        0..=59 => (c.term_max + self.r.range(1, 400_000)).min(MAXIMUM_VERIFIED_ALLOCATION_TERM),
                        60..=74 => MAXIMUM_VERIFIED_ALLOCATION_TERM,
                        75..=84 => c.term_max,
                        85..=94 => c.term_max - 1,
                        _ => MAXIMUM_VERIFIED_ALLOCATION_TERM + 1,
                    };
                    terms.push((k.0, k.1, t));
                }
                COp::Vr(VOp::ExtendTerms { caller, terms })
            }
            0..=74 if !keys.is_empty() => { // claim extension paid with datacap
                let k = *self.r.pick(&keys);
                let c = &s.s.claims[&k];
                let limit = epoch + MAXIMUM_VERIFIED_ALLOCATION_TERM - c.term_start;
                let tmax = match self.r.below(100) { 0..=69 => (c.term_max + self.r.range(1, 300_000)).min(limit), 70..=84 => limit, 85..=92 => limit + 1, _ => c.term_max };
                let e18: i128 = 1_000_000_000_000_000_000;
                let amount = (c.size.0 as i128) * e18 + if self.r.chance(93) { 0 } else { e18 };
                COp::Vr(VOp::Transfer { epoch, caller: *self.r.pick(&cw.clients), to: VR, amount,
                    p: Payload::Reqs { allocs: vec![], exts: vec![EReq { provider: k.0, claim: k.1, tmax }] } })
            }
            0..=86 => { // RemoveExpiredClaims
                let have: Vec<u64> = keys.iter().filter(|k| k.0 == cw.miner).map(|k| k.1).collect();
                let ids = if self.r.chance(50) || have.is_empty() { vec![] } else {
                    let mut v = vec![*self.r.pick(&have)];
                    if self.r.chance(30) { v.push(*self.r.pick(&have)); }
                    if self.r.chance(10) { v.push(77); }
                    v
                };
                COp::Vr(VOp::RemoveExpClaims { epoch, caller: cw.outsider, provider: cw.miner, ids })
            }
            0..=92 => {
                let have: Vec<u64> = keys.iter().map(|k| k.1).collect();
                let mut ids = have.clone();
                if self.r.chance(30) { ids.push(55); }
                COp::Vr(VOp::GetClaims { caller: cw.outsider, provider: cw.miner, ids })
            }
            _ => {
                let ns: Vec<u64> = s.sectors.keys().cloned().collect();
                if ns.is_empty() { return COp::Vr(VOp::GetClaims { caller: cw.outsider, provider: cw.miner, ids: vec![] }); }
                COp::Terminate { epoch, caller: if self.r.chance(90) { cw.owner } else { cw.outsider }, n: *self.r.pick(&ns) }
            }
        }
    }
}

/// the scripted prefix of every generated history: verifier, grants, allocations, onboarding
fn prefix(r: &mut Prng, cw: &CWorld) -> Vec<Box<dyn FnOnce(&CSnap, i64, &mut Prng) -> COp>> {
    let _ = (r, cw);
    vec![]
}

fn caller_existing(_cw: &CWorld, op: COp) -> COp { op }

fn expected_panic_c(op: &COp, pre: &CSnap, epoch: i64) -> bool {
    // extending a sector to the current epoch makes qa_power_for_weight divide by zero
    if let COp::Extend2 { epoch: e, decls, .. } = op {
        return decls.iter().any(|d| d.new_exp == *e);
    }
    if let COp::Vr(VOp::RemoveExpClaims { provider, ids, .. }) = op {
        let ok: Vec<u64> = ids.iter().filter(|i| pre.s.claims.get(&(*provider, **i)).map(|c| epoch >= c.term_start + c.term_max).unwrap_or(false)).cloned().collect();
        let mut s = BTreeSet::new();
        return ok.iter().any(|i| !s.insert(*i));
    }
    false
}

fn run_case(cc: &CCase, stats: &mut Stats, genr: Option<(&mut Prng, usize)>, totals: &mut BTreeMap<String, u64>) -> (Case, CCase, Vec<serde_json::Value>) {
    let cw = setup();
    let mut known: BTreeSet<u64> = BTreeSet::new();
    let mut snap = csnapshot(&cw, &known);
    let init = format!(
        "cinit {{| root := {}; accts := {}; miners := {} |}} [({}, {})]",
        cw.w.root, cf::zlist(&cw.w.accts), cf::zlist(&cw.w.miners), cw.miner, cw.owner);
    let mut steps = vec![];
    let mut done: Vec<COp> = vec![];
    let mut fails = vec![];
    let mut mon = CMon { seen_tmax: BTreeMap::new(), extended: 0, extended_with_drop: 0, dup_accepted: 0, split_accepted: 0, tainted: BTreeMap::new(), claims_removed: 0, onboarded: 0, terminated: 0 };
    let (mut acc, mut rej) = (false, false);
    let mut genr = genr;
    // ---- scripted prefix (generated histories only) ----
    let mut script: Vec<COp> = vec![];
    let mut plan: Vec<(u64, i64, Vec<(u8, u64, i64, i64)>)> = vec![]; // sector, life, [(data, size, tmin, tmax)]
    if let Some((r, _)) = &mut genr {
        let nsec = if r.chance(55) { 1 } else { 2 };
        for k in 0..nsec {
            let life = r.range(610_000, 1_400_000);
            let nc = match r.below(100) { 0..=14 => 1, 15..=74 => 2, 75..=89 => 3, _ => 4 };
            let size = match nc { 1 => SECTOR_SIZE, 2 => SECTOR_SIZE / 2, _ => SECTOR_SIZE / 4 };
            let mut cl = vec![];
            for j in 0..nc {
                // term_min inside the sector's lifetime, or on / one off the boundary lifetime = term_min
                // (the claim is made at a non-zero epoch, so lifetime and expiry differ)
                let tmin_kind = r.below(100);
                let tmin = match tmin_kind {
                    0..=69 => r.range(MINIMUM_VERIFIED_ALLOCATION_TERM, life.min(MINIMUM_VERIFIED_ALLOCATION_TERM + 80_000)),
                    70..=79 => life,
                    80..=89 => life - 1,
                    _ => life + 1, // the sector expires before term_start + term_min: onboarding must fail
                };
                let tmax = match r.below(100) {
                    _ if tmin_kind >= 90 => life + 1 + r.range(0, 300_000),
                    0..=39 => life + r.range(0, 120_000),
                    40..=69 => life + r.range(120_000, 1_500_000),
                    70..=84 => MAXIMUM_VERIFIED_ALLOCATION_TERM,
                    85..=92 => life,
                    _ => life - 1, // this claim cannot be honoured by the sector: onboarding must fail
                };
                cl.push(((j % NDATA as usize) as u8, size, tmin, tmax.min(MAXIMUM_VERIFIED_ALLOCATION_TERM)));
            }
            plan.push((100 + k as u64, life, cl));
        }
        script.push(COp::Vr(VOp::AddVerifier { caller: cw.w.root, addr: cw.verifier, allowance: 1i128 << 50 }));
        for c in &cw.clients {
            script.push(COp::Vr(VOp::AddClient { caller: cw.verifier, addr: *c, allowance: 1i128 << 42 }));
        }
    }
    let n_script = script.len();
    let n_total = match &genr { Some((_, n)) => n_script + 2 * plan.len() + *n, None => cc.ops.len() };
    let mut epoch = 200i64;
    let mut i = 0usize;
    let mut plan_ix = 0usize;
    let mut pending_onboard: Option<(u64, i64, Vec<AClaim>)> = None;
    while i < n_total {
        let op: COp = match &mut genr {
            None => cc.ops[i].clone(),
            Some((r, _)) => {
                if i < n_script { script[i].clone() }
                else if let Some((n, life, claims)) = pending_onboard.take() {
                    COp::Onboard { n, life, claims }
                } else if plan_ix < plan.len() {
                    // allocations for the next sector, then its onboarding
                    let (n, life, cl) = plan[plan_ix].clone();
                    plan_ix += 1;
                    let client = *r.pick(&cw.clients);
                    let e = cw.w.v.epoch();
                    let allocs: Vec<AReq> = cl.iter().map(|(d, size, tmin, tmax)| AReq {
                        provider: cw.miner, data: *d, size: *size, tmin: *tmin, tmax: *tmax, exp: e + 100_000 }).collect();
                    let total: i128 = allocs.iter().map(|a| a.size as i128).sum();
                    let first_id = snap.s.next_id;
                    let mut claims: Vec<AClaim> = cl.iter().enumerate().map(|(j, (d, size, _, _))| AClaim {
                        client, id: first_id + j as u64, data: *d, size: *size }).collect();
                    if r.chance(4) && claims.len() > 1 { let c0 = claims[0].clone(); claims[1] = c0; } // same allocation twice
                    pending_onboard = Some((n, life, claims));
                    COp::Vr(VOp::Transfer { epoch: e, caller: client, to: VR, amount: total * 1_000_000_000_000_000_000,
                        p: Payload::Reqs { allocs, exts: vec![] } })
                } else {
                    if epoch < cw.w.v.epoch() { epoch = cw.w.v.epoch(); }
                    let mut g = CGen { r, epoch };
                    let o = g.op(&cw, &snap);
                    epoch = g.epoch;
                    o
                }
            }
        };
        let op = caller_existing(&cw, op);
        let mut notes = vec![];
        let out = run_cop(&cw, &op, &snap, &mut notes);
        if let COp::Onboard { n, .. } = &op { known.insert(*n); }
        let post = csnapshot(&cw, &known);
        stats.op(ckind(&op), out.o.code);
        if out.o.code == 0 && post != snap { acc = true }
        if out.o.code != 0 { rej = true }
        let bad = cmonitor(&cw, &op, &snap, &post, &out.o, &mut mon);
        let panics: Vec<String> = cw.w.v.panics.borrow().clone();
        cw.w.v.panics.borrow_mut().clear();
        if !panics.is_empty() && !(expected_panic_c(&op, &snap, cw.w.v.epoch()) && out.o.code == 24) {
            for p in panics { stats.panics.push(format!("{}: {}", ckind(&op), p)); }
        }
        done.push(op.clone());
        for (class, what) in bad {
            fails.push(json!({"class": class, "step": i, "what": [what], "case": CCase { ops: done.clone() }}));
        }
        steps.push((coq_cop(&cw, &op, &out, &snap), cobs(&cw, &post, &out.o)));
        snap = post;
        i += 1;
    }
    // second oracle: the repository's own state invariants.  Its miner-vs-registry cross check
    // assumes verified_deal_weight = size * (expiration - term_start), which stops being true after
    // any extension (power_base_epoch moves), so those messages are only counted; messages of the
    // registry / datacap checks themselves are failures.
    for msg in state_check_messages(&cw.w.v) {
        if msg.contains("is also a datacap token holder") {
            // see verifreg.rs: legitimate (refund of an expired allocation to a client that became a verifier)
            continue;
        }
        if msg.starts_with("verifreg: ") || msg.starts_with("datacap: ") {
            fails.push(json!({"class": "repo-state-invariant", "step": n_total, "what": [msg], "case": CCase { ops: done.clone() }}));
        } else {
            let key = if msg.contains("does not match claims") { "state_check_weight_vs_claims_messages" }
                else if msg.contains("is after claim term max") { "state_check_expiration_after_term_max_messages" }
                else { "state_check_other_claim_messages" };
            *totals.entry(key.to_string()).or_insert(0) += 1;
        }
    }
    for (k, v) in [("sectors_onboarded", mon.onboarded), ("sector_extensions", mon.extended), ("extensions_dropping_claims", mon.extended_with_drop),
        ("extensions_accepted_with_repeated_claim_id", mon.dup_accepted), ("extensions_accepted_with_sector_in_two_declarations", mon.split_accepted), ("claims_removed", mon.claims_removed), ("sectors_terminated", mon.terminated)] {
        *totals.entry(k.to_string()).or_insert(0) += v;
    }
    let _ = prefix;
    (Case { init, steps, nontrivial: acc && rej }, CCase { ops: done }, fails)
}

fn main() {
    assert_eq!(END_OF_LIFE_CLAIM_DROP_PERIOD, 30 * EPOCHS_IN_DAY);
    assert_eq!(MIN_SECTOR_EXPIRATION, 180 * EPOCHS_IN_DAY);
    let a = cf::parse_args();
    let mut stats = Stats::default();
    let mut totals = BTreeMap::new();
    let header = "From VF Require Import Model.Verifreg Model.ClaimTerms Base.Corr.\nFrom Coq Require Import ZArith List.\nImport ListNotations.\nOpen Scope Z_scope.\n";
    let mut cw = CaseWriter::new(&a.out, header, "ClaimTerms.check_case", a.shards);
    let finish = |cw: CaseWriter, mut stats: Stats, totals: BTreeMap<String, u64>| {
        for (k, v) in totals { stats.extra.insert(k, json!(v)); }
        cw.finish(&stats, "claimterms");
    };
    if let Some(p) = &a.replay {
        let v: serde_json::Value = serde_json::from_str(&std::fs::read_to_string(p).unwrap()).unwrap();
        let node = if v.get("case").is_some() { v["case"].clone() } else { v["violation"]["detail"]["case"].clone() };
        let cc: CCase = serde_json::from_value(node).unwrap();
        let (c, _, fails) = run_case(&cc, &mut stats, None, &mut totals);
        cw.push(c);
        for f in fails { stats.monitor_fail(f); }
        finish(cw, stats, totals);
        return;
    }
    let corpus = std::path::Path::new(env!("CARGO_MANIFEST_DIR")).join("../corpus/C10");
    if let Ok(rd) = std::fs::read_dir(&corpus) {
        let mut files: Vec<_> = rd.filter_map(|e| e.ok()).map(|e| e.path()).collect();
        files.sort();
        for f in files {
            if f.extension().map(|x| x == "json").unwrap_or(false) {
                let v: serde_json::Value = serde_json::from_str(&std::fs::read_to_string(&f).unwrap()).unwrap();
                let cc: CCase = serde_json::from_value(v["case"].clone()).unwrap();
                let (c, _, fails) = run_case(&cc, &mut stats, None, &mut totals);
                cw.push(c);
                for f in fails { stats.monitor_fail(f); }
            }
        }
    }
    let mut root = Prng::new(a.seed);
    for k in 0..a.cases {
        let mut r = root.fork(k as u64);
        let (c, _, fails) = run_case(&CCase { ops: vec![] }, &mut stats, Some((&mut r, a.len)), &mut totals);
        cw.push(c);
        for f in fails { stats.monitor_fail(f); }
    }
    finish(cw, stats, totals);
}
