//! C01 harness: mixed histories over every actor type on the harness VM, with epoch ticks, block rewards
//! and injected failures of nested sends.  Every executed top-level message's invocation tree is
//! replayed by coq/Model/Ledger.v (`apply`) and must reproduce the real post-balances and total; the
//! monitors check conservation and the custodians' solvency on the real state after every message.
use fil_actor_market::{Method as MarketMethod, State as MarketState, WithdrawBalanceParams};
use fil_actor_miner::{Method as MinerMethod, State as MinerState};
use fil_actor_multisig::{ConstructorParams as MsigCtor, Method as MsigMethod, ProposeParams};
use fil_actor_paych::{
    ConstructorParams as PaychCtor, Method as PaychMethod, SignedVoucher, State as PaychState,
    UpdateChannelStateParams,
};
use fil_actor_power::{CreateMinerParams, CreateMinerReturn, Method as PowerMethod};
use fil_actor_reward::{AwardBlockRewardParams, Method as RewardMethod};
use fil_actors_integration_tests::util::*;
use fil_actors_runtime::runtime::Policy;
use fil_actors_runtime::test_utils::{MULTISIG_ACTOR_CODE_ID, PAYCH_ACTOR_CODE_ID};
use fil_actors_runtime::{
    BURNT_FUNDS_ACTOR_ADDR, CRON_ACTOR_ADDR, INIT_ACTOR_ADDR, REWARD_ACTOR_ADDR,
    STORAGE_MARKET_ACTOR_ADDR, STORAGE_POWER_ACTOR_ADDR, SYSTEM_ACTOR_ADDR,
};
use fvm_ipld_encoding::{BytesDe, RawBytes};
use fvm_shared::address::Address;
use fvm_shared::crypto::signature::Signature;
use fvm_shared::econ::TokenAmount;
use fvm_shared::error::ExitCode;
use fvm_shared::piece::PaddedPieceSize;
use fvm_shared::sector::{RegisteredPoStProof, RegisteredSealProof};
use fvm_shared::METHOD_SEND;
use num_traits::Zero;
use std::panic::{catch_unwind, AssertUnwindSafe};
use vharness::coqfmt::{self as cf, Case, CaseWriter, Stats};
use vharness::prng::Prng;
use vharness::util::*;
use vharness::vvm::Vvm;
use vm_api::trace::InvocationTrace;
use vm_api::util::get_state;
use vm_api::VM;

struct Miner {
    id: Address,
    owner: Address,
    worker: Address,
    next_sector: u64,
    pending: Vec<fil_actor_miner::SectorPreCommitOnChainInfo>,
}

struct W {
    v: Vvm,
    accts: Vec<Address>,
    keys: Vec<Address>,
    miners: Vec<Miner>,
    paychs: Vec<(Address, usize, usize, u64)>, // addr, from idx, to idx, next nonce
    msigs: Vec<(Address, usize)>,              // addr, signer idx
    deal_label: u64,
}

fn create_miner_faithful(v: &Vvm, owner: &Address, worker: &Address, extra: &TokenAmount) -> Option<Address> {
    let deposit = create_miner_deposit_for_test(v);
    let params = CreateMinerParams {
        owner: *owner,
        worker: *worker,
        window_post_proof_type: RegisteredPoStProof::StackedDRGWindow32GiBV1P1,
        peer: b"miner".to_vec(),
        multiaddrs: vec![BytesDe(b"multiaddr".to_vec())],
    };
    let r = exec(v, owner, &STORAGE_POWER_ACTOR_ADDR, &(deposit + extra), PowerMethod::CreateMiner as u64, Some(params));
    if code(&r) != 0 {
        return None;
    }
    let ret: CreateMinerReturn = r.ret.unwrap().deserialize().unwrap();
    Some(ret.id_address)
}

fn setup(r: &mut Prng) -> W {
    let v = new_world();
    v.ledger_on.replace(true);
    let accts = create_accounts(&v, 9, &TokenAmount::from_whole(20_000));
    let keys: Vec<Address> =
        accts.iter().map(|a| get_state::<fil_actor_account::State>(&v, a).unwrap().address).collect();
    let mut w = W { v, accts, keys, miners: vec![], paychs: vec![], msigs: vec![], deal_label: 0 };
    let nm = 1 + r.below(2) as usize;
    for i in 0..nm {
        let (o, wk) = (w.accts[2 * i], w.accts[2 * i + 1]);
        if let Some(id) = create_miner_faithful(&w.v, &o, &wk, &TokenAmount::from_whole(r.range(0, 2000))) {
            w.miners.push(Miner { id, owner: o, worker: wk, next_sector: 100, pending: vec![] });
        }
    }
    w
}

fn inv_text(t: &InvocationTrace, ids: &mut std::collections::BTreeSet<u64>) -> (String, bool) {
    // returns the Gallina term and whether any node moves a non-zero value; collects the ids of the
    // nodes that are kept
    let mut any = !t.value.is_zero();
    let mut kids = vec![];
    ids.insert(t.from);
    ids.insert(t.to.id().unwrap_or(u64::MAX - 1));
    for s in &t.subinvocations {
        // a zero-value leaf has no effect on the ledger: prune it
        if s.value.is_zero() && s.subinvocations.is_empty() {
            continue;
        }
        let (txt, a) = inv_text(s, ids);
        any |= a;
        kids.push(txt);
    }
    let to = t.to.id().unwrap_or(u64::MAX - 1);
    (
        format!("Inv {} {} {} {} {}", t.from, to, cf::z(t.value.atto()), cf::b(t.exit_code.is_success()), cf::list(kids)),
        any,
    )
}

fn monitors(w: &W, total0: &TokenAmount, total: &TokenAmount) -> Vec<(String, String)> {
    let mut bad = vec![];
    if total != total0 {
        bad.push(("total-changed".to_string(), format!("total {} != initial {}", total.atto(), total0.atto())));
    }
    // market
    let mst: MarketState = get_state(&w.v, &STORAGE_MARKET_ACTOR_ADDR).unwrap();
    let esc = fil_actor_market::balance_table::BalanceTable::from_root(w.v.store.as_ref(), &mst.escrow_table, "escrow").unwrap().total().unwrap();
    let mbal = w.v.balance(&STORAGE_MARKET_ACTOR_ADDR);
    if esc > mbal {
        bad.push(("market-insolvent".into(), format!("escrow total {} > market balance {}", esc.atto(), mbal.atto())));
    }
    for m in &w.miners {
        let st: MinerState = get_state(&w.v, &m.id).unwrap();
        let b = w.v.balance(&m.id);
        let need = &st.pre_commit_deposits + &st.locked_funds + &st.initial_pledge;
        if need > b || st.pre_commit_deposits.is_negative() || st.locked_funds.is_negative() || st.initial_pledge.is_negative() || st.fee_debt.is_negative() {
            bad.push(("miner-insolvent".into(), format!("miner {} balance {} < pcd+locked+ip {}", m.id, b.atto(), need.atto())));
        }
    }
    for (p, _, _, _) in &w.paychs {
        if w.v.actor(p).is_some() {
            let st: PaychState = get_state(&w.v, p).unwrap();
            let b = w.v.balance(p);
            if st.to_send > b || st.to_send.is_negative() {
                bad.push(("paych-insolvent".into(), format!("paych {} owes {} holds {}", p, st.to_send.atto(), b.atto())));
            }
        }
    }
    bad
}

fn quiet<F: FnOnce() -> R, R>(f: F) -> Option<R> {
    catch_unwind(AssertUnwindSafe(f)).ok()
}

fn step(w: &mut W, r: &mut Prng, stats: &mut Stats) -> String {
    let n = w.accts.len();
    let mut kind = r.below(100);
    if !w.paychs.is_empty() && r.chance(10) {
        kind = 82; // use a payment channel
    }
    let c = |name: &str, code: u32, stats: &mut Stats| stats.op(name, code);
    match kind {
        0..=9 => {
            let (a, b) = (*r.pick(&w.accts), *r.pick(&w.accts));
            let amt = if r.chance(85) { TokenAmount::from_atto(r.below(1u64 << 62)) } else { TokenAmount::from_whole(50_000) };
            let res = exec::<()>(&w.v, &a, &b, &amt, METHOD_SEND, None);
            c("send", code(&res), stats);
            "send".into()
        }
        10..=17 => {
            let a = *r.pick(&w.accts);
            let who = if r.chance(75) || w.miners.is_empty() { a } else { r.pick(&w.miners).id };
            let amt = TokenAmount::from_whole(r.range(0, 30));
            let res = exec(&w.v, &a, &STORAGE_MARKET_ACTOR_ADDR, &amt, MarketMethod::AddBalance as u64, Some(who));
            c("market_add", code(&res), stats);
            "market_add".into()
        }
        18..=24 => {
            let a = *r.pick(&w.accts);
            let who = if r.chance(70) || w.miners.is_empty() { a } else { r.pick(&w.miners).id };
            let amt = TokenAmount::from_whole(r.range(0, 40));
            let res = exec(&w.v, &a, &STORAGE_MARKET_ACTOR_ADDR, &TokenAmount::zero(), MarketMethod::WithdrawBalance as u64,
                Some(WithdrawBalanceParams { provider_or_client: who, amount: amt }));
            c("market_withdraw", code(&res), stats);
            "market_withdraw".into()
        }
        25..=31 if !w.miners.is_empty() => {
            // publish a deal (client + provider funded first), sometimes under-funded
            let mi = r.below(w.miners.len() as u64) as usize;
            let (mid, worker) = (w.miners[mi].id, w.miners[mi].worker);
            let client = w.accts[4 + r.below((n - 4) as u64) as usize];
            w.deal_label += 1;
            let label = format!("deal{}", w.deal_label);
            let start = w.v.epoch() + r.range(20, 3000);
            let ok = quiet(|| {
                if r.chance(85) {
                    market_add_balance(&w.v, &client, &client, &TokenAmount::from_whole(3));
                    market_add_balance(&w.v, &worker, &mid, &TokenAmount::from_whole(3));
                }
                market_publish_deal(&w.v, &worker, &client, &mid, label, PaddedPieceSize(1 << 30), false, start, 181 * 2880)
            });
            c("publish_deal", if ok.is_some() { 0 } else { 1 }, stats);
            "publish_deal".into()
        }
        32..=39 if !w.miners.is_empty() => {
            let mi = r.below(w.miners.len() as u64) as usize;
            let (mid, worker, base) = (w.miners[mi].id, w.miners[mi].worker, w.miners[mi].next_sector);
            let cnt = 1 + r.below(2) as usize;
            let ok = quiet(|| precommit_sectors_v2(&w.v, cnt, vec![], &worker, &mid, RegisteredSealProof::StackedDRG32GiBV1P1, base, true, None));
            // the helper also panics when only its trace expectation fails: read the state to see what happened
            w.miners[mi].next_sector += cnt as u64;
            if let Some(infos) = ok {
                w.miners[mi].pending.extend(infos);
                c("precommit", 0, stats);
            } else {
                c("precommit", 1, stats);
            }
            "precommit".into()
        }
        40..=46 if w.miners.iter().any(|m| !m.pending.is_empty()) => {
            let mi = w.miners.iter().position(|m| !m.pending.is_empty()).unwrap();
            let (mid, worker) = (w.miners[mi].id, w.miners[mi].worker);
            let infos: Vec<_> = w.miners[mi].pending.drain(..).collect();
            // prove-commit needs the challenge delay to have passed
            let delay = Policy::default().pre_commit_challenge_delay + 1;
            let target = w.v.epoch() + delay;
            let ok = quiet(|| {
                advance_by_deadline_to_epoch(&w.v, &mid, target);
                prove_commit_sectors(&w.v, &worker, &mid, infos, 100)
            });
            c("provecommit", if ok.is_some() { 0 } else { 1 }, stats);
            "provecommit".into()
        }
        47..=58 => {
            // advance time with the cron running at every epoch (short stretch) or by deadlines
            let k = *r.pick(&[1i64, 2, 5, 30, 60, 200]);
            for _ in 0..k {
                let e = w.v.epoch();
                let res = exec::<()>(&w.v, &SYSTEM_ACTOR_ADDR, &CRON_ACTOR_ADDR, &TokenAmount::zero(), fil_actor_cron::Method::EpochTick as u64, None);
                c("cron_tick", code(&res), stats);
                w.v.set_epoch(e + 1);
            }
            format!("tick x{}", k)
        }
        59..=63 => {
            // long jump without running every tick (a day or more), then one tick
            let k = *r.pick(&[2880i64, 2 * 2880, 5 * 2880, 40 * 2880]);
            w.v.set_epoch(w.v.epoch() + k);
            let res = exec::<()>(&w.v, &SYSTEM_ACTOR_ADDR, &CRON_ACTOR_ADDR, &TokenAmount::zero(), fil_actor_cron::Method::EpochTick as u64, None);
            c("cron_tick", code(&res), stats);
            format!("jump {}", k)
        }
        64..=72 if !w.miners.is_empty() => {
            let m = r.pick(&w.miners).id;
            let p = AwardBlockRewardParams {
                miner: m,
                penalty: if r.chance(70) { TokenAmount::zero() } else { TokenAmount::from_atto(r.below(1 << 60)) },
                gas_reward: TokenAmount::from_atto(r.below(1 << 50)),
                win_count: r.range(0, 3),
            };
            let res = exec(&w.v, &SYSTEM_ACTOR_ADDR, &REWARD_ACTOR_ADDR, &TokenAmount::zero(), RewardMethod::AwardBlockReward as u64, Some(p));
            c("award_block_reward", code(&res), stats);
            "award".into()
        }
        73..=79 if !w.miners.is_empty() => {
            let m = r.pick(&w.miners);
            let who = if r.chance(85) { m.owner } else { *r.pick(&w.accts) };
            let amt = if r.chance(70) { TokenAmount::from_whole(r.range(0, 50)) } else { TokenAmount::from_whole(1_000_000) };
            let res = exec(&w.v, &who, &m.id, &TokenAmount::zero(), MinerMethod::WithdrawBalance as u64,
                Some(fil_actor_miner::WithdrawBalanceParams { amount_requested: amt }));
            c("miner_withdraw", code(&res), stats);
            "miner_withdraw".into()
        }
        80..=84 => {
            // create a payment channel or use one
            if w.paychs.is_empty() || (w.paychs.len() < 3 && r.chance(20)) {
                let (fi, ti) = (4 + r.below(2) as usize, 6 + r.below(2) as usize);
                let params = fil_actor_init::ExecParams {
                    code_cid: *PAYCH_ACTOR_CODE_ID,
                    constructor_params: RawBytes::serialize(PaychCtor { from: w.accts[fi], to: w.accts[ti] }).unwrap(),
                };
                let res = exec(&w.v, &w.accts[fi], &INIT_ACTOR_ADDR, &TokenAmount::from_whole(r.range(0, 20)), fil_actor_init::Method::Exec as u64, Some(params));
                c("paych_create", code(&res), stats);
                if code(&res) == 0 {
                    let ret: fil_actor_init::ExecReturn = res.ret.unwrap().deserialize().unwrap();
                    w.paychs.push((ret.id_address, fi, ti, 1));
                }
                "paych_create".into()
            } else {
                let i = r.below(w.paychs.len() as u64) as usize;
                let (p, fi, ti, nonce) = w.paychs[i];
                let pst: Option<PaychState> = if w.v.actor(&p).is_some() { get_state(&w.v, &p) } else { None };
                let choice = match &pst {
                    Some(st) if st.settling_at != 0 && w.v.epoch() >= st.settling_at => 2,
                    Some(st) if st.settling_at != 0 => r.below(2) * 2, // update or (early) collect
                    _ => r.below(3),
                };
                match choice {
                    0 => {
                        let mut sv = SignedVoucher {
                            channel_addr: p, time_lock_min: 0, time_lock_max: 0, secret_pre_image: vec![], extra: None,
                            lane: r.below(3), nonce, amount: TokenAmount::from_whole(r.range(0, 25)), min_settle_height: 0, merges: vec![], signature: None,
                        };
                        let b = sv.signing_bytes().unwrap();
                        sv.signature = Some(Signature::new_bls(sign(&w.keys[fi], &b)));
                        w.paychs[i].3 += 1;
                        let res = exec(&w.v, &w.accts[ti], &p, &TokenAmount::zero(), PaychMethod::UpdateChannelState as u64, Some(UpdateChannelStateParams { sv, secret: vec![] }));
                        c("paych_update", code(&res), stats);
                    }
                    1 => {
                        let res = exec::<()>(&w.v, &w.accts[fi], &p, &TokenAmount::zero(), PaychMethod::Settle as u64, None);
                        c("paych_settle", code(&res), stats);
                    }
                    _ => {
                        let res = exec::<()>(&w.v, &w.accts[ti], &p, &TokenAmount::zero(), PaychMethod::Collect as u64, None);
                        c("paych_collect", code(&res), stats);
                    }
                }
                "paych_use".into()
            }
        }
        85..=89 => {
            if w.msigs.is_empty() || r.chance(30) {
                let si = 4 + r.below(4) as usize;
                let params = fil_actor_init::ExecParams {
                    code_cid: *MULTISIG_ACTOR_CODE_ID,
                    constructor_params: RawBytes::serialize(MsigCtor {
                        signers: vec![w.accts[si]], num_approvals_threshold: 1,
                        unlock_duration: if r.chance(50) { 0 } else { 5000 }, start_epoch: w.v.epoch(),
                    }).unwrap(),
                };
                let res = exec(&w.v, &w.accts[si], &INIT_ACTOR_ADDR, &TokenAmount::from_whole(r.range(0, 20)), fil_actor_init::Method::Exec as u64, Some(params));
                c("msig_create", code(&res), stats);
                if code(&res) == 0 {
                    let ret: fil_actor_init::ExecReturn = res.ret.unwrap().deserialize().unwrap();
                    w.msigs.push((ret.id_address, si));
                }
                "msig_create".into()
            } else {
                let (m, si) = *r.pick(&w.msigs);
                let to = *r.pick(&w.accts);
                let p = ProposeParams { to, value: TokenAmount::from_whole(r.range(0, 12)), method: METHOD_SEND, params: RawBytes::default() };
                let res = exec(&w.v, &w.accts[si], &m, &TokenAmount::zero(), MsigMethod::Propose as u64, Some(p));
                c("msig_propose", code(&res), stats);
                "msig_propose".into()
            }
        }
        90..=93 if !w.miners.is_empty() => {
            // penalties through the reward path with a large penalty, or a consensus-fault report
            let m = r.pick(&w.miners).id;
            let reporter = *r.pick(&w.accts);
            w.v.consensus_fault.replace(Some(fvm_shared::consensus::ConsensusFault {
                target: m, epoch: w.v.epoch() - 1, fault_type: fvm_shared::consensus::ConsensusFaultType::DoubleForkMining,
            }));
            let p = fil_actor_miner::ReportConsensusFaultParams { header1: vec![1], header2: vec![2], header_extra: vec![] };
            let res = exec(&w.v, &reporter, &m, &TokenAmount::zero(), MinerMethod::ReportConsensusFault as u64, Some(p));
            w.v.consensus_fault.replace(None);
            c("report_consensus_fault", code(&res), stats);
            "report_fault".into()
        }
        _ => {
            // burn by a user: plain send to the burnt-funds actor
            let a = *r.pick(&w.accts);
            let res = exec::<()>(&w.v, &a, &BURNT_FUNDS_ACTOR_ADDR, &TokenAmount::from_atto(r.below(1 << 40)), METHOD_SEND, None);
            c("burn", code(&res), stats);
            "burn".into()
        }
    }
}

fn run_case(seed: u64, k: u64, len: usize, stats: &mut Stats) -> (Case, Vec<serde_json::Value>) {
    let mut root = Prng::new(seed);
    for _ in 0..k { root.next_u64(); }
    let mut r = root.fork(k);
    let mut w = setup(&mut r);
    // initial ledger: drop the setup messages, start from the current balances
    w.v.ledger_log.borrow_mut().clear();
    let mut init_pairs = vec![];
    let mut total0 = TokenAmount::zero();
    for (a, st) in w.v.actor_states() {
        total0 += &st.balance;
        if !st.balance.is_zero() {
            init_pairs.push(format!("({}, {})", a.id().unwrap(), cf::z(st.balance.atto())));
        }
    }
    let init = format!("of_list {}", cf::list(init_pairs));
    let mut steps = vec![];
    let mut fails = vec![];
    let (mut moved, mut failed_nested) = (false, false);
    let mut idle = 0u64;
    let mut script = vec![];
    for i in 0..len {
        let faulty = r.chance(15);
        if faulty {
            let codes = [ExitCode::USR_ILLEGAL_ARGUMENT, ExitCode::USR_ILLEGAL_STATE, ExitCode::USR_ASSERTION_FAILED, ExitCode::SYS_OUT_OF_GAS];
            w.v.fail_plan.replace(Some((r.below(7), *r.pick(&codes))));
        }
        let what = step(&mut w, &mut r, stats);
        w.v.fail_plan.replace(None);
        script.push(format!("{}{}", what, if faulty { "+fault" } else { "" }));
        let entries: Vec<_> = w.v.ledger_log.borrow_mut().drain(..).collect();
        for e in entries {
            let mut ids = std::collections::BTreeSet::new();
            let (txt, any) = inv_text(&e.trace, &mut ids);
            fn has_failed_child(t: &InvocationTrace) -> bool {
                t.subinvocations.iter().any(|s| !s.exit_code.is_success() || has_failed_child(s))
            }
            if e.trace.exit_code.is_success() && has_failed_child(&e.trace) { failed_nested = true; }
            if e.total != total0 {
                fails.push(serde_json::json!({"class": "total-changed", "what": [format!("total after message {} != {}", e.total.atto(), total0.atto())], "case": {"seed": seed, "case": k, "step": i, "script": script}}));
            }
            if !any { idle += 1; continue; }
            moved = true;
            let mut o = vec!["1".to_string(), cf::z(e.total.atto())];
            for (id, b) in &e.post { if ids.contains(id) { o.push(cf::z(id)); o.push(cf::z(b.atto())); } }
            steps.push((txt, o));
        }
        for (cls, msg) in monitors(&w, &total0, &total_balance(&w.v)) {
            fails.push(serde_json::json!({"class": cls, "what": [msg], "case": {"seed": seed, "case": k, "step": i, "script": script}}));
        }
        for p in w.v.panics.borrow_mut().drain(..) { stats.panics.push(p); }
    }
    *stats.extra.entry("idle_messages".into()).or_insert(serde_json::json!(0)) = serde_json::json!(stats.extra.get("idle_messages").and_then(|x| x.as_u64()).unwrap_or(0) + idle);
    (Case { init, steps, nontrivial: moved && failed_nested }, fails)
}

fn main() {
    std::panic::set_hook(Box::new(|_| {}));
    let a = cf::parse_args();
    let mut stats = Stats::default();
    let header = "From VF Require Import Model.Ledger Base.Corr.\nFrom Coq Require Import ZArith List.\nImport ListNotations.\nOpen Scope Z_scope.\n";
    let mut cw = CaseWriter::new(&a.out, header, "check_case", a.shards);
    if let Some(p) = &a.replay {
        let v: serde_json::Value = serde_json::from_str(&std::fs::read_to_string(p).unwrap()).unwrap();
        let c = &v["violation"]["detail"]["case"];
        let (case, fails) = run_case(c["seed"].as_u64().unwrap(), c["case"].as_u64().unwrap(), a.len, &mut stats);
        cw.push(case);
        for f in fails { stats.monitor_fail(f); }
        cw.finish(&stats, "ledger");
        return;
    }
    for k in 0..a.cases {
        let (case, fails) = run_case(a.seed, k as u64, a.len, &mut stats);
        cw.push(case);
        for f in fails { stats.monitor_fail(f); }
    }
    cw.finish(&stats, "ledger");
}
